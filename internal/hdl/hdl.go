// Package hdl renders the Verilog file set of a machine with the repository's
// own generators. Bondmachine.Write_verilog writes into the process working
// directory and skips files that exist, so rendering is serialised under one
// process-wide mutex around os.Chdir(fresh scratch dir).
package hdl

import (
	"fmt"
	"os"
	"path/filepath"
	"sync"
	"sync/atomic"

	"github.com/BondMachineHQ/BondMachine/pkg/bondmachine"
	"github.com/BondMachineHQ/BondMachine/pkg/simbox"
)

var (
	mu  sync.Mutex
	seq atomic.Int64
)

// FileSet returns name -> text of everything Write_verilog produced.
func FileSet(scratch string, bm *bondmachine.Bondmachine, conf *bondmachine.Config, flavor string) (files map[string]string, err error) {
	mu.Lock()
	defer mu.Unlock()
	dir := filepath.Join(scratch, fmt.Sprintf("hdl%d", seq.Add(1)))
	if err := os.MkdirAll(dir, 0o755); err != nil {
		return nil, err
	}
	defer os.RemoveAll(dir)
	cwd, err := os.Getwd()
	if err != nil {
		return nil, err
	}
	if err := os.Chdir(dir); err != nil {
		return nil, err
	}
	defer os.Chdir(cwd)
	defer func() {
		if r := recover(); r != nil {
			err = fmt.Errorf("panic in Write_verilog: %v", r)
		}
	}()
	if conf == nil {
		conf = new(bondmachine.Config)
	}
	if flavor == "" {
		flavor = "iverilog"
	}
	if e := bm.Write_verilog(conf, flavor, &bondmachine.IOmap{Assoc: map[string]string{}}, nil, new(simbox.Simbox)); e != nil {
		return nil, e
	}
	ents, err := os.ReadDir(dir)
	if err != nil {
		return nil, err
	}
	files = map[string]string{}
	for _, e := range ents {
		if e.IsDir() {
			continue
		}
		b, err := os.ReadFile(filepath.Join(dir, e.Name()))
		if err != nil {
			return nil, err
		}
		files[e.Name()] = string(b)
	}
	return files, nil
}
