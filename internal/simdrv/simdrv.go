// Package simdrv drives a bondmachine.VM tick by tick under a protocol-abiding
// environment (DESIGN Appendix B) and observes it: output streams at
// valid∧received handshakes, and a digest of the complete VM state per tick.
package simdrv

import (
	"crypto/sha256"
	"encoding/binary"
	"fmt"
	"sort"

	"github.com/BondMachineHQ/BondMachine/pkg/bondmachine"
	"github.com/BondMachineHQ/BondMachine/pkg/procbuilder"
	"github.com/BondMachineHQ/BondMachine/pkg/simbox"
)

// Env is the environment of one run.
type Env struct {
	In       [][]uint64 // per external input: the values offered, in order
	Gap      []int      // per external input: idle ticks between two transfers (default 0)
	AckDelay []int      // per external output: ticks between seeing valid and raising received (≥1, default 1)
	// Delays: per-opcode fixed delay in clocks for the Go simulator (VM.SimDelayMap); ignored by the HDL back end
	Delays map[string]int `json:",omitempty"`
	// DelayWeight: weight given to the single delay value (default 1; any positive weight denotes
	// the same one-point distribution, e.g. a distribution built in memory and not normalised)
	DelayWeight float32 `json:",omitempty"`
}

type inState struct {
	phase int // 0 idle/gap, 1 valid high waiting recv, 2 valid low waiting recv low
	next  int
	gap   int
}

type outState struct {
	seenValid int // consecutive ticks valid has been observed while recv low
	recvHigh  bool
}

// Result of a run.
type Result struct {
	Out       [][]uint64 // per external output: values transferred
	OutTick   [][]int    // tick of each transfer
	InTick    [][]int    // tick at which input k's j-th value was taken (recv seen)
	Ticks     int
	Digests   [][32]byte // per tick, if requested
	StepTexts []string
}

func toU64(v interface{}) uint64 {
	switch x := v.(type) {
	case uint8:
		return uint64(x)
	case uint16:
		return uint64(x)
	case uint32:
		return uint64(x)
	case uint64:
		return x
	case nil:
		return 0
	}
	panic(fmt.Sprintf("unexpected register type %T", v))
}

// FromU64 converts v to the register type of the machine.
func FromU64(rsize uint8, v uint64) interface{} {
	switch {
	case rsize <= 8:
		return uint8(v)
	case rsize <= 16:
		return uint16(v)
	case rsize <= 32:
		return uint32(v)
	}
	return v
}

// Runner wraps an initialised VM whose workers are running.
type Runner struct {
	VM   *bondmachine.VM
	BM   *bondmachine.Bondmachine
	env  Env
	ins  []inState
	outs []outState
	Res  Result
	sc   *bondmachine.SimConfig
}

// Start initialises a VM for bm and launches its workers. Call Stop when done.
func Start(bm *bondmachine.Bondmachine, env Env) (*Runner, error) {
	vm := new(bondmachine.VM)
	vm.Bmach = bm
	if len(env.Delays) > 0 {
		sd := simbox.NewSimDelays()
		for op, d := range env.Delays {
			w := env.DelayWeight
			if w <= 0 {
				w = 1.0
			}
			sd.OpcodeDelays[op] = simbox.DelayDistribution{int32(d): w}
		}
		vm.SimDelayMap = sd
	}
	if err := vm.Init(); err != nil {
		return nil, err
	}
	if err := vm.Launch_processors(nil); err != nil {
		return nil, err
	}
	r := &Runner{VM: vm, BM: bm, env: env}
	r.ins = make([]inState, bm.Inputs)
	r.outs = make([]outState, bm.Outputs)
	r.Res.Out = make([][]uint64, bm.Outputs)
	r.Res.OutTick = make([][]int, bm.Outputs)
	r.Res.InTick = make([][]int, bm.Inputs)
	r.sc = new(bondmachine.SimConfig)
	return r, nil
}

// Stop releases the VM's workers.
func (r *Runner) Stop() { r.VM.Shutdown() }

func (r *Runner) gap(k int) int {
	if k < len(r.env.Gap) {
		return r.env.Gap[k]
	}
	return 0
}

func (r *Runner) ack(k int) int {
	if k < len(r.env.AckDelay) && r.env.AckDelay[k] >= 1 {
		return r.env.AckDelay[k]
	}
	return 1
}

// Tick performs one simulation tick: environment acts on inputs, VM.Step,
// environment acts on outputs.
func (r *Runner) Tick(wantDigest bool) error {
	vm := r.VM
	t := r.Res.Ticks
	for k := range r.ins {
		s := &r.ins[k]
		var stream []uint64
		if k < len(r.env.In) {
			stream = r.env.In[k]
		}
		switch s.phase {
		case 0:
			if s.gap > 0 {
				s.gap--
			} else if s.next < len(stream) {
				vm.Inputs_regs[k] = FromU64(r.BM.Rsize, stream[s.next])
				vm.InputsValid[k] = true
				s.phase = 1
			}
		case 1:
			if vm.InputsRecv[k] {
				vm.InputsValid[k] = false
				r.Res.InTick[k] = append(r.Res.InTick[k], t)
				s.next++
				s.phase = 2
			}
		case 2:
			if !vm.InputsRecv[k] {
				s.phase = 0
				s.gap = r.gap(k)
				if s.gap == 0 && s.next < len(stream) {
					vm.Inputs_regs[k] = FromU64(r.BM.Rsize, stream[s.next])
					vm.InputsValid[k] = true
					s.phase = 1
				}
			}
		}
	}
	txt, err := vm.Step(r.sc)
	if err != nil {
		return err
	}
	_ = txt
	for k := range r.outs {
		o := &r.outs[k]
		if vm.OutputsValid[k] {
			if !o.recvHigh {
				o.seenValid++
				if o.seenValid >= r.ack(k) {
					vm.OutputsRecv[k] = true
					o.recvHigh = true
					r.Res.Out[k] = append(r.Res.Out[k], toU64(vm.Outputs_regs[k]))
					r.Res.OutTick[k] = append(r.Res.OutTick[k], t)
				}
			}
		} else {
			o.seenValid = 0
			if o.recvHigh {
				vm.OutputsRecv[k] = false
				o.recvHigh = false
			}
		}
	}
	r.Res.Ticks++
	if wantDigest {
		r.Res.Digests = append(r.Res.Digests, Digest(vm))
	}
	return nil
}

// Done tells whether every output has produced at least want values.
func (r *Runner) Done(want int) bool {
	for _, o := range r.Res.Out {
		if len(o) < want {
			return false
		}
	}
	return true
}

// Run ticks until every external output delivered want values or maxTicks passed.
func Run(bm *bondmachine.Bondmachine, env Env, want, maxTicks int, wantDigest bool) (*Result, error) {
	r, err := Start(bm, env)
	if err != nil {
		return nil, err
	}
	defer r.Stop()
	for r.Res.Ticks < maxTicks && !r.Done(want) {
		if err := r.Tick(wantDigest); err != nil {
			return &r.Res, err
		}
	}
	return &r.Res, nil
}

func putBools(h *[]byte, b []bool) {
	for _, x := range b {
		if x {
			*h = append(*h, 1)
		} else {
			*h = append(*h, 0)
		}
	}
	*h = append(*h, 0xfe)
}

func putRegs(h *[]byte, r []interface{}) {
	var buf [8]byte
	for _, x := range r {
		binary.LittleEndian.PutUint64(buf[:], toU64(x))
		*h = append(*h, buf[:]...)
	}
	*h = append(*h, 0xfd)
}

// ProcState serialises every observable field of one processor VM.
func ProcState(h *[]byte, p *procbuilder.VM) {
	var buf [8]byte
	binary.LittleEndian.PutUint64(buf[:], p.Pc)
	*h = append(*h, buf[:]...)
	binary.LittleEndian.PutUint64(buf[:], uint64(int64(p.DelayCounter)))
	*h = append(*h, buf[:]...)
	putRegs(h, p.Registers)
	putRegs(h, p.Memory)
	putRegs(h, p.Inputs)
	putRegs(h, p.Outputs)
	putBools(h, p.InputsValid)
	putBools(h, p.OutputsValid)
	putBools(h, p.InputsRecv)
	putBools(h, p.OutputsRecv)
	var ks []string
	for k := range p.DeferredInstructions {
		ks = append(ks, k)
	}
	sort.Strings(ks)
	for _, k := range ks {
		*h = append(*h, k...)
		*h = append(*h, 0)
	}
	ks = ks[:0]
	for k := range p.Extra_states {
		ks = append(ks, k)
	}
	sort.Strings(ks)
	for _, k := range ks {
		*h = append(*h, k...)
		*h = append(*h, '=')
		*h = append(*h, fmt.Sprintf("%v", p.Extra_states[k])...)
		*h = append(*h, 0)
	}
}

// StateBytes serialises the complete observable VM state.
func StateBytes(vm *bondmachine.VM) []byte {
	h := make([]byte, 0, 512)
	for _, p := range vm.Processors {
		ProcState(&h, p)
		h = append(h, 0xff)
	}
	putRegs(&h, vm.Inputs_regs)
	putRegs(&h, vm.Outputs_regs)
	putRegs(&h, vm.Internal_inputs_regs)
	putRegs(&h, vm.Internal_outputs_regs)
	putBools(&h, vm.InputsValid)
	putBools(&h, vm.OutputsValid)
	putBools(&h, vm.InternalInputsValid)
	putBools(&h, vm.InternalOutputsValid)
	putBools(&h, vm.InputsRecv)
	putBools(&h, vm.OutputsRecv)
	putBools(&h, vm.InternalInputsRecv)
	putBools(&h, vm.InternalOutputsRecv)
	return h
}

// Digest is the SHA-256 of StateBytes.
func Digest(vm *bondmachine.VM) [32]byte { return sha256.Sum256(StateBytes(vm)) }
