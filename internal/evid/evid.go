// Package evid is the common reporting layer of the /verif checks: evidence
// files (EVIDENCE.schema.json), VIOLATION / KNOWN-FINDING lines, replay files
// and the committed known-findings list.
package evid

import (
	"encoding/json"
	"fmt"
	"os"
	"path/filepath"
	"sort"
	"strconv"
	"strings"
	"sync"
	"time"
)

// Root is the /verif directory (overridable for tests).
var Root = func() string {
	if r := os.Getenv("VERIF_ROOT"); r != "" {
		return r
	}
	return "/verif"
}()

// EvidenceDir overrides where evidence/<ID>.json goes (child processes of a check).
var EvidenceDir string

// Out is the stream for VIOLATION / KNOWN-FINDING lines. Harnesses that have
// to silence library prints redirect fd 1 and point Out at the saved stdout.
var Out = os.Stdout

// Finding is one entry of known_findings.json.
type Finding struct {
	Property string `json:"property"`
	Status   string `json:"status"` // "known" or "fixed"
	Key      string `json:"key"`    // exact violation key, or prefix ending in '*'
	What     string `json:"what"`
	Commit   string `json:"commit,omitempty"`
}

// Run collects what one check run observed.
type Run struct {
	mu        sync.Mutex
	ID        string
	Tier      string
	Seed      int64
	Level     string
	start     time.Time
	Evals     int64
	distinct  map[string]struct{}
	firstKeys []string
	Rule      string
	samples   []any
	maxSample int
	Inconcl   map[string]int64
	Extra     map[string]any
	Assume    []string
	known     []Finding
	knownHit  map[string]int
	viol      map[string]string // key -> replay path
	violOrder []string
	Floor     int // minimal distinct_nontrivial, below it the run is "observed nothing"
}

// Seed returns VERIF_SEED (default 1).
func Seed() int64 {
	if s := os.Getenv("VERIF_SEED"); s != "" {
		if v, err := strconv.ParseInt(s, 10, 64); err == nil {
			return v
		}
	}
	return 1
}

// New starts a run. tier is "quick" or "thorough".
func New(id, tier, level string) *Run {
	r := &Run{ID: id, Tier: tier, Seed: Seed(), Level: level, start: time.Now(),
		distinct: map[string]struct{}{}, Inconcl: map[string]int64{}, Extra: map[string]any{},
		knownHit: map[string]int{}, viol: map[string]string{}, maxSample: 8, Floor: 2}
	r.known = loadKnown(id)
	// generous wall-clock watchdog around the whole run: its firing is never a verdict on the
	// property, only "this run did not finish" (exit 2, counted as inconclusive)
	limit := 45 * time.Minute
	if tier == "thorough" {
		limit = 5 * time.Hour
	}
	if m, err := strconv.Atoi(os.Getenv("VERIF_WATCHDOG_MIN")); err == nil && m > 0 {
		limit = time.Duration(m) * time.Minute
	}
	go func() {
		time.Sleep(limit)
		fmt.Fprintf(os.Stderr, "WATCHDOG: check %s %s did not finish within %v — inconclusive, not a verdict\n", id, tier, limit)
		r.Inconclusive("watchdog:run-did-not-finish")
		if c := r.Finish(); c == 1 {
			os.Exit(1) // violations already reported stay violations
		}
		os.Exit(2)
	}()
	if vr := os.Getenv("VERIF_REPO"); vr != "" && vr != "/repo" && EvidenceDir == "" {
		// mutation-sanity runs against a scratch copy must not overwrite the evidence of the real tree
		EvidenceDir = filepath.Join(Root, ".work", "mutant-evidence")
	}
	return r
}

func loadKnown(id string) []Finding {
	b, err := os.ReadFile(filepath.Join(Root, "known_findings.json"))
	if err != nil {
		return nil
	}
	var all struct {
		Findings []Finding `json:"findings"`
	}
	if err := json.Unmarshal(b, &all); err != nil {
		fmt.Fprintln(os.Stderr, "known_findings.json unreadable:", err)
		os.Exit(2)
	}
	var out []Finding
	for _, f := range all.Findings {
		if f.Property == id && f.Status == "known" {
			out = append(out, f)
		}
	}
	return out
}

// Eval counts one executed case.
func (r *Run) Eval(n int64) { r.mu.Lock(); r.Evals += n; r.mu.Unlock() }

// Nontrivial records a distinct non-trivial case by its canonical key.
func (r *Run) Nontrivial(key string) {
	r.mu.Lock()
	if _, seen := r.distinct[key]; !seen && len(r.firstKeys) < 3 {
		r.firstKeys = append(r.firstKeys, key)
	}
	r.distinct[key] = struct{}{}
	r.mu.Unlock()
}

// Sample stores a written-out case (only the first few are kept).
func (r *Run) Sample(s any) {
	r.mu.Lock()
	if len(r.samples) < r.maxSample {
		r.samples = append(r.samples, s)
	}
	r.mu.Unlock()
}

// Inconclusive counts a case that could not be decided, by reason.
func (r *Run) Inconclusive(reason string) {
	r.mu.Lock()
	r.Inconcl[reason]++
	r.mu.Unlock()
}

// Count adds to a named counter in the evidence's coverage object.
func (r *Run) Count(name string, n int64) {
	r.mu.Lock()
	if v, ok := r.Extra[name].(int64); ok {
		r.Extra[name] = v + n
	} else {
		r.Extra[name] = n
	}
	r.mu.Unlock()
}

// Set stores an arbitrary coverage key.
func (r *Run) Set(name string, v any) { r.mu.Lock(); r.Extra[name] = v; r.mu.Unlock() }

// Tally increments table[name][key].
func (r *Run) Tally(table, key string) {
	r.mu.Lock()
	m, ok := r.Extra[table].(map[string]int64)
	if !ok {
		m = map[string]int64{}
		r.Extra[table] = m
	}
	m[key]++
	r.mu.Unlock()
}

func match(pat, key string) bool {
	if strings.HasSuffix(pat, "*") {
		return strings.HasPrefix(key, strings.TrimSuffix(pat, "*"))
	}
	return pat == key
}

// Violation reports a violation with a stable key. If the key matches a
// committed known finding it is counted and printed once as KNOWN-FINDING;
// otherwise the witness is written to replay/<ID>/ and a VIOLATION line is
// printed (once per key). Returns true if it was a new (unlisted) violation.
func (r *Run) Violation(key string, witness any) bool {
	r.mu.Lock()
	defer r.mu.Unlock()
	for _, f := range r.known {
		if match(f.Key, key) {
			if r.knownHit[f.Key] == 0 {
				fmt.Fprintf(Out, "KNOWN-FINDING: property=%s %s [%s]\n", r.ID, f.What, f.Key)
			}
			r.knownHit[f.Key]++
			return false
		}
	}
	if _, seen := r.viol[key]; seen {
		return true
	}
	dir := filepath.Join(Root, "replay", r.ID)
	os.MkdirAll(dir, 0o755)
	name := sanitize(key)
	if len(name) > 80 {
		name = name[:80]
	}
	path := filepath.Join(dir, fmt.Sprintf("%s.seed%d.json", name, r.Seed))
	b, _ := json.MarshalIndent(map[string]any{"property": r.ID, "key": key, "seed": r.Seed, "tier": r.Tier, "witness": witness}, "", " ")
	os.WriteFile(path, b, 0o644)
	r.viol[key] = path
	r.violOrder = append(r.violOrder, key)
	if len(r.violOrder) <= 20 {
		fmt.Fprintf(Out, "VIOLATION property=%s replay=%s\n", r.ID, path)
		fmt.Fprintf(os.Stderr, "  key=%s\n", key)
	}
	return true
}

func sanitize(s string) string {
	var b strings.Builder
	for _, c := range s {
		switch {
		case c >= 'a' && c <= 'z', c >= 'A' && c <= 'Z', c >= '0' && c <= '9', c == '-', c == '_', c == '.':
			b.WriteRune(c)
		default:
			b.WriteByte('_')
		}
	}
	return b.String()
}

// Violations returns the number of new violations so far.
func (r *Run) Violations() int { r.mu.Lock(); defer r.mu.Unlock(); return len(r.viol) }

// AtFinish functions run at the end of Finish (the harness binaries leave through
// os.Exit(run.Finish()), which skips deferred calls).
var AtFinish []func()

// Finish writes evidence/<ID>.json and returns the process exit code:
// 0 held, 1 violation, 2 the run observed too little (broken check).
func (r *Run) Finish() int {
	r.mu.Lock()
	defer r.mu.Unlock()
	defer func() {
		for _, f := range AtFinish {
			f()
		}
	}()
	cov := map[string]any{}
	for k, v := range r.Extra {
		cov[k] = v
	}
	cov["evaluations"] = r.Evals
	cov["distinct_nontrivial"] = len(r.distinct)
	cov["rule"] = r.Rule
	if len(r.samples) == 0 {
		// the harness's own sampling rule picked nothing (e.g. its first cases all hit a recorded
		// finding): write out the first distinct non-trivial case keys instead
		r.samples = []any{}
		for _, k := range r.firstKeys {
			if len(k) > 1500 {
				k = k[:1500] + "…"
			}
			r.samples = append(r.samples, map[string]any{"nontrivial_case_key": k})
		}
	}
	cov["samples"] = r.samples
	if len(r.Inconcl) > 0 {
		cov["inconclusive"] = r.Inconcl
	}
	kh := []string{}
	for k, n := range r.knownHit {
		kh = append(kh, fmt.Sprintf("%s x%d", k, n))
	}
	sort.Strings(kh)
	cov["known_findings_hit"] = kh
	unmatched := []string{}
	for _, f := range r.known {
		if r.knownHit[f.Key] == 0 {
			unmatched = append(unmatched, f.Key)
		}
	}
	cov["known_findings_not_reproduced_in_this_run"] = unmatched
	if len(r.violOrder) > 0 {
		cov["violation_keys"] = r.violOrder
	}
	ev := map[string]any{
		"property_id": r.ID, "tier": r.Tier, "seed": r.Seed, "level": r.Level,
		"coverage": cov, "assumptions": r.Assume,
		"wall_s":     time.Since(r.start).Seconds(),
		"violations": len(r.viol),
	}
	if r.Assume == nil {
		ev["assumptions"] = []string{}
	}
	b, _ := json.MarshalIndent(ev, "", " ")
	edir := filepath.Join(Root, "evidence")
	if EvidenceDir != "" {
		edir = EvidenceDir
	}
	os.MkdirAll(edir, 0o755)
	if err := os.WriteFile(filepath.Join(edir, r.ID+".json"), b, 0o644); err != nil {
		fmt.Fprintln(os.Stderr, "cannot write evidence:", err)
		return 2
	}
	fmt.Fprintf(os.Stderr, "[%s %s seed=%d] evaluations=%d distinct_nontrivial=%d violations=%d known_findings_hit=%d inconclusive=%v wall=%.1fs\n",
		r.ID, r.Tier, r.Seed, r.Evals, len(r.distinct), len(r.viol), len(kh), r.Inconcl, time.Since(r.start).Seconds())
	if len(r.viol) > 0 {
		return 1
	}
	if len(r.distinct) < r.Floor {
		fmt.Fprintf(os.Stderr, "[%s] observed too little: distinct_nontrivial=%d < floor %d\n", r.ID, len(r.distinct), r.Floor)
		return 2
	}
	return 0
}

// ReadWitness loads the "witness" object of a replay file.
func ReadWitness(path string) (map[string]any, error) {
	b, err := os.ReadFile(path)
	if err != nil {
		return nil, err
	}
	var doc struct {
		Witness map[string]any `json:"witness"`
	}
	if err := json.Unmarshal(b, &doc); err != nil {
		return nil, err
	}
	return doc.Witness, nil
}
