package hx

import (
	"bufio"
	"encoding/json"
	"errors"
	"fmt"
	"os"
	"os/exec"
	"sync"
)

// A Worker is a child process of the same harness binary serving requests over
// two pipes (fd 3: requests, fd 4: responses, one JSON document per line). Code
// of the repository that may panic inside its own goroutines (the simulator's
// per-processor workers cannot be wrapped with recover) runs there, so that a
// crash ends one case and not the monitor.
type Worker struct {
	args []string
	log  string
	cmd  *exec.Cmd
	in   *os.File
	out  *bufio.Reader
	outF *os.File
}

// ErrCrashed is returned by Call when the child died while serving the request.
var ErrCrashed = errors.New("worker process crashed")

func NewWorker(logfile string, args ...string) *Worker {
	return &Worker{args: args, log: logfile}
}

func (w *Worker) start() error {
	reqR, reqW, err := os.Pipe()
	if err != nil {
		return err
	}
	respR, respW, err := os.Pipe()
	if err != nil {
		return err
	}
	lf, err := os.OpenFile(w.log, os.O_CREATE|os.O_WRONLY|os.O_APPEND, 0o644)
	if err != nil {
		lf, _ = os.OpenFile(os.DevNull, os.O_WRONLY, 0)
	}
	cmd := exec.Command(os.Args[0], w.args...)
	cmd.Stdout = lf
	cmd.Stderr = lf
	cmd.ExtraFiles = []*os.File{reqR, respW}
	cmd.Env = append(os.Environ(), "VERIF_WORKER=1")
	if err := cmd.Start(); err != nil {
		return err
	}
	reqR.Close()
	respW.Close()
	lf.Close()
	w.cmd, w.in, w.outF = cmd, reqW, respR
	w.out = bufio.NewReaderSize(respR, 1<<20)
	return nil
}

// Call sends req and decodes the answer into resp.
func (w *Worker) Call(req, resp any) error {
	if w.cmd == nil {
		if err := w.start(); err != nil {
			return err
		}
	}
	b, err := json.Marshal(req)
	if err != nil {
		return err
	}
	b = append(b, '\n')
	if _, err := w.in.Write(b); err != nil {
		w.kill()
		return ErrCrashed
	}
	line, err := w.out.ReadBytes('\n')
	if err != nil {
		w.kill()
		return ErrCrashed
	}
	return json.Unmarshal(line, resp)
}

func (w *Worker) kill() {
	if w.cmd != nil {
		w.in.Close()
		w.outF.Close()
		w.cmd.Process.Kill()
		w.cmd.Wait()
		w.cmd = nil
	}
}

// Close stops the child.
func (w *Worker) Close() { w.kill() }

// Serve is the child side: it reads requests from fd 3 and answers on fd 4.
// handle gets the raw JSON of a request and returns the value to send back.
func Serve(handle func(req []byte) any) {
	in := bufio.NewReaderSize(os.NewFile(3, "req"), 1<<20)
	out := os.NewFile(4, "resp")
	for {
		line, err := in.ReadBytes('\n')
		if err != nil {
			return
		}
		resp := handle(line)
		b, err := json.Marshal(resp)
		if err != nil {
			b = []byte(fmt.Sprintf(`{"error":%q}`, err.Error()))
		}
		out.Write(append(b, '\n'))
	}
}

// Pool is a set of workers used from several goroutines.
type Pool struct {
	mu   sync.Mutex
	free []*Worker
	mk   func(i int) *Worker
	n    int
}

func NewPool(mk func(i int) *Worker) *Pool { return &Pool{mk: mk} }

func (p *Pool) Get() *Worker {
	p.mu.Lock()
	defer p.mu.Unlock()
	if len(p.free) > 0 {
		w := p.free[len(p.free)-1]
		p.free = p.free[:len(p.free)-1]
		return w
	}
	p.n++
	return p.mk(p.n)
}

func (p *Pool) Put(w *Worker) { p.mu.Lock(); p.free = append(p.free, w); p.mu.Unlock() }

func (p *Pool) Close() {
	p.mu.Lock()
	defer p.mu.Unlock()
	for _, w := range p.free {
		w.Close()
	}
	p.free = nil
}
