// Package hx has the small helpers every harness binary shares.
package hx

import (
	"fmt"
	"hash/fnv"
	"math/rand/v2"
	"os"
	"path/filepath"
	"runtime"
	"sync"
	"sync/atomic"
	"syscall"

	"verif/internal/evid"
)

// Args parses "quick" | "thorough" | "--replay <path>".
func Args() (tier, replay string) {
	tier = "quick"
	a := os.Args[1:]
	for i := 0; i < len(a); i++ {
		switch a[i] {
		case "quick", "thorough":
			tier = a[i]
		case "--replay":
			if i+1 < len(a) {
				replay = a[i+1]
				i++
				// a replay re-runs one recorded case: its (tiny) evidence must not replace the
				// evidence of the last full run
				if evid.EvidenceDir == "" {
					evid.EvidenceDir = filepath.Join(evid.Root, ".work", "replay-evidence")
				}
			}
		}
	}
	if t := os.Getenv("VERIF_TIER"); t == "quick" || t == "thorough" {
		if len(a) == 0 {
			tier = t
		}
	}
	return
}

// RNG returns a PCG stream determined by (seed, name).
func RNG(seed int64, name string) *rand.Rand {
	h := fnv.New64a()
	h.Write([]byte(name))
	return rand.New(rand.NewPCG(uint64(seed), h.Sum64()))
}

// Par runs f(0..n-1) on GOMAXPROCS workers.
func Par(n int, f func(i int)) {
	w := runtime.GOMAXPROCS(0)
	if w > n {
		w = n
	}
	if w < 1 {
		w = 1
	}
	var next int64 = -1
	var wg sync.WaitGroup
	for k := 0; k < w; k++ {
		wg.Add(1)
		go func() {
			defer wg.Done()
			for {
				i := int(atomic.AddInt64(&next, 1))
				if i >= n {
					return
				}
				f(i)
			}
		}()
	}
	wg.Wait()
}

// Scratch creates /verif/.work/<id>.<pid> and returns it with a cleanup.
func Scratch(id string) (string, func()) {
	// scratch directories of earlier runs that were killed before their cleanup
	if old, _ := filepath.Glob(filepath.Join(evid.Root, ".work", id+".*")); old != nil {
		for _, o := range old {
			var pid int
			if _, err := fmt.Sscanf(filepath.Ext(o), ".%d", &pid); err == nil && pid > 0 {
				if _, err := os.Stat(fmt.Sprintf("/proc/%d", pid)); err != nil {
					os.RemoveAll(o)
				}
			}
		}
	}
	d := filepath.Join(evid.Root, ".work", fmt.Sprintf("%s.%d", id, os.Getpid()))
	os.RemoveAll(d)
	os.MkdirAll(d, 0o755)
	evid.AtFinish = append(evid.AtFinish, func() { os.RemoveAll(d) })
	return d, func() { os.RemoveAll(d) }
}

// SilenceStdout points fd 1 at logfile (library code in /repo prints freely)
// and aims evid.Out at the real stdout.
func SilenceStdout(logfile string) {
	saved, err := syscall.Dup(1)
	if err != nil {
		return
	}
	f, err := os.OpenFile(logfile, os.O_CREATE|os.O_WRONLY|os.O_TRUNC, 0o644)
	if err != nil {
		f, _ = os.OpenFile(os.DevNull, os.O_WRONLY, 0)
	}
	syscall.Dup2(int(f.Fd()), 1)
	evid.Out = os.NewFile(uintptr(saved), "realstdout")
}
