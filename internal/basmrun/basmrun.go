// Package basmrun assembles a .basm source text with the repository's
// pkg/basm library in a fresh BasmInstance (the path cmd/basm takes).
package basmrun

import (
	"fmt"

	"github.com/BondMachineHQ/BondMachine/pkg/basm"
	"github.com/BondMachineHQ/BondMachine/pkg/bmconfig"
	"github.com/BondMachineHQ/BondMachine/pkg/bminfo"
	"github.com/BondMachineHQ/BondMachine/pkg/bmreqs"
	"github.com/BondMachineHQ/BondMachine/pkg/bondmachine"
)

// Options mirror the cmd/basm flags that change code selection.
type Options struct {
	DisableDynamicalMatching bool
	ChooserMinWordSize       bool
	ChooserForceSameName     bool
}

// Result of an assembly.
type Result struct {
	BM   *bondmachine.Bondmachine
	Reqs bmreqs.ExportedReqs
	Info *bminfo.BMinfo
}

// Assemble runs parse → RunAssembler → Assembler2BondMachine. A panic inside the
// library is returned as an error whose text starts with "panic:".
func Assemble(src string, o Options) (res *Result, err error) {
	defer func() {
		if r := recover(); r != nil {
			err = fmt.Errorf("panic: %v", r)
		}
	}()
	bi := new(basm.BasmInstance)
	bi.BMinfo = new(bminfo.BMinfo)
	bi.BasmInstanceInit(nil)
	if o.DisableDynamicalMatching {
		bi.Activate(bmconfig.DisableDynamicalMatching)
	}
	if o.ChooserMinWordSize {
		bi.Activate(bmconfig.ChooserMinWordSize)
	}
	if o.ChooserForceSameName {
		bi.Activate(bmconfig.ChooserForceSameName)
	}
	if err := bi.ParseAssemblyStringDefault(src); err != nil {
		return nil, fmt.Errorf("parse: %v", err)
	}
	if err := bi.RunAssembler(); err != nil {
		return nil, fmt.Errorf("assemble: %v", err)
	}
	if bi.IsClustered() {
		return nil, fmt.Errorf("clustered source")
	}
	if err := bi.Assembler2BondMachine(); err != nil {
		return nil, fmt.Errorf("create: %v", err)
	}
	bm := bi.GetBondMachine()
	if bm == nil {
		return nil, fmt.Errorf("no machine produced")
	}
	return &Result{BM: bm, Reqs: bi.DumpRequirements(), Info: bi.BMinfo}, nil
}
