// Package bondmon is the online per-bond monitor shared by C04 and C02: it turns
// completed r2owa / i2rw instructions (observed through pc/register probes of a
// bmsim.Machine) into events and checks exactly-once, in-order delivery.
package bondmon

import (
	"fmt"
	"strconv"
	"strings"

	"verif/internal/bmsim"
	"verif/internal/gen"
	"verif/internal/simdrv"
)

type endpoint struct {
	kind       string
	proc, port int
} // kind: "ext" or "proc"

// source of processor p's input k, and consumers of processor p's output j
func Wiring(n gen.NetSpec) (srcOf map[[2]int]endpoint, extOutSrc map[int][2]int) {
	srcOf = map[[2]int]endpoint{}
	extOutSrc = map[int][2]int{}
	parse := func(s string) endpoint {
		if s[0] == 'p' {
			i := strings.IndexAny(s[1:], "io") + 1
			p, _ := strconv.Atoi(s[1:i])
			k, _ := strconv.Atoi(s[i+1:])
			return endpoint{"proc", p, k}
		}
		k, _ := strconv.Atoi(s[1:])
		return endpoint{"ext", -1, k}
	}
	for _, b := range n.Bonds {
		in, out := parse(b[0]), parse(b[1])
		if in.kind == "proc" {
			srcOf[[2]int{in.proc, in.port}] = out
		} else if out.kind == "proc" {
			extOutSrc[in.port] = [2]int{out.proc, out.port}
		}
	}
	return
}

// monitor runs the machine and checks the per-bond invariants online.
// DupNote is a duplicate read that was recorded and removed from the consumer's log so that
// monitoring of the rest of the run stays meaningful (loss, reordering, early producer).
type DupNote struct {
	Kind   string
	Detail map[string]any
}

func Monitor(m bmsim.Machine, n gen.NetSpec, env simdrv.Env, maxTicks, wantTransfers int) (viol string, detail map[string]any, events int, dups []DupNote) {
	srcOf, extOutSrc := Wiring(n)
	np := len(n.Procs)
	prev := make([]uint64, np)
	sent := map[[2]int][]uint64{}      // producer (p, out j) -> values whose r2owa retired
	recv := map[[2]int][]uint64{}      // consumer (p, in k) -> values captured by completed i2rw
	consumers := map[[2]int][][2]int{} // producer output -> consumer inputs
	for cin, src := range srcOf {
		if src.kind == "proc" {
			k := [2]int{src.proc, src.port}
			consumers[k] = append(consumers[k], cin)
		}
	}
	// structural class of a consumer input: how many inputs share its source, and whether the
	// consumer reads it in two consecutive instructions
	classOf := func(cin [2]int) string {
		src := srcOf[cin]
		share := 0
		for _, s2 := range srcOf {
			if s2 == src {
				share++
			}
		}
		prog := n.Procs[cin[0]].Prog
		double := false
		for i := 0; i+1 < len(prog); i++ {
			a, b := strings.Fields(prog[i]), strings.Fields(prog[i+1])
			if a[0] == "i2rw" && b[0] == "i2rw" && a[2] == b[2] && a[2] == "i"+strconv.Itoa(cin[1]) {
				double = true
			}
		}
		switch {
		case double:
			return "consecutive-i2rw-on-one-input"
		case share >= 2:
			return "source-fans-out-to-several-consumers"
		}
		return "single-consumer"
	}
	mkDetail := func(what string, extra map[string]any) map[string]any {
		d := map[string]any{"what": what, "tick": m.Ticks(), "sent": fmt.Sprint(sent), "received": fmt.Sprint(recv), "external_outputs": m.Out()}
		for k, v := range extra {
			d[k] = v
		}
		return d
	}
	fail := func(what string, extra map[string]any) (string, map[string]any, int, []DupNote) {
		return what, mkDetail(what, extra), events, dups
	}
	seenDup := map[string]bool{}
	noteDupAt := func(key [2]int, pos int, extra map[string]any) {
		k := "duplicate-read:" + classOf(key)
		if !seenDup[k] {
			seenDup[k] = true
			dups = append(dups, DupNote{Kind: k, Detail: mkDetail(k, extra)})
		}
		// resynchronise: forget the second read of the same transfer
		recv[key] = append(recv[key][:pos], recv[key][pos+1:]...)
	}
	noteDup := func(key [2]int, extra map[string]any) { noteDupAt(key, len(recv[key])-1, extra) }
	for t := 0; t < maxTicks; t++ {
		if err := m.Step(); err != nil {
			return fail("execution-error", map[string]any{"err": err.Error()})
		}
		for p := 0; p < np; p++ {
			pc := m.Pc(p)
			if pc == prev[p] {
				continue
			}
			old := prev[p]
			prev[p] = pc
			if int(old) >= len(n.Procs[p].Prog) {
				continue
			}
			f := strings.Fields(n.Procs[p].Prog[old])
			switch f[0] {
			case "i2rw":
				r, _ := strconv.Atoi(f[1][1:])
				k, _ := strconv.Atoi(f[2][1:])
				key := [2]int{p, k}
				v := m.Reg(p, r)
				recv[key] = append(recv[key], v)
				events++
				src := srcOf[key]
				idx := len(recv[key]) - 1
				if src.kind == "ext" {
					st := env.In[src.port]
					if idx >= len(st) {
						return fail("consumer-read-more-than-offered", map[string]any{"consumer": fmt.Sprintf("p%di%d", p, k)})
					}
					if st[idx] != v {
						if idx > 0 && st[idx-1] == v {
							noteDup(key, map[string]any{"consumer": fmt.Sprintf("p%di%d", p, k), "index": idx, "value_read_twice": v})
							continue
						}
						return fail("consumer-sequence-differs-from-offered:"+classOf(key), map[string]any{"consumer": fmt.Sprintf("p%di%d", p, k), "index": idx, "got": v, "want": st[idx]})
					}
				} else {
					pk := [2]int{src.proc, src.port}
					s := sent[pk]
					who := fmt.Sprintf("p%di%d", p, k)
					if idx < len(s) && s[idx] != v {
						if idx > 0 && recv[key][idx-1] == v {
							noteDup(key, map[string]any{"consumer": who, "index": idx, "value_read_twice": v})
							continue
						}
						return fail("consumer-sequence-differs-from-sent:"+classOf(key), map[string]any{"consumer": who, "index": idx, "got": v, "want": s[idx]})
					}
					if idx > len(s) {
						// two captures the producer has not completed yet: one of them reads a transfer twice
						first := len(s)
						switch {
						case first > 0 && recv[key][first] == recv[key][first-1]:
							noteDupAt(key, first, map[string]any{"consumer": who, "index": first, "value_read_twice": recv[key][first]})
						case recv[key][idx-1] == v:
							noteDup(key, map[string]any{"consumer": who, "index": idx, "value_read_twice": v})
						default:
							return fail("consumer-ahead-of-producer-by-more-than-one:"+classOf(key), map[string]any{"consumer": who, "captured": len(recv[key]), "producer_completed": len(s)})
						}
						if len(recv[key]) > len(s)+1 {
							return fail("consumer-ahead-of-producer-by-more-than-one:"+classOf(key), map[string]any{"consumer": who, "captured": len(recv[key]), "producer_completed": len(s)})
						}
					}
				}
			case "r2owa":
				r, _ := strconv.Atoi(f[1][1:])
				j, _ := strconv.Atoi(f[2][1:])
				key := [2]int{p, j}
				v := m.Reg(p, r)
				sent[key] = append(sent[key], v)
				events++
				idx := len(sent[key]) - 1
				for _, cin := range consumers[key] {
					for len(recv[cin]) > idx && recv[cin][idx] != v && idx > 0 && recv[cin][idx] == recv[cin][idx-1] {
						noteDupAt(cin, idx, map[string]any{"consumer": fmt.Sprintf("p%di%d", cin[0], cin[1]), "index": idx, "value_read_twice": recv[cin][idx]})
					}
					rc := recv[cin]
					if len(rc) <= idx {
						return fail("producer-proceeded-before-consumer-took-the-value", map[string]any{"producer": fmt.Sprintf("p%do%d", p, j), "value": v, "consumer": fmt.Sprintf("p%di%d", cin[0], cin[1]), "consumer_captured": len(rc)})
					}
					if rc[idx] != v {
						return fail("consumer-captured-a-different-value", map[string]any{"producer": fmt.Sprintf("p%do%d", p, j), "index": idx, "sent": v, "captured": rc[idx]})
					}
				}
			}
		}
		// external outputs against their producers
		outs := m.Out()
		done := len(outs) > 0
		for o, src := range extOutSrc {
			s := sent[src]
			got := outs[o]
			if len(got) > len(s)+1 {
				return fail("external-output-ahead-of-producer-by-more-than-one", map[string]any{"output": o})
			}
			for i := 0; i < len(got) && i < len(s); i++ {
				if got[i] != s[i] {
					return fail("external-output-sequence-differs-from-sent", map[string]any{"output": o, "index": i, "got": got[i], "want": s[i]})
				}
			}
			if len(got) < wantTransfers {
				done = false
			}
		}
		// the environment's view of the external inputs: nothing taken twice
		for i, taken := range m.InTaken() {
			for cin, src := range srcOf {
				if src.kind == "ext" && src.port == i && len(recv[cin]) > taken+1 {
					return fail("consumer-read-more-than-environment-handed-over:"+classOf(cin), map[string]any{"input": i, "consumer": fmt.Sprintf("p%di%d", cin[0], cin[1]), "environment_handed_over": taken, "consumer_completed_reads": len(recv[cin])})
				}
			}
		}
		if done {
			break
		}
	}
	for o := range extOutSrc {
		if len(m.Out()[o]) == 0 {
			// a dataflow net whose processors wait for each other in a cycle (program order) never
			// produces anything: that is a property of the generated net, not of the bonds
			return "no-progress", nil, events, dups
		}
	}
	return "", nil, events, dups
}
