// Package basmgen generates well-formed BASM sources in the subset the assembler
// supports, together with an independent reference interpreter of the source
// (the AST the text is rendered from), used by C05, C07 and C16.
package basmgen

import (
	"fmt"
	"math/rand/v2"
	"strconv"
	"strings"
)

// Item is one source line of a code section.
type Item struct {
	Label string   // "name" for a label line
	Op    string   // mnemonic as written ("mov", "inc", ..., or a macro name)
	Args  []string // operands as written
	Macro bool
}

// CP is one processor: a romtext section (and optional romdata).
type CP struct {
	Name    string
	Section string
	Entry   string
	Items   []Item
	Data    []uint64 // romdata bytes under symbol DataSym
	DataSym string
	// More is further romdata variables laid out after DataSym in the same data section
	More []DataVar
	// SharesCodeOf = k > 0: this CP is declared with the romtext section of CP k-1 (same Items,
	// Entry, Section) and its own romdata section, in which the same symbols sit at other offsets
	SharesCodeOf int
	NIn          int
	NOut         int
}

// DataVar is one romdata variable (one db line).
type DataVar struct {
	Sym  string
	Vals []uint64
}

// vars returns the CP's data variables in layout order.
func (c *CP) vars() []DataVar {
	var v []DataVar
	if len(c.Data) > 0 {
		v = append(v, DataVar{c.DataSym, c.Data})
	}
	return append(v, c.More...)
}

// dataImage is the ROM data of the CP and the offset of every symbol in it.
func (c *CP) dataImage() ([]uint64, map[string]int) {
	var img []uint64
	off := map[string]int{}
	for _, v := range c.vars() {
		off[v.Sym] = len(img)
		img = append(img, v.Vals...)
	}
	return img, off
}

// minLen is the number of cells of variable sym the code reads (1 + the largest number of inc
// between "mov a, rom:sym" and the ro2rri that follows).
func (c *CP) minLen(sym string) int {
	need := 0
	for i, it := range c.Items {
		if it.Op == "mov" && len(it.Args) == 2 && it.Args[1] == "rom:"+sym {
			n := 1
			for j := i + 1; j < len(c.Items) && c.Items[j].Op == "inc"; j++ {
				n++
			}
			if n > need {
				need = n
			}
		}
	}
	return need
}

func (c *CP) shares() bool { return c.SharesCodeOf > 0 }

// Program is a whole source: CPs in a pipeline cp0 -> cp1 -> ...; cp0 reads the
// external inputs, the last CP writes the external outputs.
type Program struct {
	Rsize  int
	Sync   bool
	Macros map[string][]Item
	CPs    []CP
	// topology: for CP c>0, input k is fed by CP c-1 output k; CP 0 inputs are external; last CP outputs external
	ExtIn  int
	ExtOut int
	MaxLit uint64 `json:"max_literal"`
	// ShareBias: every CP has one input and one output and several romdata variables, and later CPs
	// are often declared with an earlier CP's code section and their own data
	ShareBias bool `json:"share_bias,omitempty"`
	// GlobalIOMode, when set, is written on the bmdef line ("iomode:sync|async"): the more specific
	// iomode of every code section must still win
	GlobalIOMode string `json:"global_iomode,omitempty"`
	// SameLabelNames: the code sections of all CPs draw their label names from one sequence
	SameLabelNames bool `json:"same_label_names,omitempty"`
	// MoreOps: the arithmetic pool also has the pipelined addp/multp, and a quarter of the two-register
	// instructions use one register for both operands
	MoreOps bool `json:"more_ops,omitempty"`
}

func lit(rng *rand.Rand, v uint64) string {
	switch rng.IntN(9) {
	case 6:
		// a decimal literal with leading zeros is still decimal
		return "0" + strconv.FormatUint(v, 10)
	case 7:
		return "00" + strconv.FormatUint(v, 10)
	case 8:
		return "0x" + strings.ToUpper(strconv.FormatUint(v, 16))
	case 0:
		return "0x" + strconv.FormatUint(v, 16)
	case 1:
		return "0b" + strconv.FormatUint(v, 2)
	case 2:
		return "0d" + strconv.FormatUint(v, 10)
	case 3:
		return "0u" + strconv.FormatUint(v, 10)
	}
	return strconv.FormatUint(v, 10)
}

// Text renders the program as .basm source.
func (p *Program) Text() string {
	var sb strings.Builder
	var mn []string
	for n := range p.Macros {
		mn = append(mn, n)
	}
	sortStrings(mn)
	for _, n := range mn {
		fmt.Fprintf(&sb, "%%macro %s 0\n", n)
		for _, it := range p.Macros[n] {
			fmt.Fprintf(&sb, "\t%s\t%s\n", it.Op, strings.Join(it.Args, ", "))
		}
		sb.WriteString("%endmacro\n")
	}
	mode := "async"
	if p.Sync {
		mode = "sync"
	}
	for ci := range p.CPs {
		c := &p.CPs[ci]
		if !c.shares() {
			fmt.Fprintf(&sb, "%%section %s .romtext iomode:%s\n", c.Section, mode)
			fmt.Fprintf(&sb, "\tentry %s\n", c.Entry)
			for _, it := range c.Items {
				switch {
				case it.Label != "":
					fmt.Fprintf(&sb, "%s:\n", it.Label)
				default:
					fmt.Fprintf(&sb, "\t%s\t%s\n", it.Op, strings.Join(it.Args, ", "))
				}
			}
			sb.WriteString("%endsection\n")
		}
		if vars := c.vars(); len(vars) > 0 {
			fmt.Fprintf(&sb, "%%section %sdata .romdata\n", c.Name)
			for _, dv := range vars {
				var vs []string
				for _, v := range dv.Vals {
					vs = append(vs, "0x"+strconv.FormatUint(v, 16))
				}
				fmt.Fprintf(&sb, "\t%s db %s\n", dv.Sym, strings.Join(vs, ", "))
			}
			sb.WriteString("%endsection\n")
		}
	}
	for ci := range p.CPs {
		c := &p.CPs[ci]
		if len(c.vars()) > 0 {
			fmt.Fprintf(&sb, "%%meta cpdef %s romcode: %s, romdata: %sdata, ramsize:8\n", c.Name, c.Section, c.Name)
		} else {
			fmt.Fprintf(&sb, "%%meta cpdef %s romcode: %s, ramsize:8\n", c.Name, c.Section)
		}
	}
	// bonds
	for k := 0; k < p.ExtIn; k++ {
		fmt.Fprintf(&sb, "%%meta ioatt xin%d cp: bm, index:%d, type:input\n", k, k)
		fmt.Fprintf(&sb, "%%meta ioatt xin%d cp: %s, index:%d, type:input\n", k, p.CPs[0].Name, k)
	}
	for c := 1; c < len(p.CPs); c++ {
		for k := 0; k < p.CPs[c].NIn; k++ {
			fmt.Fprintf(&sb, "%%meta ioatt l%d_%d cp: %s, index:%d, type:output\n", c, k, p.CPs[c-1].Name, k)
			fmt.Fprintf(&sb, "%%meta ioatt l%d_%d cp: %s, index:%d, type:input\n", c, k, p.CPs[c].Name, k)
		}
	}
	last := p.CPs[len(p.CPs)-1]
	for k := 0; k < p.ExtOut; k++ {
		fmt.Fprintf(&sb, "%%meta ioatt xout%d cp: %s, index:%d, type:output\n", k, last.Name, k)
		fmt.Fprintf(&sb, "%%meta ioatt xout%d cp: bm, index:%d, type:output\n", k, k)
	}
	if p.GlobalIOMode != "" {
		fmt.Fprintf(&sb, "%%meta bmdef global registersize:%d, iomode:%s\n", p.Rsize, p.GlobalIOMode)
	} else {
		fmt.Fprintf(&sb, "%%meta bmdef global registersize:%d\n", p.Rsize)
	}
	return sb.String()
}

func sortStrings(s []string) {
	for i := 1; i < len(s); i++ {
		for j := i; j > 0 && s[j] < s[j-1]; j-- {
			s[j], s[j-1] = s[j-1], s[j]
		}
	}
}

// ---- generator -------------------------------------------------------------------------

type genCtx struct {
	rng    *rand.Rand
	p      *Program
	labels int
	cpIdx  int
	regs   int
}

// label names are prefixes of one another (L0_1, L0_11, L0_111, ...) for the first few labels of a
// section: a resolver that matches names by prefix or substring picks the wrong one.
func (g *genCtx) label() string {
	g.labels++
	cp := strconv.Itoa(g.cpIdx)
	if g.p.SameLabelNames {
		cp = "" // every code section uses the same label names (at other line positions)
	}
	if g.labels <= 5 {
		return fmt.Sprintf("L%s_%s", cp, strings.Repeat("1", g.labels))
	}
	return fmt.Sprintf("N%s_%d", cp, g.labels)
}

func (g *genCtx) reg() string { return "r" + strconv.Itoa(g.rng.IntN(g.regs)) }

func (g *genCtx) arith(n int, avoid string) []Item {
	var out []Item
	mask := uint64(1)<<uint(g.p.Rsize) - 1
	if g.p.MaxLit > 0 && g.p.MaxLit < mask {
		mask = g.p.MaxLit
	}
	for i := 0; i < n; i++ {
		r := g.reg()
		for r == avoid {
			r = g.reg()
		}
		k := g.rng.IntN(8)
		if g.p.MoreOps && g.rng.IntN(3) == 0 {
			src := g.reg()
			if g.rng.IntN(4) == 0 {
				src = r
			}
			out = append(out, Item{Op: []string{"addp", "multp", "add", "mult"}[g.rng.IntN(4)], Args: []string{r, src}})
			continue
		}
		switch k {
		case 0:
			out = append(out, Item{Op: "mov", Args: []string{r, lit(g.rng, g.rng.Uint64()&mask)}})
		case 1:
			out = append(out, Item{Op: "mov", Args: []string{r, g.reg()}})
		case 2:
			out = append(out, Item{Op: "inc", Args: []string{r}})
		case 3:
			out = append(out, Item{Op: "dec", Args: []string{r}})
		case 4:
			out = append(out, Item{Op: "add", Args: []string{r, g.reg()}})
		case 5:
			out = append(out, Item{Op: "mult", Args: []string{r, g.reg()}})
		case 6:
			out = append(out, Item{Op: "clr", Args: []string{r}})
		case 7:
			out = append(out, Item{Op: "rset", Args: []string{r, lit(g.rng, g.rng.Uint64()&mask&0xff)}}) // mask already bounded by MaxLit
		}
	}
	return out
}

// Generate builds a random program. style: "sync" pipelines or "async" single CP with a final state.
// maxLit bounds the numeric literals (the min-word-size chooser turns every "mov reg, number" into rsets5).
func Generate(rng *rand.Rand, sync bool, maxLit uint64) *Program {
	return generate(rng, sync, maxLit, false)
}

// GenerateShared builds sync pipelines of 2..3 one-input/one-output CPs with romdata in which later
// CPs are often declared with an earlier CP's code section (cpdef romcode: same section) and
// their own data section.
func GenerateShared(rng *rand.Rand, maxLit uint64) *Program {
	return generate(rng, true, maxLit, true)
}

// GenerateWide is Generate with the larger arithmetic pool (addp, multp, same-register operands).
func GenerateWide(rng *rand.Rand, sync bool, maxLit uint64) *Program {
	moreOps = true
	defer func() { moreOps = false }()
	return generate(rng, sync, maxLit, false)
}

var moreOps bool // set only while GenerateWide runs (generators are called from one goroutine)

func generate(rng *rand.Rand, sync bool, maxLit uint64, share bool) *Program {
	p := &Program{Rsize: []int{8, 16, 32}[rng.IntN(3)], Sync: sync, Macros: map[string][]Item{}, MaxLit: maxLit, ShareBias: share, MoreOps: moreOps}
	if rng.IntN(4) == 0 {
		p.GlobalIOMode = []string{"sync", "async"}[rng.IntN(2)]
	}
	p.SameLabelNames = rng.IntN(3) == 0
	ncp := 1
	if sync {
		ncp = 1 + rng.IntN(3)
	}
	if share {
		ncp = 2 + rng.IntN(2)
	}
	nm := rng.IntN(3)
	for i := 0; i < nm; i++ {
		g := &genCtx{rng: rng, p: p, regs: 2}
		p.Macros[fmt.Sprintf("mac%d", i)] = g.arith(1+rng.IntN(3), "")
	}
	if share {
		p.ExtIn, p.ExtOut = 1, 1
	} else if sync {
		p.ExtIn = rng.IntN(3)
		p.ExtOut = 1 + rng.IntN(2)
	} else {
		p.ExtIn = 0
		p.ExtOut = 1 + rng.IntN(2)
	}
	width := p.ExtIn
	for c := 0; c < ncp; c++ {
		cp := CP{Name: fmt.Sprintf("cpu%d", c), Section: fmt.Sprintf("code%d", c), NIn: width}
		if c == ncp-1 {
			cp.NOut = p.ExtOut
		} else {
			cp.NOut = 1 + rng.IntN(2)
		}
		if share {
			cp.NOut = 1
		}
		g := &genCtx{rng: rng, p: p, cpIdx: c, regs: 2 + rng.IntN(3)}
		if g.regs < cp.NIn {
			g.regs = cp.NIn
		}
		if rng.IntN(4) == 0 || p.ShareBias {
			n := 1 + rng.IntN(4)
			for i := 0; i < n; i++ {
				cp.Data = append(cp.Data, rng.Uint64()&0xff)
			}
			cp.DataSym = fmt.Sprintf("tab%d", c)
			if p.ShareBias {
				cp.DataSym = "taba"
			}
			for v := 0; v < 3 && (rng.IntN(2) == 0 || (p.ShareBias && v == 0)); v++ {
				dv := DataVar{Sym: fmt.Sprintf("tab%d_%d", c, v)}
				if p.ShareBias {
					dv.Sym = fmt.Sprintf("tab%c", 'b'+v)
				}
				for i := 1 + rng.IntN(3); i > 0; i-- {
					dv.Vals = append(dv.Vals, rng.Uint64()&0xff)
				}
				cp.More = append(cp.More, dv)
			}
		}
		if p.ShareBias && c > 0 && rng.IntN(3) != 0 {
			// declare this CP with the code of an earlier CP of the same shape and give it its own
			// romdata: the same symbols, other lengths and values (so every offset differs)
			j := rng.IntN(c)
			for j > 0 && p.CPs[j].shares() {
				j--
			}
			src := p.CPs[j]
			if src.NIn == cp.NIn && src.NOut == cp.NOut {
				cp.Section, cp.Entry, cp.Items, cp.SharesCodeOf = src.Section, src.Entry, src.Items, j+1
				cp.DataSym, cp.Data, cp.More = src.DataSym, nil, nil
				for i := 1 + rng.IntN(4); i > 0 || len(cp.Data) < src.minLen(src.DataSym); i-- {
					cp.Data = append(cp.Data, rng.Uint64()&0xff)
				}
				for _, sv := range src.More {
					dv := DataVar{Sym: sv.Sym}
					for i := 1 + rng.IntN(3); i > 0 || len(dv.Vals) < src.minLen(sv.Sym); i-- {
						dv.Vals = append(dv.Vals, rng.Uint64()&0xff)
					}
					cp.More = append(cp.More, dv)
				}
				p.CPs = append(p.CPs, cp)
				width = cp.NOut
				continue
			}
		}
		var items []Item
		// optional prelude that is not the entry (entry somewhere else than the first instruction)
		entryFirst := rng.IntN(4) != 0
		entry := g.label()
		if !entryFirst {
			pl := g.label()
			items = append(items, Item{Label: pl})
			items = append(items, g.arith(1+rng.IntN(2), "")...)
			if sync {
				items = append(items, Item{Op: "mov", Args: []string{"o0", g.reg()}})
			}
			items = append(items, Item{Op: "j", Args: []string{pl}})
		}
		items = append(items, Item{Label: entry})
		cp.Entry = entry
		items = append(items, g.arith(rng.IntN(3), "")...)
		top := g.label()
		items = append(items, Item{Label: top})
		// read every input once per iteration
		for k := 0; k < cp.NIn; k++ {
			items = append(items, Item{Op: "mov", Args: []string{"r" + strconv.Itoa(k), "i" + strconv.Itoa(k)}})
		}
		nblocks := 1 + rng.IntN(4)
		for b := 0; b < nblocks; b++ {
			switch rng.IntN(6) {
			case 0, 1:
				items = append(items, g.arith(1+rng.IntN(3), "")...)
			case 2: // counted loop
				cnt := g.reg()
				l, e := g.label(), g.label()
				items = append(items, Item{Op: "mov", Args: []string{cnt, lit(rng, uint64(1+rng.IntN(4)))}})
				items = append(items, Item{Label: l})
				items = append(items, g.arith(1+rng.IntN(2), cnt)...)
				if len(p.Macros) > 0 && rng.IntN(3) == 0 {
					// a macro call inside the loop: the backward jump and the exit label lie across an expansion
					// (macro bodies never touch the counter: they use r0/r1, the counter is kept above them)
					if n, _ := strconv.Atoi(cnt[1:]); n >= 2 {
						items = append(items, Item{Op: fmt.Sprintf("mac%d", rng.IntN(len(p.Macros))), Macro: true})
						items = append(items, g.arith(1, cnt)...)
					}
				}
				items = append(items, Item{Op: "dec", Args: []string{cnt}}, Item{Op: "jz", Args: []string{cnt, e}}, Item{Op: "j", Args: []string{l}}, Item{Label: e})
				items = append(items, g.arith(1, "")...)
			case 3: // conditional skip
				s := g.label()
				items = append(items, Item{Op: "jz", Args: []string{g.reg(), s}})
				items = append(items, g.arith(1+rng.IntN(2), "")...)
				items = append(items, Item{Label: s})
				items = append(items, g.arith(1, "")...)
			case 4: // macro call (never directly after a label, never two in a row)
				if len(p.Macros) > 0 && len(items) > 0 && items[len(items)-1].Label == "" && !items[len(items)-1].Macro {
					items = append(items, Item{Op: fmt.Sprintf("mac%d", rng.IntN(len(p.Macros))), Macro: true})
					items = append(items, g.arith(1, "")...)
				}
			case 5: // table read
				if vars := cp.vars(); len(vars) > 0 {
					dv := vars[rng.IntN(len(vars))]
					a, d := g.reg(), g.reg()
					for d == a {
						d = g.reg()
					}
					items = append(items, Item{Op: "mov", Args: []string{a, "rom:" + dv.Sym}})
					for k := rng.IntN(len(dv.Vals)); k > 0; k-- {
						items = append(items, Item{Op: "inc", Args: []string{a}})
					}
					items = append(items, Item{Op: "ro2rri", Args: []string{d, a}})
				}
			}
		}
		forced := ""
		if vars := cp.vars(); p.ShareBias && len(vars) > 1 {
			// one read of a variable that is not the first of its data section (its offset depends on the
			// lengths of the variables before it), sent to output 0
			dv := vars[1+rng.IntN(len(vars)-1)]
			a, d := "r0", "r1"
			items = append(items, Item{Op: "mov", Args: []string{a, "rom:" + dv.Sym}})
			for k := rng.IntN(len(dv.Vals)); k > 0; k-- {
				items = append(items, Item{Op: "inc", Args: []string{a}})
			}
			items = append(items, Item{Op: "ro2rri", Args: []string{d, a}})
			forced = d
		}
		for k := 0; k < cp.NOut; k++ {
			if k == 0 && forced != "" {
				items = append(items, Item{Op: "mov", Args: []string{"o0", forced}})
				continue
			}
			items = append(items, g.arith(rng.IntN(2), "")...)
			items = append(items, Item{Op: "mov", Args: []string{"o" + strconv.Itoa(k), g.reg()}})
		}
		if sync {
			items = append(items, Item{Op: "j", Args: []string{top}})
		} else {
			h := g.label()
			items = append(items, Item{Label: h}, Item{Op: "j", Args: []string{h}})
		}
		// alias labels: a second label directly in front of an existing one (both denote the same
		// instruction); about half of the jumps to the original are retargeted to the alias
		if rng.IntN(3) == 0 {
			var out []Item
			alias := map[string]string{}
			for _, it := range items {
				if it.Label != "" && it.Label != cp.Entry && rng.IntN(2) == 0 {
					a := g.label()
					alias[it.Label] = a
					out = append(out, Item{Label: a})
				}
				out = append(out, it)
			}
			for i := range out {
				if (out[i].Op == "j" || out[i].Op == "jz") && rng.IntN(2) == 0 {
					last := len(out[i].Args) - 1
					if a, ok := alias[out[i].Args[last]]; ok {
						args := append([]string(nil), out[i].Args...)
						args[last] = a
						out[i].Args = args
					}
				}
			}
			items = out
		}
		cp.Items = items
		p.CPs = append(p.CPs, cp)
		width = cp.NOut
	}
	return p
}

// ---- reference interpreter --------------------------------------------------------------

type cpState struct {
	code    []Item // macro-expanded, labels removed
	labels  map[string]int
	pc      int
	regs    []uint64
	data    []uint64
	symOff  map[string]int
	blocked bool
}

func parseLit(s string) (uint64, error) {
	switch {
	case strings.HasPrefix(s, "0x"):
		return strconv.ParseUint(s[2:], 16, 64)
	case strings.HasPrefix(s, "0b"):
		return strconv.ParseUint(s[2:], 2, 64)
	case strings.HasPrefix(s, "0d"), strings.HasPrefix(s, "0u"):
		return strconv.ParseUint(s[2:], 10, 64)
	}
	return strconv.ParseUint(s, 10, 64) // base 10 also for "017"
}

// Interpret runs the program on the given external input streams and returns the
// external output streams (sync) or the final output values (async, in Final).
// entryFirst=true reproduces "execution starts at the first instruction" instead of at the entry label.
type RefResult struct {
	Out     [][]uint64
	Final   []uint64
	Steps   int
	Invalid bool // the program read the ROM outside its data table: not a well-defined program
}

func (p *Program) Interpret(in [][]uint64, want, maxSteps int, ignoreEntry bool) RefResult {
	mask := uint64(1)<<uint(p.Rsize) - 1
	st := make([]*cpState, len(p.CPs))
	for ci, c := range p.CPs {
		img, off := c.dataImage()
		s := &cpState{labels: map[string]int{}, regs: make([]uint64, 16), data: img, symOff: off}
		for _, it := range c.Items {
			switch {
			case it.Label != "":
				s.labels[it.Label] = len(s.code)
			case it.Macro:
				s.code = append(s.code, p.Macros[it.Op]...)
			default:
				s.code = append(s.code, it)
			}
		}
		s.pc = s.labels[c.Entry]
		if ignoreEntry {
			s.pc = 0
		}
		st[ci] = s
	}
	// queues: q[c][k] feeds CP c input k
	q := make([][][]uint64, len(p.CPs)+1)
	for c := range p.CPs {
		q[c] = make([][]uint64, p.CPs[c].NIn)
	}
	q[len(p.CPs)] = make([][]uint64, p.ExtOut)
	for k := 0; k < p.ExtIn && k < len(q[0]); k++ {
		q[0][k] = append([]uint64(nil), in[k]...)
	}
	res := RefResult{Final: make([]uint64, p.ExtOut)}
	reg := func(s *cpState, a string) *uint64 { n, _ := strconv.Atoi(a[1:]); return &s.regs[n] }
	done := func() bool {
		for _, o := range q[len(p.CPs)] {
			if len(o) < want {
				return false
			}
		}
		return true
	}
	for res.Steps < maxSteps && !(p.Sync && done()) {
		progress := false
		for ci, s := range st {
			if s.pc >= len(s.code) {
				continue
			}
			it := s.code[s.pc]
			res.Steps++
			a := it.Args
			switch it.Op {
			case "mov", "rset":
				switch {
				case a[0][0] == 'o': // output
					k, _ := strconv.Atoi(a[0][1:])
					v := *reg(s, a[1])
					if p.Sync {
						q[ci+1][k] = append(q[ci+1][k], v)
					} else {
						res.Final[k] = v
					}
				case a[1][0] == 'i': // input (sync: blocking)
					k, _ := strconv.Atoi(a[1][1:])
					if len(q[ci][k]) == 0 {
						continue // blocked
					}
					*reg(s, a[0]) = q[ci][k][0]
					q[ci][k] = q[ci][k][1:]
				case a[1][0] == 'r' && !strings.HasPrefix(a[1], "rom:"):
					*reg(s, a[0]) = *reg(s, a[1])
				case strings.HasPrefix(a[1], "rom:"):
					*reg(s, a[0]) = uint64(len(s.code)+s.symOff[strings.TrimPrefix(a[1], "rom:")]) & mask
				default:
					v, _ := parseLit(a[1])
					*reg(s, a[0]) = v & mask
				}
			case "inc":
				*reg(s, a[0]) = (*reg(s, a[0]) + 1) & mask
			case "dec":
				*reg(s, a[0]) = (*reg(s, a[0]) - 1) & mask
			case "add", "addp":
				*reg(s, a[0]) = (*reg(s, a[0]) + *reg(s, a[1])) & mask
			case "mult", "multp":
				*reg(s, a[0]) = (*reg(s, a[0]) * *reg(s, a[1])) & mask
			case "clr":
				*reg(s, a[0]) = 0
			case "ro2rri":
				addr := int(*reg(s, a[1])) - len(s.code)
				if addr >= 0 && addr < len(s.data) {
					*reg(s, a[0]) = s.data[addr] & mask
				} else {
					res.Invalid = true
				}
			case "j":
				s.pc = s.labels[a[0]]
				progress = true
				continue
			case "jz":
				if *reg(s, a[0]) == 0 {
					s.pc = s.labels[a[1]]
					progress = true
					continue
				}
			}
			s.pc++
			progress = true
		}
		if !progress {
			break
		}
	}
	res.Out = q[len(p.CPs)]
	return res
}

// SelfLoops tells whether the (async) program has reached its final self-jump on every CP
// within the interpreter's step bound; used to decide that Final is meaningful.
func (p *Program) Describe() string {
	var parts []string
	for _, c := range p.CPs {
		parts = append(parts, fmt.Sprintf("%s:%d items,in=%d,out=%d,data=%d", c.Name, len(c.Items), c.NIn, c.NOut, len(c.vars())))
	}
	mode := "async"
	if p.Sync {
		mode = "sync"
	}
	return fmt.Sprintf("rsize=%d %s macros=%d extin=%d extout=%d [%s]", p.Rsize, mode, len(p.Macros), p.ExtIn, p.ExtOut, strings.Join(parts, " "))
}
