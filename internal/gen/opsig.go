package gen

import (
	"regexp"
	"strconv"
	"strings"

	"github.com/BondMachineHQ/BondMachine/pkg/procbuilder"
)

// Operand kinds of the low-level assembler, transcribed from the assembler
// documentation (Op_show_assembler strings, docs) and the operand order each
// opcode takes. This table is the /verif side's independent statement of what
// an instruction line looks like; field *widths* are the architecture's
// (R, Inputs_bits, Outputs_bits, Rsize, O, L, Shared_bits).
type Kind int

const (
	KReg     Kind = iota // rN, N < 2^R
	KIn                  // iN, N < arch.N
	KOut                 // oN, N < arch.M
	KImm                 // immediate, Rsize bits
	KImmS                // immediate, s bits (rsets<s>)
	KRomAddr             // ROM address, O bits
	KRamAddr             // RAM address, L bits
	KLoc                 // code location: width depends on the execution mode (see LocWidth)
	KSO                  // shared object instance <short>N, N < number attached
	KU8                  // 8-bit number
	KVmem                // video RAM address
)

type Field struct {
	K    Kind
	SO   string // for KSO: shared object name ("queue"), short name in Short
	Sh   string
	LocT string // for KLoc: "j" (ha:O vn:L hy:max), "jo" (ha:O vn:O hy:max), "rom" (O), "ram" (L)
}

var (
	fR   = Field{K: KReg}
	fIn  = Field{K: KIn}
	fOut = Field{K: KOut}
)

func so(name, short string) Field { return Field{K: KSO, SO: name, Sh: short} }
func loc(t string) Field          { return Field{K: KLoc, LocT: t} }

var staticSig = map[string][]Field{}

func init() {
	rr := []string{"adc", "add", "addf", "addf16", "and", "chc", "div", "divf", "divf16", "divp", "mod", "mulc", "mult", "multf", "multf16", "multp",
		"nand", "nor", "not", "or", "r2mri", "rsc", "sbc", "sub", "xnor", "xor", "addp", "cmprlt", "cpy", "cmpr", "ro2rri", "m2rri", "r2vri"}
	for _, n := range rr {
		staticSig[n] = []Field{fR, fR}
	}
	for _, n := range []string{"addi", "chw", "cil", "cilc", "cir", "cirn", "clr", "dec", "expf", "incc", "inc", "jcmpria", "jcmprio", "jri", "jria", "jrio"} {
		staticSig[n] = []Field{fR}
	}
	for _, n := range []string{"dpc", "hit", "je", "r2s", "s2r", "clc", "cset", "hlt", "nop"} {
		staticSig[n] = []Field{}
	}
	for _, n := range []string{"r2o", "r2owa", "r2owaa"} {
		staticSig[n] = []Field{fR, fOut}
	}
	for _, n := range []string{"i2r", "sic", "i2rw", "sicv3"} {
		staticSig[n] = []Field{fR, fIn}
	}
	staticSig["sicv2"] = []Field{fR, fIn, fIn}
	staticSig["cmpv"] = []Field{fIn}
	for _, n := range []string{"j", "saj", "ja", "jcmpa", "jcmpl"} {
		staticSig[n] = []Field{loc("j")}
	}
	staticSig["jo"] = []Field{loc("jo")}
	staticSig["jcmpo"] = []Field{loc("jo")} // the ROM-jump family keeps O bits in vn mode
	staticSig["jc"] = []Field{loc("rom")}
	for _, n := range []string{"jgt0f", "jz", "ro2r"} {
		staticSig[n] = []Field{fR, {K: KRomAddr}}
	}
	for _, n := range []string{"m2r", "r2m"} {
		staticSig[n] = []Field{fR, {K: KRamAddr}}
	}
	staticSig["rset"] = []Field{fR, {K: KImm}}
	staticSig["q2r"] = []Field{fR, so("queue", "q")}
	staticSig["r2q"] = []Field{fR, so("queue", "q")}
	staticSig["r2t"] = []Field{fR, so("stack", "st")}
	staticSig["t2r"] = []Field{fR, so("stack", "st")}
	staticSig["r2u"] = []Field{fR, so("uart", "u")}
	staticSig["u2r"] = []Field{fR, so("uart", "u")}
	staticSig["wrd"] = []Field{fR, so("channel", "ch")}
	staticSig["wwr"] = []Field{fR, so("channel", "ch")}
	staticSig["k2r"] = []Field{fR, so("kbd", "k")}
	staticSig["lfsr82r"] = []Field{fR, so("lfsr8", "lfsr8")}
	staticSig["r2v"] = []Field{fR, {K: KVmem}}
	staticSig["tsp"] = []Field{fR, loc("j"), {K: KU8}}
}

var (
	reRsets = regexp.MustCompile(`^rsets([0-9]+)$`)
	reArith = regexp.MustCompile(`^(add|mult|div)(fps|fxps|lqs|flpe)[0-9]+[ft][0-9]+$`)
	reCallO = regexp.MustCompile(`^callo[0-9]+[a-zA-Z_]+$`)
	reCallA = regexp.MustCompile(`^calla[0-9]+[a-zA-Z_]+$`)
	reRet   = regexp.MustCompile(`^ret[0-9]+[a-zA-Z_]+$`)
	rePush  = regexp.MustCompile(`^(push|pull)[0-9]+[a-zA-Z_]+$`)
)

// Sig returns the operand signature of an opcode name.
func Sig(name string) ([]Field, bool) {
	if s, ok := staticSig[name]; ok {
		return s, true
	}
	switch {
	case reRsets.MatchString(name):
		return []Field{fR, {K: KImmS}}, true
	case reArith.MatchString(name):
		return []Field{fR, fR}, true
	case reCallO.MatchString(name):
		return []Field{loc("rom")}, true
	case reCallA.MatchString(name):
		return []Field{loc("ram")}, true
	case reRet.MatchString(name):
		return []Field{}, true
	case rePush.MatchString(name):
		return []Field{fR}, true
	}
	return nil, false
}

// LocWidth gives the bit width of a code location for the arch's mode.
func LocWidth(a *procbuilder.Arch, t string) int {
	o, l := int(a.O), int(a.L)
	mx := o
	if l > mx {
		mx = l
	}
	switch t {
	case "rom":
		return o
	case "ram":
		return l
	case "jo":
		switch a.Modes[0] {
		case "hy":
			return mx
		}
		return o
	}
	switch a.Modes[0] {
	case "vn":
		return l
	case "hy":
		return mx
	}
	return o
}

// Width of a field in bits and the number of legal values (count; 0 = 2^width).
func FieldWidth(a *procbuilder.Arch, opname string, f Field) (bits int, count uint64) {
	switch f.K {
	case KReg:
		return int(a.R), 1 << a.R
	case KIn:
		return a.Inputs_bits(), uint64(a.N)
	case KOut:
		return a.Outputs_bits(), uint64(a.M)
	case KImm:
		return int(a.Rsize), 0
	case KImmS:
		s, _ := strconv.Atoi(reRsets.FindStringSubmatch(opname)[1])
		return s, 0
	case KRomAddr:
		return int(a.O), 0
	case KRamAddr:
		return int(a.L), 0
	case KLoc:
		return LocWidth(a, f.LocT), 0
	case KSO:
		return a.Shared_bits(f.SO), uint64(a.Shared_num(f.SO))
	case KU8:
		return 8, 0
	case KVmem:
		return 8, 0
	}
	return 0, 0
}

// Operand renders value v of field f as assembler text (decimal numbers).
func Operand(f Field, v uint64) string {
	switch f.K {
	case KReg:
		return "r" + strconv.FormatUint(v, 10)
	case KIn:
		return "i" + strconv.FormatUint(v, 10)
	case KOut:
		return "o" + strconv.FormatUint(v, 10)
	case KSO:
		return f.Sh + strconv.FormatUint(v, 10)
	}
	return strconv.FormatUint(v, 10)
}

// IsNumeric tells whether the field is written as a number literal.
func (f Field) IsNumeric() bool {
	switch f.K {
	case KImm, KImmS, KRomAddr, KRamAddr, KLoc, KU8, KVmem:
		return true
	}
	return false
}

// SharedConstraintsFor builds a Shared_constraints string with cnt instances of
// every shared object the given opcodes address.
func SharedConstraintsFor(ops []string, cnt int) string {
	need := map[string]bool{}
	for _, o := range ops {
		if s, ok := Sig(o); ok {
			for _, f := range s {
				if f.K == KSO {
					need[f.SO] = true
				}
			}
		}
		if o == "hit" {
			need["barrier"] = true
		}
		if o == "r2s" || o == "s2r" {
			need["sharedmem"] = true
		}
		if o == "r2v" || o == "r2vri" {
			need["vtextmem"] = true
		}
		if o == "chc" || o == "chw" {
			need["channel"] = true
		}
	}
	inst := map[string]string{"queue": "queue:4", "stack": "stack:4", "uart": "uart:9600:4", "channel": "channel:", "kbd": "kbd:k", "lfsr8": "lfsr8:1",
		"barrier": "barrier:10", "sharedmem": "sharedmem:4", "vtextmem": "vtextmem:0:3:3:16:16"}
	var parts []string
	for _, n := range []string{"barrier", "channel", "kbd", "lfsr8", "queue", "sharedmem", "stack", "uart", "vtextmem"} {
		if need[n] {
			for i := 0; i < cnt; i++ {
				parts = append(parts, inst[n])
			}
		}
	}
	return strings.Join(parts, ",")
}
