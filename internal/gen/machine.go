// Package gen holds the seeded generators used by the /verif checks.
package gen

import (
	"fmt"
	"os"
	"path/filepath"
	"sort"
	"strings"

	"github.com/BondMachineHQ/BondMachine/pkg/bmnumbers"
	"github.com/BondMachineHQ/BondMachine/pkg/bondmachine"
	"github.com/BondMachineHQ/BondMachine/pkg/procbuilder"
)

// OpByName returns the process-wide opcode object called name, creating a
// dynamical one if needed. nil if unknown.
func OpByName(name string) procbuilder.Opcode {
	procbuilder.EventuallyCreateInstruction(name)
	for _, op := range procbuilder.Allopcodes {
		if op.Op_get_name() == name {
			return op
		}
	}
	return nil
}

// NewMachine builds a single-processor machine with the given opcode names
// (sorted by name, as every producer in the repository does).
func NewMachine(rsize, r, n, m, l, o uint8, mode string, ops []string) (*procbuilder.Machine, error) {
	mach := new(procbuilder.Machine)
	a := &mach.Arch
	a.Modes = []string{mode}
	a.Rsize = rsize
	a.R, a.N, a.M, a.L, a.O = r, n, m, l, o
	seen := map[string]bool{}
	list := make([]procbuilder.Opcode, 0, len(ops))
	for _, nm := range ops {
		if seen[nm] {
			continue
		}
		seen[nm] = true
		op := OpByName(nm)
		if op == nil {
			return nil, fmt.Errorf("unknown opcode %q", nm)
		}
		list = append(list, op)
	}
	sort.Sort(procbuilder.ByName(list))
	a.Op = list
	return mach, nil
}

// Assemble assembles the low-level program text into mach.
func Assemble(mach *procbuilder.Machine, prog []string) error {
	src := strings.Join(prog, "\n") + "\n"
	p, err := mach.Arch.Assembler([]byte(src))
	if err != nil {
		return err
	}
	mach.Program = p
	return nil
}

// NewBM wraps machines into a Bondmachine with one processor per domain and
// the given external IO counts; bonds are "endpointA,endpointB" strings.
func NewBM(rsize uint8, machs []*procbuilder.Machine, inputs, outputs int, bonds [][2]string) *bondmachine.Bondmachine {
	return NewBMOrder(rsize, machs, inputs, outputs, bonds, 0)
}

// NewBMOrder is NewBM with the build steps interleaved: order = 0 adds all external inputs, then all
// external outputs, then the processors (what every front end does); any other value seeds a shuffle
// of those steps (each kind keeps its own order, so endpoint names are the same), which interleaves
// external and processor endpoints in Internal_inputs / Internal_outputs.
func NewBMOrder(rsize uint8, machs []*procbuilder.Machine, inputs, outputs int, bonds [][2]string, order uint64) *bondmachine.Bondmachine {
	bm := new(bondmachine.Bondmachine)
	bm.Rsize = rsize
	bm.Init()
	for _, m := range machs {
		bm.Domains = append(bm.Domains, m)
	}
	steps := make([]byte, 0, inputs+outputs+len(machs))
	for i := 0; i < inputs; i++ {
		steps = append(steps, 'i')
	}
	for i := 0; i < outputs; i++ {
		steps = append(steps, 'o')
	}
	for range machs {
		steps = append(steps, 'p')
	}
	if order != 0 {
		x := order
		for i := len(steps) - 1; i > 0; i-- {
			x = x*6364136223846793005 + 1442695040888963407
			j := int((x >> 33) % uint64(i+1))
			steps[i], steps[j] = steps[j], steps[i]
		}
	}
	np := 0
	for _, st := range steps {
		switch st {
		case 'i':
			bm.Add_input()
		case 'o':
			bm.Add_output()
		default:
			bm.Add_processor(np)
			np++
		}
	}
	for _, b := range bonds {
		bm.Add_bond([]string{b[0], b[1]})
	}
	return bm
}

// EnableLinearQuantizer registers linear-quantizer data range number 1 (as the tools do with
// -linear-data-range 1,<file>) and hands the range table to the opcode factory, so that
// addlqs<s>t1 / multlqs<s>t1 / divlqs<s>t1 can be created. dir is a scratch directory.
func EnableLinearQuantizer(dir string) error {
	rf := filepath.Join(dir, "lqrange.txt")
	if err := os.WriteFile(rf, []byte("0.5\n-3.0\n2.25\n"), 0o644); err != nil {
		return err
	}
	if err := bmnumbers.LoadLinearDataRangesFromFile("1," + rf); err != nil {
		return err
	}
	var lqRanges *map[int]bmnumbers.LinearDataRange
	for _, t := range bmnumbers.AllDynamicalTypes {
		if t.GetName() == "dyn_linear_quantizer" {
			lqRanges = t.(bmnumbers.DynLinearQuantizer).Ranges
		}
	}
	for i, t := range procbuilder.AllDynamicalInstructions {
		if t.GetName() == "dyn_linear_quantizer" {
			dynIst := t.(procbuilder.DynLinearQuantizer)
			dynIst.Ranges = lqRanges
			procbuilder.AllDynamicalInstructions[i] = dynIst
		}
	}
	return nil
}
