package gen

import (
	"fmt"
	"math/rand/v2"
	"sort"
	"strconv"
	"strings"

	"github.com/BondMachineHQ/BondMachine/pkg/bondmachine"
	"github.com/BondMachineHQ/BondMachine/pkg/procbuilder"
)

// ProcSpec is one processor of a handshake-only dataflow machine: it reads every
// input with i2rw, runs a straight-line body, writes every output with r2owa and
// jumps back.
type ProcSpec struct {
	NIn, NOut int
	R         uint8    // register bits
	Body      []string // arithmetic lines over r0..r(2^R-1)
	OutRegs   []int    // register written to output j
	PadIn     int      // nop-like padding (cpy rX rX) before each i2rw
	PadOut    int      // padding before each r2owa
	DoubleIn  bool     // read the first input twice in a row (back-to-back i2rw)
	InRegs    []int    // register that receives input j (default: register j); repeats allowed
	Prog      []string // the assembled-from text (filled by Build)
	// Rom: data words placed in the ROM after the program (Machine.Data.Vars); a body line may name
	// the address of word k as @romK (what ro2rri reads through a register)
	Rom []uint64 `json:",omitempty"`
}

// NetSpec is a whole machine: processors, external IO and bonds.
type NetSpec struct {
	Rsize   uint8
	Procs   []ProcSpec
	Inputs  int
	Outputs int
	Bonds   [][2]string // {internal input endpoint, internal output endpoint}
	Family  string
	// SharedDomain: all processors are instances of ONE domain (one *procbuilder.Machine object,
	// Processors = [0,0,...]), as a machine built from one CP definition instantiated several times;
	// the specs of all processors must be equal (Procs[0] is the one that is built)
	SharedDomain bool `json:",omitempty"`
	// BuildOrder != 0: the machine is built with external inputs, external outputs and processors
	// added in a shuffled order (see NewBMOrder)
	BuildOrder uint64 `json:",omitempty"`
}

func (n NetSpec) String() string {
	var p []string
	for i, ps := range n.Procs {
		rom := ""
		if len(ps.Rom) > 0 {
			rom = fmt.Sprintf(" rom=%v", ps.Rom)
		}
		p = append(p, fmt.Sprintf("p%d{%s%s}", i, strings.Join(ps.Prog, "; "), rom))
	}
	b := []string{}
	for _, x := range n.Bonds {
		b = append(b, x[1]+"->"+x[0])
	}
	sort.Strings(b)
	order := ""
	if n.SharedDomain {
		order = " one-domain"
	}
	if n.BuildOrder != 0 {
		order += fmt.Sprintf(" build-order=%d", n.BuildOrder)
	}
	return fmt.Sprintf("%s rsize=%d in=%d out=%d%s %s bonds[%s]", n.Family, n.Rsize, n.Inputs, n.Outputs, order, strings.Join(p, " "), strings.Join(b, " "))
}

func (ps *ProcSpec) program() ([]string, []string) {
	ops := map[string]bool{"j": true}
	var prog []string
	pad := func(n int) {
		for i := 0; i < n; i++ {
			prog = append(prog, "cpy r0 r0")
			ops["cpy"] = true
		}
	}
	for j := 0; j < ps.NIn; j++ {
		pad(ps.PadIn)
		reg := j % (1 << ps.R)
		if j < len(ps.InRegs) {
			reg = ps.InRegs[j] % (1 << ps.R)
		}
		prog = append(prog, fmt.Sprintf("i2rw r%d i%d", reg, j))
		ops["i2rw"] = true
		if j == 0 && ps.DoubleIn {
			prog = append(prog, fmt.Sprintf("i2rw r%d i%d", (j+1)%(1<<ps.R), j))
		}
	}
	for _, l := range ps.Body {
		prog = append(prog, l)
		ops[strings.Fields(l)[0]] = true
	}
	for j := 0; j < ps.NOut; j++ {
		pad(ps.PadOut)
		r := 0
		if j < len(ps.OutRegs) {
			r = ps.OutRegs[j]
		}
		prog = append(prog, fmt.Sprintf("r2owa r%d o%d", r, j))
		ops["r2owa"] = true
	}
	prog = append(prog, "j 0")
	for i, l := range prog {
		if k := strings.Index(l, "@rom"); k >= 0 {
			w, _ := strconv.Atoi(l[k+4:])
			prog[i] = l[:k] + strconv.Itoa(len(prog)+w)
		}
	}
	var names []string
	for o := range ops {
		names = append(names, o)
	}
	sort.Strings(names)
	return prog, names
}

// Build turns the spec into a Bondmachine.
func (n *NetSpec) Build() (*bondmachine.Bondmachine, error) {
	var machs []*procbuilder.Machine
	for i := range n.Procs {
		ps := &n.Procs[i]
		prog, ops := ps.program()
		ps.Prog = prog
		o := uint8(procbuilder.Needed_bits(len(prog)))
		if o == 0 {
			o = 1
		}
		m, err := NewMachine(n.Rsize, ps.R, uint8(ps.NIn), uint8(ps.NOut), 0, o, "ha", ops)
		if err != nil {
			return nil, err
		}
		if err := Assemble(m, prog); err != nil {
			return nil, fmt.Errorf("p%d: %v", i, err)
		}
		if len(ps.Rom) > 0 && len(m.Program.Slocs) > 0 {
			w := len(m.Program.Slocs[0])
			for _, v := range ps.Rom {
				b := strconv.FormatUint(v, 2)
				if len(b) > w {
					b = b[len(b)-w:]
				}
				m.Data.Vars = append(m.Data.Vars, strings.Repeat("0", w-len(b))+b)
			}
		}
		if n.SharedDomain && i > 0 {
			m = machs[0]
		}
		machs = append(machs, m)
	}
	bm := NewBMOrder(n.Rsize, machs, n.Inputs, n.Outputs, n.Bonds, n.BuildOrder)
	if n.SharedDomain {
		bm.Domains = bm.Domains[:1]
		for i := range bm.Processors {
			bm.Processors[i] = 0
		}
	}
	return bm, nil
}

var arithPool = []string{"add", "mult", "inc", "dec", "cpy", "addp", "multp"}

func randBody(rng *rand.Rand, r uint8, pool []string, n int) []string {
	var b []string
	regs := 1 << r
	for i := 0; i < n; i++ {
		op := pool[rng.IntN(len(pool))]
		switch op {
		case "inc", "dec", "clr":
			b = append(b, fmt.Sprintf("%s r%d", op, rng.IntN(regs)))
		default:
			b = append(b, fmt.Sprintf("%s r%d r%d", op, rng.IntN(regs), rng.IntN(regs)))
		}
	}
	return b
}

// RandomNet generates a random dataflow machine: a DAG of 1..maxP processors,
// external inputs feeding processor inputs, every external output fed by a
// processor output, fan-out allowed. pool selects the arithmetic opcodes.
func RandomNet(rng *rand.Rand, maxP int, pool []string) NetSpec {
	if pool == nil {
		pool = []string{"add", "mult", "inc", "dec", "cpy"}
	}
	n := NetSpec{Rsize: []uint8{8, 16, 32}[rng.IntN(3)], Family: "random-dag"}
	np := 1 + rng.IntN(maxP)
	n.Inputs = 1 + rng.IntN(3)
	// available producers: external inputs, then outputs of earlier processors
	var producers []string
	for i := 0; i < n.Inputs; i++ {
		producers = append(producers, fmt.Sprintf("i%d", i))
	}
	var procOuts []string
	for p := 0; p < np; p++ {
		ps := ProcSpec{R: 2, NIn: 1 + rng.IntN(2), NOut: 1 + rng.IntN(2), PadIn: rng.IntN(3), PadOut: rng.IntN(3)}
		if ps.NIn > 1 && rng.IntN(3) == 0 {
			// inputs land in arbitrary registers, possibly the same one, with no padding in between
			for j := 0; j < ps.NIn; j++ {
				ps.InRegs = append(ps.InRegs, rng.IntN(2))
			}
			ps.PadIn = 0
		}
		ps.Body = randBody(rng, ps.R, pool, rng.IntN(4))
		for j := 0; j < ps.NOut; j++ {
			ps.OutRegs = append(ps.OutRegs, rng.IntN(1<<ps.R))
		}
		for j := 0; j < ps.NIn; j++ {
			src := producers[rng.IntN(len(producers))]
			n.Bonds = append(n.Bonds, [2]string{fmt.Sprintf("p%di%d", p, j), src})
		}
		for j := 0; j < ps.NOut; j++ {
			o := fmt.Sprintf("p%do%d", p, j)
			producers = append(producers, o)
			procOuts = append(procOuts, o)
		}
		n.Procs = append(n.Procs, ps)
	}
	// every processor output must have a consumer, otherwise r2owa blocks forever: attach
	// unconsumed ones to fresh external outputs; plus a few extra taps (fan-out to the outside)
	used := map[string]bool{}
	for _, b := range n.Bonds {
		used[b[1]] = true
	}
	for _, o := range procOuts {
		if !used[o] || rng.IntN(4) == 0 {
			n.Bonds = append(n.Bonds, [2]string{fmt.Sprintf("o%d", n.Outputs), o})
			n.Outputs++
		}
	}
	// an external input nobody reads is legal; keep it
	return n
}

// Chain builds i0 -> p0 -> ... -> p(k-1) -> o0 where every stage applies body.
func Chain(k int, rsize uint8, body []string, padIn, padOut int) NetSpec {
	n := NetSpec{Rsize: rsize, Inputs: 1, Outputs: 1, Family: fmt.Sprintf("chain%d", k)}
	for p := 0; p < k; p++ {
		n.Procs = append(n.Procs, ProcSpec{R: 2, NIn: 1, NOut: 1, Body: body, OutRegs: []int{0}, PadIn: padIn, PadOut: padOut})
		if p == 0 {
			n.Bonds = append(n.Bonds, [2]string{"p0i0", "i0"})
		} else {
			n.Bonds = append(n.Bonds, [2]string{fmt.Sprintf("p%di0", p), fmt.Sprintf("p%do0", p-1)})
		}
	}
	n.Bonds = append(n.Bonds, [2]string{"o0", fmt.Sprintf("p%do0", k-1)})
	return n
}

// FanOut builds i0 -> p0 -> {p1..pk} -> o0..o(k-1): one producer, k consumers.
func FanOut(k int, rsize uint8, padP int, padC []int, doubleIn bool) NetSpec {
	n := NetSpec{Rsize: rsize, Inputs: 1, Outputs: k, Family: fmt.Sprintf("fanout%d", k)}
	n.Procs = append(n.Procs, ProcSpec{R: 2, NIn: 1, NOut: 1, OutRegs: []int{0}, PadOut: padP})
	n.Bonds = append(n.Bonds, [2]string{"p0i0", "i0"})
	for c := 1; c <= k; c++ {
		pc := 0
		if c-1 < len(padC) {
			pc = padC[c-1]
		}
		n.Procs = append(n.Procs, ProcSpec{R: 2, NIn: 1, NOut: 1, OutRegs: []int{0}, PadIn: pc, DoubleIn: doubleIn && c == 1})
		n.Bonds = append(n.Bonds, [2]string{fmt.Sprintf("p%di0", c), "p0o0"})
		n.Bonds = append(n.Bonds, [2]string{fmt.Sprintf("o%d", c-1), fmt.Sprintf("p%do0", c)})
	}
	return n
}

// Crossbar builds one processor with n inputs and n outputs (i_j -> p0i_j, p0o_j -> o_j) that
// copies input j to output perm[j]: with n >= 11 every endpoint list contains two-digit indices
// (p0i10, o11 ...), which any name-ordered or string-compared handling gets wrong.
func Crossbar(n int, rsize uint8, perm []int) NetSpec {
	ns := NetSpec{Rsize: rsize, Inputs: n, Outputs: n, Family: fmt.Sprintf("crossbar%d", n)}
	ps := ProcSpec{R: uint8(procbuilder.Needed_bits(n)), NIn: n, NOut: n}
	for j := 0; j < n; j++ {
		ps.InRegs = append(ps.InRegs, j)
	}
	ps.OutRegs = make([]int, n)
	for j := 0; j < n; j++ {
		o := j
		if j < len(perm) {
			o = perm[j]
		}
		ps.OutRegs[o] = j
	}
	ns.Procs = append(ns.Procs, ps)
	for j := 0; j < n; j++ {
		ns.Bonds = append(ns.Bonds, [2]string{fmt.Sprintf("p0i%d", j), fmt.Sprintf("i%d", j)})
		ns.Bonds = append(ns.Bonds, [2]string{fmt.Sprintf("o%d", j), fmt.Sprintf("p0o%d", j)})
	}
	return ns
}

// RandomNetIO is RandomNet plus bonds that involve no processor port on one or both ends: an
// external input wired straight to a fresh external output (pass-through), and an external input
// that already feeds a processor tapped to a fresh external output.
func RandomNetIO(rng *rand.Rand, maxP int, pool []string) NetSpec {
	n := RandomNet(rng, maxP, pool)
	n.Family = "random-dag-io"
	if rng.IntN(2) == 0 {
		// pass-through on a fresh input
		n.Bonds = append(n.Bonds, [2]string{fmt.Sprintf("o%d", n.Outputs), fmt.Sprintf("i%d", n.Inputs)})
		n.Inputs++
		n.Outputs++
	}
	if rng.IntN(3) == 0 && n.Inputs > 0 {
		// tap an input (whoever else reads it)
		n.Bonds = append(n.Bonds, [2]string{fmt.Sprintf("o%d", n.Outputs), fmt.Sprintf("i%d", rng.IntN(n.Inputs))})
		n.Outputs++
	}
	return n
}
