package gen

import (
	"regexp"
	"strconv"
)

var reArithParts = regexp.MustCompile(`^(add|mult|div)(fps|fxps|lqs|flpe)([0-9]+)[ft]([0-9]+)$`)

// Co-implementation table for C01/C02: for which (opcode, register size) both
// back ends — the Verilog templates and Opcode.Simulate — implement the
// operation that Op_get_desc describes. Derived by READING the Simulate bodies
// (never from observed agreement). A disagreement inside a claimed cell is a
// finding; excluded cells are listed in the evidence with their reason.

// Claimed returns whether (op, rsize) is claimed, and if not, why.
func Claimed(op string, rsize uint8) (bool, string) {
	all := map[string]bool{"add": true, "addp": true, "clr": true, "cpy": true, "dec": true, "div": true, "divp": true, "inc": true,
		"i2r": true, "i2rw": true, "j": true, "jz": true, "mult": true, "multp": true, "nop": true, "r2o": true, "r2owa": true, "rset": true,
		"cir": true, "mulc": true, "ro2rri": true}
	small := map[string]bool{"and": true, "or": true, "xor": true, "not": true, "nand": true, "nor": true, "xnor": true, "mod": true, "cil": true, "cirn": true}
	if all[op] {
		return true, ""
	}
	if small[op] {
		if rsize == 8 || rsize == 16 {
			return true, ""
		}
		return false, "Simulate has only 8/16-bit branches ('default: // TODO Fix' does nothing)"
	}
	if reRsets.MatchString(op) {
		return true, ""
	}
	if m := reArithParts.FindStringSubmatch(op); m != nil {
		// two-step signed arithmetic on the register's bit pattern: claimed where the type's word size
		// is the register size (FloPoCo wrappers need an external tool and are never claimed)
		if s, _ := strconv.Atoi(m[3]); m[2] != "flpe" && s == int(rsize) {
			return true, ""
		}
		return false, "dynamic arithmetic family: word size differs from the register size, or external IP"
	}
	switch op {
	case "adc", "sbc", "incc", "cilc", "rsc", "clc", "cset", "jc":
		return false, "the simulator has no carry flag (HDL-only state)"
	case "sic", "sicv2", "sicv3":
		return false, "timing instrument: the result is a cycle count"
	case "addf", "multf", "divf", "jgt0f":
		if rsize == 32 {
			return true, ""
		}
		return false, "32-bit floating point unit on another register size"
	case "addf16", "multf16", "divf16":
		if rsize == 16 {
			return true, ""
		}
		return false, "16-bit floating point unit on another register size"
	case "ja", "jo", "m2rri", "m2r", "r2m", "r2mri":
		return false, "RAM / execution-mode dependent; the simulator executes ROM code only"
	case "r2owaa", "addi":
		return false, "not yet driven by this check"
	}
	return false, "Simulate is a stub (only advances the pc or does nothing) or drives a shared object"
}
