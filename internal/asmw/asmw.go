// Package asmw assembles BASM sources and simulates the result in worker
// processes (a fresh process history per option set, parallel, crash-safe).
package asmw

import (
	"encoding/json"
	"fmt"
	"os"
	"path/filepath"
	"sort"
	"strings"

	"verif/internal/basmrun"
	"verif/internal/hx"
	"verif/internal/simdrv"
)

// Req is one job.
type Req struct {
	Src      string     `json:"src"`
	Opt      string     `json:"opt"` // "nodyn" | "minword" | "plain"
	In       [][]uint64 `json:"in"`
	Want     int        `json:"want"`
	MaxTicks int        `json:"max_ticks"`
	NoSim    bool       `json:"no_sim"`
	WantJSON bool       `json:"want_json"`
}

// Resp is its result.
type Resp struct {
	Err    string     `json:"err"`   // assembly error ("" if a machine was produced)
	Panic  bool       `json:"panic"` // the error was a panic inside the assembler
	SimErr string     `json:"sim_err"`
	Out    [][]uint64 `json:"out"`
	Ticks  int        `json:"ticks"`
	JSON   string     `json:"json"` // machine JSON (Jsoner) if requested
	Reqs   string     `json:"reqs"` // requirement tree (bmreqs.ExportedReqs as JSON) if JSON was requested
	Crash  bool       `json:"crash"`
	IOSeq  [][]string `json:"io_seq"` // per processor: its handshake instructions in program order ("i0", "o1", ...)
	Bonds  []string   `json:"bonds"`  // "producer,consumer" endpoint names
}

func options(o string) basmrun.Options {
	switch o {
	case "minword":
		return basmrun.Options{ChooserMinWordSize: true}
	case "nodyn":
		return basmrun.Options{DisableDynamicalMatching: true}
	}
	return basmrun.Options{}
}

// ServeIfWorker must be called first thing in main: in a worker process it serves and exits.
func ServeIfWorker() {
	if os.Getenv("VERIF_WORKER") != "1" {
		return
	}
	hx.Serve(func(b []byte) any {
		var r Req
		if err := json.Unmarshal(b, &r); err != nil {
			return Resp{Err: "bad request"}
		}
		return Do(r)
	})
	os.Exit(0)
}

// Do runs one job in this process.
func Do(r Req) Resp {
	var out Resp
	res, err := basmrun.Assemble(r.Src, options(r.Opt))
	if err != nil {
		out.Err = err.Error()
		out.Panic = len(out.Err) > 6 && out.Err[:6] == "panic:"
		return out
	}
	if r.WantJSON {
		b, _ := json.Marshal(res.BM.Jsoner())
		out.JSON = string(b)
		rb, _ := json.Marshal(res.Reqs)
		out.Reqs = string(rb)
	}
	for _, dom := range res.BM.Processors {
		d := res.BM.Domains[dom]
		var seq []string
		if dis, err := d.Disassembler(); err == nil {
			for _, l := range strings.Split(dis, "\n") {
				f := strings.Fields(l)
				if len(f) == 3 && (f[0] == "i2rw" || f[0] == "r2owa") {
					seq = append(seq, f[2])
				}
			}
		}
		out.IOSeq = append(out.IOSeq, seq)
	}
	for _, b := range res.BM.List_bonds() {
		out.Bonds = append(out.Bonds, b)
	}
	sort.Strings(out.Bonds)
	if r.NoSim {
		return out
	}
	sr, err := simdrv.Run(res.BM, simdrv.Env{In: r.In}, r.Want, r.MaxTicks, false)
	if err != nil {
		out.SimErr = err.Error()
	}
	if sr != nil {
		out.Out = sr.Out
		out.Ticks = sr.Ticks
	}
	return out
}

// Pools hands out workers per option set.
type Pools struct {
	scratch string
	m       map[string]*hx.Pool
}

func NewPools(scratch string) *Pools {
	p := &Pools{scratch: scratch, m: map[string]*hx.Pool{}}
	for _, o := range []string{"nodyn", "minword", "plain"} {
		o := o
		p.m[o] = hx.NewPool(func(i int) *hx.Worker {
			return hx.NewWorker(filepath.Join(scratch, fmt.Sprintf("asmw-%s-%d.log", o, i)), "worker")
		})
	}
	return p
}

// Call runs the job in a worker of the job's option set.
func (p *Pools) Call(r Req) Resp {
	pool := p.m[r.Opt]
	if pool == nil {
		pool = p.m["plain"]
	}
	w := pool.Get()
	defer pool.Put(w)
	var out Resp
	if err := w.Call(r, &out); err != nil {
		return Resp{Crash: true, Err: "worker crashed: " + err.Error()}
	}
	return out
}

func (p *Pools) Close() {
	for _, pl := range p.m {
		pl.Close()
	}
}
