// Package procsim runs one processor on both back ends — the generated Verilog
// (arch + processor + ROM + RAM) under vsim and procbuilder.VM — under the same
// protocol environment, and records the architectural state at every
// instruction-retire point.
package procsim

import (
	"fmt"

	"github.com/BondMachineHQ/BondMachine/pkg/procbuilder"
	"verif/internal/vsim"
)

// Env: what the outside world does (identical contract on both sides; cycle
// counts are per side).
type Env struct {
	Const    []uint64   // value held on input k when it has no stream (read by i2r)
	Streams  [][]uint64 // handshaked stream offered on input k (nil: constant input)
	Gap      []int      // idle cycles between two transfers on input k
	AckDelay []int      // cycles between valid and received on output k (≥1)
}

// Snap is the architectural state at a retire point.
type Snap struct {
	Pc       uint64
	Regs     []uint64
	Out      []uint64 // output registers
	Consumed []int    // values taken so far from each input stream
	Sent     [][]uint64
	Undef    bool // HDL side: an architectural location read as undefined
}

type side interface {
	setIn(k int, v uint64, valid bool)
	inRecv(k int) bool
	out(k int) (uint64, bool)
	setOutRecv(k int, b bool)
	step() (retired bool, err error)
	snap() Snap
}

type inSt struct{ phase, next, gap int }
type outSt struct {
	seen int
	high bool
}

type driver struct {
	s    side
	env  Env
	nIn  int
	nOut int
	ins  []inSt
	outs []outSt
	sent [][]uint64
}

func newDriver(s side, env Env, nIn, nOut int) *driver {
	d := &driver{s: s, env: env, nIn: nIn, nOut: nOut, ins: make([]inSt, nIn), outs: make([]outSt, nOut), sent: make([][]uint64, nOut)}
	for k := 0; k < nIn; k++ {
		if d.stream(k) == nil {
			c := uint64(0)
			if k < len(env.Const) {
				c = env.Const[k]
			}
			s.setIn(k, c, false)
		}
	}
	return d
}

func (d *driver) stream(k int) []uint64 {
	if k < len(d.env.Streams) {
		return d.env.Streams[k]
	}
	return nil
}

// cycle: environment acts, the side steps once, environment observes outputs.
func (d *driver) cycle() (bool, error) {
	for k := 0; k < d.nIn; k++ {
		st := d.stream(k)
		if st == nil {
			continue
		}
		s := &d.ins[k]
		switch s.phase {
		case 0:
			if s.gap > 0 {
				s.gap--
			} else if s.next < len(st) {
				d.s.setIn(k, st[s.next], true)
				s.phase = 1
			}
		case 1:
			if d.s.inRecv(k) {
				d.s.setIn(k, st[s.next], false)
				s.next++
				s.phase = 2
			}
		case 2:
			if !d.s.inRecv(k) {
				s.phase = 0
				if k < len(d.env.Gap) {
					s.gap = d.env.Gap[k]
				}
			}
		}
	}
	ret, err := d.s.step()
	if err != nil {
		return false, err
	}
	for k := 0; k < d.nOut; k++ {
		o := &d.outs[k]
		v, valid := d.s.out(k)
		ack := 1
		if k < len(d.env.AckDelay) && d.env.AckDelay[k] > 1 {
			ack = d.env.AckDelay[k]
		}
		if valid {
			if !o.high {
				o.seen++
				if o.seen >= ack {
					d.s.setOutRecv(k, true)
					o.high = true
					d.sent[k] = append(d.sent[k], v)
				}
			}
		} else {
			o.seen = 0
			if o.high {
				d.s.setOutRecv(k, false)
				o.high = false
			}
		}
	}
	return ret, nil
}

func (d *driver) snap() Snap {
	s := d.s.snap()
	s.Consumed = make([]int, d.nIn)
	for k := range d.ins {
		s.Consumed[k] = d.ins[k].next
	}
	s.Sent = make([][]uint64, d.nOut)
	for k := range d.sent {
		s.Sent[k] = append([]uint64(nil), d.sent[k]...)
	}
	return s
}

// ---- Go simulator side -------------------------------------------------------------

type goSide struct {
	vm    *procbuilder.VM
	rsize uint8
}

func toU64(v interface{}) uint64 {
	switch x := v.(type) {
	case uint8:
		return uint64(x)
	case uint16:
		return uint64(x)
	case uint32:
		return uint64(x)
	case uint64:
		return x
	}
	return 0
}

func fromU64(rsize uint8, v uint64) interface{} {
	switch {
	case rsize <= 8:
		return uint8(v)
	case rsize <= 16:
		return uint16(v)
	case rsize <= 32:
		return uint32(v)
	}
	return v
}

func (g *goSide) setIn(k int, v uint64, valid bool) {
	g.vm.Inputs[k] = fromU64(g.rsize, v)
	g.vm.InputsValid[k] = valid
}
func (g *goSide) inRecv(k int) bool        { return g.vm.InputsRecv[k] }
func (g *goSide) out(k int) (uint64, bool) { return toU64(g.vm.Outputs[k]), g.vm.OutputsValid[k] }
func (g *goSide) setOutRecv(k int, b bool) { g.vm.OutputsRecv[k] = b }
func (g *goSide) step() (ret bool, err error) {
	defer func() {
		if r := recover(); r != nil {
			err = fmt.Errorf("simulator panic: %v", r)
		}
	}()
	pc := g.vm.Pc
	if _, e := g.vm.Step(nil); e != nil {
		return false, e
	}
	return g.vm.Pc != pc, nil
}
func (g *goSide) snap() Snap {
	s := Snap{Pc: g.vm.Pc}
	for _, r := range g.vm.Registers {
		s.Regs = append(s.Regs, toU64(r))
	}
	for _, o := range g.vm.Outputs {
		s.Out = append(s.Out, toU64(o))
	}
	return s
}

// ---- HDL side ------------------------------------------------------------------------

type hdlSide struct {
	sim   *vsim.Sim
	nReg  int
	nOut  int
	pcSig string
	proc  string
}

func (h *hdlSide) setIn(k int, v uint64, valid bool) {
	h.sim.Set(fmt.Sprintf("i%d", k), v)
	b := uint64(0)
	if valid {
		b = 1
	}
	h.sim.Set(fmt.Sprintf("i%d_valid", k), b)
}
func (h *hdlSide) inRecv(k int) bool {
	v, _, _ := h.sim.Get(fmt.Sprintf("i%d_received", k))
	return v != 0
}
func (h *hdlSide) out(k int) (uint64, bool) {
	v, _, _ := h.sim.Get(fmt.Sprintf("o%d", k))
	vl, _, _ := h.sim.Get(fmt.Sprintf("o%d_valid", k))
	return v, vl != 0
}
func (h *hdlSide) setOutRecv(k int, b bool) {
	v := uint64(0)
	if b {
		v = 1
	}
	h.sim.Set(fmt.Sprintf("o%d_received", k), v)
}
func (h *hdlSide) step() (bool, error) {
	before, _, _ := h.sim.Get(h.pcSig)
	if err := h.sim.Cycle("clock_signal"); err != nil {
		return false, err
	}
	after, _, _ := h.sim.Get(h.pcSig)
	return h.sim.Written(h.pcSig) && after != before, nil
}
func (h *hdlSide) snap() Snap {
	s := Snap{}
	s.Pc, _, _ = h.sim.Get(h.pcSig)
	for i := 0; i < h.nReg; i++ {
		v, def, _ := h.sim.Get(fmt.Sprintf("%s._r%d", h.proc, i))
		if !def {
			s.Undef = true
		}
		s.Regs = append(s.Regs, v)
	}
	for k := 0; k < h.nOut; k++ {
		v, _, _ := h.sim.Get(fmt.Sprintf("%s._auxo%d", h.proc, k))
		s.Out = append(s.Out, v)
	}
	return s
}

// HDLFiles renders the four files of one machine (pure string producers).
func HDLFiles(mach *procbuilder.Machine, conf *procbuilder.Config) (files map[string]string, err error) {
	defer func() {
		if r := recover(); r != nil {
			err = fmt.Errorf("panic while generating Verilog: %v", r)
		}
	}()
	if conf == nil {
		conf = new(procbuilder.Config)
	}
	if conf.Runinfo == nil {
		ri := new(procbuilder.RuntimeInfo)
		ri.Init()
		conf.Runinfo = ri
	}
	names := map[string]string{"processor": "p0", "rom": "p0rom", "ram": "p0ram"}
	files = map[string]string{}
	files["arch_0.v"] = mach.Arch.Write_verilog("a0", names, "iverilog")
	files["p0.v"] = mach.Arch.Conproc.Write_verilog(conf, &mach.Arch, "p0", "iverilog")
	files["p0rom.v"] = mach.Arch.Rom.Write_verilog(mach, "p0rom", "iverilog")
	if mach.L != 0 {
		files["p0ram.v"] = mach.Arch.Ram.Write_verilog(conf, mach, "p0ram", "iverilog")
	}
	return files, nil
}

// Trace is the list of retire snapshots of one side.
type Trace struct {
	Retires []Snap
	Cycles  int
	Err     string
	Final   Snap
	LastAt  int // cycle of the last retire
}

// RunGo steps the Go simulator for `steps` steps.
func RunGo(mach *procbuilder.Machine, env Env, steps, maxRetires int) Trace {
	vm := new(procbuilder.VM)
	vm.Mach = mach
	var t Trace
	if err := vm.Init(); err != nil {
		t.Err = err.Error()
		return t
	}
	g := &goSide{vm: vm, rsize: mach.Rsize}
	d := newDriver(g, env, int(mach.N), int(mach.M))
	for c := 0; c < steps && len(t.Retires) < maxRetires; c++ {
		ret, err := d.cycle()
		t.Cycles++
		if err != nil {
			t.Err = err.Error()
			break
		}
		if ret {
			t.Retires = append(t.Retires, d.snap())
			t.LastAt = c
		}
	}
	t.Final = d.snap()
	return t
}

// ElabHDL parses and elaborates the file set at module a0 and applies reset.
func ElabHDL(files map[string]string) (*vsim.Sim, error) {
	d, diags := vsim.ParseFiles(files)
	for _, dg := range diags {
		if dg.Class == vsim.ClassSyntax {
			return nil, fmt.Errorf("generated Verilog does not parse: %s", dg.String())
		}
	}
	sim, err := d.Elaborate("a0", nil)
	if err != nil {
		return nil, err
	}
	return sim, nil
}

// RunHDL clocks the generated processor until it retired `want` instructions or maxCycles passed.
func RunHDL(mach *procbuilder.Machine, files map[string]string, env Env, want, maxCycles int) (Trace, *vsim.Sim) {
	return RunHDLStop(mach, files, env, want, maxCycles, nil)
}

// RunHDLStop is RunHDL with an additional stop predicate evaluated on every retire snapshot.
func RunHDLStop(mach *procbuilder.Machine, files map[string]string, env Env, want, maxCycles int, stop func(Snap) bool) (Trace, *vsim.Sim) {
	var t Trace
	sim, err := ElabHDL(files)
	if err != nil {
		t.Err = err.Error()
		return t, nil
	}
	h := &hdlSide{sim: sim, nReg: 1 << mach.R, nOut: int(mach.M), pcSig: "p0_instance._pc", proc: "p0_instance"}
	sim.Set("clock_signal", 0)
	sim.Set("reset_signal", 0)
	for k := 0; k < int(mach.N); k++ {
		h.setIn(k, 0, false)
	}
	for k := 0; k < int(mach.M); k++ {
		h.setOutRecv(k, false)
	}
	if err := sim.Settle(); err != nil {
		t.Err = err.Error()
		return t, sim
	}
	sim.Set("reset_signal", 1)
	if err := sim.Settle(); err != nil {
		t.Err = err.Error()
		return t, sim
	}
	sim.Cycle("clock_signal")
	sim.Set("reset_signal", 0)
	if err := sim.Settle(); err != nil {
		t.Err = err.Error()
		return t, sim
	}
	d := newDriver(h, env, int(mach.N), int(mach.M))
	for c := 0; c < maxCycles && len(t.Retires) < want; c++ {
		ret, err := d.cycle()
		t.Cycles++
		if err != nil {
			t.Err = err.Error()
			break
		}
		if ret {
			t.Retires = append(t.Retires, d.snap())
			t.LastAt = c
			if stop != nil && stop(t.Retires[len(t.Retires)-1]) {
				break
			}
		}
	}
	t.Final = d.snap()
	return t, sim
}
