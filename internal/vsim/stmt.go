package vsim

import (
	"fmt"
	"math/big"
)

// ---------------------------------------------------------------- lvalues

// lval is one resolved assignment target (a bit range of a signal or memory word).
type lval struct {
	sg       *signal
	w        int
	hasEl    bool
	el       idxFn // storage element index (already offset); invalid -> write dropped
	posConst bool
	lo       int64
	posFn    func(s *Sim) (int64, bool)
	line     int
}

func (e *elab) recordDriver(sg *signal, lv *lval, cc *compCtx, line int) *driver {
	d := &driver{kind: cc.kind, procID: cc.procID, file: cc.file, line: line, nodeIx: -1}
	if sg.isMem && lv.hasEl && lv.el.isConst && lv.el.cdef {
		d.elemConst, d.elem = true, int(lv.el.ci)
	}
	if !lv.posConst {
		d.whole = true
		d.lo, d.hi = 0, sg.w-1
	} else {
		d.lo, d.hi = int(lv.lo), int(lv.lo)+lv.w-1
		if d.lo <= 0 && d.hi >= sg.w-1 {
			d.whole = true
		}
	}
	sg.drivers = append(sg.drivers, d)
	if cc.writes != nil {
		cc.writes[sg] = true
	}
	return d
}

// resolveLvalue resolves an lvalue expression into targets, most significant first.
func (e *elab) resolveLvalue(sc *scope, x *Expr, cc *compCtx) ([]*lval, bool) {
	file := sc.mi.mod.File
	if x.Kind == eConcat {
		var out []*lval
		for _, it := range x.List {
			l, ok := e.resolveLvalue(sc, it, cc)
			if !ok {
				return nil, false
			}
			out = append(out, l...)
		}
		return out, true
	}
	// find the base identifier
	base := x
	for base.Kind == eIndex || base.Kind == ePartSel || base.Kind == eIdxPart {
		base = base.A
	}
	if base.Kind != eIdent {
		e.errorf(file, x.Line, ClassSyntax, "", "illegal lvalue")
		return nil, false
	}
	sym := e.lookupPath(sc, base.Name)
	var sg *signal
	if sym == nil {
		if containsDot(base.Name) {
			e.errorf(file, x.Line, ClassUnsupported, base.Name, "hierarchical reference "+base.Name+" cannot be resolved")
			return nil, false
		}
		sg = e.implicitSig(sc, base.Name, x.Line, cc)
	} else if sym.kind != symSig {
		e.errorf(file, x.Line, ClassAssignKind, base.Name, base.Name+" is not assignable")
		return nil, false
	} else {
		sg = sym.sig
	}
	lv := &lval{sg: sg, w: sg.w, posConst: true, lo: 0, line: x.Line}
	// collect the select chain from the base outwards
	var chain []*Expr
	for c := x; c != base; c = c.A {
		chain = append([]*Expr{c}, chain...)
	}
	ci := 0
	rcc := &compCtx{mode: cc.mode, reads: cc.reads, file: cc.file, fn: cc.fn}
	defer func() { cc.rr = append(cc.rr, rcc.rr...) }()
	if sg.isMem {
		if len(chain) == 0 || chain[0].Kind != eIndex {
			e.errorf(file, x.Line, ClassUnsupported, base.Name, "assignment to a whole memory / memory slice is not supported")
			return nil, false
		}
		ix := e.compileIndex(e.resolve(sc, chain[0].B, rcc))
		mmin, depth := int64(sg.memMin), int64(sg.depth)
		f := ix.fn
		lv.hasEl = true
		lv.el = idxFn{fn: func(s *Sim) (int64, bool) {
			i, d := f(s)
			i -= mmin
			if !d || i < 0 || i >= depth {
				return -1, false
			}
			return i, true
		}}
		if ix.isConst {
			lv.el.isConst = true
			lv.el.ci, lv.el.cdef = lv.el.fn(nil)
		}
		ci = 1
	}
	if len(chain)-ci > 1 {
		e.errorf(file, x.Line, ClassUnsupported, base.Name, "nested selects in lvalue are not supported")
		return nil, false
	}
	if len(chain)-ci == 1 {
		sel := chain[ci]
		switch sel.Kind {
		case eIndex:
			ix := e.compileIndex(e.resolve(sc, sel.B, rcc))
			lv.w = 1
			if ix.isConst {
				if !ix.cdef {
					lv.lo = -1 << 40
				} else {
					lv.lo = sg.bitPos(ix.ci)
				}
			} else {
				lv.posConst = false
				f := ix.fn
				lv.posFn = func(s *Sim) (int64, bool) {
					i, d := f(s)
					return sg.bitPos(i), d
				}
			}
		case ePartSel:
			m, ok1 := e.constInt(sc, sel.B)
			l, ok2 := e.constInt(sc, sel.C)
			if !ok1 || !ok2 {
				e.errorf(file, x.Line, ClassUnsupported, base.Name, "part-select bounds are not constant")
				return nil, false
			}
			pm, pl := sg.bitPos(m), sg.bitPos(l)
			if pm < pl {
				e.warnf(file, x.Line, ClassUnsupported, base.Name, "part-select direction is reversed with respect to the declaration")
				pm, pl = pl, pm
			}
			if pm-pl+1 > 1<<20 {
				e.errorf(file, x.Line, ClassUnsupported, base.Name, "part-select is too large")
				return nil, false
			}
			lv.w = int(pm - pl + 1)
			lv.lo = pl
		case eIdxPart:
			wv, ok := e.constInt(sc, sel.C)
			if !ok || wv <= 0 || wv > 1<<20 {
				e.errorf(file, x.Line, ClassUnsupported, base.Name, "indexed part-select width is not a positive constant")
				return nil, false
			}
			lv.w = int(wv)
			ix := e.compileIndex(e.resolve(sc, sel.B, rcc))
			desc := sg.msb >= sg.lsb
			up := sel.Op == "+:"
			w := lv.w
			adj := func(i int64) int64 {
				p := sg.bitPos(i)
				if desc == up {
					return p
				}
				return p - int64(w-1)
			}
			if ix.isConst {
				if !ix.cdef {
					lv.lo = -1 << 40
				} else {
					lv.lo = adj(ix.ci)
				}
			} else {
				lv.posConst = false
				f := ix.fn
				lv.posFn = func(s *Sim) (int64, bool) {
					i, d := f(s)
					return adj(i), d
				}
			}
		}
	}
	e.recordDriver(sg, lv, cc, x.Line)
	return []*lval{lv}, true
}

func containsDot(s string) bool {
	for i := 0; i < len(s); i++ {
		if s[i] == '.' {
			return true
		}
	}
	return false
}

type writeKind uint8

const (
	wkNow writeKind = iota
	wkEdge
	wkNBA
	wkLocal
	wkCont // continuous driver (net def bookkeeping)
)

// storeFn builds the closure that writes a w-bit value into the target.
func (e *elab) storeFn(lv *lval, wk writeKind, drvID int) func(s *Sim, v uint64, def bool) {
	sg := lv.sg
	if wk == wkLocal && !sg.local {
		wk = wkNow
	}
	var raw func(s *Sim, elem, lo, w int, v uint64, def bool)
	switch wk {
	case wkNow:
		raw = func(s *Sim, elem, lo, w int, v uint64, def bool) { s.writeNow(sg, elem, lo, w, v, def) }
	case wkEdge:
		raw = func(s *Sim, elem, lo, w int, v uint64, def bool) { s.writeEdge(sg, elem, lo, w, v, def) }
	case wkNBA:
		raw = func(s *Sim, elem, lo, w int, v uint64, def bool) { s.queueNBA(sg, elem, lo, w, v, def) }
	case wkLocal:
		raw = func(s *Sim, elem, lo, w int, v uint64, def bool) { s.storeBits(sg, elem, lo, w, v, def) }
	case wkCont:
		raw = func(s *Sim, elem, lo, w int, v uint64, def bool) {
			if sg.useCount {
				if s.drvDef[drvID] != def {
					s.drvDef[drvID] = def
					if def {
						s.undefCnt[sg.idx]--
					} else {
						s.undefCnt[sg.idx]++
					}
				}
				def = s.undefCnt[sg.idx] == 0 && sg.covered
			}
			if s.storeBits(sg, elem, lo, w, v, def) {
				s.changed(sg)
			}
		}
	}
	sw := sg.w
	lw := lv.w
	if !lv.hasEl && lv.posConst {
		lo := lv.lo
		if lo >= 0 && lo+int64(lw) <= int64(sw) {
			l := int(lo)
			// fully in range: fast paths
			switch wk {
			case wkNBA:
				return func(s *Sim, v uint64, def bool) {
					s.nba = append(s.nba, nbaEntry{sg: sg, lo: int32(l), w: int32(lw), v: v, def: def})
				}
			}
			return func(s *Sim, v uint64, def bool) { raw(s, 0, l, lw, v, def) }
		}
	}
	clip := func(s *Sim, elem int, lo int64, v uint64, def bool) {
		w := int64(lw)
		if lo < 0 {
			if -lo >= 64 {
				return
			}
			v >>= uint(-lo)
			w += lo
			lo = 0
		}
		if lo+w > int64(sw) {
			w = int64(sw) - lo
		}
		if w <= 0 {
			return
		}
		raw(s, elem, int(lo), int(w), v, def)
	}
	el := lv.el.fn
	hasEl := lv.hasEl
	if lv.posConst {
		lo := lv.lo
		return func(s *Sim, v uint64, def bool) {
			elem := 0
			if hasEl {
				i, ok := el(s)
				if !ok {
					return
				}
				elem = int(i)
			}
			clip(s, elem, lo, v, def)
		}
	}
	pf := lv.posFn
	return func(s *Sim, v uint64, def bool) {
		elem := 0
		if hasEl {
			i, ok := el(s)
			if !ok {
				return
			}
			elem = int(i)
		}
		p, ok := pf(s)
		if !ok {
			return
		}
		clip(s, elem, p, v, def)
	}
}

// storeFnBig is the wide variant (target wider than 64 bits).
func (e *elab) storeFnBig(lv *lval, wk writeKind, drvID int) func(s *Sim, v *big.Int, def bool) {
	sg := lv.sg
	if wk == wkLocal && !sg.local {
		wk = wkNow
	}
	raw := func(s *Sim, elem, lo, w int, v *big.Int, def bool) {
		switch wk {
		case wkNow:
			s.writeNowBig(sg, elem, lo, w, v, def)
		case wkEdge:
			s.writeEdgeBig(sg, elem, lo, w, v, def)
		case wkNBA:
			s.queueNBABig(sg, elem, lo, w, bigTrunc(v, w), def)
		case wkLocal:
			s.storeBig(sg, elem, lo, w, v, def)
		case wkCont:
			if sg.useCount {
				if s.drvDef[drvID] != def {
					s.drvDef[drvID] = def
					if def {
						s.undefCnt[sg.idx]--
					} else {
						s.undefCnt[sg.idx]++
					}
				}
				def = s.undefCnt[sg.idx] == 0 && sg.covered
			}
			if s.storeBig(sg, elem, lo, w, v, def) {
				s.changed(sg)
			}
		}
	}
	sw := sg.w
	lw := lv.w
	return func(s *Sim, v *big.Int, def bool) {
		elem := 0
		if lv.hasEl {
			i, ok := lv.el.fn(s)
			if !ok {
				return
			}
			elem = int(i)
		}
		lo := lv.lo
		if !lv.posConst {
			p, ok := lv.posFn(s)
			if !ok {
				return
			}
			lo = p
		}
		w := int64(lw)
		if lo < 0 {
			if -lo >= w {
				return
			}
			v = new(big.Int).Rsh(v, uint(-lo))
			w += lo
			lo = 0
		}
		if lo+w > int64(sw) {
			w = int64(sw) - lo
		}
		if w <= 0 {
			return
		}
		raw(s, elem, int(lo), int(w), v, def)
	}
}

// compileAssignTo builds "targets = rhs" with the given write kind.
func (e *elab) compileAssignTo(lvs []*lval, rhs *tx, wk writeKind, drvIDs []int) stmtFn {
	total := 0
	for _, l := range lvs {
		total += l.w
	}
	c := e.compileAssignCtx(rhs, total)
	drv := func(i int) int {
		if drvIDs == nil {
			return -1
		}
		return drvIDs[i]
	}
	if c.w <= 64 {
		f := c.fn
		if len(lvs) == 1 {
			st := e.storeFn(lvs[0], wk, drv(0))
			m := maskW(lvs[0].w)
			if c.isConst {
				cv, cd := c.cv&m, c.cdef
				return func(s *Sim) { st(s, cv, cd) }
			}
			return func(s *Sim) {
				v, d := f(s)
				st(s, v&m, d)
			}
		}
		type part struct {
			st func(s *Sim, v uint64, def bool)
			sh uint
			m  uint64
		}
		parts := make([]part, len(lvs))
		sh := 0
		for i := len(lvs) - 1; i >= 0; i-- {
			parts[i] = part{e.storeFn(lvs[i], wk, drv(i)), uint(sh), maskW(lvs[i].w)}
			sh += lvs[i].w
		}
		return func(s *Sim) {
			v, d := f(s)
			for i := range parts {
				p := &parts[i]
				p.st(s, (v>>p.sh)&p.m, d)
			}
		}
	}
	// wide right-hand side
	f := c.wfn
	type part struct {
		st  func(s *Sim, v uint64, def bool)
		stb func(s *Sim, v *big.Int, def bool)
		sh  uint
		w   int
	}
	parts := make([]part, len(lvs))
	sh := 0
	for i := len(lvs) - 1; i >= 0; i-- {
		p := part{sh: uint(sh), w: lvs[i].w}
		if lvs[i].w <= 64 {
			p.st = e.storeFn(lvs[i], wk, drv(i))
		} else {
			p.stb = e.storeFnBig(lvs[i], wk, drv(i))
		}
		parts[i] = p
		sh += lvs[i].w
	}
	return func(s *Sim) {
		v, d := f(s)
		for i := range parts {
			p := &parts[i]
			x := new(big.Int).Rsh(v, p.sh)
			x = bigTrunc(x, p.w)
			if p.st != nil {
				p.st(s, x.Uint64(), d)
			} else {
				p.stb(s, x, d)
			}
		}
	}
}

// ---------------------------------------------------------------- statements

const loopLimit = 1 << 22

func seq(list []stmtFn, initial bool) stmtFn {
	var fs []stmtFn
	for _, f := range list {
		if f != nil {
			fs = append(fs, f)
		}
	}
	if initial {
		return func(s *Sim) {
			for _, f := range fs {
				if s.stopInit {
					return
				}
				f(s)
			}
		}
	}
	switch len(fs) {
	case 0:
		return nil
	case 1:
		return fs[0]
	case 2:
		a, b := fs[0], fs[1]
		return func(s *Sim) { a(s); b(s) }
	case 3:
		a, b, c := fs[0], fs[1], fs[2]
		return func(s *Sim) { a(s); b(s); c(s) }
	}
	return func(s *Sim) {
		for _, f := range fs {
			f(s)
		}
	}
}

func (e *elab) compileStmt(sc *scope, st *Stmt, cc *compCtx) stmtFn {
	if st == nil {
		return nil
	}
	file := sc.mi.mod.File
	initial := cc.mode == modeInitial
	switch st.Kind {
	case sNull:
		return nil
	case sBlock:
		bsc := sc
		if st.Name != "" || len(st.Decls) > 0 {
			name := st.Name
			if name == "" {
				sc.anon++
				name = fmt.Sprintf("unnamed$%d", sc.anon)
			}
			if old, dup := sc.syms[name]; dup && old.kind != symScope {
				e.warnf(file, st.Line, ClassDupDecl, name, fmt.Sprintf("block name %s already declared at line %d", name, old.line))
				name = name + "$"
			} else if dup {
				e.warnf(file, st.Line, ClassDupDecl, name, fmt.Sprintf("block name %s already used at line %d", name, old.line))
				name = fmt.Sprintf("%s$%d", name, st.Line)
			}
			bsc = sc.child(sc.prefix + name + ".")
			sc.syms[name] = &symbol{kind: symScope, name: name, sub: bsc, line: st.Line}
			for _, d := range st.Decls {
				e.declare(bsc, d, nil, cc.mode == modeFunc)
			}
		}
		list := make([]stmtFn, 0, len(st.Stmts))
		for _, c := range st.Stmts {
			list = append(list, e.compileStmt(bsc, c, cc))
		}
		return seq(list, initial)
	case sIf:
		cond, isConst := e.truthFn(e.resolve(sc, st.Cond, cc))
		th := e.compileStmt(sc, st.Then, cc)
		el := e.compileStmt(sc, st.Else, cc)
		if isConst {
			v, d := cond(nil)
			if v && d {
				return th
			}
			return el
		}
		switch {
		case th != nil && el != nil:
			return func(s *Sim) {
				if v, d := cond(s); v && d {
					th(s)
				} else {
					el(s)
				}
			}
		case th != nil:
			return func(s *Sim) {
				if v, d := cond(s); v && d {
					th(s)
				}
			}
		case el != nil:
			return func(s *Sim) {
				if v, d := cond(s); !(v && d) {
					el(s)
				}
			}
		}
		return nil
	case sCase:
		return e.compileCase(sc, st, cc)
	case sFor:
		lsc := sc
		if len(st.Decls) > 0 {
			sc.anon++
			lsc = sc.child(sc.prefix + fmt.Sprintf("unnamed$%d.", sc.anon))
			for _, d := range st.Decls {
				e.declare(lsc, d, nil, cc.mode == modeFunc)
			}
		}
		init := e.compileStmt(lsc, st.Init, cc)
		cond, _ := e.truthFn(e.resolve(lsc, st.Cond, cc))
		step := e.compileStmt(lsc, st.Step, cc)
		body := e.compileStmt(lsc, st.Then, cc)
		line := st.Line
		if init == nil || step == nil {
			e.errorf(file, st.Line, ClassUnsupported, "", "for loop without init/step")
			return nil
		}
		return func(s *Sim) {
			init(s)
			for n := 0; ; n++ {
				if v, d := cond(s); !(v && d) {
					return
				}
				if n >= loopLimit {
					s.runtimeError(file, line, ClassUnsupported, "for loop exceeds the iteration limit")
					return
				}
				if body != nil {
					body(s)
				}
				if initial && s.stopInit {
					return
				}
				step(s)
			}
		}
	case sWhile:
		cond, _ := e.truthFn(e.resolve(sc, st.Cond, cc))
		body := e.compileStmt(sc, st.Then, cc)
		line := st.Line
		return func(s *Sim) {
			for n := 0; ; n++ {
				if v, d := cond(s); !(v && d) {
					return
				}
				if n >= loopLimit {
					s.runtimeError(file, line, ClassUnsupported, "while loop exceeds the iteration limit")
					return
				}
				if body != nil {
					body(s)
				}
				if initial && s.stopInit {
					return
				}
			}
		}
	case sRepeat:
		cnt := e.compileIndex(e.resolve(sc, st.Cond, cc))
		body := e.compileStmt(sc, st.Then, cc)
		line := st.Line
		return func(s *Sim) {
			n, d := cnt.fn(s)
			if !d {
				return
			}
			if n > loopLimit {
				s.runtimeError(file, line, ClassUnsupported, "repeat count exceeds the iteration limit")
				return
			}
			for i := int64(0); i < n; i++ {
				if body != nil {
					body(s)
				}
				if initial && s.stopInit {
					return
				}
			}
		}
	case sForever, sEvent, sWait:
		if initial {
			return func(s *Sim) { s.stopInit = true }
		}
		what := map[stmtKind]string{sForever: "forever", sEvent: "event control inside a process body", sWait: "wait"}[st.Kind]
		e.errorf(file, st.Line, ClassUnsupported, "", what+" is not supported outside initial blocks")
		return nil
	case sDelay:
		if initial {
			return func(s *Sim) { s.stopInit = true }
		}
		e.warnf(file, st.Line, ClassUnsupported, "", "delay control inside a process is treated as zero delay")
		return e.compileStmt(sc, st.Then, cc)
	case sSysTask:
		switch st.Name {
		case "$finish", "$stop":
			if initial {
				return func(s *Sim) { s.stopInit = true }
			}
		case "$readmemh", "$readmemb":
			e.warnf(file, st.Line, ClassUnsupported, st.Name, st.Name+" is ignored")
		}
		return nil
	case sTaskCall, sDisable:
		if initial {
			e.warnf(file, st.Line, ClassUnsupported, st.Name, "task call / disable in initial block stops its execution")
			return func(s *Sim) { s.stopInit = true }
		}
		e.errorf(file, st.Line, ClassUnsupported, st.Name, "task calls and disable are not supported")
		return nil
	case sAssign:
		if st.Sens != nil {
			if initial {
				return func(s *Sim) { s.stopInit = true }
			}
			e.errorf(file, st.Line, ClassUnsupported, "", "intra-assignment event control is not supported")
			return nil
		}
		rhs := e.resolve(sc, st.RHS, cc)
		lvs, ok := e.resolveLvalue(sc, st.LHS, cc)
		if !ok {
			return nil
		}
		wk := wkNow
		nonblocking := st.Op == "<="
		switch cc.mode {
		case modeEdge:
			wk = wkEdge
			if nonblocking {
				wk = wkNBA
			}
		case modeComb, modeInitial:
			if nonblocking {
				wk = wkNBA
			}
		case modeFunc:
			if nonblocking {
				e.errorf(file, st.Line, ClassUnsupported, "", "non-blocking assignment inside a function")
				return nil
			}
			wk = wkLocal
		}
		if nonblocking {
			cc.hasNBA = true
		}
		return e.compileAssignTo(lvs, rhs, wk, nil)
	}
	e.errorf(file, st.Line, ClassUnsupported, "", "unsupported statement")
	return nil
}

func (e *elab) compileCase(sc *scope, st *Stmt, cc *compCtx) stmtFn {
	sel := e.resolve(sc, st.Cond, cc)
	W, S := sel.w, sel.sg
	type arm struct {
		labels []*tx
		xs     []*Expr
		body   stmtFn
	}
	var arms []arm
	var def stmtFn
	hasDef := false
	for _, it := range st.Items {
		body := e.compileStmt(sc, it.Body, cc)
		if it.Default {
			if !hasDef {
				def = body
				hasDef = true
			}
			continue
		}
		a := arm{body: body}
		for _, l := range it.Labels {
			t := e.resolve(sc, l, cc)
			a.labels = append(a.labels, t)
			a.xs = append(a.xs, l)
			if !t.bad {
				W = maxInt(W, t.w)
				S = S && t.sg
			}
		}
		arms = append(arms, a)
	}
	if sel.bad {
		return def
	}
	wild := st.Op != "case"
	type clabel struct {
		fn      evalFn
		wfn     wideFn
		isConst bool
		cv      uint64
		cdef    bool
		care    uint64 // bits that take part in the comparison (casez/casex)
		never   bool
		arm     int
	}
	var labels []clabel
	allConst := true
	for ai, a := range arms {
		for li, t := range a.labels {
			if t.bad {
				continue
			}
			c := e.compile(t, W, S)
			cl := clabel{isConst: c.isConst, arm: ai, care: maskW(W)}
			if W <= 64 {
				cl.fn, cl.cv, cl.cdef = c.fn, c.cv, c.cdef
			} else {
				cl.wfn = c.asBig()
				allConst = false
			}
			// wildcard bits come from literal labels only
			if x := a.xs[li]; x.Kind == eNumber && x.Num.HasXZ && W <= 64 {
				var xm, zm uint64
				if len(x.Num.XMask) > 0 {
					xm = x.Num.XMask[0]
				}
				if len(x.Num.ZMask) > 0 {
					zm = x.Num.ZMask[0]
				}
				switch st.Op {
				case "casez":
					cl.care &^= zm
					cl.never = xm != 0
				case "casex":
					cl.care &^= xm | zm
				default:
					cl.never = true
				}
				cl.cdef = true
				cl.isConst = true
				cl.cv &= cl.care
			} else if c.isConst && !c.cdef {
				cl.never = true
			}
			if !cl.isConst {
				allConst = false
			}
			labels = append(labels, cl)
		}
	}
	bodies := make([]stmtFn, len(arms))
	for i, a := range arms {
		bodies[i] = a.body
	}
	selc := e.compile(sel, W, S)
	if W > 64 {
		sf := selc.asBig()
		return func(s *Sim) {
			v, d := sf(s)
			if d {
				for i := range labels {
					l := &labels[i]
					if l.never {
						continue
					}
					lv, ld := l.wfn(s)
					if ld && lv.Cmp(v) == 0 {
						if b := bodies[l.arm]; b != nil {
							b(s)
						}
						return
					}
				}
			}
			if def != nil {
				def(s)
			}
		}
	}
	sf := selc.fn
	hasWild := false
	for _, l := range labels {
		if l.care != maskW(W) {
			hasWild = true
		}
	}
	_ = wild
	if allConst && !hasWild {
		// constant labels: table dispatch (first matching label wins)
		if W <= 10 {
			tab := make([]int16, 1<<uint(W))
			for i := range tab {
				tab[i] = -1
			}
			for _, l := range labels {
				if l.never {
					continue
				}
				if tab[l.cv] < 0 {
					tab[l.cv] = int16(l.arm)
				}
			}
			return func(s *Sim) {
				v, d := sf(s)
				if d {
					if a := tab[v]; a >= 0 {
						if b := bodies[a]; b != nil {
							b(s)
						}
						return
					}
				}
				if def != nil {
					def(s)
				}
			}
		}
		mp := make(map[uint64]int, len(labels))
		for _, l := range labels {
			if l.never {
				continue
			}
			if _, ok := mp[l.cv]; !ok {
				mp[l.cv] = l.arm
			}
		}
		return func(s *Sim) {
			v, d := sf(s)
			if d {
				if a, ok := mp[v]; ok {
					if b := bodies[a]; b != nil {
						b(s)
					}
					return
				}
			}
			if def != nil {
				def(s)
			}
		}
	}
	return func(s *Sim) {
		v, d := sf(s)
		if d {
			for i := range labels {
				l := &labels[i]
				if l.never {
					continue
				}
				lv, ld := l.cv, l.cdef
				if !l.isConst {
					lv, ld = l.fn(s)
				}
				if ld && (lv&l.care) == (v&l.care) {
					if b := bodies[l.arm]; b != nil {
						b(s)
					}
					return
				}
			}
		}
		if def != nil {
			def(s)
		}
	}
}

// ---------------------------------------------------------------- module behaviour

func sortedSigs(m map[*signal]bool) []*signal {
	out := make([]*signal, 0, len(m))
	for sg := range m {
		out = append(out, sg)
	}
	// deterministic order
	for i := 1; i < len(out); i++ {
		for j := i; j > 0 && out[j-1].idx > out[j].idx; j-- {
			out[j-1], out[j] = out[j], out[j-1]
		}
	}
	return out
}

func (e *elab) newProcID() int {
	e.nextProc++
	return e.nextProc
}

// addCont adds a continuous assignment node "lvs = rhs".
func (e *elab) addCont(lvs []*lval, rhs *tx, cc *compCtx, line int, desc string) {
	s := e.sim
	ids := make([]int, len(lvs))
	for i := range lvs {
		ids[i] = len(s.drvDef)
		s.drvDef = append(s.drvDef, false)
	}
	run := e.compileAssignTo(lvs, rhs, wkCont, ids)
	if run == nil {
		return
	}
	nd := &combNode{run: run, reads: sortedSigs(cc.reads), rranges: cc.rr, file: cc.file, line: line, desc: desc}
	for _, l := range lvs {
		nd.writes = append(nd.writes, l.sg)
		wr := sigRange{sg: l.sg, lo: 0, hi: l.sg.w - 1, whole: true}
		if !l.sg.isMem && l.posConst {
			wr = sigRange{sg: l.sg, lo: int(l.lo), hi: int(l.lo) + l.w - 1}
		}
		nd.wranges = append(nd.wranges, wr)
	}
	s.nodes = append(s.nodes, nd)
}

func (e *elab) behave(sc *scope, it *Item) {
	mi := sc.mi
	file := mi.mod.File
	switch it.Kind {
	case iAssign:
		for _, a := range it.Asgs {
			kind := "assign"
			if it.What == "decl" {
				kind = "decl"
			}
			cc := &compCtx{mode: modeComb, reads: map[*signal]bool{}, file: file, kind: kind, procID: e.newProcID()}
			rhs := e.resolve(sc, a.RHS, cc)
			cc.portConn = true
			lvs, ok := e.resolveLvalue(sc, a.LHS, cc)
			cc.portConn = false
			if !ok {
				continue
			}
			e.addCont(lvs, rhs, cc, a.Line, "assign")
		}
	case iInitial:
		cc := &compCtx{mode: modeInitial, reads: map[*signal]bool{}, file: file, kind: "initial", procID: e.newProcID()}
		if it.What == "decl" {
			cc.kind = "declinit"
		}
		body := e.compileStmt(sc, it.Body, cc)
		if body != nil {
			e.initials = append(e.initials, body)
		}
	case iAlways:
		if it.Sens == nil {
			// "always #d stmt" / "always stmt": parsed, not scheduled
			e.warnf(file, it.Line, ClassUnsupported, "", "always block without event control is not scheduled")
			return
		}
		edge := false
		for _, si := range it.Sens.Items {
			if si.Edge != "" {
				edge = true
			}
		}
		if !edge {
			cc := &compCtx{mode: modeComb, reads: map[*signal]bool{}, writes: map[*signal]bool{}, file: file, kind: "always", procID: e.newProcID()}
			// the sensitivity list is checked for undeclared identifiers; evaluation
			// is triggered by every signal the block reads (SPEC section 4)
			scc := &compCtx{mode: modeComb, reads: map[*signal]bool{}, file: file}
			for _, si := range it.Sens.Items {
				e.resolve(sc, si.X, scc)
			}
			body := e.compileStmt(sc, it.Body, cc)
			if body == nil {
				return
			}
			nd := &combNode{isProc: true, reads: sortedSigs(cc.reads), writes: sortedSigs(cc.writes), rranges: cc.rr, file: file, line: it.Line, desc: "always"}
			for _, w := range nd.writes {
				nd.wranges = append(nd.wranges, sigRange{sg: w, hi: w.w - 1, whole: true})
			}
			nd.run = func(s *Sim) {
				s.activations++
				body(s)
			}
			e.sim.nodes = append(e.sim.nodes, nd)
			return
		}
		cc := &compCtx{mode: modeEdge, reads: map[*signal]bool{}, writes: map[*signal]bool{}, file: file, kind: "always", procID: e.newProcID()}
		body := e.compileStmt(sc, it.Body, cc)
		if body == nil {
			body = func(*Sim) {}
		}
		pi := int32(len(e.sim.procs))
		e.sim.procs = append(e.sim.procs, &edgeProc{body: body, file: file, line: it.Line})
		for _, si := range it.Sens.Items {
			scc := &compCtx{mode: modeComb, reads: map[*signal]bool{}, file: file}
			t := e.resolve(sc, si.X, scc)
			if t.bad {
				continue
			}
			w := e.watchFor(t)
			switch si.Edge {
			case "posedge":
				w.pos = append(w.pos, pi)
			case "negedge":
				w.neg = append(w.neg, pi)
			default:
				w.any = append(w.any, pi)
			}
		}
	case iInstance:
		e.instance(sc, it.Inst)
	}
}

// watchFor returns the (shared) edge watcher for an expression.
func (e *elab) watchFor(t *tx) *watch {
	key := ""
	if t.k == tkSig {
		key = fmt.Sprintf("s%d", t.sig.idx)
	} else if t.k == tkBitSel && t.a.k == tkSig && t.b.k == tkConst {
		key = fmt.Sprintf("s%d[%d]", t.a.sig.idx, t.b.val.asInt())
	}
	if key != "" {
		for _, w := range e.sim.watches {
			if w.desc == key {
				return w
			}
		}
	}
	c := e.compileSelf(t)
	var fn evalFn
	if c.w > 64 {
		wf := c.wfn
		fn = func(s *Sim) (uint64, bool) {
			v, d := wf(s)
			return new(big.Int).And(v, new(big.Int).SetUint64(^uint64(0))).Uint64(), d
		}
	} else {
		fn = c.fn
	}
	w := &watch{fn: fn, desc: key}
	e.sim.watches = append(e.sim.watches, w)
	return w
}

func (e *elab) instance(sc *scope, inst *Instance) {
	mi := sc.mi
	file := mi.mod.File
	if old, dup := sc.syms[inst.Name]; dup {
		e.warnf(file, inst.Line, ClassDupDecl, inst.Name, fmt.Sprintf("instance name %s already declared at line %d; this instance is ignored", inst.Name, old.line))
		return
	}
	if e.blackbox[inst.Module] {
		sc.syms[inst.Name] = &symbol{kind: symScope, name: inst.Name, line: inst.Line}
		return
	}
	m := e.d.mods[inst.Module]
	if m == nil {
		e.errorf(file, inst.Line, ClassUndefModule, inst.Module, "module "+inst.Module+" is not defined (instance "+inst.Name+")")
		return
	}
	if inst.HasRange {
		e.errorf(file, inst.Line, ClassUnsupported, inst.Name, "instance arrays are not supported")
		return
	}
	// parameter overrides
	var pos []Val
	named := map[string]Val{}
	for _, p := range inst.Params {
		if p.X == nil {
			continue
		}
		v, ok := e.constEval(sc, p.X)
		if !ok {
			e.errorf(file, inst.Line, ClassUnsupported, inst.Name, "parameter override is not a constant expression")
			return
		}
		if p.Name == "" {
			pos = append(pos, v)
		} else {
			named[p.Name] = v
		}
	}
	path := sc.prefix + inst.Name
	child := e.instantiate(m, path, pos, named, file, inst.Line)
	if child == nil {
		return
	}
	sc.syms[inst.Name] = &symbol{kind: symScope, name: inst.Name, sub: child.root, line: inst.Line}
	// port connections
	type conn struct {
		port string
		x    *Expr
		line int
	}
	var conns []conn
	if inst.Named {
		seen := map[string]bool{}
		for _, c := range inst.Conns {
			if _, ok := m.PortLine[c.Name]; !ok {
				e.warnf(file, c.Line, ClassPortCount, c.Name, "module "+m.Name+" has no port "+c.Name)
				continue
			}
			if seen[c.Name] {
				e.warnf(file, c.Line, ClassPortCount, c.Name, "port "+c.Name+" connected twice")
				continue
			}
			seen[c.Name] = true
			conns = append(conns, conn{c.Name, c.X, c.Line})
		}
	} else {
		if len(inst.Conns) != len(m.PortList) {
			e.warnf(file, inst.Line, ClassPortCount, inst.Name, fmt.Sprintf("instance %s of %s has %d positional connections, module has %d ports", inst.Name, m.Name, len(inst.Conns), len(m.PortList)))
		}
		for i, c := range inst.Conns {
			if i >= len(m.PortList) {
				break
			}
			conns = append(conns, conn{m.PortList[i], c.X, c.Line})
		}
	}
	for _, c := range conns {
		if c.x == nil {
			continue
		}
		psym := child.root.syms[c.port]
		if psym == nil || psym.kind != symSig {
			continue
		}
		ps := psym.sig
		if ps.isMem {
			e.errorf(file, c.line, ClassUnsupported, c.port, "array ports are not supported")
			continue
		}
		desc := "port " + inst.Name + "." + c.port
		if ps.dir == dOutput {
			// child port drives the parent's lvalue
			cc := &compCtx{mode: modeComb, reads: map[*signal]bool{}, file: file, kind: "port", procID: e.newProcID(), portConn: true}
			if !isLvalueExpr(c.x) {
				e.warnf(file, c.line, ClassAssignKind, c.port, "output port "+c.port+" is connected to an expression that is not an lvalue")
				continue
			}
			lvs, ok := e.resolveLvalue(sc, c.x, cc)
			if !ok {
				continue
			}
			cc.read(ps)
			rhs := &tx{k: tkSig, w: ps.w, sg: ps.signed, sig: ps, line: c.line}
			e.addCont(lvs, rhs, cc, c.line, desc)
			continue
		}
		// input (or undeclared direction): parent expression drives the child's port net
		cc := &compCtx{mode: modeComb, reads: map[*signal]bool{}, file: file, kind: "port", procID: e.newProcID(), portConn: true}
		rhs := e.resolve(sc, c.x, cc)
		lv := &lval{sg: ps, w: ps.w, posConst: true, line: c.line}
		ccw := &compCtx{mode: modeComb, file: child.mod.File, kind: "port", procID: cc.procID}
		e.recordDriver(ps, lv, ccw, c.line)
		e.addCont([]*lval{lv}, rhs, cc, c.line, desc)
	}
}

func isLvalueExpr(x *Expr) bool {
	switch x.Kind {
	case eIdent:
		return true
	case eIndex, ePartSel, eIdxPart:
		return isLvalueExpr(x.A)
	case eConcat:
		for _, it := range x.List {
			if !isLvalueExpr(it) {
				return false
			}
		}
		return true
	}
	return false
}
