package vsim

import (
	"crypto/md5"
	"encoding/binary"
	"fmt"
	"math/big"
	"sort"
)

type sigKind uint8

const (
	skNet sigKind = iota
	skReg
	skInteger
	skImplicit // created for an undeclared identifier
)

// signal is one elaborated signal or memory.
type signal struct {
	name   string // hierarchical name relative to top
	kind   sigKind
	w      int // element width
	signed bool
	msb    int // declared range [msb:lsb]
	lsb    int
	isMem  bool
	memL   int // declared memory range [memL:memR]
	memR   int
	memMin int
	depth  int // number of elements (1 for non-memories)
	off    int // first word in Sim.val
	nw     int // words per element
	doff   int // first flag in Sim.def
	idx    int // index in Sim.sigs
	fanout []int32

	local   bool // function-local storage: no change tracking
	dir     declKind
	isPort  bool
	file    string
	line    int
	modName string // defining module (for diagnostics)
	lname   string // local name

	// continuous-driver bookkeeping
	drivers  []*driver
	useCount bool // def flag derived from per-driver flags (several partial drivers)
	covered  bool // every bit has a continuous driver
}

// driver records one static driver of a signal (for multi-driver lint and def tracking).
type driver struct {
	kind   string // "assign", "port", "always", "initial", "decl"
	procID int    // process / node identity
	lo, hi int    // bit range (inclusive) or whole (lo=0,hi=w-1); memories: element range ignored
	whole  bool
	file   string
	line   int
	nodeIx int // comb node index for continuous drivers (-1 otherwise)
	// memories: constant word index, if any
	elemConst bool
	elem      int
}

func (sg *signal) bitPos(idx int64) int64 {
	if sg.msb >= sg.lsb {
		return idx - int64(sg.lsb)
	}
	return int64(sg.lsb) - idx
}

// sigRange is a bit range of a signal (for structural loop analysis).
type sigRange struct {
	sg     *signal
	lo, hi int
	whole  bool
}

// combNode is a continuous assignment, a port connection or a combinational always block.
type combNode struct {
	run     func(s *Sim)
	reads   []*signal
	writes  []*signal
	rranges []sigRange
	wranges []sigRange
	isProc  bool
	file    string
	line    int
	desc    string
}

type edgeProc struct {
	body stmtFn
	file string
	line int
}

type watch struct {
	fn   evalFn
	pos  []int32
	neg  []int32
	any  []int32
	desc string
}

type nbaEntry struct {
	sg   *signal
	elem int32
	lo   int32
	w    int32
	v    uint64
	def  bool
	big  *big.Int
}

type undoEntry struct {
	sg     *signal
	elem   int32
	lo, w  int32
	old    uint64
	oldDef bool
	oldBig []uint64
}

type evalFn func(s *Sim) (uint64, bool)
type wideFn func(s *Sim) (*big.Int, bool)
type stmtFn func(s *Sim)

// Sim is an elaborated design with its simulation state.
type Sim struct {
	val []uint64
	def []bool

	sigs   []*signal
	byName map[string]*signal

	nodes    []*combNode
	dirty    []bool
	ndirty   int
	minDirty int
	maxDirty int
	curNode  int32

	procs     []*edgeProc
	trigStamp []uint32
	round     uint32

	watches   []*watch
	watchPrev []uint64

	nba     []nbaEntry
	bcommit []nbaEntry
	undo    []undoEntry

	written     []bool
	writtenList []int32

	drvDef   []bool  // per comb node: last defined flag of a counted driver
	undefCnt []int32 // per signal: number of counted drivers currently undefined

	activations uint64
	rtErr       error
	warnings    []Diag
	hashBuf     []byte
	settled     bool
	stopInit    bool // an initial block reached a delay / event control
	topName     string
}

// State is a deep copy of the simulation state.
type State struct {
	val       []uint64
	def       []bool
	watchPrev []uint64
	dirty     []bool
	ndirty    int
	minDirty  int
	maxDirty  int
	written   []bool
	wlist     []int32
	drvDef    []bool
	undefCnt  []int32
}

func newSim() *Sim {
	return &Sim{byName: map[string]*signal{}, curNode: -1}
}

// ---------------------------------------------------------------- storage

func (s *Sim) addSignal(sg *signal) {
	sg.idx = len(s.sigs)
	sg.nw = (sg.w + 63) / 64
	if sg.nw == 0 {
		sg.nw = 1
	}
	if sg.depth <= 0 {
		sg.depth = 1
	}
	sg.off = len(s.val)
	sg.doff = len(s.def)
	s.val = append(s.val, make([]uint64, sg.nw*sg.depth)...)
	s.def = append(s.def, make([]bool, sg.depth)...)
	s.sigs = append(s.sigs, sg)
	s.written = append(s.written, false)
	s.undefCnt = append(s.undefCnt, 0)
	if _, dup := s.byName[sg.name]; !dup {
		s.byName[sg.name] = sg
	}
}

// loadWide reads element elem of a wide signal.
func (s *Sim) loadWide(sg *signal, elem int) *big.Int {
	o := sg.off + elem*sg.nw
	return wordsToBig(s.val[o : o+sg.nw])
}

// storeBits writes bits [lo,lo+w) of element elem (w <= 64) and sets the defined
// flag. It reports whether value or flag changed. No change propagation.
func (s *Sim) storeBits(sg *signal, elem, lo, w int, v uint64, def bool) bool {
	di := sg.doff + elem
	od := s.def[di]
	s.def[di] = def
	if sg.nw == 1 {
		i := sg.off + elem
		old := s.val[i]
		m := maskW(w) << uint(lo)
		nv := old&^m | (v<<uint(lo))&m
		s.val[i] = nv
		return nv != old || od != def
	}
	// wide element: the w bits may span two words
	changed := od != def
	base := sg.off + elem*sg.nw
	wi := lo / 64
	bo := uint(lo % 64)
	v &= maskW(w)
	m0 := maskW(w) << bo
	old := s.val[base+wi]
	nv := old&^m0 | (v<<bo)&m0
	if nv != old {
		s.val[base+wi] = nv
		changed = true
	}
	if int(bo)+w > 64 && wi+1 < sg.nw {
		rem := uint(int(bo) + w - 64)
		m1 := maskW(int(rem))
		old1 := s.val[base+wi+1]
		nv1 := old1&^m1 | (v>>(64-bo))&m1
		if nv1 != old1 {
			s.val[base+wi+1] = nv1
			changed = true
		}
	}
	return changed
}

// storeBig writes bits [lo,lo+w) of a (wide) element from a big value.
func (s *Sim) storeBig(sg *signal, elem, lo, w int, v *big.Int, def bool) bool {
	changed := false
	for done := 0; done < w; done += 64 {
		n := w - done
		if n > 64 {
			n = 64
		}
		chunk := new(big.Int).Rsh(v, uint(done))
		chunk.And(chunk, new(big.Int).SetUint64(^uint64(0)))
		if s.storeBits(sg, elem, lo+done, n, chunk.Uint64(), def) {
			changed = true
		}
	}
	return changed
}

// readBits extracts bits [lo,lo+w) (w<=64, in range) of element elem.
func (s *Sim) readBits(sg *signal, elem, lo, w int) uint64 {
	if sg.nw == 1 {
		return (s.val[sg.off+elem] >> uint(lo)) & maskW(w)
	}
	base := sg.off + elem*sg.nw
	wi := lo / 64
	bo := uint(lo % 64)
	v := s.val[base+wi] >> bo
	if int(bo)+w > 64 && wi+1 < sg.nw {
		v |= s.val[base+wi+1] << (64 - bo)
	}
	return v & maskW(w)
}

func (s *Sim) markDirty(n int32) {
	if !s.dirty[n] {
		s.dirty[n] = true
		s.ndirty++
		if int(n) < s.minDirty {
			s.minDirty = int(n)
		}
		if int(n) > s.maxDirty {
			s.maxDirty = int(n)
		}
	}
}

func (s *Sim) changed(sg *signal) {
	cur := s.curNode
	for _, n := range sg.fanout {
		if n != cur {
			s.markDirty(n)
		}
	}
}

func (s *Sim) markWritten(sg *signal) {
	if !s.written[sg.idx] {
		s.written[sg.idx] = true
		s.writtenList = append(s.writtenList, int32(sg.idx))
	}
}

// writeNow performs a procedural write that takes effect immediately
// (combinational always, initial blocks, commit of NBA / blocking updates).
func (s *Sim) writeNow(sg *signal, elem, lo, w int, v uint64, def bool) {
	if s.storeBits(sg, elem, lo, w, v, def) {
		s.changed(sg)
	}
	s.markWritten(sg)
}

func (s *Sim) writeNowBig(sg *signal, elem, lo, w int, v *big.Int, def bool) {
	if s.storeBig(sg, elem, lo, w, v, def) {
		s.changed(sg)
	}
	s.markWritten(sg)
}

// writeLocal writes function-local storage.
func (s *Sim) writeLocal(sg *signal, elem, lo, w int, v uint64, def bool) {
	s.storeBits(sg, elem, lo, w, v, def)
}

// writeEdge performs a blocking write inside an edge-triggered process: visible
// immediately to the process itself, rolled back at process end and committed
// with the other updates of the time step.
func (s *Sim) writeEdge(sg *signal, elem, lo, w int, v uint64, def bool) {
	u := undoEntry{sg: sg, elem: int32(elem), lo: int32(lo), w: int32(w), oldDef: s.def[sg.doff+elem]}
	if sg.nw == 1 {
		u.old = s.val[sg.off+elem]
	} else {
		o := sg.off + elem*sg.nw
		u.oldBig = append([]uint64(nil), s.val[o:o+sg.nw]...)
	}
	s.undo = append(s.undo, u)
	s.storeBits(sg, elem, lo, w, v, def)
}

func (s *Sim) writeEdgeBig(sg *signal, elem, lo, w int, v *big.Int, def bool) {
	o := sg.off + elem*sg.nw
	u := undoEntry{sg: sg, elem: int32(elem), lo: int32(lo), w: int32(w), oldDef: s.def[sg.doff+elem]}
	u.oldBig = append([]uint64(nil), s.val[o:o+sg.nw]...)
	if sg.nw == 1 {
		u.old = s.val[o]
	}
	s.undo = append(s.undo, u)
	s.storeBig(sg, elem, lo, w, v, def)
}

// endEdgeProc converts the blocking writes of the finished process into pending commits
// and restores the pre-process values.
func (s *Sim) endEdgeProc() {
	if len(s.undo) == 0 {
		return
	}
	for i := range s.undo {
		u := &s.undo[i]
		e := nbaEntry{sg: u.sg, elem: u.elem, lo: u.lo, w: u.w, def: s.def[u.sg.doff+int(u.elem)]}
		if u.w <= 64 {
			e.v = s.readBits(u.sg, int(u.elem), int(u.lo), int(u.w))
		} else {
			b := s.loadWide(u.sg, int(u.elem))
			b.Rsh(b, uint(u.lo))
			e.big = bigTrunc(b, int(u.w))
		}
		s.bcommit = append(s.bcommit, e)
	}
	for i := len(s.undo) - 1; i >= 0; i-- {
		u := &s.undo[i]
		if u.sg.nw == 1 {
			s.val[u.sg.off+int(u.elem)] = u.old
		} else {
			o := u.sg.off + int(u.elem)*u.sg.nw
			copy(s.val[o:o+u.sg.nw], u.oldBig)
		}
		s.def[u.sg.doff+int(u.elem)] = u.oldDef
	}
	s.undo = s.undo[:0]
}

func (s *Sim) queueNBA(sg *signal, elem, lo, w int, v uint64, def bool) {
	s.nba = append(s.nba, nbaEntry{sg: sg, elem: int32(elem), lo: int32(lo), w: int32(w), v: v, def: def})
}

func (s *Sim) queueNBABig(sg *signal, elem, lo, w int, v *big.Int, def bool) {
	s.nba = append(s.nba, nbaEntry{sg: sg, elem: int32(elem), lo: int32(lo), w: int32(w), big: v, def: def})
}

func (s *Sim) commitList(list []nbaEntry) {
	for i := range list {
		e := &list[i]
		if e.big != nil {
			s.writeNowBig(e.sg, int(e.elem), int(e.lo), int(e.w), e.big, e.def)
			e.big = nil
		} else {
			s.writeNow(e.sg, int(e.elem), int(e.lo), int(e.w), e.v, e.def)
		}
	}
}

// ---------------------------------------------------------------- evaluation loop

func (s *Sim) combErr() error {
	// identify a few nodes that are still dirty
	var ds []Diag
	for i, d := range s.dirty {
		if d && len(ds) < 4 {
			n := s.nodes[i]
			ds = append(ds, Diag{File: n.file, Line: n.line, Class: ClassCombLoop, Msg: "combinational logic does not settle (" + n.desc + ")"})
		}
	}
	if len(ds) == 0 {
		ds = append(ds, Diag{Class: ClassCombLoop, Msg: "combinational logic does not settle"})
	}
	for i := range s.dirty {
		s.dirty[i] = false
	}
	s.ndirty = 0
	s.nba = s.nba[:0]
	return &DiagError{Diags: ds}
}

// comb evaluates combinational logic to a fix-point.
func (s *Sim) comb() error {
	sweeps := 0
	for s.ndirty > 0 || len(s.nba) > 0 {
		sweeps++
		if sweeps > 1000 {
			return s.combErr()
		}
		if s.ndirty > 0 {
			lo, hi := s.minDirty, s.maxDirty
			s.minDirty, s.maxDirty = len(s.nodes), -1
			for i := lo; i <= hi && i < len(s.nodes); i++ {
				// nodes dirtied behind the cursor are picked up by the next sweep;
				// nodes dirtied ahead (beyond the old hi) extend the sweep
				if s.dirty[i] {
					s.dirty[i] = false
					s.ndirty--
					nd := s.nodes[i]
					if nd.isProc {
						// a process does not re-trigger itself (it is not waiting while it runs)
						s.curNode = int32(i)
					}
					nd.run(s)
					s.curNode = -1
					if s.maxDirty > hi {
						hi = s.maxDirty
					}
				}
			}
			// recompute bounds of what is still dirty (only nodes <= cursor can be)
			if s.ndirty > 0 {
				s.minDirty, s.maxDirty = len(s.nodes), -1
				for i, d := range s.dirty {
					if d {
						if i < s.minDirty {
							s.minDirty = i
						}
						s.maxDirty = i
					}
				}
			}
		}
		if s.ndirty == 0 && len(s.nba) > 0 {
			q := s.nba
			s.nba = nil
			s.commitList(q)
			if s.nba == nil {
				s.nba = q[:0]
			}
		}
		if s.rtErr != nil {
			return s.takeErr()
		}
	}
	return nil
}

func (s *Sim) takeErr() error {
	err := s.rtErr
	s.rtErr = nil
	for i := range s.dirty {
		s.dirty[i] = false
	}
	s.ndirty = 0
	s.nba = s.nba[:0]
	s.bcommit = s.bcommit[:0]
	s.undo = s.undo[:0]
	return err
}

func (s *Sim) runtimeError(file string, line int, class, msg string) {
	if s.rtErr == nil {
		s.rtErr = &DiagError{Diags: []Diag{{File: file, Line: line, Class: class, Msg: msg}}}
	}
}

// Settle evaluates the design after input changes: combinational fix-point, edge
// detection, edge-triggered processes, non-blocking commit, repeated for derived clocks.
func (s *Sim) Settle() error { return s.settle(true) }

func (s *Sim) settle(clearWritten bool) error {
	if clearWritten {
		for _, i := range s.writtenList {
			s.written[i] = false
		}
		s.writtenList = s.writtenList[:0]
	}
	if err := s.comb(); err != nil {
		return err
	}
	for iter := 0; ; iter++ {
		if iter > 1000 {
			return &DiagError{Diags: []Diag{{Class: ClassCombLoop, Msg: "edge-triggered logic does not settle (derived clock oscillation)"}}}
		}
		s.round++
		if s.round == 0 { // wrapped
			for i := range s.trigStamp {
				s.trigStamp[i] = 0
			}
			s.round = 1
		}
		fired := false
		for wi, w := range s.watches {
			cur, _ := w.fn(s)
			prev := s.watchPrev[wi]
			if cur == prev {
				continue
			}
			s.watchPrev[wi] = cur
			for _, p := range w.any {
				s.trigStamp[p] = s.round
				fired = true
			}
			if prev&1 == 0 && cur&1 == 1 {
				for _, p := range w.pos {
					s.trigStamp[p] = s.round
					fired = true
				}
			} else if prev&1 == 1 && cur&1 == 0 {
				for _, p := range w.neg {
					s.trigStamp[p] = s.round
					fired = true
				}
			}
		}
		if !fired {
			break
		}
		for pi, p := range s.procs {
			if s.trigStamp[pi] != s.round {
				continue
			}
			s.activations++
			p.body(s)
			s.endEdgeProc()
		}
		if s.rtErr != nil {
			return s.takeErr()
		}
		if len(s.bcommit) > 0 {
			s.commitList(s.bcommit)
			s.bcommit = s.bcommit[:0]
		}
		if len(s.nba) > 0 {
			q := s.nba
			s.nba = nil
			s.commitList(q)
			s.nba = q[:0]
		}
		if err := s.comb(); err != nil {
			return err
		}
	}
	s.settled = true
	return nil
}

// Cycle is Set(clk,1); Settle(); Set(clk,0); Settle(). The Written set after Cycle
// covers both Settle calls of the cycle (it is cleared once, at the start of the cycle).
func (s *Sim) Cycle(clk string) error {
	if err := s.Set(clk, 1); err != nil {
		return err
	}
	if err := s.settle(true); err != nil {
		return err
	}
	if err := s.Set(clk, 0); err != nil {
		return err
	}
	return s.settle(false)
}

// ---------------------------------------------------------------- public accessors

// Signals returns the hierarchical names of all signals and memories (sorted).
func (s *Sim) Signals() []string {
	out := make([]string, 0, len(s.sigs))
	for _, sg := range s.sigs {
		if sg.local {
			continue
		}
		out = append(out, sg.name)
	}
	sort.Strings(out)
	return out
}

func (s *Sim) lookup(name string) (*signal, error) {
	sg := s.byName[name]
	if sg == nil {
		return nil, fmt.Errorf("vsim: no signal %q", name)
	}
	return sg, nil
}

// Width returns the width of a signal (the word width for memories).
func (s *Sim) Width(name string) (int, error) {
	sg, err := s.lookup(name)
	if err != nil {
		return 0, err
	}
	return sg.w, nil
}

// IsMem reports whether name is a memory.
func (s *Sim) IsMem(name string) bool {
	sg := s.byName[name]
	return sg != nil && sg.isMem
}

// MemRange returns the declared index range of a memory (lowest, highest index).
func (s *Sim) MemRange(name string) (lo, hi int, err error) {
	sg, err := s.lookup(name)
	if err != nil {
		return 0, 0, err
	}
	if !sg.isMem {
		return 0, 0, fmt.Errorf("vsim: %q is not a memory", name)
	}
	return sg.memMin, sg.memMin + sg.depth - 1, nil
}

// Set forces a signal (<= 64 bit useful range) and marks it defined.
func (s *Sim) Set(name string, v uint64) error {
	sg, err := s.lookup(name)
	if err != nil {
		return err
	}
	if sg.isMem {
		return fmt.Errorf("vsim: %q is a memory; use SetMem", name)
	}
	if sg.nw == 1 {
		if s.storeBits(sg, 0, 0, sg.w, v&maskW(sg.w), true) {
			s.changed(sg)
		}
		return nil
	}
	return s.SetBig(name, new(big.Int).SetUint64(v))
}

// SetBig forces a signal of any width.
func (s *Sim) SetBig(name string, v *big.Int) error {
	sg, err := s.lookup(name)
	if err != nil {
		return err
	}
	if sg.isMem {
		return fmt.Errorf("vsim: %q is a memory; use SetMem", name)
	}
	if v == nil {
		return fmt.Errorf("vsim: nil value")
	}
	if s.storeBig(sg, 0, 0, sg.w, bigTrunc(v, sg.w), true) {
		s.changed(sg)
	}
	return nil
}

// Get returns the low 64 bits of a signal and its defined flag.
func (s *Sim) Get(name string) (uint64, bool, error) {
	sg, err := s.lookup(name)
	if err != nil {
		return 0, false, err
	}
	if sg.isMem {
		return 0, false, fmt.Errorf("vsim: %q is a memory; use GetMem", name)
	}
	return s.val[sg.off], s.def[sg.doff], nil
}

// GetBig returns the full value of a signal.
func (s *Sim) GetBig(name string) (*big.Int, bool, error) {
	sg, err := s.lookup(name)
	if err != nil {
		return nil, false, err
	}
	if sg.isMem {
		return nil, false, fmt.Errorf("vsim: %q is a memory; use GetMem", name)
	}
	return s.loadWide(sg, 0), s.def[sg.doff], nil
}

func (s *Sim) memElem(name string, idx int) (*signal, int, error) {
	sg, err := s.lookup(name)
	if err != nil {
		return nil, 0, err
	}
	if !sg.isMem {
		return nil, 0, fmt.Errorf("vsim: %q is not a memory", name)
	}
	e := idx - sg.memMin
	if e < 0 || e >= sg.depth {
		return nil, 0, fmt.Errorf("vsim: index %d out of range for memory %q [%d:%d]", idx, name, sg.memL, sg.memR)
	}
	return sg, e, nil
}

// GetMem returns the low 64 bits of memory word idx (declared index) and its defined flag.
func (s *Sim) GetMem(name string, idx int) (uint64, bool, error) {
	sg, e, err := s.memElem(name, idx)
	if err != nil {
		return 0, false, err
	}
	return s.val[sg.off+e*sg.nw], s.def[sg.doff+e], nil
}

// SetMem forces a memory word and marks it defined.
func (s *Sim) SetMem(name string, idx int, v uint64) error {
	sg, e, err := s.memElem(name, idx)
	if err != nil {
		return err
	}
	var ch bool
	if sg.nw == 1 {
		ch = s.storeBits(sg, e, 0, sg.w, v&maskW(sg.w), true)
	} else {
		ch = s.storeBig(sg, e, 0, sg.w, new(big.Int).SetUint64(v), true)
	}
	if ch {
		s.changed(sg)
	}
	return nil
}

// Written reports whether the signal was procedurally written during the most recent Settle().
func (s *Sim) Written(name string) bool {
	sg := s.byName[name]
	return sg != nil && s.written[sg.idx]
}

// WrittenList returns the names of all signals written during the most recent Settle() (sorted).
func (s *Sim) WrittenList() []string {
	out := make([]string, 0, len(s.writtenList))
	for _, i := range s.writtenList {
		out = append(out, s.sigs[i].name)
	}
	sort.Strings(out)
	return out
}

// Activations returns the number of process activations so far.
func (s *Sim) Activations() uint64 { return s.activations }

// Warnings returns the diagnostics the (tolerant) elaboration produced.
func (s *Sim) Warnings() []Diag { return append([]Diag(nil), s.warnings...) }

// Snapshot returns a deep copy of all state.
func (s *Sim) Snapshot() *State {
	st := &State{
		val:       append([]uint64(nil), s.val...),
		def:       append([]bool(nil), s.def...),
		watchPrev: append([]uint64(nil), s.watchPrev...),
		dirty:     append([]bool(nil), s.dirty...),
		ndirty:    s.ndirty, minDirty: s.minDirty, maxDirty: s.maxDirty,
		written:  append([]bool(nil), s.written...),
		wlist:    append([]int32(nil), s.writtenList...),
		drvDef:   append([]bool(nil), s.drvDef...),
		undefCnt: append([]int32(nil), s.undefCnt...),
	}
	return st
}

// Restore reinstates a state obtained from Snapshot of the same Sim.
func (s *Sim) Restore(st *State) {
	if st == nil || len(st.val) != len(s.val) || len(st.def) != len(s.def) {
		return
	}
	copy(s.val, st.val)
	copy(s.def, st.def)
	copy(s.watchPrev, st.watchPrev)
	copy(s.dirty, st.dirty)
	s.ndirty, s.minDirty, s.maxDirty = st.ndirty, st.minDirty, st.maxDirty
	copy(s.written, st.written)
	s.writtenList = append(s.writtenList[:0], st.wlist...)
	copy(s.drvDef, st.drvDef)
	copy(s.undefCnt, st.undefCnt)
	s.nba = s.nba[:0]
	s.bcommit = s.bcommit[:0]
	s.undo = s.undo[:0]
	s.rtErr = nil
}

// Hash returns a canonical hash of the Snapshot-equivalent state (values, defined
// flags, edge-detection history).
func (s *Sim) Hash() [16]byte {
	n := len(s.val)*8 + len(s.def) + len(s.watchPrev)
	if cap(s.hashBuf) < n {
		s.hashBuf = make([]byte, n)
	}
	b := s.hashBuf[:n]
	o := 0
	for _, v := range s.val {
		binary.LittleEndian.PutUint64(b[o:], v)
		o += 8
	}
	for _, d := range s.def {
		if d {
			b[o] = 1
		} else {
			b[o] = 0
		}
		o++
	}
	for _, p := range s.watchPrev {
		b[o] = byte(p & 1)
		o++
	}
	return md5.Sum(b)
}
