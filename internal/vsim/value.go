package vsim

import (
	"math/big"
	"math/bits"
)

// Val is a constant value (parameter, literal, genvar) with its type.
// Values of up to 64 bits live in Bits; wider values in Big (non-negative, < 2^W).
type Val struct {
	W      int
	Signed bool
	Bits   uint64
	Big    *big.Int // only when W > 64
	Undef  bool     // contains x/z
}

func maskW(w int) uint64 {
	if w >= 64 {
		return ^uint64(0)
	}
	if w <= 0 {
		return 0
	}
	return (uint64(1) << uint(w)) - 1
}

// sext sign-extends the w-bit value v to 64 bits.
func sext(v uint64, w int) int64 {
	if w >= 64 || w <= 0 {
		return int64(v)
	}
	sh := uint(64 - w)
	return int64(v<<sh) >> sh
}

// extendTo extends the from-bit value v to 'to' bits (to <= 64), by sign if signed.
func extendTo(v uint64, from, to int, signed bool) uint64 {
	if !signed || from >= to {
		return v & maskW(to)
	}
	return uint64(sext(v, from)) & maskW(to)
}

func bigMask(w int) *big.Int {
	m := new(big.Int).Lsh(big.NewInt(1), uint(w))
	return m.Sub(m, big.NewInt(1))
}

// bigTrunc reduces v modulo 2^w into the range [0, 2^w).
func bigTrunc(v *big.Int, w int) *big.Int {
	if v.Sign() >= 0 && v.BitLen() <= w {
		return v
	}
	r := new(big.Int).And(v, bigMask(w)) // And on negative numbers uses two's complement semantics
	return r
}

// bigSigned interprets the w-bit non-negative v as a two's complement number.
func bigSigned(v *big.Int, w int) *big.Int {
	if w > 0 && v.Bit(w-1) == 1 {
		return new(big.Int).Sub(v, new(big.Int).Lsh(big.NewInt(1), uint(w)))
	}
	return v
}

// bigExtend extends a from-bit value to 'to' bits.
func bigExtend(v *big.Int, from, to int, signed bool) *big.Int {
	if !signed || from >= to {
		return bigTrunc(v, to)
	}
	return bigTrunc(bigSigned(v, from), to)
}

func wordsToBig(ws []uint64) *big.Int {
	r := new(big.Int)
	for i := len(ws) - 1; i >= 0; i-- {
		r.Lsh(r, 64)
		r.Or(r, new(big.Int).SetUint64(ws[i]))
	}
	return r
}

// bigIntoWords stores v (non-negative, < 2^(64*len(ws))) into ws.
func bigIntoWords(v *big.Int, ws []uint64) {
	bw := v.Bits()
	if bits.UintSize == 64 {
		for i := range ws {
			if i < len(bw) {
				ws[i] = uint64(bw[i])
			} else {
				ws[i] = 0
			}
		}
		return
	}
	tmp := new(big.Int).Set(v)
	m := new(big.Int).SetUint64(^uint64(0))
	for i := range ws {
		ws[i] = new(big.Int).And(tmp, m).Uint64()
		tmp.Rsh(tmp, 64)
	}
}

func (v Val) big() *big.Int {
	if v.W > 64 && v.Big != nil {
		return v.Big
	}
	return new(big.Int).SetUint64(v.Bits)
}

// asInt returns the value as a Go int64 honouring signedness (wide values are clamped).
func (v Val) asInt() int64 {
	if v.W > 64 {
		b := v.big()
		if v.Signed {
			b = bigSigned(b, v.W)
		}
		if b.IsInt64() {
			return b.Int64()
		}
		if b.Sign() < 0 {
			return -1 << 62
		}
		return 1 << 62
	}
	if v.Signed {
		return sext(v.Bits, v.W)
	}
	if v.Bits > 1<<62 {
		return 1 << 62
	}
	return int64(v.Bits)
}

func mkVal(w int, signed bool, b *big.Int) Val {
	b = bigTrunc(b, w)
	if w <= 64 {
		return Val{W: w, Signed: signed, Bits: b.Uint64()}
	}
	return Val{W: w, Signed: signed, Big: b, Bits: new(big.Int).And(b, new(big.Int).SetUint64(^uint64(0))).Uint64()}
}

// powU computes base**exp mod 2^64 (exp unsigned).
func powU(base, exp uint64) uint64 {
	r := uint64(1)
	for exp > 0 {
		if exp&1 == 1 {
			r *= base
		}
		base *= base
		exp >>= 1
	}
	return r
}

func clog2(v uint64) uint64 {
	if v <= 1 {
		return 0
	}
	return uint64(bits.Len64(v - 1))
}
