// Package vsim is a Verilog-2001-subset front end, elaborator, 2-state cycle
// simulator and lint. See SPEC.md (normative) and NOTES.md (deviations).
package vsim

import (
	"fmt"
	"sort"
	"strings"
)

// Diag is one diagnostic produced by the parser, the lint or the elaborator.
type Diag struct {
	File  string
	Line  int
	Class string // one of the Class* constants
	Ident string // the identifier/module the diagnostic is about ("" if none)
	Msg   string
}

// Diagnostic classes.
const (
	ClassSyntax       = "syntax"           // cannot be parsed as Verilog at all
	ClassNonV2001     = "non-v2001"        // parsed leniently, not Verilog-2001 (j++, inline genvar, ...)
	ClassUndeclared   = "undeclared"       // identifier read/written/used in sensitivity list but not declared in scope
	ClassUndefModule  = "undefined-module" // instantiated module not in the file set (and not whitelisted)
	ClassPortCount    = "port-count"       // positional instance with wrong number of ports / named port that does not exist
	ClassAssignKind   = "assign-kind"      // procedural assignment to a net, or continuous assignment to a reg
	ClassMultiDriver  = "multi-driver"     // a reg assigned in more than one always process, or a net with >1 continuous driver
	ClassWidthLiteral = "width-literal"    // sized literal with more digits than its size allows
	ClassDupDecl      = "duplicate-decl"   // same name declared twice in one scope (other than port redeclaration)
	ClassCombLoop     = "comb-loop"
	ClassUnsupported  = "unsupported" // construct vsim cannot elaborate/simulate

	// ClassImplicitNet is only produced by (*Design).ImplicitNets.
	ClassImplicitNet = "implicit-net"
)

func (d Diag) String() string {
	id := ""
	if d.Ident != "" {
		id = " [" + d.Ident + "]"
	}
	return fmt.Sprintf("%s:%d: %s%s: %s", d.File, d.Line, d.Class, id, d.Msg)
}

// DiagError is the error type returned by Elaborate and Settle. It carries the
// diagnostics that caused the failure.
type DiagError struct {
	Diags []Diag
}

func (e *DiagError) Error() string {
	if len(e.Diags) == 0 {
		return "vsim: error"
	}
	var sb strings.Builder
	for i, d := range e.Diags {
		if i > 0 {
			sb.WriteString("; ")
		}
		if i >= 8 {
			fmt.Fprintf(&sb, "... (%d more)", len(e.Diags)-i)
			break
		}
		sb.WriteString(d.String())
	}
	return sb.String()
}

// Class returns the class of the first diagnostic ("" if none).
func (e *DiagError) Class() string {
	if len(e.Diags) == 0 {
		return ""
	}
	return e.Diags[0].Class
}

func sortDiags(ds []Diag) {
	sort.SliceStable(ds, func(i, j int) bool {
		a, b := ds[i], ds[j]
		if a.File != b.File {
			return a.File < b.File
		}
		if a.Line != b.Line {
			return a.Line < b.Line
		}
		if a.Class != b.Class {
			return a.Class < b.Class
		}
		return a.Ident < b.Ident
	})
}

// dedupDiags removes exact duplicates (same file, line, class, ident).
func dedupDiags(ds []Diag) []Diag {
	type key struct {
		f     string
		l     int
		c, id string
	}
	seen := map[key]bool{}
	out := ds[:0:0]
	for _, d := range ds {
		k := key{d.File, d.Line, d.Class, d.Ident}
		if seen[k] {
			continue
		}
		seen[k] = true
		out = append(out, d)
	}
	return out
}
