package vsim

import (
	"strings"
)

type tokKind uint8

const (
	tEOF tokKind = iota
	tIdent
	tKeyword
	tSysIdent // $display ...
	tNumber
	tString
	tOp
	tDirective // unknown `macro use
)

type token struct {
	kind tokKind
	text string // identifier / operator / keyword text; for numbers the raw source text
	line int

	// number parts (kind == tNumber)
	numSize   string // decimal size digits ("" if unsized)
	numBase   byte   // 'b','o','d','h' or 0 for a plain decimal number
	numSigned bool   // 's' flag
	numDigits string // digits without underscores
	numReal   bool
}

var keywords = map[string]bool{}

func init() {
	for _, k := range strings.Fields(`always and assign automatic begin buf bufif0 bufif1 case casex casez cell cmos config
deassign default defparam design disable edge else end endcase endconfig endfunction endgenerate endmodule endprimitive
endspecify endtable endtask event for force forever fork function generate genvar highz0 highz1 if ifnone incdir include
initial inout input instance integer join large liblist library localparam macromodule medium module nand negedge nmos nor
noshowcancelled not notif0 notif1 or output parameter pmos posedge primitive pull0 pull1 pulldown pullup pulsestyle_onevent
pulsestyle_ondetect rcmos real realtime reg release repeat rnmos rpmos rtran rtranif0 rtranif1 scalared showcancelled signed
small specify specparam strong0 strong1 supply0 supply1 table task time tran tranif0 tranif1 tri tri0 tri1 triand trior trireg
unsigned use uwire vectored wait wand weak0 weak1 while wire wor xnor xor`) {
		keywords[k] = true
	}
}

type lexer struct {
	file  string
	src   string
	pos   int
	line  int
	toks  []token
	diags []Diag
}

func lexFile(file, src string) ([]token, []Diag) {
	lx := &lexer{file: file, src: src, line: 1}
	lx.run()
	return lx.toks, lx.diags
}

func (lx *lexer) diag(class, msg string) {
	lx.diags = append(lx.diags, Diag{File: lx.file, Line: lx.line, Class: class, Msg: msg})
}

func isIdentStart(c byte) bool {
	return c == '_' || (c >= 'a' && c <= 'z') || (c >= 'A' && c <= 'Z')
}
func isIdentChar(c byte) bool {
	return isIdentStart(c) || (c >= '0' && c <= '9') || c == '$'
}
func isDigit(c byte) bool { return c >= '0' && c <= '9' }
func isSpace(c byte) bool {
	return c == ' ' || c == '\t' || c == '\r' || c == '\n' || c == '\f' || c == '\v'
}

// three/two character operators, longest first.
var ops3 = []string{"<<<", ">>>", "===", "!==", "|->", "|=>"}
var ops2 = []string{"<<", ">>", "==", "!=", "<=", ">=", "&&", "||", "**", "~&", "~|", "~^", "^~", "+:", "-:", "++", "--", "+=", "-=", "*=", "/=", "->", "##", "::", "|=", "&=", "^="}

func (lx *lexer) skipLine() {
	for lx.pos < len(lx.src) && lx.src[lx.pos] != '\n' {
		lx.pos++
	}
}

func (lx *lexer) emit(t token) { lx.toks = append(lx.toks, t) }

func (lx *lexer) run() {
	src := lx.src
	for lx.pos < len(src) {
		c := src[lx.pos]
		switch {
		case c == '\n':
			lx.line++
			lx.pos++
		case isSpace(c):
			lx.pos++
		case c == '/' && lx.pos+1 < len(src) && src[lx.pos+1] == '/':
			lx.skipLine()
		case c == '/' && lx.pos+1 < len(src) && src[lx.pos+1] == '*':
			end := strings.Index(src[lx.pos+2:], "*/")
			if end < 0 {
				lx.diag(ClassSyntax, "unterminated block comment")
				lx.line += strings.Count(src[lx.pos:], "\n")
				lx.pos = len(src)
			} else {
				lx.line += strings.Count(src[lx.pos:lx.pos+2+end+2], "\n")
				lx.pos += 2 + end + 2
			}
		case c == '(' && lx.pos+1 < len(src) && src[lx.pos+1] == '*':
			// attribute instance or "(*)" of an event control
			j := lx.pos + 2
			for j < len(src) && (src[j] == ' ' || src[j] == '\t') {
				j++
			}
			if j < len(src) && src[j] == ')' {
				lx.emit(token{kind: tOp, text: "(", line: lx.line})
				lx.emit(token{kind: tOp, text: "*", line: lx.line})
				lx.emit(token{kind: tOp, text: ")", line: lx.line})
				lx.pos = j + 1
				break
			}
			end := strings.Index(src[lx.pos+2:], "*)")
			if end < 0 {
				lx.diag(ClassSyntax, "unterminated attribute instance")
				lx.line += strings.Count(src[lx.pos:], "\n")
				lx.pos = len(src)
			} else {
				lx.line += strings.Count(src[lx.pos:lx.pos+2+end+2], "\n")
				lx.pos += 2 + end + 2
			}
		case c == '`':
			lx.pos++
			st := lx.pos
			for lx.pos < len(src) && isIdentChar(src[lx.pos]) {
				lx.pos++
			}
			name := src[st:lx.pos]
			switch name {
			case "timescale", "default_nettype", "include", "define", "undef", "resetall", "celldefine",
				"endcelldefine", "line", "pragma", "unconnected_drive", "nounconnected_drive",
				"begin_keywords", "end_keywords":
				// a `define may be continued with a backslash
				for {
					lx.skipLine()
					if name == "define" && lx.pos > 0 && lx.pos < len(src) && strings.HasSuffix(strings.TrimRight(src[st:lx.pos], " \t\r"), "\\") {
						lx.pos++
						lx.line++
						continue
					}
					break
				}
			case "ifdef", "ifndef", "elsif":
				// conditional compilation is ignored: all branches are kept.
				lx.skipLine()
			case "else", "endif":
			default:
				lx.emit(token{kind: tDirective, text: name, line: lx.line})
			}
		case c == '"':
			st := lx.pos + 1
			j := st
			var sb strings.Builder
			for j < len(src) && src[j] != '"' && src[j] != '\n' {
				if src[j] == '\\' && j+1 < len(src) {
					j++
					switch src[j] {
					case 'n':
						sb.WriteByte('\n')
					case 't':
						sb.WriteByte('\t')
					default:
						sb.WriteByte(src[j])
					}
					j++
					continue
				}
				sb.WriteByte(src[j])
				j++
			}
			if j >= len(src) || src[j] != '"' {
				lx.diag(ClassSyntax, "unterminated string")
			} else {
				j++
			}
			lx.emit(token{kind: tString, text: sb.String(), line: lx.line})
			lx.pos = j
		case c == '\\':
			// escaped identifier: up to white space
			st := lx.pos + 1
			j := st
			for j < len(src) && !isSpace(src[j]) {
				j++
			}
			lx.emit(token{kind: tIdent, text: src[st:j], line: lx.line})
			lx.pos = j
		case c == '$':
			st := lx.pos
			lx.pos++
			for lx.pos < len(src) && isIdentChar(src[lx.pos]) {
				lx.pos++
			}
			lx.emit(token{kind: tSysIdent, text: src[st:lx.pos], line: lx.line})
		case isIdentStart(c):
			st := lx.pos
			for lx.pos < len(src) && isIdentChar(src[lx.pos]) {
				lx.pos++
			}
			w := src[st:lx.pos]
			k := tIdent
			if keywords[w] {
				k = tKeyword
			}
			lx.emit(token{kind: k, text: w, line: lx.line})
		case isDigit(c) || c == '\'':
			lx.number()
		default:
			lx.op()
		}
	}
	lx.emit(token{kind: tEOF, line: lx.line})
}

func (lx *lexer) op() {
	src := lx.src
	rest := src[lx.pos:]
	for _, o := range ops3 {
		if strings.HasPrefix(rest, o) {
			lx.emit(token{kind: tOp, text: o, line: lx.line})
			lx.pos += 3
			return
		}
	}
	for _, o := range ops2 {
		if strings.HasPrefix(rest, o) {
			lx.emit(token{kind: tOp, text: o, line: lx.line})
			lx.pos += 2
			return
		}
	}
	c := src[lx.pos]
	if strings.IndexByte("()[]{};:,.=+-*/%<>!~&|^?@#", c) >= 0 {
		lx.emit(token{kind: tOp, text: string(c), line: lx.line})
		lx.pos++
		return
	}
	lx.diag(ClassSyntax, "unexpected character "+quoteByte(c))
	lx.pos++
}

func quoteByte(c byte) string {
	if c >= 32 && c < 127 {
		return "'" + string(c) + "'"
	}
	const hex = "0123456789abcdef"
	return "0x" + string(hex[c>>4]) + string(hex[c&15])
}

// number lexes decimal numbers, reals and based literals (with optional size).
func (lx *lexer) number() {
	src := lx.src
	st := lx.pos
	line := lx.line
	t := token{kind: tNumber, line: line}
	if src[lx.pos] != '\'' {
		for lx.pos < len(src) && (isDigit(src[lx.pos]) || src[lx.pos] == '_') {
			lx.pos++
		}
		// real?
		if lx.pos+1 < len(src) && src[lx.pos] == '.' && isDigit(src[lx.pos+1]) {
			lx.pos++
			for lx.pos < len(src) && (isDigit(src[lx.pos]) || src[lx.pos] == '_') {
				lx.pos++
			}
			t.numReal = true
		}
		if lx.pos < len(src) && (src[lx.pos] == 'e' || src[lx.pos] == 'E') {
			j := lx.pos + 1
			if j < len(src) && (src[j] == '+' || src[j] == '-') {
				j++
			}
			if j < len(src) && isDigit(src[j]) {
				for j < len(src) && isDigit(src[j]) {
					j++
				}
				lx.pos = j
				t.numReal = true
			}
		}
		if t.numReal {
			t.text = src[st:lx.pos]
			t.numDigits = strings.ReplaceAll(t.text, "_", "")
			lx.emit(t)
			return
		}
		dec := strings.ReplaceAll(src[st:lx.pos], "_", "")
		// look ahead for a base
		j := lx.pos
		nl := 0
		for j < len(src) && isSpace(src[j]) {
			if src[j] == '\n' {
				nl++
			}
			j++
		}
		// "#1 'b0": after a delay '#', a number separated by white space from a
		// based literal is the delay value followed by an unsized literal.
		afterHash := len(lx.toks) > 0 && lx.toks[len(lx.toks)-1].kind == tOp && lx.toks[len(lx.toks)-1].text == "#" && j > lx.pos
		if j < len(src) && src[j] == '\'' && lx.isBaseAt(j) && !afterHash {
			t.numSize = dec
			lx.pos = j
			lx.line += nl
		} else {
			t.text = src[st:lx.pos]
			t.numDigits = dec
			lx.emit(t)
			return
		}
	} else if !lx.isBaseAt(lx.pos) {
		// a lone apostrophe (e.g. SystemVerilog '0 / '1 or cast) - not supported
		if lx.pos+1 < len(src) && (src[lx.pos+1] == '0' || src[lx.pos+1] == '1' || src[lx.pos+1] == 'x' || src[lx.pos+1] == 'z') {
			// SystemVerilog unbased unsized literal: treat as 1-bit based literal, flag it.
			lx.diags = append(lx.diags, Diag{File: lx.file, Line: lx.line, Class: ClassNonV2001, Msg: "SystemVerilog unbased unsized literal"})
			t.numBase = 'b'
			t.numDigits = string(src[lx.pos+1])
			t.text = src[lx.pos : lx.pos+2]
			lx.pos += 2
			lx.emit(t)
			return
		}
		lx.diag(ClassSyntax, "unexpected character '''")
		lx.pos++
		return
	}
	// at apostrophe with a valid base
	lx.pos++
	if src[lx.pos] == 's' || src[lx.pos] == 'S' {
		t.numSigned = true
		lx.pos++
	}
	b := src[lx.pos]
	if b >= 'A' && b <= 'Z' {
		b += 'a' - 'A'
	}
	t.numBase = b
	lx.pos++
	for lx.pos < len(src) && isSpace(src[lx.pos]) {
		if src[lx.pos] == '\n' {
			lx.line++
		}
		lx.pos++
	}
	ds := lx.pos
	for lx.pos < len(src) {
		ch := src[lx.pos]
		ok := false
		switch b {
		case 'b':
			ok = ch == '0' || ch == '1'
		case 'o':
			ok = ch >= '0' && ch <= '7'
		case 'd':
			ok = isDigit(ch)
		case 'h':
			ok = isDigit(ch) || (ch >= 'a' && ch <= 'f') || (ch >= 'A' && ch <= 'F')
		}
		if ok || ch == '_' || ch == 'x' || ch == 'X' || ch == 'z' || ch == 'Z' || ch == '?' {
			lx.pos++
			continue
		}
		break
	}
	t.numDigits = strings.ReplaceAll(src[ds:lx.pos], "_", "")
	t.text = src[st:lx.pos]
	if t.numDigits == "" {
		lx.diags = append(lx.diags, Diag{File: lx.file, Line: line, Class: ClassSyntax, Msg: "based literal without digits: " + t.text})
		t.numDigits = "0"
	}
	// a malformed literal such as 4'b12 leaves the '2' glued to the literal
	if lx.pos < len(src) && isIdentChar(src[lx.pos]) {
		j := lx.pos
		for j < len(src) && isIdentChar(src[j]) {
			j++
		}
		lx.diags = append(lx.diags, Diag{File: lx.file, Line: line, Class: ClassSyntax, Msg: "illegal digits in literal: " + src[st:j]})
		lx.pos = j
	}
	lx.emit(t)
}

func (lx *lexer) isBaseAt(j int) bool {
	src := lx.src
	if j >= len(src) || src[j] != '\'' {
		return false
	}
	j++
	if j < len(src) && (src[j] == 's' || src[j] == 'S') {
		j++
	}
	if j >= len(src) {
		return false
	}
	switch src[j] {
	case 'b', 'B', 'o', 'O', 'd', 'D', 'h', 'H':
		return true
	}
	return false
}
