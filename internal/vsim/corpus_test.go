package vsim

import (
	"os"
	"path/filepath"
	"sort"
	"strings"
	"testing"
)

// corpusRoot locates .work/corpus relative to the package directory.
func corpusRoot() string {
	for _, c := range []string{"../../.work/corpus", "/verif/.work/corpus"} {
		if st, err := os.Stat(c); err == nil && st.IsDir() {
			return c
		}
	}
	return ""
}

func loadCorpusDir(t testing.TB, dir string) map[string]string {
	t.Helper()
	files := map[string]string{}
	ms, _ := filepath.Glob(filepath.Join(dir, "*.v"))
	for _, m := range ms {
		b, err := os.ReadFile(m)
		if err != nil {
			t.Fatal(err)
		}
		files[filepath.Base(m)] = string(b)
	}
	return files
}

// corpusExternals whitelists, per corpus directory, the modules the generated HDL
// instantiates without defining them (each of these is a finding, see NOTES.md).
var corpusExternals = map[string]map[string]bool{
	"allops_8":  {"divp_0": true, "multiplier_0": true, "multp_0": true},
	"allops_16": {"divp_0": true, "multiplier_0": true, "multp_0": true},
	"allops_32": {"divp_0": true, "multiplier_0": true, "multp_0": true},
	"so_kbd":    {"k0": true},
}

func corpusDirs(t testing.TB) []string {
	root := corpusRoot()
	if root == "" {
		t.Skip("acceptance corpus .work/corpus is absent (generate it with: go run ./cmd/mkcorpus .work/corpus)")
	}
	dirs, _ := filepath.Glob(filepath.Join(root, "*"))
	var out []string
	for _, d := range dirs {
		if st, err := os.Stat(d); err == nil && st.IsDir() {
			out = append(out, d)
		}
	}
	sort.Strings(out)
	if len(out) == 0 {
		t.Skip("acceptance corpus is empty")
	}
	return out
}

// TestCorpusParseElaborate: every file parses; every bondmachine.v directory elaborates
// at top bondmachine, every stack_* directory at top stk; a reset plus some clock cycles run.
func TestCorpusParseElaborate(t *testing.T) {
	for _, dir := range corpusDirs(t) {
		name := filepath.Base(dir)
		t.Run(name, func(t *testing.T) {
			files := loadCorpusDir(t, dir)
			if len(files) == 0 {
				t.Skip("no .v files")
			}
			d, diags := ParseFiles(files)
			for _, dg := range diags {
				if dg.Class == ClassSyntax {
					t.Errorf("parse: %v", dg)
				}
			}
			top := ""
			if _, ok := files["bondmachine.v"]; ok {
				top = "bondmachine"
			} else if strings.HasPrefix(name, "stack_") {
				top = "stk"
			}
			// lint must not crash and every diagnostic carries a location
			for _, dg := range d.Lint(top, corpusExternals[name]) {
				if dg.File == "" || dg.Line <= 0 {
					t.Errorf("lint diagnostic without location: %v", dg)
				}
			}
			if top == "" {
				return
			}
			sim, err := d.Elaborate(top, corpusExternals[name])
			if err != nil {
				t.Fatalf("elaborate %s: %v", top, err)
			}
			clk := "clk"
			if _, err := sim.Width(clk); err != nil {
				t.Fatalf("no clk: %v", err)
			}
			for _, p := range d.Ports(top) {
				// drive every input with 0 (outputs are overwritten by their drivers)
				if p != "clk" {
					_ = sim.Set(p, 0)
				}
			}
			if err := sim.Set("reset", 1); err != nil {
				t.Fatal(err)
			}
			for i := 0; i < 3; i++ {
				if err := sim.Cycle(clk); err != nil {
					t.Fatalf("cycle under reset: %v", err)
				}
			}
			sim.Set("reset", 0)
			for i := 0; i < 200; i++ {
				if err := sim.Cycle(clk); err != nil {
					t.Fatalf("cycle %d: %v", i, err)
				}
			}
			if sim.Activations() == 0 {
				t.Errorf("no process was ever activated")
			}
			// the generated test bench is parsed and elaborated too (its clock generator
			// and delays are not scheduled)
			if _, ok := files["bondmachine_tb.v"]; ok {
				tb, err := d.Elaborate("bondmachine_tb", corpusExternals[name])
				if err != nil {
					t.Fatalf("elaborate bondmachine_tb: %v", err)
				}
				if err := tb.Settle(); err != nil {
					t.Fatalf("settle bondmachine_tb: %v", err)
				}
				if v, def, err := tb.Get("reset"); err != nil || !def || v != 1 {
					t.Errorf("bondmachine_tb.reset after time 0 = %d,%v,%v", v, def, err)
				}
			}
		})
	}
}

// TestCorpusWithoutWhitelistFails: the undefined modules really are reported.
func TestCorpusWithoutWhitelistFails(t *testing.T) {
	root := corpusRoot()
	if root == "" {
		t.Skip("acceptance corpus .work/corpus is absent")
	}
	dir := filepath.Join(root, "so_kbd")
	if _, err := os.Stat(dir); err != nil {
		t.Skip("so_kbd absent")
	}
	d, _ := ParseFiles(loadCorpusDir(t, dir))
	_, err := d.Elaborate("bondmachine", nil)
	de, ok := err.(*DiagError)
	if !ok || de.Class() != ClassUndefModule {
		t.Fatalf("want undefined-module error, got %v", err)
	}
	if !hasDiag(d.Lint("bondmachine", nil), "undefined-module:k0") {
		t.Errorf("lint does not report undefined module k0")
	}
}

type fifoTB struct {
	t   *testing.T
	sim *Sim
}

func (f *fifoTB) set(n string, v uint64) {
	f.t.Helper()
	if err := f.sim.Set(n, v); err != nil {
		f.t.Fatal(err)
	}
}
func (f *fifoTB) cycle() {
	f.t.Helper()
	if err := f.sim.Cycle("clk"); err != nil {
		f.t.Fatal(err)
	}
}
func (f *fifoTB) expect(n string, want uint64) {
	f.t.Helper()
	v, def, err := f.sim.Get(n)
	if err != nil {
		f.t.Fatal(err)
	}
	if !def || v != want {
		f.t.Errorf("%s = %d (defined=%v), want %d", n, v, def, want)
	}
}

// TestCorpusFIFO2 simulates stack_FIFO_2/stk.v: reset, write handshake, read handshake
// returning the same data, empty/full flags.
func TestCorpusFIFO2(t *testing.T) {
	root := corpusRoot()
	if root == "" {
		t.Skip("acceptance corpus .work/corpus is absent")
	}
	dir := filepath.Join(root, "stack_FIFO_2")
	if _, err := os.Stat(dir); err != nil {
		t.Skip("stack_FIFO_2 absent")
	}
	d, diags := ParseFiles(loadCorpusDir(t, dir))
	if len(diags) != 0 {
		t.Fatalf("unexpected parse diagnostics: %v", diags)
	}
	if ds := d.Lint("stk", nil); len(ds) != 0 {
		t.Errorf("stk.v should lint clean: %v", ds)
	}
	sim, err := d.Elaborate("stk", nil)
	if err != nil {
		t.Fatal(err)
	}
	f := &fifoTB{t, sim}
	for _, in := range []string{"s0Data", "s0Write", "s1Data", "s1Write", "r0Read", "r1Read", "r2Read"} {
		f.set(in, 0)
	}
	// before reset everything is undefined
	sim.Settle()
	if _, def, _ := sim.Get("empty"); def {
		t.Errorf("empty must be undefined before reset")
	}
	f.set("reset", 1)
	f.cycle()
	f.expect("empty", 1)
	f.expect("full", 0)
	f.expect("sp", 0)
	f.set("reset", 0)
	// write 0x5A on sender 0
	f.set("s0Data", 0x5A)
	f.set("s0Write", 1)
	f.cycle()
	f.expect("s0Ack", 1)
	f.expect("sp", 1)
	f.expect("empty", 0)
	f.expect("full", 0)
	f.expect("writesp", 1)
	if v, def, _ := sim.GetMem("memory", 0); !def || v != 0x5A {
		t.Errorf("memory[0] = %#x,%v", v, def)
	}
	f.set("s0Write", 0)
	f.cycle()
	f.expect("s0Ack", 0)
	f.expect("sp", 1)
	// read it back on receiver 0
	f.set("r0Read", 1)
	f.cycle()
	f.expect("r0Ack", 1)
	f.expect("r0Data", 0x5A)
	f.expect("sp", 0)
	f.expect("empty", 1)
	f.expect("readsp", 1)
	f.set("r0Read", 0)
	f.cycle()
	f.expect("r0Ack", 0)
	// fill it: the send arbiter now points at sender 1
	f.expect("sendSM", 1)
	f.set("s1Data", 0x11)
	f.set("s1Write", 1)
	f.cycle()
	f.expect("s1Ack", 1)
	f.expect("sp", 1)
	f.expect("writesp", 0)
	f.set("s1Write", 0)
	f.cycle()
	f.set("s0Data", 0x22)
	f.set("s0Write", 1)
	f.cycle()
	f.expect("s0Ack", 1)
	f.expect("sp", 2)
	f.expect("full", 1)
	f.expect("empty", 0)
	f.set("s0Write", 0)
	f.cycle()
	// a write while full is not acknowledged
	f.set("s1Data", 0x33)
	f.set("s1Write", 1)
	f.cycle()
	f.cycle()
	f.expect("s1Ack", 0)
	f.expect("sp", 2)
	f.set("s1Write", 0)
	f.cycle()
	// drain in FIFO order through receivers 1 and 2 (receive arbiter is at 1 after the first read)
	f.expect("recvSM", 1)
	f.set("r1Read", 1)
	f.cycle()
	f.expect("r1Ack", 1)
	f.expect("r1Data", 0x11)
	f.expect("full", 0)
	f.set("r1Read", 0)
	f.cycle()
	f.set("r2Read", 1)
	f.cycle()
	f.expect("r2Ack", 1)
	f.expect("r2Data", 0x22)
	f.expect("empty", 1)
}

// allops8Program is a small loop for the allops_8 processor (17-bit instructions:
// opcode [16:10], destination register [9:8], source [7:6] / output [7] / address [9:6]).
var allops8Program = []uint64{
	0x1E<<10 | 0<<8,        // INC R0
	0x1E<<10 | 0<<8,        // INC R0
	0x01<<10 | 1<<8 | 0<<6, // ADD R1 R0   (r1 <= r0 + r1)
	0x3E<<10 | 1<<8 | 0<<7, // R2O R1 O0
	0x20<<10 | 0<<6,        // J 0
}

func newAllops8(t testing.TB, program []uint64) *Sim {
	root := corpusRoot()
	if root == "" {
		t.Skip("acceptance corpus .work/corpus is absent")
	}
	dir := filepath.Join(root, "allops_8")
	if _, err := os.Stat(dir); err != nil {
		t.Skip("allops_8 absent")
	}
	d, _ := ParseFiles(loadCorpusDir(t, dir))
	sim, err := d.Elaborate("bondmachine", corpusExternals["allops_8"])
	if err != nil {
		t.Fatal(err)
	}
	for _, p := range d.Ports("bondmachine") {
		if p != "clk" {
			_ = sim.Set(p, 0)
		}
	}
	for i, w := range program {
		if err := sim.SetMem("a0_inst.p0rom_instance._rom", i, w); err != nil {
			t.Fatal(err)
		}
	}
	sim.Set("reset", 1)
	for i := 0; i < 3; i++ {
		if err := sim.Cycle("clk"); err != nil {
			t.Fatal(err)
		}
	}
	sim.Set("reset", 0)
	return sim
}

// TestCorpusProcessorProgram runs a hand-assembled loop on the generated allops_8
// processor and checks the architectural state cycle by cycle.
func TestCorpusProcessorProgram(t *testing.T) {
	sim := newAllops8(t, allops8Program)
	get := func(n string) uint64 {
		v, def, err := sim.Get("a0_inst.p0_instance." + n)
		if err != nil || !def {
			t.Fatalf("%s: %v defined=%v", n, err, def)
		}
		return v
	}
	type st struct{ pc, r0, r1 uint64 }
	want := []st{{1, 1, 0}, {2, 2, 0}, {3, 2, 2}, {4, 2, 2}, {0, 2, 2}, {1, 3, 2}, {2, 4, 2}, {3, 4, 6}, {4, 4, 6}, {0, 4, 6}}
	if get("_pc") != 0 || get("_r0") != 0 {
		t.Fatalf("state after reset: pc=%d r0=%d", get("_pc"), get("_r0"))
	}
	for i, w := range want {
		if err := sim.Cycle("clk"); err != nil {
			t.Fatal(err)
		}
		if g := (st{get("_pc"), get("_r0"), get("_r1")}); g != w {
			t.Fatalf("cycle %d: got %+v, want %+v", i, g, w)
		}
		if i == 3 {
			if v, def, _ := sim.Get("o0"); !def || v != 2 {
				t.Errorf("o0 = %d,%v after first R2O", v, def)
			}
			if v, def, _ := sim.Get("o0_valid"); !def || v != 1 {
				t.Errorf("o0_valid = %d,%v after first R2O", v, def)
			}
			if !sim.Written("a0_inst.p0_instance._auxo0") || sim.Written("a0_inst.p0_instance._r0") {
				t.Errorf("Written() wrong at R2O: %v", sim.WrittenList())
			}
		}
	}
	if v, _, _ := sim.Get("o0"); v != 6 {
		t.Errorf("o0 = %d after second R2O", v)
	}
}

// BenchmarkProcessorProgram is BenchmarkProcessor with a real instruction loop in the ROM
// (the corpus ROM holds two instructions, the rest is undefined and takes the default arm).
func BenchmarkProcessorProgram(b *testing.B) {
	sim := newAllops8(b, allops8Program)
	b.ReportAllocs()
	b.ResetTimer()
	for i := 0; i < b.N; i++ {
		if err := sim.Cycle("clk"); err != nil {
			b.Fatal(err)
		}
	}
	b.StopTimer()
	if s := b.Elapsed().Seconds(); s > 0 {
		b.ReportMetric(float64(b.N)/s, "cycles/s")
	}
}

// BenchmarkProcessor measures clock cycles per second of corpus/allops_8
// (processor a0/p0 with 4 registers below top bondmachine).
func BenchmarkProcessor(b *testing.B) {
	root := corpusRoot()
	if root == "" {
		b.Skip("acceptance corpus .work/corpus is absent")
	}
	dir := filepath.Join(root, "allops_8")
	if _, err := os.Stat(dir); err != nil {
		b.Skip("allops_8 absent")
	}
	d, _ := ParseFiles(loadCorpusDir(b, dir))
	sim, err := d.Elaborate("bondmachine", corpusExternals["allops_8"])
	if err != nil {
		b.Fatal(err)
	}
	for _, p := range d.Ports("bondmachine") {
		if p != "clk" {
			_ = sim.Set(p, 0)
		}
	}
	sim.Set("reset", 1)
	for i := 0; i < 3; i++ {
		if err := sim.Cycle("clk"); err != nil {
			b.Fatal(err)
		}
	}
	sim.Set("reset", 0)
	b.ReportAllocs()
	b.ResetTimer()
	for i := 0; i < b.N; i++ {
		if err := sim.Cycle("clk"); err != nil {
			b.Fatal(err)
		}
	}
	b.StopTimer()
	if s := b.Elapsed().Seconds(); s > 0 {
		b.ReportMetric(float64(b.N)/s, "cycles/s")
	}
	if v, def, _ := sim.Get("a0_inst.p0_instance._pc"); !def {
		b.Errorf("_pc undefined after run (%d)", v)
	}
}
