package vsim

// ---------------------------------------------------------------- expressions

type exprKind uint8

const (
	eIdent   exprKind = iota // Name (possibly hierarchical a.b.c)
	eNumber                  // Num
	eString                  // Str
	eUnary                   // Op, A
	eBinary                  // Op, A, B
	eTernary                 // A ? B : C
	eConcat                  // List
	eRepl                    // A = count, List = items
	eIndex                   // A[B]
	ePartSel                 // A[B:C]
	eIdxPart                 // A[B +: C] (Op "+:") or A[B -: C] (Op "-:")
	eCall                    // Name(List)   (user function or $system function)
)

// Expr is an expression AST node.
type Expr struct {
	Kind exprKind
	Line int
	Op   string
	Name string
	Str  string
	Num  *Number
	A, B *Expr
	C    *Expr
	List []*Expr
}

// Number is a parsed literal.
type Number struct {
	Sized   bool
	Size    int  // valid if Sized
	Base    byte // 0 (plain decimal), 'b','o','d','h'
	Signed  bool
	Digits  string
	Real    bool
	Text    string
	HasXZ   bool
	Width   int      // resulting width (Size or >= 32)
	Words   []uint64 // value, truncated to Width
	TooWide bool     // digits need more bits than Size (width-literal)
	XMask   []uint64 // bits written as x
	ZMask   []uint64 // bits written as z / ?
}

// ---------------------------------------------------------------- statements

type stmtKind uint8

const (
	sNull stmtKind = iota
	sBlock
	sIf
	sCase
	sFor
	sWhile
	sRepeat
	sForever
	sAssign  // blocking / non-blocking
	sDelay   // #d stmt
	sEvent   // @(...) stmt
	sWait    // wait (expr) stmt
	sSysTask // $display(...)
	sTaskCall
	sDisable
	sIncDec // i++ / i-- / i += e (SystemVerilog-isms)
)

// CaseItem is one arm of a case statement.
type CaseItem struct {
	Labels  []*Expr // nil for default
	Default bool
	Body    *Stmt
	Line    int
}

// Stmt is a statement AST node.
type Stmt struct {
	Kind  stmtKind
	Line  int
	Name  string  // block name / task name / disable target
	Decls []*Decl // local declarations of a block
	Stmts []*Stmt // block body
	Cond  *Expr   // if/while/repeat/case selector/wait
	Then  *Stmt   // if-then, loop body, delayed statement
	Else  *Stmt   // else
	Items []CaseItem
	Op    string // case kind ("case","casez","casex"); assign: "=" or "<="; incdec op
	LHS   *Expr
	RHS   *Expr
	Delay *Expr   // intra-assignment delay or #d
	Init  *Stmt   // for-init
	Step  *Stmt   // for-step
	Args  []*Expr // system task args
	Sens  *Sens   // event control
}

// SensItem is one item of a sensitivity list.
type SensItem struct {
	Edge string // "", "posedge", "negedge"
	X    *Expr
}

// Sens is an event control.
type Sens struct {
	Star  bool
	Items []SensItem
	Line  int
}

// ---------------------------------------------------------------- module items

type declKind uint8

const (
	dInput declKind = iota
	dOutput
	dInout
	dWire
	dReg
	dInteger
	dGenvar
	dReal
	dTime
	dParam
	dLocalparam
	dEvent
)

func (k declKind) String() string {
	switch k {
	case dInput:
		return "input"
	case dOutput:
		return "output"
	case dInout:
		return "inout"
	case dWire:
		return "wire"
	case dReg:
		return "reg"
	case dInteger:
		return "integer"
	case dGenvar:
		return "genvar"
	case dReal:
		return "real"
	case dTime:
		return "time"
	case dParam:
		return "parameter"
	case dLocalparam:
		return "localparam"
	case dEvent:
		return "event"
	}
	return "?"
}

// DeclName is one declared name with optional array dimensions and initial value.
type DeclName struct {
	Name string
	Line int
	Dims [][2]*Expr // memory dimensions
	Init *Expr
}

// Decl is a declaration (possibly of several names).
type Decl struct {
	Kind        declKind
	Line        int
	NetType     string // "wire","reg","tri",... for ports the optional net/var type ("" if none)
	Signed      bool
	IsInt       bool // parameter integer / output integer
	MSB         *Expr
	LSB         *Expr
	Names       []DeclName
	Ansi        bool // declared in an ANSI port list
	InParamPort bool
}

type itemKind uint8

const (
	iDecl itemKind = iota
	iAssign
	iAlways
	iInitial
	iInstance
	iGenRegion // generate ... endgenerate (Items)
	iGenFor
	iGenIf
	iGenBlock // begin [:name] ... end inside generate
	iFunction
	iTask
	iIgnored // specify blocks, SVA assertions, defparam ... (parsed & skipped)
)

// Assign is one "lhs = rhs" of a continuous assignment.
type Assign struct {
	LHS, RHS *Expr
	Line     int
}

// PortConn is one instance port connection.
type PortConn struct {
	Name string // "" for positional
	X    *Expr  // nil for empty connection
	Line int
}

// ParamConn is one parameter override.
type ParamConn struct {
	Name string
	X    *Expr
}

// Instance is one module instance.
type Instance struct {
	Module   string
	Name     string
	Line     int
	Params   []ParamConn
	Conns    []PortConn
	Named    bool
	HasRange bool
}

// Function is a function declaration.
type Function struct {
	Name      string
	Line      int
	Signed    bool
	IsInt     bool
	MSB, LSB  *Expr
	Decls     []*Decl // inputs and locals, in order
	Body      *Stmt
	Automatic bool
}

// Item is a module item.
type Item struct {
	Kind  itemKind
	Line  int
	Decl  *Decl
	Asgs  []Assign
	Sens  *Sens // always: leading event control (nil for "always #d" / "always stmt")
	Body  *Stmt
	Inst  *Instance
	Func  *Function
	Name  string  // generate block name
	Items []*Item // generate region / block / for body / if-then
	Else  []*Item // generate-if else
	Cond  *Expr   // genif / genfor condition
	// genfor
	GenVar      string
	GenInit     *Expr
	GenStepV    string
	GenStep     *Expr
	What        string // iIgnored: description
	AlwaysDelay bool   // "always #d stmt"
}

// Module is a parsed module.
type Module struct {
	Name     string
	File     string
	Line     int
	EndLine  int      // line of endmodule
	PortList []string // names in port-list order
	PortLine map[string]int
	Ansi     bool
	Items    []*Item
}
