package vsim

import (
	"strings"
	"testing"
)

type lintCase struct {
	name      string
	src       string
	top       string
	externals map[string]bool
	want      []string // "class:ident" that must be present (ident may be empty: "class:")
	forbid    []string // classes (or class:ident) that must be absent
}

func hasDiag(ds []Diag, spec string) bool {
	kv := strings.SplitN(spec, ":", 2)
	for _, d := range ds {
		if d.Class != kv[0] {
			continue
		}
		if len(kv) == 1 || kv[1] == "" || kv[1] == d.Ident {
			return true
		}
	}
	return false
}

var allClasses = []string{ClassSyntax, ClassNonV2001, ClassUndeclared, ClassUndefModule, ClassPortCount, ClassAssignKind,
	ClassMultiDriver, ClassWidthLiteral, ClassDupDecl, ClassCombLoop, ClassUnsupported}

var lintCases = []lintCase{
	// a clean design: no diagnostics of any class
	{name: "clean", top: "t",
		src: `module sub #(parameter W = 4) (input clk, input [W-1:0] d, output reg [W-1:0] q);
  always @(posedge clk) q <= d;
endmodule
module t(clk, rst, d, q, s);
  input clk, rst;
  input [3:0] d;
  output [3:0] q;
  output [4:0] s;
  wire [3:0] q;
  reg [4:0] s;
  integer i;
  reg [7:0] mem [0:3];
  localparam K = 4'd3;
  sub #(.W(4)) u(.clk(clk), .d(d), .q(q));
  always @(posedge clk, posedge rst)
    if (rst) begin
      s <= 0;
      for (i = 0; i < 4; i = i + 1) mem[i] <= 8'd0;
    end else begin : blk
      reg [4:0] tmp;
      tmp = d + K;
      s <= tmp;
      mem[d[1:0]] <= {4'h0, d};
    end
endmodule`,
		forbid: allClasses},

	// ---- syntax
	{name: "syntax_positive", src: "module t; wire x = ; endmodule", want: []string{"syntax:"}},
	{name: "syntax_garbage_never_panics", src: "module t(; always @( begin end endmodule module", want: []string{"syntax:"}},
	{name: "syntax_negative", src: "module t; wire x = 1'b0; endmodule", forbid: []string{ClassSyntax}},

	// ---- non-v2001
	{name: "nonv2001_positive", src: "module t(input [1:0] a, output [1:0] y); generate for (genvar j = 0; j < 2; j++) begin : g assign y[j] = a[j]; end endgenerate endmodule",
		want: []string{"non-v2001:"}, forbid: []string{ClassSyntax, ClassUndeclared}},
	{name: "nonv2001_assertion", src: "module t(input clk, input a); chk: assert property (@(posedge clk) a |-> ##1 a); endmodule",
		want: []string{"non-v2001:chk"}, forbid: []string{ClassSyntax}},
	{name: "nonv2001_negative", src: "module t(input [1:0] a, output [1:0] y); genvar j; generate for (j = 0; j < 2; j = j + 1) begin : g assign y[j] = a[j]; end endgenerate endmodule",
		forbid: []string{ClassNonV2001, ClassSyntax}},

	// ---- undeclared
	{name: "undeclared_rhs", src: "module t(input a, output y); assign y = a & b; endmodule", want: []string{"undeclared:b"}},
	{name: "undeclared_procedural_lhs", src: "module t(input clk); always @(posedge clk) ghost <= 1'b0; endmodule", want: []string{"undeclared:ghost"}},
	{name: "undeclared_sensitivity", src: "module t(input clk); reg q; always @(posedge clock) q <= 1; endmodule", want: []string{"undeclared:clock"}},
	{name: "undeclared_port_without_direction", src: "module t(a, b); input a; endmodule", want: []string{"undeclared:b"}},
	{name: "undeclared_function", src: "module t(input [3:0] a, output [3:0] y); assign y = exp(a); endmodule", want: []string{"undeclared:exp"}},
	{name: "undeclared_port_conn_also_used_elsewhere", src: "module sub(input r); endmodule\nmodule t(input clk); reg q; sub u(.r(reset)); always @(posedge clk) if (reset) q <= 0; endmodule",
		want: []string{"undeclared:reset"}},
	{name: "undeclared_negative_implicit_net", src: "module sub(input a, output y); assign y = a; endmodule\nmodule t(input a, output z); sub u(a, w); sub v(w, z); assign k = a; endmodule",
		forbid: []string{ClassUndeclared}},
	{name: "undeclared_negative_scopes", src: `module t(input clk, input [3:0] a, output reg [3:0] y);
  function [3:0] f; input [3:0] v; reg [3:0] tmp; begin tmp = v + 1; f = tmp; end endfunction
  genvar g;
  generate for (g = 0; g < 2; g = g + 1) begin : blk
    wire w = a[g];
  end endgenerate
  always @(posedge clk) begin : named
    integer k;
    for (k = 0; k < 4; k = k + 1) y[k] <= f(a) >> k;
  end
endmodule`, forbid: []string{ClassUndeclared, ClassDupDecl}},

	// ---- undefined-module
	{name: "undefmodule_positive", src: "module t(input a); nothere u(a); endmodule", want: []string{"undefined-module:nothere"}},
	{name: "undefmodule_negative_external", src: "module t(input a); nothere u(a); endmodule", externals: map[string]bool{"nothere": true}, forbid: []string{ClassUndefModule}},

	// ---- port-count
	{name: "portcount_positional", src: "module sub(input a, input b, output y); assign y = a & b; endmodule\nmodule t(input a, output y); sub u(a, y); endmodule", want: []string{"port-count:u"}},
	{name: "portcount_named_missing", src: "module sub(input a, output y); assign y = a; endmodule\nmodule t(input a, output y); sub u(.a(a), .z(y)); endmodule", want: []string{"port-count:z"}},
	{name: "portcount_too_many", src: "module sub(input a, output y); assign y = a; endmodule\nmodule t(input a, output y); sub u(a, y, a); endmodule", want: []string{"port-count:u"}},
	{name: "portcount_negative", src: "module sub(input a, output y); assign y = a; endmodule\nmodule t(input a, output y, output z); sub u(a, y); sub v(.y(z), .a(a)); endmodule", forbid: []string{ClassPortCount}},

	// ---- assign-kind
	{name: "assignkind_procedural_to_wire", src: "module t(input clk, output y); wire w; always @(posedge clk) w <= 1'b1; endmodule", want: []string{"assign-kind:w"}},
	{name: "assignkind_procedural_to_output_not_reg", src: "module t(clk, y); input clk; output y; always @(posedge clk) y <= 1'b1; endmodule", want: []string{"assign-kind:y"}},
	{name: "assignkind_procedural_to_input", src: "module t(input clk, input d); always @(posedge clk) d = 1'b1; endmodule", want: []string{"assign-kind:d"}},
	{name: "assignkind_continuous_to_reg", src: "module t(input a); reg r; assign r = a; endmodule", want: []string{"assign-kind:r"}},
	{name: "assignkind_instance_output_to_reg", src: "module sub(input a, output y); assign y = a; endmodule\nmodule t(input a); reg r; sub u(a, r); endmodule", want: []string{"assign-kind:r"}},
	{name: "assignkind_negative", src: "module sub(input a, output y); assign y = a; endmodule\nmodule t(clk, a, q, o); input clk, a; output q, o; reg q; wire w; sub u(a, w); assign o = w; always @(posedge clk) q <= w; endmodule",
		forbid: []string{ClassAssignKind}},

	// ---- multi-driver
	{name: "multidriver_reg_two_always", src: "module t(input clk, input a); reg done; always @(posedge clk) if (a) done <= 1'b0; always @(posedge clk) if (!a) done <= 1'b1; endmodule", want: []string{"multi-driver:done"}},
	{name: "multidriver_net_two_assigns", src: "module t(input a, input b, output y); assign y = a; assign y = b; endmodule", want: []string{"multi-driver:y"}},
	{name: "multidriver_assign_and_instance_output", src: "module sub(input a, output y); assign y = a; endmodule\nmodule t(input a, output y); sub u(a, y); assign y = ~a; endmodule", want: []string{"multi-driver:y"}},
	{name: "multidriver_decl_assign_and_assign", src: "module t(input a, output y); wire w = a; assign w = ~a; assign y = w; endmodule", want: []string{"multi-driver:w"}},
	{name: "multidriver_overlapping_part_selects", src: "module t(input [3:0] a, output [7:0] y); assign y[5:2] = a; assign y[3:0] = a; assign y[7:6] = 2'b0; endmodule", want: []string{"multi-driver:y"}},
	{name: "multidriver_memory_two_always", src: "module t(input clk, input [1:0] a); reg [3:0] m [0:3]; always @(posedge clk) m[0] <= 1; always @(posedge clk) m[a] <= 2; endmodule", want: []string{"multi-driver:m"}},
	{name: "multidriver_negative_disjoint_bits", src: `module t(input clk, input rst, input [1:0] a, output [1:0] y, output [1:0] z);
  assign y[0] = a[0];
  assign y[1] = a[1];
  reg [1:0] q;
  genvar i;
  generate for (i = 0; i < 2; i = i + 1) begin
    always @(posedge clk or posedge rst) if (rst) q[i] <= 1'b0; else q[i] <= a[i];
  end endgenerate
  assign z = q;
  reg r;
  initial r = 0;
  always @(posedge clk) r <= a[0];
endmodule`, forbid: []string{ClassMultiDriver}},
	{name: "multidriver_negative_two_instances_of_clean_module", src: "module sub(input clk, input d, output reg q); always @(posedge clk) q <= d; endmodule\nmodule t(input clk, input d, output a, output b); sub u(clk, d, a); sub v(clk, d, b); endmodule",
		forbid: []string{ClassMultiDriver}},

	// ---- width-literal
	{name: "widthliteral_binary_38_digits", src: "module t; wire [12:0] r = 13'b00000000000000000000000000000100101100; endmodule", want: []string{"width-literal:"}},
	{name: "widthliteral_leading_zeros_count", src: "module t; wire [1:0] r = 2'b000; endmodule", want: []string{"width-literal:"}},
	{name: "widthliteral_decimal", src: "module t; wire [3:0] r = 4'd16; endmodule", want: []string{"width-literal:"}},
	{name: "widthliteral_hex", src: "module t; wire [3:0] r = 4'h1F; endmodule", want: []string{"width-literal:"}},
	{name: "widthliteral_negative", src: "module t; wire [7:0] a = 8'hFF; wire [3:0] b = 4'd15; wire [3:0] c = 4'h0F; wire [2:0] d = 3'b101; wire [4:0] e = 5'o37; wire [31:0] f = 'hFFFFFFFF; wire g = 1'b1; endmodule", forbid: []string{ClassWidthLiteral}},

	// ---- duplicate-decl
	{name: "dupdecl_reg", src: "module t; reg [31:0] a; reg [15:0] a; endmodule", want: []string{"duplicate-decl:a"}},
	{name: "dupdecl_parameter", src: "module t; parameter P = 1; parameter P = 2; endmodule", want: []string{"duplicate-decl:P"}},
	{name: "dupdecl_instance", src: "module sub(input a); endmodule\nmodule t(input a); sub u(a); sub u(a); endmodule", want: []string{"duplicate-decl:u"}},
	{name: "dupdecl_port_redeclared_twice", src: "module t(q); output q; reg q; reg q; endmodule", want: []string{"duplicate-decl:q"}},
	{name: "dupdecl_module", src: "module t; endmodule\nmodule t; endmodule", want: []string{"duplicate-decl:t"}},
	{name: "dupdecl_negative_port_redeclaration", src: "module t(a, q, w); input [3:0] a; output [3:0] q; output w; reg [3:0] q; wire [3:0] a; wire w; endmodule", forbid: []string{ClassDupDecl}},
	{name: "dupdecl_negative_same_name_in_different_scopes", src: "module t(input clk); integer k; always @(posedge clk) begin : A integer k; k = 0; end always @(posedge clk) begin : B integer k; k = 1; end endmodule", forbid: []string{ClassDupDecl}},

	// ---- comb-loop
	{name: "combloop_positive", src: "module t(input a, output y); wire p, q; assign p = q & a; assign q = ~p; assign y = q; endmodule", want: []string{"comb-loop:"}},
	{name: "combloop_through_always", src: "module t(input a, output y); reg r; wire w = r ^ a; always @* r = w; assign y = r; endmodule", want: []string{"comb-loop:"}},
	{name: "combloop_negative_bit_chain", src: "module t(input [2:0] a, output y); wire [3:0] c; assign c[0] = 1'b1; assign c[1] = c[0] & a[0]; assign c[2] = c[1] & a[1]; assign c[3] = c[2] & a[2]; assign y = c[3]; endmodule", forbid: []string{ClassCombLoop}},
	{name: "combloop_negative_registered_feedback", src: "module t(input clk, output [3:0] y); reg [3:0] q; wire [3:0] n = q + 1; always @(posedge clk) q <= n; assign y = q; endmodule", forbid: []string{ClassCombLoop}},
	{name: "combloop_negative_temp_in_always", src: "module t(input [3:0] a, output reg [3:0] y); reg [3:0] tmp; always @* begin tmp = a + 1; y = tmp + 1; end endmodule", forbid: []string{ClassCombLoop}},

	// ---- unsupported
	{name: "unsupported_task", src: "module t(input clk); task foo; begin end endtask always @(posedge clk) foo; endmodule", want: []string{"unsupported:"}},
	{name: "unsupported_inout", src: "module t(inout a); endmodule", want: []string{"unsupported:"}},
	{name: "unsupported_negative", src: "module t(input clk, output reg q); always @(posedge clk) q <= ~q; endmodule", forbid: []string{ClassUnsupported}},
}

func TestLint(t *testing.T) {
	for _, c := range lintCases {
		c := c
		t.Run(c.name, func(t *testing.T) {
			d, _ := ParseFiles(map[string]string{"t.v": c.src})
			ds := d.Lint(c.top, c.externals)
			for _, w := range c.want {
				if !hasDiag(ds, w) {
					t.Errorf("missing diagnostic %q; got %v", w, ds)
				}
			}
			for _, f := range c.forbid {
				if hasDiag(ds, f) {
					t.Errorf("unexpected diagnostic of %q; got %v", f, ds)
				}
			}
			for _, dg := range ds {
				if dg.File == "" && dg.Class != ClassUndefModule {
					t.Errorf("diagnostic without file: %v", dg)
				}
				if dg.Line <= 0 && dg.Class != ClassUndefModule {
					t.Errorf("diagnostic without line: %v", dg)
				}
			}
		})
	}
}

func TestImplicitNets(t *testing.T) {
	src := "module sub(input a, output y); assign y = a; endmodule\nmodule t(input a, output z); sub u(a, w); sub v(w, z); assign k = a; endmodule"
	d, _ := ParseFiles(map[string]string{"t.v": src})
	imp := d.ImplicitNets()
	if !hasDiag(imp, "implicit-net:w") || !hasDiag(imp, "implicit-net:k") {
		t.Errorf("ImplicitNets = %v", imp)
	}
	if len(imp) != 2 {
		t.Errorf("want 2 implicit nets, got %v", imp)
	}
	if got := d.Ports("sub"); len(got) != 2 || got[0] != "a" || got[1] != "y" {
		t.Errorf("Ports(sub) = %v", got)
	}
	if got := d.Modules(); len(got) != 2 {
		t.Errorf("Modules() = %v", got)
	}
}

// TestNeverPanics feeds broken inputs through the whole pipeline.
func TestNeverPanics(t *testing.T) {
	inputs := []string{
		"", "module", "module t", "module t;", "module t(;", "module t; always", "module t; assign = ; endmodule",
		"module t; wire [7:0 a; endmodule", "module t; initial begin", "module t; always @(posedge) x <= 1; endmodule",
		"module t; reg [1000000000:0] a; endmodule", "module t; reg a [0:1000000000]; endmodule",
		"module t; wire x = 4'b; endmodule", "module t; wire x = 'q; endmodule", "endmodule", "`foo module t; endmodule",
		"module t; function f; endfunction endmodule", "module t; t u(); endmodule",
		"module t; wire [3:0] a = {0{1'b1}}; endmodule", "module t; wire a = b.c.d; endmodule",
		"module t; parameter P = P; endmodule", "module t; wire [P:0] a; parameter P = 3; endmodule",
		"module t; reg a; always @* a = f(a); function f; input x; f = f(x); endfunction endmodule",
		"module t; case endmodule", "module t; generate for (i=0;;) endgenerate endmodule",
		"module t; reg [3:0] a; always @* a[5:9] = 1; endmodule", "module t; wire w; assign w[3] = 1; endmodule",
		"module t; real r; initial r = 1.5; endmodule", "module t; reg a; always a = ~a; endmodule",
		"module t; reg a; initial forever a = ~a; endmodule", "module t (input a, input a); endmodule",
		"module t; reg [3:0] m [0:3]; wire [3:0] w = m; endmodule", "module t; wire [3:0] w; wire x = w[1:2]; endmodule",
		"module \\esc!aped (input \\a+b ); endmodule", "/* unterminated", "module t; (* unterminated",
		"module t; wire x = 1 ? ; endmodule", "module t; wire x = (((((((((1))))))))); endmodule",
		"module t; integer i; initial for (i = 0; i < 10; i = i) ; endmodule",
		"module t; integer i; initial while (1) i = i + 1; endmodule",
	}
	deep := "module t; wire x = " + strings.Repeat("(", 5000) + "1" + strings.Repeat(")", 5000) + "; endmodule"
	inputs = append(inputs, deep)
	for i, in := range inputs {
		func() {
			defer func() {
				if r := recover(); r != nil {
					t.Errorf("input %d (%q) panicked: %v", i, in, r)
				}
			}()
			d, _ := ParseFiles(map[string]string{"x.v": in})
			_ = d.Lint("", nil)
			_ = d.ImplicitNets()
			for _, m := range d.Modules() {
				sim, err := d.Elaborate(m, nil)
				if err == nil {
					_ = sim.Settle()
					_ = sim.Hash()
				}
			}
			_, _ = d.Elaborate("nope", nil)
		}()
	}
}

// TestElaborateRefusesBrokenModules: a module with parse errors or skipped unsupported items is
// not simulated; other modules of the same file set are unaffected.
func TestElaborateRefusesBrokenModules(t *testing.T) {
	src := `module good(input a, output y); assign y = ~a; endmodule
module broken(input a, output y); assign y = ~ ; endmodule
module gates(input a, output y); not g(y, a); endmodule
module withtask(input a, output y); task unused; begin end endtask assign y = a; endmodule
module usesbroken(input a, output y); broken b(a, y); endmodule`
	d, _ := ParseFiles(map[string]string{"x.v": src})
	want := map[string]string{"good": "", "broken": ClassSyntax, "gates": ClassUnsupported, "withtask": "", "usesbroken": ClassSyntax}
	for m, cls := range want {
		_, err := d.Elaborate(m, nil)
		switch {
		case cls == "" && err != nil:
			t.Errorf("%s: unexpected error %v", m, err)
		case cls != "" && err == nil:
			t.Errorf("%s: elaboration must fail with class %s", m, cls)
		case cls != "":
			if de, ok := err.(*DiagError); !ok || de.Class() != cls {
				t.Errorf("%s: want class %s, got %v", m, cls, err)
			}
		}
	}
	// unsupported constructs that are reached at run time
	for _, c := range []struct{ src, cls string }{
		{"module t(input clk); reg a; task tk; begin end endtask always @(posedge clk) tk; endmodule", ClassUnsupported},
		{"module t(input clk); reg a; always @(posedge clk) begin @(posedge clk); a <= 1; end endmodule", ClassUnsupported},
		{"module t(inout a); endmodule", ClassUnsupported},
		{"module t; real r; wire [3:0] w = 1.5; endmodule", ClassUnsupported},
		{"module t(input a); sub #(1) u [3:0] (a); endmodule\nmodule sub(input a); endmodule", ClassUnsupported},
		{"module t(input a); t u(a); endmodule", ClassUnsupported},
	} {
		d, _ := ParseFiles(map[string]string{"x.v": c.src})
		_, err := d.Elaborate("t", nil)
		if de, ok := err.(*DiagError); !ok || de.Class() != c.cls {
			t.Errorf("%q: want %s error, got %v", c.src, c.cls, err)
		}
	}
}
