package vsim

import (
	"fmt"
	"sort"
	"strings"
)

// ---------------------------------------------------------------- AST-level symbol tables

type lkind uint8

const (
	lkNet lkind = iota
	lkReg       // reg / integer / time / real
	lkParam
	lkGenvar
	lkFunc
	lkScope // named block / generate block
	lkInst
)

type lsym struct {
	kind    lkind
	line    int
	isPort  bool
	hasDir  bool
	hasType bool
	dir     declKind
	isMem   bool
	ansi    bool
}

type lscope struct {
	parent *lscope
	names  map[string]*lsym
	isFunc bool
}

func (s *lscope) lookup(n string) *lsym {
	for c := s; c != nil; c = c.parent {
		if y, ok := c.names[n]; ok {
			return y
		}
	}
	return nil
}

type useKind uint8

const (
	usePortConn useKind = iota
	useAssignLHS
	useOther
)

type identUse struct {
	line int
	kind useKind
}

type modLint struct {
	d         *Design
	m         *Module
	ext       map[string]bool
	diags     []Diag
	undecl    map[string][]identUse
	undeclOrd []string
}

func (ml *modLint) add(line int, class, ident, msg string) {
	ml.diags = append(ml.diags, Diag{File: ml.m.File, Line: line, Class: class, Ident: ident, Msg: msg})
}

// declareLint adds the names of a declaration to scope sc, reporting duplicates.
func (ml *modLint) declareLint(sc *lscope, d *Decl, top bool) {
	isPortDecl := d.Kind == dInput || d.Kind == dOutput || d.Kind == dInout
	for _, n := range d.Names {
		old := sc.names[n.Name]
		switch d.Kind {
		case dParam, dLocalparam, dGenvar:
			if old != nil {
				ml.add(n.Line, ClassDupDecl, n.Name, fmt.Sprintf("%s is already declared at line %d", n.Name, old.line))
				continue
			}
			k := lkParam
			if d.Kind == dGenvar {
				k = lkGenvar
			}
			sc.names[n.Name] = &lsym{kind: k, line: n.Line}
			continue
		}
		kind := lkNet
		if d.Kind == dReg || d.Kind == dInteger || d.Kind == dReal || d.Kind == dTime || d.Kind == dEvent || d.NetType == "reg" || d.IsInt {
			kind = lkReg
		}
		_, inPortList := ml.m.PortLine[n.Name]
		if old != nil {
			merged := false
			if old.kind == lkNet || old.kind == lkReg {
				switch {
				case isPortDecl && !old.hasDir && top && inPortList && !sc.isFunc:
					old.hasDir, old.dir, old.isPort = true, d.Kind, true
					if d.NetType != "" {
						if old.hasType {
							merged = false
							break
						}
						old.hasType = true
						old.kind = kind
					}
					merged = true
				case !isPortDecl && old.hasDir && !old.hasType && !old.ansi:
					old.hasType = true
					old.kind = kind
					merged = true
				}
			}
			if !merged {
				ml.add(n.Line, ClassDupDecl, n.Name, fmt.Sprintf("%s is already declared at line %d", n.Name, old.line))
			}
			continue
		}
		y := &lsym{kind: kind, line: n.Line, isMem: len(n.Dims) > 0}
		if isPortDecl {
			y.hasDir, y.dir, y.isPort = true, d.Kind, true
			y.hasType = d.NetType != "" || d.IsInt || d.Ansi
			y.ansi = d.Ansi
			if top && !inPortList && !sc.isFunc {
				ml.add(n.Line, ClassUndeclared, n.Name, n.Name+" is declared "+d.Kind.String()+" but does not appear in the port list")
			}
		} else {
			y.hasType = true
		}
		sc.names[n.Name] = y
	}
}

// collect declares everything an item list declares directly in sc (pre-pass, so that
// use-before-declaration inside a module is tolerated).
func (ml *modLint) collect(sc *lscope, items []*Item, top bool) {
	for _, it := range items {
		switch it.Kind {
		case iDecl:
			ml.declareLint(sc, it.Decl, top)
		case iFunction:
			if old := sc.names[it.Func.Name]; old != nil {
				ml.add(it.Func.Line, ClassDupDecl, it.Func.Name, fmt.Sprintf("%s is already declared at line %d", it.Func.Name, old.line))
			} else {
				sc.names[it.Func.Name] = &lsym{kind: lkFunc, line: it.Func.Line}
			}
		case iInstance:
			if old := sc.names[it.Inst.Name]; old != nil {
				ml.add(it.Inst.Line, ClassDupDecl, it.Inst.Name, fmt.Sprintf("instance name %s is already declared at line %d", it.Inst.Name, old.line))
			} else {
				sc.names[it.Inst.Name] = &lsym{kind: lkInst, line: it.Inst.Line}
			}
		case iGenRegion:
			ml.collect(sc, it.Items, top)
		case iGenBlock:
			if it.Name != "" {
				if old := sc.names[it.Name]; old != nil {
					ml.add(it.Line, ClassDupDecl, it.Name, fmt.Sprintf("block name %s is already declared at line %d", it.Name, old.line))
				} else {
					sc.names[it.Name] = &lsym{kind: lkScope, line: it.Line}
				}
			}
		case iGenFor, iGenIf:
			for _, body := range [][]*Item{it.Items, it.Else} {
				if len(body) == 1 && body[0].Kind == iGenBlock && body[0].Name != "" {
					nm := body[0].Name
					if old := sc.names[nm]; old != nil {
						if old.kind != lkScope || it.Kind == iGenFor {
							ml.add(body[0].Line, ClassDupDecl, nm, fmt.Sprintf("block name %s is already declared at line %d", nm, old.line))
						}
					} else {
						sc.names[nm] = &lsym{kind: lkScope, line: body[0].Line}
					}
				}
			}
		}
	}
}

func (ml *modLint) use(sc *lscope, name string, line int, k useKind) *lsym {
	if i := strings.IndexByte(name, '.'); i >= 0 {
		// hierarchical: check the first component only
		first := name[:i]
		if j := strings.IndexByte(first, '['); j >= 0 {
			first = first[:j]
		}
		if y := sc.lookup(first); y != nil {
			return nil
		}
		full := name[:i]
		if y := sc.lookup(full); y != nil {
			return nil
		}
		name = first
	}
	y := sc.lookup(name)
	if y == nil {
		if _, ok := ml.undecl[name]; !ok {
			ml.undeclOrd = append(ml.undeclOrd, name)
		}
		ml.undecl[name] = append(ml.undecl[name], identUse{line, k})
	}
	return y
}

func (ml *modLint) expr(sc *lscope, x *Expr, k useKind) {
	if x == nil {
		return
	}
	switch x.Kind {
	case eIdent:
		ml.use(sc, x.Name, x.Line, k)
	case eNumber, eString:
	case eCall:
		if !strings.HasPrefix(x.Name, "$") {
			if y := sc.lookup(x.Name); y == nil {
				ml.add(x.Line, ClassUndeclared, x.Name, "function "+x.Name+" is not declared")
			} else if y.kind != lkFunc {
				ml.add(x.Line, ClassUndeclared, x.Name, x.Name+" is called but is not a function")
			}
		}
		for _, a := range x.List {
			ml.expr(sc, a, useOther)
		}
	case eIndex, ePartSel, eIdxPart:
		ml.expr(sc, x.A, k)
		ml.expr(sc, x.B, useOther)
		ml.expr(sc, x.C, useOther)
	default:
		ml.expr(sc, x.A, k)
		ml.expr(sc, x.B, k)
		ml.expr(sc, x.C, k)
		for _, a := range x.List {
			ml.expr(sc, a, k)
		}
	}
}

// lvalueBases calls f for every base identifier of an lvalue expression.
func lvalueBases(x *Expr, f func(id *Expr)) {
	if x == nil {
		return
	}
	switch x.Kind {
	case eIdent:
		f(x)
	case eIndex, ePartSel, eIdxPart:
		lvalueBases(x.A, f)
	case eConcat:
		for _, it := range x.List {
			lvalueBases(it, f)
		}
	}
}

// lvalue checks the identifiers of an lvalue; selects' index expressions are ordinary reads.
func (ml *modLint) lvalue(sc *lscope, x *Expr, k useKind, procedural bool) {
	if x == nil {
		return
	}
	switch x.Kind {
	case eIdent:
		y := ml.use(sc, x.Name, x.Line, k)
		if y == nil {
			return
		}
		switch y.kind {
		case lkNet:
			if procedural {
				what := "a net"
				if y.isPort && y.hasDir {
					what = "an " + y.dir.String() + " port that is not declared reg"
				} else if y.isPort {
					what = "a port without direction declaration"
				}
				ml.add(x.Line, ClassAssignKind, x.Name, "procedural assignment to "+x.Name+", which is "+what)
			}
		case lkReg:
			if !procedural {
				ml.add(x.Line, ClassAssignKind, x.Name, "continuous assignment to "+x.Name+", which is a variable (reg/integer)")
			}
		case lkFunc:
			// function name inside its own body is the return variable (handled by scope)
		default:
			ml.add(x.Line, ClassAssignKind, x.Name, x.Name+" is not assignable")
		}
	case eIndex, ePartSel, eIdxPart:
		ml.lvalue(sc, x.A, k, procedural)
		ml.expr(sc, x.B, useOther)
		ml.expr(sc, x.C, useOther)
	case eConcat:
		for _, it := range x.List {
			ml.lvalue(sc, it, k, procedural)
		}
	default:
		ml.add(x.Line, ClassSyntax, "", "illegal lvalue")
	}
}

func (ml *modLint) stmt(sc *lscope, st *Stmt) {
	if st == nil {
		return
	}
	switch st.Kind {
	case sBlock:
		bsc := sc
		if st.Name != "" || len(st.Decls) > 0 {
			bsc = &lscope{parent: sc, names: map[string]*lsym{}, isFunc: sc.isFunc}
			if st.Name != "" {
				if old := sc.names[st.Name]; old != nil {
					ml.add(st.Line, ClassDupDecl, st.Name, fmt.Sprintf("block name %s is already declared at line %d", st.Name, old.line))
				} else {
					sc.names[st.Name] = &lsym{kind: lkScope, line: st.Line}
				}
			}
			for _, d := range st.Decls {
				ml.declareLint(bsc, d, false)
			}
		}
		for _, c := range st.Stmts {
			ml.stmt(bsc, c)
		}
	case sIf:
		ml.expr(sc, st.Cond, useOther)
		ml.stmt(sc, st.Then)
		ml.stmt(sc, st.Else)
	case sCase:
		ml.expr(sc, st.Cond, useOther)
		for _, it := range st.Items {
			for _, l := range it.Labels {
				ml.expr(sc, l, useOther)
			}
			ml.stmt(sc, it.Body)
		}
	case sFor:
		lsc := sc
		if len(st.Decls) > 0 {
			lsc = &lscope{parent: sc, names: map[string]*lsym{}, isFunc: sc.isFunc}
			for _, d := range st.Decls {
				ml.declareLint(lsc, d, false)
			}
		}
		ml.stmt(lsc, st.Init)
		ml.expr(lsc, st.Cond, useOther)
		ml.stmt(lsc, st.Step)
		ml.stmt(lsc, st.Then)
	case sWhile, sRepeat, sWait:
		ml.expr(sc, st.Cond, useOther)
		ml.stmt(sc, st.Then)
	case sForever, sDelay:
		ml.stmt(sc, st.Then)
	case sEvent:
		ml.sens(sc, st.Sens)
		ml.stmt(sc, st.Then)
	case sAssign:
		ml.lvalue(sc, st.LHS, useOther, true)
		ml.expr(sc, st.RHS, useOther)
		if st.Sens != nil {
			ml.sens(sc, st.Sens)
		}
	case sSysTask:
		switch st.Name {
		case "$dumpvars", "$dumpfile", "$readmemh", "$readmemb":
			// arguments may be module / memory names
		default:
			for _, a := range st.Args {
				ml.expr(sc, a, useOther)
			}
		}
	case sTaskCall:
		for _, a := range st.Args {
			ml.expr(sc, a, useOther)
		}
	}
}

func (ml *modLint) sens(sc *lscope, s *Sens) {
	if s == nil {
		return
	}
	for _, it := range s.Items {
		ml.expr(sc, it.X, useOther)
	}
}

// portDirs returns the direction of every port of module m.
func portDirs(m *Module) map[string]declKind {
	out := map[string]declKind{}
	var walk func(items []*Item)
	walk = func(items []*Item) {
		for _, it := range items {
			if it.Kind == iDecl && (it.Decl.Kind == dInput || it.Decl.Kind == dOutput || it.Decl.Kind == dInout) {
				for _, n := range it.Decl.Names {
					if _, ok := out[n.Name]; !ok {
						out[n.Name] = it.Decl.Kind
					}
				}
			}
			if it.Kind == iGenRegion {
				walk(it.Items)
			}
		}
	}
	walk(m.Items)
	return out
}

func (ml *modLint) instance(sc *lscope, inst *Instance) {
	for _, p := range inst.Params {
		ml.expr(sc, p.X, useOther)
	}
	child := ml.d.mods[inst.Module]
	var dirs map[string]declKind
	if child == nil {
		if !ml.ext[inst.Module] {
			ml.add(inst.Line, ClassUndefModule, inst.Module, "module "+inst.Module+" (instance "+inst.Name+") is not defined")
		}
	} else {
		dirs = portDirs(child)
		if inst.Named {
			seen := map[string]bool{}
			for _, c := range inst.Conns {
				if _, ok := child.PortLine[c.Name]; !ok {
					ml.add(c.Line, ClassPortCount, c.Name, "module "+child.Name+" has no port "+c.Name+" (instance "+inst.Name+")")
				} else if seen[c.Name] {
					ml.add(c.Line, ClassPortCount, c.Name, "port "+c.Name+" is connected twice (instance "+inst.Name+")")
				}
				seen[c.Name] = true
			}
		} else if len(inst.Conns) != len(child.PortList) {
			ml.add(inst.Line, ClassPortCount, inst.Name, fmt.Sprintf("instance %s has %d positional connections but module %s has %d ports", inst.Name, len(inst.Conns), child.Name, len(child.PortList)))
		}
		// parameter overrides
		var pnames []string
		for _, it := range child.Items {
			if it.Kind == iDecl && it.Decl.Kind == dParam {
				for _, n := range it.Decl.Names {
					pnames = append(pnames, n.Name)
				}
			}
		}
		npos := 0
		for _, p := range inst.Params {
			if p.Name == "" {
				npos++
				continue
			}
			found := false
			for _, n := range pnames {
				if n == p.Name {
					found = true
				}
			}
			if !found {
				ml.add(inst.Line, ClassPortCount, p.Name, "module "+child.Name+" has no parameter "+p.Name+" (instance "+inst.Name+")")
			}
		}
		if npos > len(pnames) {
			ml.add(inst.Line, ClassPortCount, inst.Name, fmt.Sprintf("instance %s has %d positional parameter overrides but module %s has %d parameters", inst.Name, npos, child.Name, len(pnames)))
		}
	}
	for i, c := range inst.Conns {
		if c.X == nil {
			continue
		}
		pname := c.Name
		if !inst.Named && child != nil && i < len(child.PortList) {
			pname = child.PortList[i]
		}
		isOut := dirs != nil && dirs[pname] == dOutput
		_, known := dirs[pname]
		if isOut && known && isLvalueExpr(c.X) {
			// output port: the connection is a net lvalue
			lvalueBases(c.X, func(id *Expr) {
				if y := sc.lookup(id.Name); y != nil && y.kind == lkReg {
					ml.add(c.Line, ClassAssignKind, id.Name, "output port "+pname+" of instance "+inst.Name+" is connected to "+id.Name+", which is a variable (reg/integer)")
				}
			})
		}
		ml.expr(sc, c.X, usePortConn)
	}
}

func (ml *modLint) items(sc *lscope, items []*Item) {
	for _, it := range items {
		switch it.Kind {
		case iDecl:
			d := it.Decl
			ml.expr(sc, d.MSB, useOther)
			ml.expr(sc, d.LSB, useOther)
			for _, n := range d.Names {
				for _, dim := range n.Dims {
					ml.expr(sc, dim[0], useOther)
					ml.expr(sc, dim[1], useOther)
				}
				ml.expr(sc, n.Init, useOther)
			}
		case iAssign:
			for _, a := range it.Asgs {
				ml.lvalue(sc, a.LHS, useAssignLHS, false)
				ml.expr(sc, a.RHS, useOther)
			}
		case iAlways:
			ml.sens(sc, it.Sens)
			ml.stmt(sc, it.Body)
		case iInitial:
			ml.stmt(sc, it.Body)
		case iInstance:
			ml.instance(sc, it.Inst)
		case iGenRegion:
			ml.items(sc, it.Items)
		case iGenBlock:
			sub := &lscope{parent: sc, names: map[string]*lsym{}}
			ml.collect(sub, it.Items, false)
			ml.items(sub, it.Items)
		case iGenIf:
			ml.expr(sc, it.Cond, useOther)
			for _, body := range [][]*Item{it.Items, it.Else} {
				ml.genBody(sc, body, "")
			}
		case iGenFor:
			gsc := sc
			if it.What == "inline-genvar" {
				gsc = &lscope{parent: sc, names: map[string]*lsym{it.GenVar: {kind: lkGenvar, line: it.Line}}}
			} else if y := sc.lookup(it.GenVar); y == nil {
				ml.add(it.Line, ClassUndeclared, it.GenVar, "generate loop variable "+it.GenVar+" is not declared")
				gsc = &lscope{parent: sc, names: map[string]*lsym{it.GenVar: {kind: lkGenvar, line: it.Line}}}
			} else if y.kind != lkGenvar {
				ml.add(it.Line, ClassUndeclared, it.GenVar, "generate loop variable "+it.GenVar+" is not a genvar")
			}
			ml.expr(gsc, it.GenInit, useOther)
			ml.expr(gsc, it.Cond, useOther)
			ml.expr(gsc, it.GenStep, useOther)
			if it.GenStepV != it.GenVar {
				ml.use(gsc, it.GenStepV, it.Line, useOther)
			}
			ml.genBody(gsc, it.Items, it.GenVar)
		case iFunction:
			f := it.Func
			fsc := &lscope{parent: sc, names: map[string]*lsym{}, isFunc: true}
			fsc.names[f.Name] = &lsym{kind: lkReg, line: f.Line, hasType: true}
			ml.expr(sc, f.MSB, useOther)
			ml.expr(sc, f.LSB, useOther)
			for _, d := range f.Decls {
				ml.declareLint(fsc, d, false)
				ml.expr(fsc, d.MSB, useOther)
				ml.expr(fsc, d.LSB, useOther)
			}
			// function inputs are variables inside the function
			for _, d := range f.Decls {
				if d.Kind == dInput {
					for _, n := range d.Names {
						if y := fsc.names[n.Name]; y != nil {
							y.kind = lkReg
						}
					}
				}
			}
			ml.stmt(fsc, f.Body)
		}
	}
}

func (ml *modLint) genBody(sc *lscope, body []*Item, genvar string) {
	if len(body) == 0 {
		return
	}
	items := body
	if len(body) == 1 && body[0].Kind == iGenBlock {
		items = body[0].Items
	}
	sub := &lscope{parent: sc, names: map[string]*lsym{}}
	ml.collect(sub, items, false)
	ml.items(sub, items)
}

// lintModule runs the AST-level checks on one module.
func (d *Design) lintModule(m *Module, ext map[string]bool) (diags, implicit []Diag) {
	ml := &modLint{d: d, m: m, ext: ext, undecl: map[string][]identUse{}}
	root := &lscope{names: map[string]*lsym{}}
	ml.collect(root, m.Items, true)
	for _, pn := range m.PortList {
		y := root.names[pn]
		if y == nil {
			ml.add(m.PortLine[pn], ClassUndeclared, pn, "port "+pn+" has no direction declaration")
			root.names[pn] = &lsym{kind: lkNet, line: m.PortLine[pn], isPort: true}
		} else if (y.kind == lkNet || y.kind == lkReg) && !y.hasDir {
			ml.add(m.PortLine[pn], ClassUndeclared, pn, "port "+pn+" has no direction declaration")
		} else if y.kind != lkNet && y.kind != lkReg {
			ml.add(m.PortLine[pn], ClassUndeclared, pn, "port "+pn+" is not declared as a net or variable")
		}
	}
	ml.items(root, m.Items)
	for _, name := range ml.undeclOrd {
		uses := ml.undecl[name]
		other := false
		for _, u := range uses {
			if u.kind == useOther {
				other = true
			}
		}
		seenLine := map[int]bool{}
		firstImplicit := true
		for _, u := range uses {
			if u.kind == useOther {
				if !seenLine[u.line] {
					seenLine[u.line] = true
					ml.add(u.line, ClassUndeclared, name, "identifier "+name+" is not declared")
				}
				continue
			}
			if firstImplicit {
				firstImplicit = false
				what := "port connection"
				if u.kind == useAssignLHS {
					what = "continuous assignment"
				}
				msg := "implicit 1-bit net " + name + " created by " + what
				if other {
					msg += " (also used undeclared elsewhere)"
				}
				implicit = append(implicit, Diag{File: m.File, Line: u.line, Class: ClassImplicitNet, Ident: name, Msg: msg})
			}
		}
	}
	return ml.diags, implicit
}

// ---------------------------------------------------------------- whole-design lint

func (d *Design) instantiated() map[string]bool {
	inst := map[string]bool{}
	var walk func(items []*Item)
	walk = func(items []*Item) {
		for _, it := range items {
			if it.Kind == iInstance {
				inst[it.Inst.Module] = true
			}
			walk(it.Items)
			walk(it.Else)
		}
	}
	for _, m := range d.mods {
		walk(m.Items)
	}
	return inst
}

func (d *Design) undefinedModules() map[string]bool {
	out := map[string]bool{}
	for n := range d.instantiated() {
		if d.mods[n] == nil {
			out[n] = true
		}
	}
	return out
}

// Lint runs all static checks on the whole file set as if elaborated from top
// (if top == "" every module that is not instantiated by another is a top).
// externals: module names that may be instantiated without being defined.
func (d *Design) Lint(top string, externals map[string]bool) (out []Diag) {
	defer func() {
		if r := recover(); r != nil {
			out = append(out, Diag{Class: ClassUnsupported, Msg: fmt.Sprintf("internal lint error: %v", r)})
		}
	}()
	out = append(out, d.parseDgs...)
	out = append(out, d.dupMods...)
	for _, name := range d.order {
		ds, _ := d.lintModule(d.mods[name], externals)
		out = append(out, ds...)
	}
	if top != "" && d.mods[top] == nil {
		out = append(out, Diag{Class: ClassUndefModule, Ident: top, Msg: "top module " + top + " is not defined"})
	}
	// driver analysis on the elaborated hierarchies
	inst := d.instantiated()
	var tops []string
	if top != "" && d.mods[top] != nil {
		tops = append(tops, top)
	}
	for _, name := range d.order {
		if !inst[name] && name != top {
			tops = append(tops, name)
		}
	}
	bb := d.undefinedModules()
	for n := range externals {
		bb[n] = true
	}
	for _, t := range tops {
		out = append(out, d.lintElab(t, bb)...)
	}
	out = dedupDiags(out)
	sortDiags(out)
	return out
}

// ImplicitNets lists the implicit 1-bit nets (1364-2005 4.5) of all modules: undeclared
// identifiers used as a port connection or as the target of a continuous assignment.
func (d *Design) ImplicitNets() []Diag {
	var out []Diag
	for _, name := range d.order {
		_, imp := d.lintModule(d.mods[name], nil)
		out = append(out, imp...)
	}
	sortDiags(out)
	return out
}

// lintElab elaborates top tolerantly and analyses the drivers of every signal.
func (d *Design) lintElab(top string, bb map[string]bool) []Diag {
	e := &elab{d: d, sim: newSim(), blackbox: bb, lintMode: true}
	var out []Diag
	func() {
		defer func() {
			if r := recover(); r != nil {
				out = append(out, Diag{Class: ClassUnsupported, Ident: top, Msg: fmt.Sprintf("internal elaboration error: %v", r)})
			}
		}()
		m := d.mods[top]
		e.sim.topName = top
		e.instantiate(m, "", nil, nil, m.File, m.Line)
	}()
	for _, dg := range e.errs {
		out = append(out, dg)
	}
	for _, dg := range e.warns {
		if dg.Class == ClassUnsupported {
			continue // informational (ignored delays, $readmemh ...)
		}
	}
	s := e.sim
	for _, sg := range s.sigs {
		if sg.local || len(sg.drivers) < 2 {
			continue
		}
		out = append(out, multiDriver(sg)...)
	}
	out = append(out, combLoops(s)...)
	return out
}

// overlap reports whether two drivers touch common bits. perWord: drivers of
// different constant words of an array do not overlap (net arrays); otherwise a
// memory counts as one object (SPEC section 5).
func overlap(a, b *driver, perWord bool) bool {
	if perWord && a.elemConst && b.elemConst && a.elem != b.elem {
		return false
	}
	if a.whole || b.whole {
		return true
	}
	return a.lo <= b.hi && b.lo <= a.hi
}

func multiDriver(sg *signal) []Diag {
	var out []Diag
	var procs, conts []*driver
	for _, dr := range sg.drivers {
		switch dr.kind {
		case "always":
			procs = append(procs, dr)
		case "assign", "port", "decl":
			conts = append(conts, dr)
		}
	}
	report := func(a, b *driver, what string) {
		out = append(out, Diag{File: b.file, Line: b.line, Class: ClassMultiDriver, Ident: sg.lname,
			Msg: fmt.Sprintf("%s %s (%s) %s; other driver at %s:%d", kindName(sg), sg.lname, sg.modName, what, a.file, a.line)})
	}
	// variables: more than one always process
	reported := map[int]bool{}
	for i, b := range procs {
		for _, a := range procs[:i] {
			if a.procID != b.procID && overlap(a, b, false) && !reported[b.procID] {
				reported[b.procID] = true
				what := "is assigned in more than one always block"
				if sg.isMem && a.elemConst && b.elemConst && a.elem != b.elem {
					what += " (different constant words; a memory counts as one object)"
				}
				report(a, b, what)
				break
			}
		}
	}
	// nets: more than one continuous driver on overlapping bits
	for i, b := range conts {
		for _, a := range conts[:i] {
			if a.procID != b.procID && overlap(a, b, true) {
				report(a, b, "has more than one continuous driver")
				break
			}
		}
	}
	// a variable driven both continuously and procedurally
	if len(conts) > 0 && len(procs) > 0 {
		report(conts[0], procs[0], "is driven both by a continuous assignment / port and by an always block")
	}
	return out
}

func kindName(sg *signal) string {
	switch {
	case sg.isMem:
		return "memory"
	case sg.kind == skNet:
		return "net"
	case sg.kind == skImplicit:
		return "implicit signal"
	}
	return "variable"
}

// combLoops finds structural combinational cycles (bit-range aware for constant selects).
func combLoops(s *Sim) []Diag {
	n := len(s.nodes)
	if n == 0 {
		return nil
	}
	// writers per signal with ranges
	type wr struct {
		node   int
		lo, hi int
		whole  bool
	}
	writers := map[*signal][]wr{}
	for i, nd := range s.nodes {
		for _, w := range nd.wranges {
			writers[w.sg] = append(writers[w.sg], wr{i, w.lo, w.hi, w.whole})
		}
	}
	adj := make([][]int, n) // edge writer -> reader
	for i, nd := range s.nodes {
		for _, r := range nd.rranges {
			for _, w := range writers[r.sg] {
				if w.node == i && nd.isProc {
					continue // a process reading back its own variables is not a loop
				}
				if r.whole || w.whole || (r.lo <= w.hi && w.lo <= r.hi) {
					adj[w.node] = append(adj[w.node], i)
				}
			}
		}
	}
	// Tarjan SCC
	index := make([]int, n)
	low := make([]int, n)
	on := make([]bool, n)
	for i := range index {
		index[i] = -1
	}
	var stack []int
	var out []Diag
	idx := 0
	var strong func(v int)
	strong = func(v int) {
		index[v], low[v] = idx, idx
		idx++
		stack = append(stack, v)
		on[v] = true
		for _, w := range adj[v] {
			if index[w] < 0 {
				strong(w)
				if low[w] < low[v] {
					low[v] = low[w]
				}
			} else if on[w] && index[w] < low[v] {
				low[v] = index[w]
			}
		}
		if low[v] == index[v] {
			var comp []int
			for {
				w := stack[len(stack)-1]
				stack = stack[:len(stack)-1]
				on[w] = false
				comp = append(comp, w)
				if w == v {
					break
				}
			}
			self := false
			for _, w := range adj[v] {
				if w == v {
					self = true
				}
			}
			if len(comp) > 1 || self {
				sort.Ints(comp)
				var names []string
				seen := map[string]bool{}
				for _, c := range comp {
					for _, w := range s.nodes[c].wranges {
						if !seen[w.sg.name] {
							seen[w.sg.name] = true
							names = append(names, w.sg.name)
						}
					}
				}
				sort.Strings(names)
				if len(names) > 6 {
					names = append(names[:6], "...")
				}
				first := s.nodes[comp[0]]
				ident := ""
				if len(first.wranges) > 0 {
					ident = first.wranges[0].sg.lname
				}
				out = append(out, Diag{File: first.file, Line: first.line, Class: ClassCombLoop, Ident: ident,
					Msg: "combinational loop through " + strings.Join(names, ", ")})
			}
		}
	}
	for v := 0; v < n; v++ {
		if index[v] < 0 {
			strong(v)
		}
	}
	return out
}
