package vsim

import (
	"fmt"
	"math/big"
	"sort"
	"strconv"
	"strings"
)

// Design is a parsed file set.
type Design struct {
	mods     map[string]*Module
	order    []string // module names in a deterministic order (file, line)
	parseDgs []Diag
	dupMods  []Diag
	fatals   []Diag // parse diagnostics (syntax / unsupported) that make the enclosing module unusable
}

type parseError struct{ d Diag }

type parser struct {
	file  string
	toks  []token
	pos   int
	diags []Diag
	depth int
	soft  map[int]bool // indices into diags that are not fatal for elaboration
}

// ParseFiles parses a set of files (name -> text). Never panics.
func ParseFiles(files map[string]string) (d *Design, diags []Diag) {
	d = &Design{mods: map[string]*Module{}}
	names := make([]string, 0, len(files))
	for n := range files {
		names = append(names, n)
	}
	sort.Strings(names)
	for _, n := range names {
		mods, ds, fatal := parseOne(n, files[n])
		diags = append(diags, ds...)
		d.fatals = append(d.fatals, fatal...)
		for _, m := range mods {
			if old, ok := d.mods[m.Name]; ok {
				dd := Diag{File: m.File, Line: m.Line, Class: ClassDupDecl, Ident: m.Name,
					Msg: fmt.Sprintf("module %s already defined at %s:%d", m.Name, old.File, old.Line)}
				d.dupMods = append(d.dupMods, dd)
				continue
			}
			d.mods[m.Name] = m
			d.order = append(d.order, m.Name)
		}
	}
	d.parseDgs = append([]Diag(nil), diags...)
	return d, diags
}

func parseOne(file, src string) (mods []*Module, diags, fatal []Diag) {
	defer func() {
		if r := recover(); r != nil {
			dg := Diag{File: file, Line: 1, Class: ClassSyntax, Msg: fmt.Sprintf("internal parser error: %v", r)}
			diags = append(diags, dg)
			fatal = append(fatal, Diag{File: file, Line: -1, Class: ClassSyntax, Msg: dg.Msg})
		}
	}()
	toks, ds := lexFile(file, src)
	p := &parser{file: file, toks: toks, diags: ds}
	mods = p.parseFile()
	for i, dg := range p.diags {
		if (dg.Class == ClassSyntax || dg.Class == ClassUnsupported) && !p.soft[i] {
			fatal = append(fatal, dg)
		}
	}
	return mods, p.diags, fatal
}

// Modules returns the names of the parsed modules.
func (d *Design) Modules() []string {
	out := append([]string(nil), d.order...)
	return out
}

// Ports returns the port names of a module, in order (nil if unknown).
func (d *Design) Ports(module string) []string {
	m := d.mods[module]
	if m == nil {
		return nil
	}
	return append([]string(nil), m.PortList...)
}

// ---------------------------------------------------------------- helpers

func (p *parser) peek() *token { return &p.toks[p.pos] }
func (p *parser) peekN(n int) *token {
	if p.pos+n >= len(p.toks) {
		return &p.toks[len(p.toks)-1]
	}
	return &p.toks[p.pos+n]
}
func (p *parser) next() *token {
	t := &p.toks[p.pos]
	if t.kind != tEOF {
		p.pos++
	}
	return t
}
func (p *parser) line() int { return p.peek().line }

func (p *parser) isOp(s string) bool {
	t := p.peek()
	return t.kind == tOp && t.text == s
}
func (p *parser) isKw(s string) bool {
	t := p.peek()
	return t.kind == tKeyword && t.text == s
}
func (p *parser) isIdentText(s string) bool {
	t := p.peek()
	return t.kind == tIdent && t.text == s
}
func (p *parser) acceptOp(s string) bool {
	if p.isOp(s) {
		p.pos++
		return true
	}
	return false
}
func (p *parser) acceptKw(s string) bool {
	if p.isKw(s) {
		p.pos++
		return true
	}
	return false
}

func (p *parser) addDiag(line int, class, ident, msg string) {
	p.diags = append(p.diags, Diag{File: p.file, Line: line, Class: class, Ident: ident, Msg: msg})
}

// addSoft records an unsupported-construct diagnostic that does not by itself prevent
// elaboration (the elaborator decides when the construct is actually reached).
func (p *parser) addSoft(line int, class, ident, msg string) {
	if p.soft == nil {
		p.soft = map[int]bool{}
	}
	p.soft[len(p.diags)] = true
	p.addDiag(line, class, ident, msg)
}

func (p *parser) fail(format string, args ...interface{}) {
	t := p.peek()
	msg := fmt.Sprintf(format, args...)
	got := t.text
	if t.kind == tEOF {
		got = "end of file"
	}
	panic(parseError{Diag{File: p.file, Line: t.line, Class: ClassSyntax, Msg: msg + " (at '" + got + "')"}})
}

func (p *parser) expectOp(s string) {
	if !p.acceptOp(s) {
		p.fail("expected '%s'", s)
	}
}
func (p *parser) expectKw(s string) {
	if !p.acceptKw(s) {
		p.fail("expected '%s'", s)
	}
}
func (p *parser) expectIdent() *token {
	t := p.peek()
	if t.kind != tIdent {
		p.fail("expected identifier")
	}
	p.pos++
	return t
}

// try runs f; a parse error is recorded as a diagnostic and false is returned.
func (p *parser) try(f func()) (ok bool) {
	defer func() {
		if r := recover(); r != nil {
			if pe, is := r.(parseError); is {
				p.diags = append(p.diags, pe.d)
				ok = false
				return
			}
			panic(r)
		}
	}()
	f()
	return true
}

// syncItem skips tokens to the start of the next plausible module item.
func (p *parser) syncItem() {
	for {
		t := p.peek()
		if t.kind == tEOF {
			return
		}
		if t.kind == tOp && t.text == ";" {
			p.pos++
			return
		}
		if t.kind == tKeyword {
			switch t.text {
			case "endmodule", "module", "macromodule", "endgenerate", "always", "initial", "assign",
				"input", "output", "inout", "wire", "reg", "integer", "parameter", "localparam", "generate", "function", "endfunction", "task", "endtask":
				return
			}
		}
		p.pos++
	}
}

// ---------------------------------------------------------------- file / module

func (p *parser) parseFile() []*Module {
	var mods []*Module
	for {
		t := p.peek()
		if t.kind == tEOF {
			return mods
		}
		if t.kind == tKeyword && (t.text == "module" || t.text == "macromodule") {
			var m *Module
			ok := p.try(func() { m = p.parseModule() })
			if m != nil {
				mods = append(mods, m)
			}
			if !ok {
				// skip to next module
				for {
					t := p.peek()
					if t.kind == tEOF || (t.kind == tKeyword && (t.text == "module" || t.text == "macromodule")) {
						break
					}
					if t.kind == tKeyword && t.text == "endmodule" {
						p.pos++
						break
					}
					p.pos++
				}
			}
			continue
		}
		if t.kind == tDirective {
			p.addDiag(t.line, ClassUnsupported, t.text, "macro use `"+t.text+" is not supported")
			p.pos++
			continue
		}
		p.addDiag(t.line, ClassSyntax, "", "unexpected '"+t.text+"' outside module")
		for {
			t := p.peek()
			if t.kind == tEOF || (t.kind == tKeyword && (t.text == "module" || t.text == "macromodule")) {
				break
			}
			p.pos++
		}
	}
}

func isDirKw(t *token) bool {
	return t.kind == tKeyword && (t.text == "input" || t.text == "output" || t.text == "inout")
}

var netTypes = map[string]bool{"wire": true, "tri": true, "tri0": true, "tri1": true, "wand": true, "wor": true,
	"triand": true, "trior": true, "supply0": true, "supply1": true, "uwire": true, "trireg": true}

func (p *parser) parseModule() *Module {
	mt := p.next() // module
	m := &Module{File: p.file, Line: mt.line, EndLine: 1 << 30, PortLine: map[string]int{}}
	m.Name = p.expectIdent().text
	// parameter port list
	if p.isOp("#") {
		p.pos++
		p.expectOp("(")
		for !p.isOp(")") {
			line := p.line()
			p.acceptKw("parameter")
			if p.isKw("localparam") {
				p.pos++
			}
			d := &Decl{Kind: dParam, Line: line, InParamPort: true}
			p.parseParamType(d)
			// names until next 'parameter' keyword or ')'
			for {
				nt := p.expectIdent()
				dn := DeclName{Name: nt.text, Line: nt.line}
				if p.acceptOp("=") {
					dn.Init = p.parseExpr()
				}
				d.Names = append(d.Names, dn)
				if p.isOp(",") {
					// lookahead: next is 'parameter' -> new decl
					if n := p.peekN(1); n.kind == tKeyword && (n.text == "parameter" || n.text == "localparam") {
						p.pos++
						break
					}
					if n := p.peekN(1); n.kind == tIdent {
						p.pos++
						continue
					}
					p.pos++
					break
				}
				break
			}
			m.Items = append(m.Items, &Item{Kind: iDecl, Line: line, Decl: d})
			if p.isOp(")") {
				break
			}
			if p.peek().kind == tEOF {
				p.fail("unterminated parameter port list")
			}
		}
		p.expectOp(")")
	}
	if p.acceptOp("(") {
		if p.isOp(")") {
			p.pos++
		} else if isDirKw(p.peek()) {
			m.Ansi = true
			p.parseAnsiPorts(m)
		} else {
			for {
				if p.isOp(".") {
					p.fail("explicit port expressions .name(expr) are not supported")
				}
				if p.isOp("{") {
					p.fail("concatenated ports are not supported")
				}
				t := p.expectIdent()
				if _, dup := m.PortLine[t.text]; dup {
					p.addDiag(t.line, ClassDupDecl, t.text, "port "+t.text+" listed twice in port list")
				} else {
					m.PortList = append(m.PortList, t.text)
					m.PortLine[t.text] = t.line
				}
				if p.isOp("[") {
					p.fail("port part-selects in port list are not supported")
				}
				if p.acceptOp(",") {
					continue
				}
				break
			}
			p.expectOp(")")
		}
	}
	p.expectOp(";")
	for {
		t := p.peek()
		m.EndLine = t.line
		if t.kind == tEOF {
			p.addDiag(t.line, ClassSyntax, m.Name, "missing endmodule")
			return m
		}
		if t.kind == tKeyword && t.text == "endmodule" {
			p.pos++
			return m
		}
		if t.kind == tKeyword && (t.text == "module" || t.text == "macromodule") {
			p.addDiag(t.line-1, ClassSyntax, m.Name, "missing endmodule before 'module'")
			m.EndLine = t.line - 1
			return m
		}
		start := p.pos
		ok := p.try(func() {
			its := p.parseItem(false)
			m.Items = append(m.Items, its...)
		})
		if !ok {
			if p.pos == start {
				p.pos++
			}
			p.syncItem()
		} else if p.pos == start {
			p.pos++
		}
	}
}

func (p *parser) parseAnsiPorts(m *Module) {
	var cur *Decl
	for {
		line := p.line()
		if isDirKw(p.peek()) {
			cur = &Decl{Line: line, Ansi: true}
			switch p.next().text {
			case "input":
				cur.Kind = dInput
			case "output":
				cur.Kind = dOutput
			default:
				cur.Kind = dInout
			}
			p.parsePortType(cur)
			m.Items = append(m.Items, &Item{Kind: iDecl, Line: line, Decl: cur})
		} else if cur == nil {
			p.fail("expected port direction")
		}
		t := p.expectIdent()
		dn := DeclName{Name: t.text, Line: t.line}
		for p.isOp("[") {
			p.pos++
			a := p.parseExpr()
			p.expectOp(":")
			b := p.parseExpr()
			p.expectOp("]")
			dn.Dims = append(dn.Dims, [2]*Expr{a, b})
		}
		if p.acceptOp("=") {
			dn.Init = p.parseExpr()
		}
		cur.Names = append(cur.Names, dn)
		if _, dup := m.PortLine[t.text]; dup {
			p.addDiag(t.line, ClassDupDecl, t.text, "port "+t.text+" declared twice in port list")
		} else {
			m.PortList = append(m.PortList, t.text)
			m.PortLine[t.text] = t.line
		}
		if p.acceptOp(",") {
			continue
		}
		break
	}
	p.expectOp(")")
}

// parsePortType parses "[wire|reg|integer|logic] [signed] [range]".
func (p *parser) parsePortType(d *Decl) {
	t := p.peek()
	if t.kind == tKeyword && (netTypes[t.text] || t.text == "reg") {
		d.NetType = t.text
		p.pos++
	} else if t.kind == tKeyword && (t.text == "integer" || t.text == "time") {
		d.NetType = "reg"
		d.IsInt = true
		d.Signed = t.text == "integer"
		p.pos++
	} else if t.kind == tIdent && (t.text == "logic" || t.text == "bit") && (p.peekN(1).kind == tIdent || (p.peekN(1).kind == tOp && p.peekN(1).text == "[") || p.peekN(1).kind == tKeyword) {
		p.addDiag(t.line, ClassNonV2001, t.text, "SystemVerilog data type '"+t.text+"'")
		d.NetType = "reg"
		p.pos++
	}
	if p.acceptKw("signed") {
		d.Signed = true
	} else {
		p.acceptKw("unsigned")
	}
	if p.isOp("[") {
		p.pos++
		d.MSB = p.parseExpr()
		p.expectOp(":")
		d.LSB = p.parseExpr()
		p.expectOp("]")
	}
}

func (p *parser) parseParamType(d *Decl) {
	t := p.peek()
	if t.kind == tKeyword && (t.text == "integer" || t.text == "time") {
		d.IsInt = true
		d.Signed = true
		p.pos++
	} else if t.kind == tKeyword && (t.text == "real" || t.text == "realtime") {
		p.pos++
		p.addDiag(t.line, ClassUnsupported, "", "real parameters are not supported")
	}
	if p.acceptKw("signed") {
		d.Signed = true
	}
	if p.isOp("[") {
		p.pos++
		d.MSB = p.parseExpr()
		p.expectOp(":")
		d.LSB = p.parseExpr()
		p.expectOp("]")
	}
}

// ---------------------------------------------------------------- items

// parseItem parses one module item (or generate item if inGen).
func (p *parser) parseItem(inGen bool) []*Item {
	t := p.peek()
	line := t.line
	switch t.kind {
	case tOp:
		if t.text == ";" {
			p.pos++
			return nil
		}
		p.fail("unexpected token in module body")
	case tDirective:
		p.pos++
		p.addDiag(line, ClassUnsupported, t.text, "macro use `"+t.text+" is not supported")
		return nil
	case tSysIdent:
		// elaboration system task ($error, $info ...) - skip
		p.skipToSemi()
		return []*Item{{Kind: iIgnored, Line: line, What: t.text}}
	case tIdent:
		// SVA label / assertion / instance
		if n := p.peekN(1); n.kind == tOp && n.text == ":" {
			p.addDiag(line, ClassNonV2001, t.text, "labelled concurrent assertion (SystemVerilog)")
			p.skipToSemi()
			return []*Item{{Kind: iIgnored, Line: line, What: "assertion"}}
		}
		if t.text == "assert" || t.text == "assume" || t.text == "cover" || t.text == "restrict" {
			if n := p.peekN(1); (n.kind == tIdent && n.text == "property") || (n.kind == tOp && n.text == "(") {
				p.addDiag(line, ClassNonV2001, t.text, "concurrent assertion (SystemVerilog)")
				p.skipToSemi()
				return []*Item{{Kind: iIgnored, Line: line, What: "assertion"}}
			}
		}
		if t.text == "logic" || t.text == "bit" || t.text == "int" {
			if n := p.peekN(1); n.kind == tIdent || (n.kind == tOp && n.text == "[") || (n.kind == tKeyword && n.text == "signed") {
				p.addDiag(line, ClassNonV2001, t.text, "SystemVerilog data type '"+t.text+"'")
				p.pos++
				d := &Decl{Kind: dReg, Line: line, NetType: "reg"}
				if t.text == "int" {
					d.Kind = dInteger
					d.Signed = true
				}
				p.parseVarDeclRest(d)
				return []*Item{{Kind: iDecl, Line: line, Decl: d}}
			}
		}
		if t.text == "always_ff" || t.text == "always_comb" || t.text == "always_latch" {
			p.addDiag(line, ClassNonV2001, t.text, "SystemVerilog '"+t.text+"'")
			p.pos++
			it := &Item{Kind: iAlways, Line: line}
			if t.text == "always_ff" {
				if p.isOp("@") {
					it.Sens = p.parseEventControl()
				}
			} else {
				it.Sens = &Sens{Star: true, Line: line}
			}
			it.Body = p.parseStmtOrNull()
			return []*Item{it}
		}
		return p.parseInstances()
	case tKeyword:
		switch t.text {
		case "input", "output", "inout":
			p.pos++
			d := &Decl{Line: line}
			switch t.text {
			case "input":
				d.Kind = dInput
			case "output":
				d.Kind = dOutput
			default:
				d.Kind = dInout
			}
			p.parsePortType(d)
			p.parseDeclNames(d, true)
			p.expectOp(";")
			return []*Item{{Kind: iDecl, Line: line, Decl: d}}
		case "reg":
			p.pos++
			d := &Decl{Kind: dReg, Line: line, NetType: "reg"}
			p.parseVarDeclRest(d)
			return []*Item{{Kind: iDecl, Line: line, Decl: d}}
		case "integer", "time":
			p.pos++
			d := &Decl{Kind: dInteger, Line: line, NetType: "reg", IsInt: true, Signed: true}
			if t.text == "time" { // 64-bit unsigned variable
				d = &Decl{Kind: dReg, Line: line, NetType: "reg", MSB: mkNumExpr(63, line), LSB: mkNumExpr(0, line)}
			}
			p.parseDeclNames(d, true)
			p.expectOp(";")
			return []*Item{{Kind: iDecl, Line: line, Decl: d}}
		case "real", "realtime":
			p.pos++
			d := &Decl{Kind: dReal, Line: line}
			p.parseDeclNames(d, true)
			p.expectOp(";")
			return []*Item{{Kind: iDecl, Line: line, Decl: d}}
		case "event":
			p.pos++
			d := &Decl{Kind: dEvent, Line: line}
			p.parseDeclNames(d, false)
			p.expectOp(";")
			return []*Item{{Kind: iDecl, Line: line, Decl: d}}
		case "genvar":
			p.pos++
			d := &Decl{Kind: dGenvar, Line: line}
			p.parseDeclNames(d, false)
			p.expectOp(";")
			return []*Item{{Kind: iDecl, Line: line, Decl: d}}
		case "parameter", "localparam":
			p.pos++
			d := &Decl{Kind: dParam, Line: line}
			if t.text == "localparam" {
				d.Kind = dLocalparam
			}
			p.parseParamType(d)
			for {
				nt := p.expectIdent()
				dn := DeclName{Name: nt.text, Line: nt.line}
				p.expectOp("=")
				dn.Init = p.parseExpr()
				d.Names = append(d.Names, dn)
				if p.acceptOp(",") {
					continue
				}
				break
			}
			p.expectOp(";")
			return []*Item{{Kind: iDecl, Line: line, Decl: d}}
		case "assign":
			p.pos++
			it := &Item{Kind: iAssign, Line: line}
			if p.isOp("(") { // drive strength
				p.skipParens()
			}
			if p.isOp("#") {
				p.parseDelayValue()
			}
			for {
				al := p.line()
				lhs := p.parseLvalue()
				p.expectOp("=")
				rhs := p.parseExpr()
				it.Asgs = append(it.Asgs, Assign{LHS: lhs, RHS: rhs, Line: al})
				if p.acceptOp(",") {
					continue
				}
				break
			}
			p.expectOp(";")
			return []*Item{it}
		case "always":
			p.pos++
			it := &Item{Kind: iAlways, Line: line}
			if p.isOp("@") {
				it.Sens = p.parseEventControl()
				it.Body = p.parseStmtOrNull()
			} else {
				if p.isOp("#") {
					it.AlwaysDelay = true
				}
				it.Body = p.parseStmtOrNull()
			}
			return []*Item{it}
		case "initial":
			p.pos++
			it := &Item{Kind: iInitial, Line: line}
			it.Body = p.parseStmtOrNull()
			return []*Item{it}
		case "generate":
			p.pos++
			it := &Item{Kind: iGenRegion, Line: line}
			for !p.isKw("endgenerate") {
				if p.peek().kind == tEOF || p.isKw("endmodule") {
					p.fail("missing endgenerate")
				}
				start := p.pos
				ok := p.try(func() { it.Items = append(it.Items, p.parseItem(true)...) })
				if !ok {
					if p.pos == start {
						p.pos++
					}
					p.syncItem()
				} else if p.pos == start {
					p.pos++
				}
			}
			p.pos++
			return []*Item{it}
		case "for":
			return []*Item{p.parseGenFor()}
		case "if":
			return []*Item{p.parseGenIf()}
		case "case":
			p.addDiag(line, ClassUnsupported, "", "generate-case is not supported")
			for !p.isKw("endcase") && p.peek().kind != tEOF {
				p.pos++
			}
			p.acceptKw("endcase")
			return []*Item{{Kind: iIgnored, Line: line, What: "generate-case"}}
		case "begin":
			return []*Item{p.parseGenBlock()}
		case "function":
			return []*Item{p.parseFunction()}
		case "task":
			p.addSoft(line, ClassUnsupported, "", "tasks are not supported")
			for !p.isKw("endtask") && p.peek().kind != tEOF && !p.isKw("endmodule") {
				p.pos++
			}
			p.acceptKw("endtask")
			return []*Item{{Kind: iTask, Line: line}}
		case "specify":
			for !p.isKw("endspecify") && p.peek().kind != tEOF && !p.isKw("endmodule") {
				p.pos++
			}
			p.acceptKw("endspecify")
			return []*Item{{Kind: iIgnored, Line: line, What: "specify"}}
		case "defparam":
			p.addDiag(line, ClassUnsupported, "", "defparam is not supported")
			p.skipToSemi()
			return []*Item{{Kind: iIgnored, Line: line, What: "defparam"}}
		case "specparam":
			p.skipToSemi()
			return []*Item{{Kind: iIgnored, Line: line, What: "specparam"}}
		case "and", "nand", "or", "nor", "xor", "xnor", "buf", "not", "bufif0", "bufif1", "notif0", "notif1",
			"pullup", "pulldown", "nmos", "pmos", "cmos", "tran", "tranif0", "tranif1", "rnmos", "rpmos", "rcmos", "rtran", "rtranif0", "rtranif1":
			p.addDiag(line, ClassUnsupported, t.text, "gate primitive '"+t.text+"' is not supported")
			p.skipToSemi()
			return []*Item{{Kind: iIgnored, Line: line, What: "gate"}}
		default:
			if netTypes[t.text] {
				p.pos++
				d := &Decl{Kind: dWire, Line: line, NetType: t.text}
				if p.isOp("(") { // strength
					p.skipParens()
				}
				if p.acceptKw("vectored") || p.acceptKw("scalared") {
				}
				if p.acceptKw("signed") {
					d.Signed = true
				}
				if p.isOp("[") {
					p.pos++
					d.MSB = p.parseExpr()
					p.expectOp(":")
					d.LSB = p.parseExpr()
					p.expectOp("]")
				}
				if p.isOp("#") {
					p.parseDelayValue()
				}
				p.parseDeclNames(d, true)
				p.expectOp(";")
				return []*Item{{Kind: iDecl, Line: line, Decl: d}}
			}
		}
		p.fail("unexpected keyword '%s' in module body", t.text)
	}
	p.fail("unexpected token in module body")
	return nil
}

func (p *parser) parseVarDeclRest(d *Decl) {
	if p.acceptKw("signed") {
		d.Signed = true
	}
	if p.isOp("[") {
		p.pos++
		d.MSB = p.parseExpr()
		p.expectOp(":")
		d.LSB = p.parseExpr()
		p.expectOp("]")
	}
	p.parseDeclNames(d, true)
	p.expectOp(";")
}

func (p *parser) parseDeclNames(d *Decl, allowInit bool) {
	for {
		t := p.expectIdent()
		dn := DeclName{Name: t.text, Line: t.line}
		for p.isOp("[") {
			p.pos++
			a := p.parseExpr()
			var b *Expr
			if p.acceptOp(":") {
				b = p.parseExpr()
			} else {
				// SystemVerilog style [N]
				p.addDiag(t.line, ClassNonV2001, t.text, "array dimension [N] without range (SystemVerilog)")
				b = &Expr{Kind: eBinary, Op: "-", Line: t.line, A: a, B: mkNumExpr(1, t.line)}
				a = mkNumExpr(0, t.line)
			}
			p.expectOp("]")
			dn.Dims = append(dn.Dims, [2]*Expr{a, b})
		}
		if allowInit && p.acceptOp("=") {
			dn.Init = p.parseExpr()
		}
		d.Names = append(d.Names, dn)
		if p.acceptOp(",") {
			continue
		}
		return
	}
}

func mkNumExpr(v int, line int) *Expr {
	n := &Number{Digits: strconv.Itoa(v), Signed: true, Width: 32, Words: []uint64{uint64(uint32(v))}, Text: strconv.Itoa(v)}
	return &Expr{Kind: eNumber, Line: line, Num: n}
}

func (p *parser) skipToSemi() {
	depth := 0
	for {
		t := p.peek()
		if t.kind == tEOF {
			return
		}
		if t.kind == tKeyword && (t.text == "endmodule" || t.text == "endgenerate") {
			return
		}
		if t.kind == tOp {
			switch t.text {
			case "(", "[", "{":
				depth++
			case ")", "]", "}":
				depth--
			case ";":
				if depth <= 0 {
					p.pos++
					return
				}
			}
		}
		p.pos++
	}
}

func (p *parser) skipParens() {
	p.expectOp("(")
	depth := 1
	for depth > 0 {
		t := p.next()
		if t.kind == tEOF {
			p.fail("unbalanced parentheses")
		}
		if t.kind == tOp {
			if t.text == "(" {
				depth++
			} else if t.text == ")" {
				depth--
			}
		}
	}
}

func (p *parser) parseInstances() []*Item {
	mt := p.expectIdent()
	var params []ParamConn
	if p.acceptOp("#") {
		if p.isOp("(") {
			p.pos++
			if !p.isOp(")") {
				for {
					if p.acceptOp(".") {
						n := p.expectIdent()
						p.expectOp("(")
						var x *Expr
						if !p.isOp(")") {
							x = p.parseExpr()
						}
						p.expectOp(")")
						params = append(params, ParamConn{Name: n.text, X: x})
					} else {
						params = append(params, ParamConn{X: p.parseExpr()})
					}
					if p.acceptOp(",") {
						continue
					}
					break
				}
			}
			p.expectOp(")")
		} else {
			// #delay or #value
			params = append(params, ParamConn{X: p.parsePrimary()})
		}
	}
	var items []*Item
	for {
		nt := p.peek()
		if nt.kind != tIdent {
			p.fail("expected instance name after module name '%s'", mt.text)
		}
		p.pos++
		inst := &Instance{Module: mt.text, Name: nt.text, Line: mt.line, Params: params}
		if p.isOp("[") {
			p.pos++
			p.parseExpr()
			if p.acceptOp(":") {
				p.parseExpr()
			}
			p.expectOp("]")
			inst.HasRange = true
			p.addDiag(nt.line, ClassUnsupported, nt.text, "instance arrays are not supported")
		}
		p.expectOp("(")
		if !p.isOp(")") {
			for {
				cl := p.line()
				if p.acceptOp(".") {
					if p.isOp("*") { // .* SystemVerilog
						p.fail(".* port connections are not supported")
					}
					n := p.expectIdent()
					inst.Named = true
					var x *Expr
					if p.acceptOp("(") {
						if !p.isOp(")") {
							x = p.parseExpr()
						}
						p.expectOp(")")
					} else {
						p.addDiag(cl, ClassNonV2001, n.text, "implicit .name port connection (SystemVerilog)")
						x = &Expr{Kind: eIdent, Name: n.text, Line: cl}
					}
					inst.Conns = append(inst.Conns, PortConn{Name: n.text, X: x, Line: cl})
				} else if p.isOp(",") || p.isOp(")") {
					inst.Conns = append(inst.Conns, PortConn{Line: cl})
				} else {
					inst.Conns = append(inst.Conns, PortConn{X: p.parseExpr(), Line: cl})
				}
				if p.acceptOp(",") {
					continue
				}
				break
			}
		}
		p.expectOp(")")
		items = append(items, &Item{Kind: iInstance, Line: mt.line, Inst: inst})
		if p.acceptOp(",") {
			continue
		}
		break
	}
	p.expectOp(";")
	return items
}

func (p *parser) parseGenBody() []*Item {
	// a generate body is either a begin-block or a single item
	if p.isKw("begin") {
		b := p.parseGenBlock()
		return []*Item{b}
	}
	return p.parseItem(true)
}

func (p *parser) parseGenBlock() *Item {
	line := p.line()
	p.expectKw("begin")
	it := &Item{Kind: iGenBlock, Line: line}
	if p.acceptOp(":") {
		it.Name = p.expectIdent().text
	}
	for !p.isKw("end") {
		if p.peek().kind == tEOF || p.isKw("endmodule") || p.isKw("endgenerate") {
			p.fail("missing 'end' of generate block")
		}
		start := p.pos
		ok := p.try(func() { it.Items = append(it.Items, p.parseItem(true)...) })
		if !ok {
			if p.pos == start {
				p.pos++
			}
			p.syncItem()
		} else if p.pos == start {
			p.pos++
		}
	}
	p.pos++
	if p.acceptOp(":") {
		p.expectIdent()
	}
	return it
}

func (p *parser) parseGenFor() *Item {
	line := p.line()
	p.expectKw("for")
	it := &Item{Kind: iGenFor, Line: line}
	p.expectOp("(")
	if p.isKw("genvar") {
		p.pos++
		p.addDiag(line, ClassNonV2001, "", "inline genvar declaration in generate-for (SystemVerilog)")
		it.What = "inline-genvar"
	}
	it.GenVar = p.expectIdent().text
	p.expectOp("=")
	it.GenInit = p.parseExpr()
	p.expectOp(";")
	it.Cond = p.parseExpr()
	p.expectOp(";")
	sv := p.expectIdent()
	it.GenStepV = sv.text
	it.GenStep = p.parseStepRest(sv)
	p.expectOp(")")
	it.Items = p.parseGenBody()
	return it
}

// parseStepRest parses the remainder of "v = expr", "v++", "v--", "v += e" after the
// identifier and returns the expression to be assigned to v.
func (p *parser) parseStepRest(v *token) *Expr {
	id := &Expr{Kind: eIdent, Name: v.text, Line: v.line}
	t := p.peek()
	if t.kind == tOp {
		switch t.text {
		case "=":
			p.pos++
			return p.parseExpr()
		case "++", "--":
			p.pos++
			p.addDiag(t.line, ClassNonV2001, v.text, "'"+t.text+"' operator (SystemVerilog)")
			return &Expr{Kind: eBinary, Op: t.text[:1], Line: t.line, A: id, B: mkNumExpr(1, t.line)}
		case "+=", "-=", "*=", "/=", "|=", "&=", "^=":
			p.pos++
			p.addDiag(t.line, ClassNonV2001, v.text, "'"+t.text+"' operator (SystemVerilog)")
			return &Expr{Kind: eBinary, Op: t.text[:1], Line: t.line, A: id, B: p.parseExpr()}
		}
	}
	p.fail("expected '=' in loop step")
	return nil
}

func (p *parser) parseGenIf() *Item {
	line := p.line()
	p.expectKw("if")
	it := &Item{Kind: iGenIf, Line: line}
	p.expectOp("(")
	it.Cond = p.parseExpr()
	p.expectOp(")")
	it.Items = p.parseGenBody()
	if p.acceptKw("else") {
		it.Else = p.parseGenBody()
	}
	return it
}

func (p *parser) parseFunction() *Item {
	line := p.line()
	p.expectKw("function")
	f := &Function{Line: line}
	if p.acceptKw("automatic") {
		f.Automatic = true
	}
	if p.acceptKw("signed") {
		f.Signed = true
	}
	if p.isKw("integer") || p.isKw("time") {
		f.IsInt = true
		f.Signed = p.peek().text == "integer"
		p.pos++
	} else if p.isKw("real") || p.isKw("realtime") {
		p.addDiag(line, ClassUnsupported, "", "real functions are not supported")
		p.pos++
	} else if p.isOp("[") {
		p.pos++
		f.MSB = p.parseExpr()
		p.expectOp(":")
		f.LSB = p.parseExpr()
		p.expectOp("]")
	}
	f.Name = p.expectIdent().text
	if p.acceptOp("(") {
		// ANSI style arguments
		var cur *Decl
		for !p.isOp(")") {
			al := p.line()
			if isDirKw(p.peek()) {
				k := p.next().text
				cur = &Decl{Line: al, Kind: dInput}
				if k != "input" {
					p.addDiag(al, ClassUnsupported, f.Name, "function "+k+" arguments are not supported")
				}
				p.parsePortType(cur)
				f.Decls = append(f.Decls, cur)
			} else if cur == nil {
				p.fail("expected 'input' in function argument list")
			}
			t := p.expectIdent()
			cur.Names = append(cur.Names, DeclName{Name: t.text, Line: t.line})
			if !p.acceptOp(",") {
				break
			}
		}
		p.expectOp(")")
	}
	p.expectOp(";")
	// declarations
	for {
		t := p.peek()
		dl := t.line
		if t.kind != tKeyword {
			break
		}
		switch t.text {
		case "input", "output", "inout":
			p.pos++
			d := &Decl{Line: dl, Kind: dInput}
			if t.text != "input" {
				p.addDiag(dl, ClassUnsupported, f.Name, "function "+t.text+" arguments are not supported")
			}
			p.parsePortType(d)
			p.parseDeclNames(d, false)
			p.expectOp(";")
			f.Decls = append(f.Decls, d)
			continue
		case "reg":
			p.pos++
			d := &Decl{Kind: dReg, Line: dl, NetType: "reg"}
			p.parseVarDeclRest(d)
			f.Decls = append(f.Decls, d)
			continue
		case "integer", "time":
			p.pos++
			d := &Decl{Kind: dInteger, Line: dl, NetType: "reg", IsInt: true, Signed: true}
			if t.text == "time" {
				d = &Decl{Kind: dReg, Line: dl, NetType: "reg", MSB: mkNumExpr(63, dl), LSB: mkNumExpr(0, dl)}
			}
			p.parseDeclNames(d, true)
			p.expectOp(";")
			f.Decls = append(f.Decls, d)
			continue
		case "real", "realtime":
			p.pos++
			d := &Decl{Kind: dReal, Line: dl}
			p.parseDeclNames(d, true)
			p.expectOp(";")
			f.Decls = append(f.Decls, d)
			continue
		case "parameter", "localparam":
			its := p.parseItem(false)
			for _, it := range its {
				if it.Decl != nil {
					f.Decls = append(f.Decls, it.Decl)
				}
			}
			continue
		}
		break
	}
	// body: statements up to endfunction (the standard allows exactly one)
	var body []*Stmt
	for !p.isKw("endfunction") {
		if p.peek().kind == tEOF || p.isKw("endmodule") {
			p.fail("missing endfunction")
		}
		body = append(body, p.parseStmtOrNull())
	}
	p.pos++
	if p.acceptOp(":") {
		p.expectIdent()
	}
	if len(body) == 1 {
		f.Body = body[0]
	} else {
		f.Body = &Stmt{Kind: sBlock, Line: line, Stmts: body}
	}
	return &Item{Kind: iFunction, Line: line, Func: f}
}

// ---------------------------------------------------------------- statements

func (p *parser) parseEventControl() *Sens {
	line := p.line()
	p.expectOp("@")
	s := &Sens{Line: line}
	if p.acceptOp("*") {
		s.Star = true
		return s
	}
	if p.peek().kind == tIdent {
		// @ident
		x := p.parsePrimary()
		s.Items = append(s.Items, SensItem{X: x})
		return s
	}
	p.expectOp("(")
	if p.acceptOp("*") {
		p.expectOp(")")
		s.Star = true
		return s
	}
	for {
		it := SensItem{}
		if p.acceptKw("posedge") {
			it.Edge = "posedge"
		} else if p.acceptKw("negedge") {
			it.Edge = "negedge"
		}
		it.X = p.parseExpr()
		s.Items = append(s.Items, it)
		if p.acceptKw("or") || p.acceptOp(",") {
			continue
		}
		break
	}
	p.expectOp(")")
	return s
}

func (p *parser) parseDelayValue() *Expr {
	p.expectOp("#")
	t := p.peek()
	switch {
	case t.kind == tNumber:
		p.pos++
		if t.numReal {
			return &Expr{Kind: eNumber, Line: t.line, Num: &Number{Real: true, Text: t.text, Width: 32, Words: []uint64{0}}}
		}
		return p.numberExpr(t)
	case t.kind == tIdent:
		p.pos++
		return &Expr{Kind: eIdent, Name: t.text, Line: t.line}
	case t.kind == tOp && t.text == "(":
		p.pos++
		e := p.parseExpr()
		for p.acceptOp(":") { // min:typ:max
			e = p.parseExpr()
		}
		for p.acceptOp(",") {
			p.parseExpr()
		}
		p.expectOp(")")
		return e
	}
	p.fail("expected delay value")
	return nil
}

func (p *parser) parseStmtOrNull() *Stmt {
	if p.isOp(";") {
		l := p.line()
		p.pos++
		return &Stmt{Kind: sNull, Line: l}
	}
	return p.parseStmt()
}

func (p *parser) parseStmt() *Stmt {
	p.depth++
	defer func() { p.depth-- }()
	if p.depth > 2000 {
		p.fail("statement nesting too deep")
	}
	t := p.peek()
	line := t.line
	switch t.kind {
	case tKeyword:
		switch t.text {
		case "begin":
			p.pos++
			s := &Stmt{Kind: sBlock, Line: line}
			if p.acceptOp(":") {
				s.Name = p.expectIdent().text
			}
			// local declarations
			for {
				dt := p.peek()
				if dt.kind == tKeyword && (dt.text == "reg" || dt.text == "integer" || dt.text == "time" || dt.text == "real" || dt.text == "realtime" || dt.text == "parameter" || dt.text == "localparam" || dt.text == "event") {
					its := p.parseItem(false)
					for _, it := range its {
						if it.Decl != nil {
							s.Decls = append(s.Decls, it.Decl)
						}
					}
					continue
				}
				break
			}
			for !p.isKw("end") {
				if p.peek().kind == tEOF {
					p.fail("missing 'end'")
				}
				if k := p.peek(); k.kind == tKeyword && (k.text == "endmodule" || k.text == "endfunction" || k.text == "endgenerate" || k.text == "endcase" || k.text == "module" || k.text == "always") {
					p.fail("missing 'end' before '%s'", k.text)
				}
				s.Stmts = append(s.Stmts, p.parseStmtOrNull())
			}
			p.pos++
			if p.acceptOp(":") {
				p.expectIdent()
			}
			return s
		case "if":
			p.pos++
			s := &Stmt{Kind: sIf, Line: line}
			p.expectOp("(")
			s.Cond = p.parseExpr()
			p.expectOp(")")
			s.Then = p.parseStmtOrNull()
			if p.acceptKw("else") {
				s.Else = p.parseStmtOrNull()
			}
			return s
		case "case", "casez", "casex":
			p.pos++
			s := &Stmt{Kind: sCase, Line: line, Op: t.text}
			p.expectOp("(")
			s.Cond = p.parseExpr()
			p.expectOp(")")
			for !p.isKw("endcase") {
				if p.peek().kind == tEOF {
					p.fail("missing endcase")
				}
				ci := CaseItem{Line: p.line()}
				if p.acceptKw("default") {
					ci.Default = true
					p.acceptOp(":")
				} else {
					for {
						ci.Labels = append(ci.Labels, p.parseExpr())
						if p.acceptOp(",") {
							continue
						}
						break
					}
					p.expectOp(":")
				}
				ci.Body = p.parseStmtOrNull()
				s.Items = append(s.Items, ci)
			}
			p.pos++
			return s
		case "for":
			p.pos++
			s := &Stmt{Kind: sFor, Line: line}
			p.expectOp("(")
			if p.isKw("integer") || p.isKw("genvar") || p.isIdentText("int") {
				dk := p.next()
				p.addDiag(dk.line, ClassNonV2001, "", "loop variable declaration inside for (SystemVerilog)")
				v := p.expectIdent()
				s.Decls = append(s.Decls, &Decl{Kind: dInteger, Line: dk.line, NetType: "reg", IsInt: true, Signed: true,
					Names: []DeclName{{Name: v.text, Line: v.line}}})
				p.expectOp("=")
				s.Init = &Stmt{Kind: sAssign, Op: "=", Line: v.line, LHS: &Expr{Kind: eIdent, Name: v.text, Line: v.line}, RHS: p.parseExpr()}
			} else {
				il := p.line()
				lhs := p.parseLvalue()
				p.expectOp("=")
				s.Init = &Stmt{Kind: sAssign, Op: "=", Line: il, LHS: lhs, RHS: p.parseExpr()}
			}
			p.expectOp(";")
			s.Cond = p.parseExpr()
			p.expectOp(";")
			sl := p.line()
			if p.peek().kind == tIdent && p.peekN(1).kind == tOp && p.peekN(1).text != "[" {
				v := p.expectIdent()
				rhs := p.parseStepRest(v)
				s.Step = &Stmt{Kind: sAssign, Op: "=", Line: sl, LHS: &Expr{Kind: eIdent, Name: v.text, Line: v.line}, RHS: rhs}
			} else {
				lhs := p.parseLvalue()
				p.expectOp("=")
				s.Step = &Stmt{Kind: sAssign, Op: "=", Line: sl, LHS: lhs, RHS: p.parseExpr()}
			}
			p.expectOp(")")
			s.Then = p.parseStmtOrNull()
			return s
		case "while":
			p.pos++
			s := &Stmt{Kind: sWhile, Line: line}
			p.expectOp("(")
			s.Cond = p.parseExpr()
			p.expectOp(")")
			s.Then = p.parseStmtOrNull()
			return s
		case "repeat":
			p.pos++
			s := &Stmt{Kind: sRepeat, Line: line}
			p.expectOp("(")
			s.Cond = p.parseExpr()
			p.expectOp(")")
			s.Then = p.parseStmtOrNull()
			return s
		case "forever":
			p.pos++
			s := &Stmt{Kind: sForever, Line: line}
			s.Then = p.parseStmtOrNull()
			return s
		case "wait":
			p.pos++
			s := &Stmt{Kind: sWait, Line: line}
			p.expectOp("(")
			s.Cond = p.parseExpr()
			p.expectOp(")")
			s.Then = p.parseStmtOrNull()
			return s
		case "disable":
			p.pos++
			s := &Stmt{Kind: sDisable, Line: line}
			s.Name = p.expectIdent().text
			for p.acceptOp(".") {
				s.Name += "." + p.expectIdent().text
			}
			p.expectOp(";")
			return s
		case "fork":
			p.addSoft(line, ClassUnsupported, "", "fork/join is not supported")
			for !p.isKw("join") && p.peek().kind != tEOF && !p.isKw("endmodule") {
				p.pos++
			}
			p.acceptKw("join")
			return &Stmt{Kind: sTaskCall, Line: line, Name: "fork"}
		case "assign", "deassign", "force", "release":
			p.addSoft(line, ClassUnsupported, "", "procedural '"+t.text+"' is not supported")
			p.skipToSemi()
			return &Stmt{Kind: sTaskCall, Line: line, Name: t.text}
		}
		p.fail("unexpected keyword '%s' in statement", t.text)
	case tSysIdent:
		p.pos++
		s := &Stmt{Kind: sSysTask, Line: line, Name: t.text}
		if p.acceptOp("(") {
			if !p.isOp(")") {
				for {
					if p.isOp(",") || p.isOp(")") {
						s.Args = append(s.Args, nil)
					} else {
						s.Args = append(s.Args, p.parseExpr())
					}
					if p.acceptOp(",") {
						continue
					}
					break
				}
			}
			p.expectOp(")")
		}
		p.expectOp(";")
		return s
	case tOp:
		switch t.text {
		case "#":
			s := &Stmt{Kind: sDelay, Line: line}
			s.Delay = p.parseDelayValue()
			s.Then = p.parseStmtOrNull()
			return s
		case "@":
			s := &Stmt{Kind: sEvent, Line: line}
			s.Sens = p.parseEventControl()
			s.Then = p.parseStmtOrNull()
			return s
		case "->":
			p.pos++
			p.expectIdent()
			p.expectOp(";")
			return &Stmt{Kind: sNull, Line: line}
		case "{":
			return p.parseAssignStmt()
		}
		p.fail("unexpected token in statement")
	case tIdent:
		// task call:  ident ;   or   ident ( ... ) ;
		n := p.peekN(1)
		if n.kind == tOp && n.text == ";" {
			p.pos += 2
			return &Stmt{Kind: sTaskCall, Line: line, Name: t.text}
		}
		if n.kind == tOp && n.text == "(" {
			p.pos++
			s := &Stmt{Kind: sTaskCall, Line: line, Name: t.text}
			p.pos++
			if !p.isOp(")") {
				for {
					s.Args = append(s.Args, p.parseExpr())
					if p.acceptOp(",") {
						continue
					}
					break
				}
			}
			p.expectOp(")")
			p.expectOp(";")
			return s
		}
		if n.kind == tOp && n.text == ":" {
			// labelled statement / immediate assertion (SystemVerilog)
			p.addDiag(line, ClassNonV2001, t.text, "statement label (SystemVerilog)")
			p.pos += 2
			return p.parseStmtOrNull()
		}
		return p.parseAssignStmt()
	case tDirective:
		p.pos++
		p.addDiag(line, ClassUnsupported, t.text, "macro use `"+t.text+" is not supported")
		return &Stmt{Kind: sNull, Line: line}
	}
	p.fail("unexpected token in statement")
	return nil
}

func (p *parser) parseAssignStmt() *Stmt {
	line := p.line()
	lhs := p.parseLvalue()
	s := &Stmt{Kind: sAssign, Line: line, LHS: lhs}
	t := p.peek()
	if t.kind != tOp {
		p.fail("expected '=' or '<=' after lvalue")
	}
	switch t.text {
	case "=", "<=":
		s.Op = t.text
		p.pos++
	case "++", "--":
		p.pos++
		p.addDiag(line, ClassNonV2001, "", "'"+t.text+"' operator (SystemVerilog)")
		s.Op = "="
		s.RHS = &Expr{Kind: eBinary, Op: t.text[:1], Line: line, A: lhs, B: mkNumExpr(1, line)}
		p.expectOp(";")
		return s
	case "+=", "-=", "*=", "/=", "|=", "&=", "^=":
		p.pos++
		p.addDiag(line, ClassNonV2001, "", "'"+t.text+"' operator (SystemVerilog)")
		s.Op = "="
		s.RHS = &Expr{Kind: eBinary, Op: t.text[:1], Line: line, A: lhs, B: p.parseExpr()}
		p.expectOp(";")
		return s
	default:
		p.fail("expected '=' or '<=' after lvalue")
	}
	// intra-assignment timing control
	if p.isOp("#") {
		s.Delay = p.parseDelayValue()
	} else if p.isOp("@") {
		s.Sens = p.parseEventControl()
	} else if p.isKw("repeat") {
		p.pos++
		p.expectOp("(")
		p.parseExpr()
		p.expectOp(")")
		s.Sens = p.parseEventControl()
	}
	s.RHS = p.parseExpr()
	p.expectOp(";")
	return s
}

// parseLvalue parses an lvalue: identifier with selects, or a concatenation of lvalues.
func (p *parser) parseLvalue() *Expr {
	t := p.peek()
	if t.kind == tOp && t.text == "{" {
		p.pos++
		e := &Expr{Kind: eConcat, Line: t.line}
		for {
			e.List = append(e.List, p.parseLvalue())
			if p.acceptOp(",") {
				continue
			}
			break
		}
		p.expectOp("}")
		return e
	}
	if t.kind != tIdent {
		p.fail("expected lvalue")
	}
	return p.parseIdentWithSelects()
}

// ---------------------------------------------------------------- expressions

var binPrec = map[string]int{
	"||": 1, "&&": 2, "|": 3, "^": 4, "~^": 4, "^~": 4, "&": 5,
	"==": 6, "!=": 6, "===": 6, "!==": 6,
	"<": 7, "<=": 7, ">": 7, ">=": 7,
	"<<": 8, ">>": 8, "<<<": 8, ">>>": 8,
	"+": 9, "-": 9, "*": 10, "/": 10, "%": 10, "**": 11,
}

func (p *parser) parseExpr() *Expr {
	p.depth++
	defer func() { p.depth-- }()
	if p.depth > 2000 {
		p.fail("expression nesting too deep")
	}
	c := p.parseBin(1)
	if p.isOp("?") {
		line := p.line()
		p.pos++
		a := p.parseExpr()
		p.expectOp(":")
		b := p.parseExpr()
		return &Expr{Kind: eTernary, Line: line, A: c, B: a, C: b}
	}
	return c
}

func (p *parser) parseBin(minPrec int) *Expr {
	lhs := p.parseUnary()
	for {
		t := p.peek()
		if t.kind != tOp {
			return lhs
		}
		prec, ok := binPrec[t.text]
		if !ok || prec < minPrec {
			return lhs
		}
		p.pos++
		var rhs *Expr
		if t.text == "**" {
			rhs = p.parseBin(prec + 1) // treat as left-associative like the others (1364-2005 5.1.2)
		} else {
			rhs = p.parseBin(prec + 1)
		}
		lhs = &Expr{Kind: eBinary, Op: t.text, Line: t.line, A: lhs, B: rhs}
	}
}

func (p *parser) parseUnary() *Expr {
	t := p.peek()
	if t.kind == tOp {
		switch t.text {
		case "+", "-", "!", "~", "&", "|", "^", "~&", "~|", "~^", "^~":
			p.pos++
			p.depth++
			if p.depth > 2000 {
				p.fail("expression nesting too deep")
			}
			a := p.parseUnary()
			p.depth--
			return &Expr{Kind: eUnary, Op: t.text, Line: t.line, A: a}
		case "++", "--":
			p.fail("'%s' is not a Verilog-2001 operator", t.text)
		}
	}
	return p.parsePrimary()
}

func (p *parser) parsePrimary() *Expr {
	t := p.peek()
	switch t.kind {
	case tNumber:
		p.pos++
		return p.numberExpr(t)
	case tString:
		p.pos++
		return &Expr{Kind: eString, Line: t.line, Str: t.text}
	case tSysIdent:
		p.pos++
		e := &Expr{Kind: eCall, Line: t.line, Name: t.text}
		if p.acceptOp("(") {
			if !p.isOp(")") {
				for {
					e.List = append(e.List, p.parseExpr())
					if p.acceptOp(",") {
						continue
					}
					break
				}
			}
			p.expectOp(")")
		}
		return e
	case tIdent:
		if n := p.peekN(1); n.kind == tOp && n.text == "(" {
			p.pos += 2
			e := &Expr{Kind: eCall, Line: t.line, Name: t.text}
			if !p.isOp(")") {
				for {
					e.List = append(e.List, p.parseExpr())
					if p.acceptOp(",") {
						continue
					}
					break
				}
			}
			p.expectOp(")")
			return e
		}
		return p.parseIdentWithSelects()
	case tOp:
		switch t.text {
		case "(":
			p.pos++
			e := p.parseExpr()
			if p.isOp(":") { // min:typ:max
				p.pos++
				e = p.parseExpr()
				if p.acceptOp(":") {
					p.parseExpr()
				}
			}
			p.expectOp(")")
			return e
		case "{":
			p.pos++
			first := p.parseExpr()
			if p.isOp("{") {
				// replication {n{a,b}}
				p.pos++
				e := &Expr{Kind: eRepl, Line: t.line, A: first}
				for {
					e.List = append(e.List, p.parseExpr())
					if p.acceptOp(",") {
						continue
					}
					break
				}
				p.expectOp("}")
				p.expectOp("}")
				return p.parseSelectsOn(e)
			}
			e := &Expr{Kind: eConcat, Line: t.line, List: []*Expr{first}}
			for p.acceptOp(",") {
				e.List = append(e.List, p.parseExpr())
			}
			p.expectOp("}")
			return p.parseSelectsOn(e)
		}
	case tDirective:
		p.pos++
		p.addDiag(t.line, ClassUnsupported, t.text, "macro use `"+t.text+" is not supported")
		return mkNumExpr(0, t.line)
	}
	p.fail("expected expression")
	return nil
}

// parseSelectsOn handles the (non-2001) case of selects on a concatenation; they are rejected.
func (p *parser) parseSelectsOn(e *Expr) *Expr {
	if p.isOp("[") {
		p.fail("select on a concatenation is not Verilog-2001")
	}
	return e
}

func (p *parser) parseIdentWithSelects() *Expr {
	t := p.expectIdent()
	e := &Expr{Kind: eIdent, Line: t.line, Name: t.text}
	for {
		if p.isOp(".") && p.peekN(1).kind == tIdent {
			// hierarchical name
			if e.Kind == eIdent {
				p.pos++
				e.Name += "." + p.next().text
				continue
			}
			if e.Kind == eIndex && e.A.Kind == eIdent && e.B.Kind == eNumber {
				p.pos++
				e = &Expr{Kind: eIdent, Line: t.line, Name: e.A.Name + "[" + e.B.Num.Digits + "]." + p.next().text}
				continue
			}
			p.fail("unsupported hierarchical name")
		}
		if !p.isOp("[") {
			return e
		}
		p.pos++
		a := p.parseExpr()
		switch {
		case p.acceptOp(":"):
			b := p.parseExpr()
			p.expectOp("]")
			e = &Expr{Kind: ePartSel, Line: t.line, A: e, B: a, C: b}
		case p.isOp("+:") || p.isOp("-:"):
			op := p.next().text
			b := p.parseExpr()
			p.expectOp("]")
			e = &Expr{Kind: eIdxPart, Line: t.line, Op: op, A: e, B: a, C: b}
		default:
			p.expectOp("]")
			e = &Expr{Kind: eIndex, Line: t.line, A: e, B: a}
		}
	}
}

// numberExpr converts a number token into an expression, reporting width-literal problems.
func (p *parser) numberExpr(t *token) *Expr {
	n := &Number{Base: t.numBase, Signed: t.numSigned, Digits: t.numDigits, Text: t.text, Real: t.numReal}
	e := &Expr{Kind: eNumber, Line: t.line, Num: n}
	if t.numReal {
		p.addDiag(t.line, ClassUnsupported, "", "real literal "+t.text+" is not supported")
		n.Width = 32
		n.Words = []uint64{0}
		n.Signed = true
		return e
	}
	if t.numSize != "" {
		sz, err := strconv.Atoi(t.numSize)
		if err != nil || sz <= 0 || sz > 1<<20 {
			p.addDiag(t.line, ClassSyntax, "", "illegal literal size in "+t.text)
			sz = 32
		}
		n.Sized = true
		n.Size = sz
	}
	val := new(big.Int)
	xm, zm := new(big.Int), new(big.Int)
	fillX, fillZ := false, false
	needBits := 0
	switch t.numBase {
	case 0:
		n.Signed = true
		val.SetString(t.numDigits, 10)
		needBits = val.BitLen()
	case 'd':
		ds := t.numDigits
		if strings.ContainsAny(ds, "xXzZ?") {
			n.HasXZ = true
			if strings.ContainsAny(ds, "xX") {
				fillX = true
			} else {
				fillZ = true
			}
			ds = "0"
		}
		val.SetString(ds, 10)
		needBits = val.BitLen()
	default:
		bpd := 1
		if t.numBase == 'o' {
			bpd = 3
		} else if t.numBase == 'h' {
			bpd = 4
		}
		for i := 0; i < len(t.numDigits); i++ {
			c := t.numDigits[i]
			var dv uint
			switch {
			case c >= '0' && c <= '9':
				dv = uint(c - '0')
			case c >= 'a' && c <= 'f':
				dv = uint(c-'a') + 10
			case c >= 'A' && c <= 'F':
				dv = uint(c-'A') + 10
			default:
				n.HasXZ = true
				dv = 0
			}
			val.Lsh(val, uint(bpd))
			val.Or(val, big.NewInt(int64(dv)))
			xm.Lsh(xm, uint(bpd))
			zm.Lsh(zm, uint(bpd))
			dm := big.NewInt(int64(1)<<uint(bpd) - 1)
			switch c {
			case 'x', 'X':
				xm.Or(xm, dm)
				if i == 0 {
					fillX = true
				}
			case 'z', 'Z', '?':
				zm.Or(zm, dm)
				if i == 0 {
					fillZ = true
				}
			}
		}
		if t.numBase != 'd' && (fillX || fillZ) {
			// a leading x/z digit extends to the left (1364-2005 3.5.1)
			have := bpd * len(t.numDigits)
			want := 32
			if t.numSize != "" {
				if sz, err := strconv.Atoi(t.numSize); err == nil && sz > 0 && sz <= 1<<20 {
					want = sz
				}
			}
			if want > have {
				ext := new(big.Int).Lsh(bigMask(want-have), uint(have))
				if fillX {
					xm.Or(xm, ext)
				} else {
					zm.Or(zm, ext)
				}
			}
			fillX, fillZ = false, false
		}
		if t.numBase == 'b' {
			needBits = len(t.numDigits)
		} else {
			needBits = val.BitLen()
		}
	}
	if n.Sized {
		n.Width = n.Size
		if needBits > n.Size {
			n.TooWide = true
			p.addDiag(t.line, ClassWidthLiteral, "", fmt.Sprintf("literal %s needs %d bits but is sized %d", t.text, needBits, n.Size))
		}
	} else {
		n.Width = 32
		if val.BitLen() > 32 {
			n.Width = val.BitLen()
			if n.Signed {
				n.Width++
			}
		}
	}
	n.Words = bigToWords(val, n.Width)
	if n.HasXZ {
		if fillX {
			xm = bigMask(n.Width)
		}
		if fillZ {
			zm = bigMask(n.Width)
		}
		n.XMask = bigToWords(xm, n.Width)
		n.ZMask = bigToWords(zm, n.Width)
	}
	return e
}

func bigToWords(v *big.Int, w int) []uint64 {
	nw := (w + 63) / 64
	if nw == 0 {
		nw = 1
	}
	out := make([]uint64, nw)
	tmp := new(big.Int).Set(v)
	m := new(big.Int).SetUint64(^uint64(0))
	for i := 0; i < nw; i++ {
		out[i] = new(big.Int).And(tmp, m).Uint64()
		tmp.Rsh(tmp, 64)
	}
	if w%64 != 0 {
		out[nw-1] &= (uint64(1) << uint(w%64)) - 1
	}
	return out
}
