package vsim

import (
	"fmt"
	"math/big"
	"sort"
	"strings"
)

type symKind uint8

const (
	symSig symKind = iota
	symParam
	symGenvar
	symFunc
	symScope // named block / generate scope / instance
)

type symbol struct {
	kind    symKind
	name    string
	sig     *signal
	val     Val
	fn      *funcInfo
	sub     *scope
	line    int
	isLocal bool // localparam
	// port/net redeclaration bookkeeping
	hasDir       bool
	hasType      bool
	genvarActive bool
}

type scope struct {
	parent *scope
	syms   map[string]*symbol
	prefix string // hierarchical prefix of names declared here ("" or "a.b.")
	mi     *modInst
	genCnt int
	anon   int
}

func (sc *scope) lookup(name string) *symbol {
	for s := sc; s != nil; s = s.parent {
		if sym, ok := s.syms[name]; ok {
			return sym
		}
	}
	return nil
}

func (sc *scope) child(prefix string) *scope {
	return &scope{parent: sc, syms: map[string]*symbol{}, prefix: prefix, mi: sc.mi}
}

type modInst struct {
	mod      *Module
	path     string // "" for top, else "a.b"
	root     *scope
	deferred []deferredItem
	paramOrd []string
}

type deferredItem struct {
	sc *scope
	it *Item
}

type funcInfo struct {
	name     string
	ast      *Function
	sc       *scope // scope the function was declared in
	fsc      *scope // function scope
	inputs   []*signal
	ret      *signal
	body     stmtFn
	reads    map[*signal]bool
	compiled bool
	busy     bool
	active   bool
	file     string
}

type procMode uint8

const (
	modeComb procMode = iota
	modeEdge
	modeInitial
	modeFunc
)

// compCtx is the context of one process / continuous assignment being compiled.
type compCtx struct {
	mode     procMode
	reads    map[*signal]bool
	writes   map[*signal]bool
	procID   int
	kind     string // driver kind
	fn       *funcInfo
	file     string
	hasNBA   bool
	portConn bool // resolving a port connection / continuous-assign LHS (implicit nets allowed)
	rr       []sigRange
	noRange  bool
}

func (cc *compCtx) read(sg *signal) {
	if cc != nil && cc.reads != nil {
		cc.reads[sg] = true
		if !cc.noRange {
			cc.rr = append(cc.rr, sigRange{sg: sg, whole: true, hi: sg.w - 1})
		}
	}
}

// readRange records a read of bits [lo,hi] of sg.
func (cc *compCtx) readRange(sg *signal, lo, hi int64) {
	if cc != nil && cc.reads != nil {
		cc.reads[sg] = true
		if lo < 0 {
			lo = 0
		}
		if hi >= int64(sg.w) {
			hi = int64(sg.w) - 1
		}
		if lo <= hi {
			cc.rr = append(cc.rr, sigRange{sg: sg, lo: int(lo), hi: int(hi)})
		}
	}
}

// resolveBase resolves the base of a select without recording a whole-signal read for
// plain vectors; the caller records the selected range.
func (e *elab) resolveBase(sc *scope, x *Expr, cc *compCtx) *tx {
	if x.Kind != eIdent || cc == nil {
		return e.resolve(sc, x, cc)
	}
	old := cc.noRange
	cc.noRange = true
	t := e.resolve(sc, x, cc)
	cc.noRange = old
	return t
}

// noteSelectRead records the range read by a select on a plain vector base.
func (cc *compCtx) noteSelectRead(base *tx, constPos bool, lo int64, w int) {
	if cc == nil || base.k != tkSig {
		return
	}
	if constPos {
		cc.readRange(base.sig, lo, lo+int64(w)-1)
	} else {
		cc.readRange(base.sig, 0, int64(base.sig.w)-1)
	}
}

type elab struct {
	d        *Design
	sim      *Sim
	blackbox map[string]bool
	errs     []Diag
	warns    []Diag
	nextProc int
	initials []stmtFn
	depth    int
	lintMode bool
	stack    []string
	implicit []Diag
}

func (e *elab) errorf(file string, line int, class, ident, msg string) {
	if len(e.errs) < 200 {
		e.errs = append(e.errs, Diag{File: file, Line: line, Class: class, Ident: ident, Msg: msg})
	}
}

func (e *elab) warnf(file string, line int, class, ident, msg string) {
	if len(e.warns) < 5000 {
		e.warns = append(e.warns, Diag{File: file, Line: line, Class: class, Ident: ident, Msg: msg})
	}
}

// Elaborate flattens the hierarchy below top. Instances of modules listed in
// blackbox are left out (their output nets stay undriven/undefined).
//
// Elaboration is tolerant towards problems the lint reports (undeclared
// identifiers become implicit 1-bit signals, of duplicate declarations the first
// wins, ...); those are available from (*Sim).Warnings(). Constructs that cannot
// be simulated faithfully make Elaborate fail with a *DiagError.
func (d *Design) Elaborate(top string, blackbox map[string]bool) (sim *Sim, err error) {
	e := &elab{d: d, sim: newSim(), blackbox: blackbox}
	return e.run(top)
}

func (e *elab) run(top string) (sim *Sim, err error) {
	defer func() {
		if r := recover(); r != nil {
			sim = nil
			err = &DiagError{Diags: []Diag{{Class: ClassUnsupported, Ident: top, Msg: fmt.Sprintf("internal elaboration error: %v", r)}}}
		}
	}()
	m := e.d.mods[top]
	if m == nil {
		return nil, &DiagError{Diags: []Diag{{Class: ClassUndefModule, Ident: top, Msg: "top module " + top + " is not defined"}}}
	}
	e.sim.topName = top
	e.instantiate(m, "", nil, nil, m.File, m.Line)
	if len(e.errs) > 0 {
		return nil, &DiagError{Diags: e.errs}
	}
	e.finalize()
	if len(e.errs) > 0 {
		return nil, &DiagError{Diags: e.errs}
	}
	e.sim.warnings = dedupDiags(e.warns)
	return e.sim, nil
}

// ---------------------------------------------------------------- instantiation

// instantiate elaborates one instance of m. pos/named are the parameter overrides.
func (e *elab) instantiate(m *Module, path string, pos []Val, named map[string]Val, ifile string, iline int) *modInst {
	for _, s := range e.stack {
		if s == m.Name {
			e.errorf(ifile, iline, ClassUnsupported, m.Name, "recursive instantiation of module "+m.Name)
			return nil
		}
	}
	if len(e.stack) > 64 {
		e.errorf(ifile, iline, ClassUnsupported, m.Name, "hierarchy too deep")
		return nil
	}
	e.stack = append(e.stack, m.Name)
	defer func() { e.stack = e.stack[:len(e.stack)-1] }()
	// a module with parse errors / skipped unsupported items cannot be simulated faithfully
	for _, dg := range e.d.fatals {
		if dg.File == m.File && (dg.Line < 0 || (dg.Line >= m.Line && dg.Line <= m.EndLine)) {
			e.errorf(dg.File, dg.Line, dg.Class, dg.Ident, "module "+m.Name+": "+dg.Msg)
		}
	}

	mi := &modInst{mod: m, path: path}
	prefix := ""
	if path != "" {
		prefix = path + "."
	}
	mi.root = &scope{syms: map[string]*symbol{}, prefix: prefix, mi: mi}
	// parameter order for positional overrides
	for _, it := range m.Items {
		if it.Kind == iDecl && it.Decl.Kind == dParam {
			for _, n := range it.Decl.Names {
				mi.paramOrd = append(mi.paramOrd, n.Name)
			}
		}
	}
	over := map[string]Val{}
	for i, v := range pos {
		if i < len(mi.paramOrd) {
			over[mi.paramOrd[i]] = v
		} else {
			e.errorf(ifile, iline, ClassPortCount, m.Name, "too many positional parameter overrides for module "+m.Name)
		}
	}
	for n, v := range named {
		found := false
		for _, pn := range mi.paramOrd {
			if pn == n {
				found = true
			}
		}
		if !found {
			e.warnf(ifile, iline, ClassPortCount, n, "module "+m.Name+" has no parameter "+n)
			continue
		}
		over[n] = v
	}
	// phase 0: functions
	e.collectFuncs(mi.root, m.Items)
	// phase 1: declarations
	e.declItems(mi.root, m.Items, over)
	// ports without any declaration
	for _, pn := range m.PortList {
		sym := mi.root.syms[pn]
		if sym == nil || sym.kind != symSig || !sym.hasDir {
			e.warnf(m.File, m.PortLine[pn], ClassUndeclared, pn, "port "+pn+" has no direction declaration")
			if sym == nil {
				sg := &signal{name: prefix + pn, lname: pn, kind: skImplicit, w: 1, file: m.File, line: m.PortLine[pn], modName: m.Name}
				e.sim.addSignal(sg)
				mi.root.syms[pn] = &symbol{kind: symSig, name: pn, sig: sg}
			}
		}
	}
	// phase 2: behaviour
	for _, di := range mi.deferred {
		e.behave(di.sc, di.it)
	}
	return mi
}

func (e *elab) collectFuncs(sc *scope, items []*Item) {
	for _, it := range items {
		switch it.Kind {
		case iFunction:
			f := it.Func
			if old, dup := sc.syms[f.Name]; dup {
				e.warnf(sc.mi.mod.File, f.Line, ClassDupDecl, f.Name, fmt.Sprintf("%s already declared at line %d", f.Name, old.line))
				continue
			}
			sc.syms[f.Name] = &symbol{kind: symFunc, name: f.Name, line: f.Line,
				fn: &funcInfo{name: f.Name, ast: f, sc: sc, file: sc.mi.mod.File}}
		case iGenRegion:
			e.collectFuncs(sc, it.Items)
		}
	}
}

// declItems processes declarations in order and defers behavioural items.
func (e *elab) declItems(sc *scope, items []*Item, over map[string]Val) {
	mi := sc.mi
	file := mi.mod.File
	for _, it := range items {
		switch it.Kind {
		case iDecl:
			e.declare(sc, it.Decl, over, false)
		case iFunction:
			// collected before (module level) or here (generate scope)
			if _, ok := sc.syms[it.Func.Name]; !ok {
				sc.syms[it.Func.Name] = &symbol{kind: symFunc, name: it.Func.Name, line: it.Func.Line,
					fn: &funcInfo{name: it.Func.Name, ast: it.Func, sc: sc, file: file}}
			}
		case iGenRegion:
			e.declItems(sc, it.Items, over)
		case iGenBlock:
			sc.genCnt++
			e.genBody(sc, []*Item{it}, sc.genCnt, -1, "", Val{})
		case iGenIf:
			sc.genCnt++
			cnt := sc.genCnt
			v, ok := e.constEval(sc, it.Cond)
			if !ok {
				e.errorf(file, it.Line, ClassUnsupported, "", "generate-if condition is not constant")
				continue
			}
			body := it.Else
			if !v.Undef && (v.Bits != 0 || (v.Big != nil && v.Big.Sign() != 0)) {
				body = it.Items
			}
			e.genBody(sc, body, cnt, -1, "", Val{})
		case iGenFor:
			sc.genCnt++
			cnt := sc.genCnt
			e.genFor(sc, it, cnt)
		case iAssign, iAlways, iInitial, iInstance:
			mi.deferred = append(mi.deferred, deferredItem{sc, it})
		case iTask:
			// reported by the parser
		}
	}
}

// genBody elaborates the body of a generate-if / generate-for iteration.
func (e *elab) genBody(sc *scope, body []*Item, cnt int, index int, gv string, gval Val) {
	if len(body) == 0 {
		return
	}
	var sub *scope
	items := body
	if len(body) == 1 && body[0].Kind == iGenBlock {
		blk := body[0]
		name := blk.Name
		if name == "" {
			name = fmt.Sprintf("genblk%d", cnt)
		}
		sub = e.genScopeIdx(sc, name, index, gv != "", blk.Line)
		items = blk.Items
	} else {
		sub = e.genScopeIdx(sc, fmt.Sprintf("genblk%d", cnt), index, gv != "", body[0].Line)
	}
	if gv != "" {
		sub.syms[gv] = &symbol{kind: symParam, name: gv, val: gval, isLocal: true}
	}
	e.collectFuncs(sub, items)
	e.declItems(sub, items, nil)
}

func (e *elab) genScopeIdx(sc *scope, name string, index int, indexed bool, line int) *scope {
	full := name
	if indexed {
		full = fmt.Sprintf("%s[%d]", name, index)
	}
	if old, ok := sc.syms[full]; ok {
		if old.kind != symScope {
			e.warnf(sc.mi.mod.File, line, ClassDupDecl, name, "generate block name "+name+" collides with another declaration")
		} else {
			e.warnf(sc.mi.mod.File, line, ClassDupDecl, name, "generate block name "+full+" used twice")
		}
		full = full + "$"
	}
	sub := sc.child(sc.prefix + full + ".")
	sc.syms[full] = &symbol{kind: symScope, name: full, sub: sub, line: line}
	return sub
}

func (e *elab) genFor(sc *scope, it *Item, cnt int) {
	file := sc.mi.mod.File
	gsym := sc.lookup(it.GenVar)
	if it.What == "inline-genvar" {
		gsym = nil
	} else if gsym == nil || gsym.kind != symGenvar {
		e.warnf(file, it.Line, ClassUndeclared, it.GenVar, "generate loop variable "+it.GenVar+" is not a declared genvar")
	}
	if it.GenStepV != it.GenVar {
		e.errorf(file, it.Line, ClassUnsupported, it.GenVar, "generate-for step must assign the loop genvar")
		return
	}
	iv, ok := e.constEval(sc, it.GenInit)
	if !ok || iv.Undef {
		e.errorf(file, it.Line, ClassUnsupported, it.GenVar, "generate-for initial value is not constant")
		return
	}
	cur := Val{W: 32, Signed: true, Bits: uint64(iv.asInt()) & 0xffffffff}
	// a temporary scope binds the genvar while evaluating condition/step
	tmp := sc.child(sc.prefix)
	gs := &symbol{kind: symParam, name: it.GenVar, val: cur, isLocal: true}
	tmp.syms[it.GenVar] = gs
	for n := 0; ; n++ {
		if n > 100000 {
			e.errorf(file, it.Line, ClassUnsupported, it.GenVar, "generate-for does not terminate")
			return
		}
		gs.val = cur
		cv, ok := e.constEval(tmp, it.Cond)
		if !ok {
			e.errorf(file, it.Line, ClassUnsupported, it.GenVar, "generate-for condition is not constant")
			return
		}
		if cv.Undef || (cv.Bits == 0 && (cv.Big == nil || cv.Big.Sign() == 0)) {
			break
		}
		e.genBody(sc, it.Items, cnt, int(cur.asInt()), it.GenVar, cur)
		nv, ok := e.constEval(tmp, it.GenStep)
		if !ok || nv.Undef {
			e.errorf(file, it.Line, ClassUnsupported, it.GenVar, "generate-for step is not constant")
			return
		}
		cur = Val{W: 32, Signed: true, Bits: uint64(nv.asInt()) & 0xffffffff}
	}
}

// evalRange evaluates a [msb:lsb] range.
func (e *elab) evalRange(sc *scope, m, l *Expr, line int) (msb, lsb int, ok bool) {
	if m == nil {
		return 0, 0, true
	}
	file := sc.mi.mod.File
	mv, ok1 := e.constEval(sc, m)
	lv, ok2 := e.constEval(sc, l)
	if !ok1 || !ok2 || mv.Undef || lv.Undef {
		e.errorf(file, line, ClassUnsupported, "", "range bounds are not constant")
		return 0, 0, false
	}
	a, b := mv.asInt(), lv.asInt()
	if a-b > 1<<20 || b-a > 1<<20 || a > 1<<30 || a < -(1<<30) {
		e.errorf(file, line, ClassUnsupported, "", fmt.Sprintf("range [%d:%d] is too large", a, b))
		return 0, 0, false
	}
	return int(a), int(b), true
}

func absInt(a int) int {
	if a < 0 {
		return -a
	}
	return a
}

// declare processes one declaration in scope sc.
func (e *elab) declare(sc *scope, d *Decl, over map[string]Val, inFunc bool) {
	mi := sc.mi
	file := mi.mod.File
	switch d.Kind {
	case dParam, dLocalparam:
		for _, n := range d.Names {
			if old, dup := sc.syms[n.Name]; dup {
				e.warnf(file, n.Line, ClassDupDecl, n.Name, fmt.Sprintf("%s already declared at line %d", n.Name, old.line))
				continue
			}
			var v Val
			ok := true
			if ov, has := over[n.Name]; has && d.Kind == dParam && sc == mi.root {
				v = ov
			} else if n.Init != nil {
				v, ok = e.constEval(sc, n.Init)
				if !ok {
					e.errorf(file, n.Line, ClassUnsupported, n.Name, "parameter value is not a constant expression")
					v = Val{W: 32, Signed: true, Undef: true}
				}
			} else {
				v = Val{W: 32, Signed: true, Undef: true}
			}
			// explicit type
			if d.MSB != nil {
				msb, lsb, rok := e.evalRange(sc, d.MSB, d.LSB, d.Line)
				if rok {
					v = convertVal(v, absInt(msb-lsb)+1, d.Signed)
				}
			} else if d.IsInt {
				v = convertVal(v, 32, true)
			} else if d.Signed {
				v.Signed = true
			}
			sc.syms[n.Name] = &symbol{kind: symParam, name: n.Name, val: v, line: n.Line, isLocal: d.Kind == dLocalparam}
		}
	case dGenvar:
		for _, n := range d.Names {
			if old, dup := sc.syms[n.Name]; dup {
				e.warnf(file, n.Line, ClassDupDecl, n.Name, fmt.Sprintf("%s already declared at line %d", n.Name, old.line))
				continue
			}
			sc.syms[n.Name] = &symbol{kind: symGenvar, name: n.Name, line: n.Line}
		}
	case dReal, dEvent:
		for _, n := range d.Names {
			if d.Kind == dReal {
				e.warnf(file, n.Line, ClassUnsupported, n.Name, "real variables are ignored")
			}
			if _, dup := sc.syms[n.Name]; !dup {
				sg := &signal{name: sc.prefix + n.Name, lname: n.Name, kind: skReg, w: 1, file: file, line: n.Line, modName: mi.mod.Name}
				e.sim.addSignal(sg)
				sc.syms[n.Name] = &symbol{kind: symSig, name: n.Name, sig: sg, line: n.Line, hasType: true}
			}
		}
	default:
		msb, lsb, ok := e.evalRange(sc, d.MSB, d.LSB, d.Line)
		if !ok {
			return
		}
		w := absInt(msb-lsb) + 1
		signed := d.Signed
		kind := skNet
		isPortDecl := d.Kind == dInput || d.Kind == dOutput || d.Kind == dInout
		hasType := !isPortDecl
		switch {
		case d.Kind == dReg, d.NetType == "reg":
			kind = skReg
			hasType = true
		case d.Kind == dInteger:
			kind = skInteger
		}
		if d.IsInt {
			kind = skInteger
			msb, lsb, w = 31, 0, 32
			hasType = true
		}
		if isPortDecl && d.NetType != "" {
			hasType = true
		}
		if d.Kind == dInout {
			e.errorf(file, d.Line, ClassUnsupported, "", "inout ports are not supported")
		}
		for _, n := range d.Names {
			if old, dup := sc.syms[n.Name]; dup {
				// legal port redeclaration?
				if old.kind == symSig && !inFunc && sc == mi.root && old.sig != nil && old.sig.isPort {
					if isPortDecl && !old.hasDir {
						// direction after net/reg declaration
						old.hasDir = true
						old.sig.dir = d.Kind
						if d.MSB != nil && (old.sig.w != w) {
							e.warnf(file, n.Line, ClassDupDecl, n.Name, "port "+n.Name+" redeclared with a different range")
						}
						continue
					}
					if !isPortDecl && !old.hasType {
						old.hasType = true
						if kind != skNet {
							old.sig.kind = kind
						}
						if signed {
							old.sig.signed = true
						}
						if (d.MSB != nil || d.IsInt) && old.sig.w != w {
							e.warnf(file, n.Line, ClassDupDecl, n.Name, fmt.Sprintf("port %s redeclared with a different range ([%d:%d] vs [%d:%d])", n.Name, msb, lsb, old.sig.msb, old.sig.lsb))
						}
						if n.Init != nil {
							e.declInit(sc, old.sig, n, kind)
						}
						continue
					}
				}
				e.warnf(file, n.Line, ClassDupDecl, n.Name, fmt.Sprintf("%s already declared at line %d", n.Name, old.line))
				continue
			}
			sg := &signal{name: sc.prefix + n.Name, lname: n.Name, kind: kind, w: w, signed: signed, msb: msb, lsb: lsb,
				file: file, line: n.Line, modName: mi.mod.Name, local: inFunc}
			sym := &symbol{kind: symSig, name: n.Name, sig: sg, line: n.Line, hasType: hasType}
			if _, isPort := mi.mod.PortLine[n.Name]; isPort && sc == mi.root && !inFunc {
				sg.isPort = true
				if isPortDecl {
					sym.hasDir = true
					sg.dir = d.Kind
				}
			} else if isPortDecl && !inFunc {
				e.warnf(file, n.Line, ClassUndeclared, n.Name, n.Name+" is declared "+d.Kind.String()+" but is not in the port list")
				sym.hasDir = true
				sg.dir = d.Kind
			}
			if len(n.Dims) > 0 {
				if len(n.Dims) > 1 {
					e.errorf(file, n.Line, ClassUnsupported, n.Name, "multi-dimensional arrays are not supported")
					continue
				}
				l, r, ok := e.evalRange(sc, n.Dims[0][0], n.Dims[0][1], n.Line)
				if !ok {
					continue
				}
				sg.isMem = true
				sg.memL, sg.memR = l, r
				sg.memMin = l
				if r < l {
					sg.memMin = r
				}
				sg.depth = absInt(l-r) + 1
				if sg.depth*((w+63)/64) > 1<<24 {
					e.errorf(file, n.Line, ClassUnsupported, n.Name, "memory is too large")
					continue
				}
			}
			e.sim.addSignal(sg)
			sc.syms[n.Name] = sym
			if n.Init != nil {
				e.declInit(sc, sg, n, kind)
			}
		}
	}
}

// declInit handles "reg x = v;" (initial value) and "wire x = e;" (continuous assignment).
func (e *elab) declInit(sc *scope, sg *signal, n DeclName, kind sigKind) {
	lhs := &Expr{Kind: eIdent, Name: n.Name, Line: n.Line}
	if kind == skNet {
		it := &Item{Kind: iAssign, Line: n.Line, Asgs: []Assign{{LHS: lhs, RHS: n.Init, Line: n.Line}}, What: "decl"}
		sc.mi.deferred = append(sc.mi.deferred, deferredItem{sc, it})
		return
	}
	it := &Item{Kind: iInitial, Line: n.Line, What: "decl",
		Body: &Stmt{Kind: sAssign, Op: "=", Line: n.Line, LHS: lhs, RHS: n.Init}}
	sc.mi.deferred = append(sc.mi.deferred, deferredItem{sc, it})
}

// convertVal converts a constant to the given width and signedness (assignment semantics).
func convertVal(v Val, w int, signed bool) Val {
	b := v.big()
	if v.Signed && w > v.W {
		b = bigExtend(b, v.W, w, true)
	} else {
		b = bigTrunc(b, w)
	}
	r := mkVal(w, signed, b)
	r.Undef = v.Undef
	return r
}

// constEval evaluates a constant expression in scope sc.
func (e *elab) constEval(sc *scope, x *Expr) (Val, bool) {
	cc := &compCtx{mode: modeFunc, reads: map[*signal]bool{}, file: sc.mi.mod.File}
	nerr := len(e.errs)
	t := e.resolve(sc, x, cc)
	if t.bad || len(e.errs) > nerr {
		return Val{W: 32, Signed: true, Undef: true}, false
	}
	for sg := range cc.reads {
		if !sg.local {
			return Val{W: 32, Signed: true, Undef: true}, false
		}
	}
	c := e.compileSelf(t)
	if !c.isConst {
		// constant function calls: run the closure now
		if c.w <= 64 {
			v, d := c.fn(e.sim)
			c = constCx(c.w, v, d)
		} else {
			v, d := c.wfn(e.sim)
			c = constCxBig(c.w, v, d)
		}
		if e.sim.rtErr != nil {
			e.errs = append(e.errs, e.sim.rtErr.(*DiagError).Diags...)
			e.sim.rtErr = nil
			return Val{W: 32, Signed: true, Undef: true}, false
		}
	}
	return c.val(t.sg), true
}

// constInt evaluates a constant integer (for ranges, replication counts, select bounds).
func (e *elab) constInt(sc *scope, x *Expr) (int64, bool) {
	v, ok := e.constEval(sc, x)
	if !ok || v.Undef {
		return 0, false
	}
	return v.asInt(), true
}

// ---------------------------------------------------------------- expression resolution

func (e *elab) badTx(line int) *tx { return &tx{k: tkConst, w: 1, bad: true, line: line} }

func numberVal(n *Number) Val {
	v := Val{W: n.Width, Signed: n.Signed, Undef: n.HasXZ}
	if len(n.Words) > 0 {
		v.Bits = n.Words[0]
	}
	if n.Width > 64 {
		v.Big = wordsToBig(n.Words)
	}
	return v
}

// lookupPath resolves a possibly hierarchical name.
func (e *elab) lookupPath(sc *scope, name string) *symbol {
	if !strings.Contains(name, ".") {
		return sc.lookup(name)
	}
	parts := strings.Split(name, ".")
	sym := sc.lookup(parts[0])
	for _, p := range parts[1:] {
		if sym == nil || sym.kind != symScope || sym.sub == nil {
			return nil
		}
		sym = sym.sub.syms[p]
	}
	return sym
}

// implicitSig creates the implicit 1-bit signal for an undeclared identifier.
func (e *elab) implicitSig(sc *scope, name string, line int, cc *compCtx) *signal {
	root := sc.mi.root
	file := sc.mi.mod.File
	if cc != nil && cc.portConn {
		e.implicit = append(e.implicit, Diag{File: file, Line: line, Class: ClassImplicitNet, Ident: name, Msg: "implicit 1-bit net " + name})
	} else {
		e.warnf(file, line, ClassUndeclared, name, "identifier "+name+" is not declared (treated as an implicit 1-bit signal)")
	}
	sg := &signal{name: root.prefix + name, lname: name, kind: skImplicit, w: 1, file: file, line: line, modName: sc.mi.mod.Name}
	e.sim.addSignal(sg)
	root.syms[name] = &symbol{kind: symSig, name: name, sig: sg, line: line}
	return sg
}

func (e *elab) resolve(sc *scope, x *Expr, cc *compCtx) *tx {
	file := sc.mi.mod.File
	if x == nil {
		return e.badTx(0)
	}
	switch x.Kind {
	case eNumber:
		if x.Num.Real {
			e.errorf(file, x.Line, ClassUnsupported, "", "real literal in expression")
			return e.badTx(x.Line)
		}
		return constTx(numberVal(x.Num), x.Line)
	case eString:
		w := 8 * len(x.Str)
		if w == 0 {
			w = 8
		}
		b := new(big.Int)
		for i := 0; i < len(x.Str); i++ {
			b.Lsh(b, 8)
			b.Or(b, big.NewInt(int64(x.Str[i])))
		}
		return constTx(mkVal(w, false, b), x.Line)
	case eIdent:
		sym := e.lookupPath(sc, x.Name)
		if sym == nil {
			if strings.Contains(x.Name, ".") {
				e.errorf(file, x.Line, ClassUnsupported, x.Name, "hierarchical reference "+x.Name+" cannot be resolved")
				return e.badTx(x.Line)
			}
			sg := e.implicitSig(sc, x.Name, x.Line, cc)
			cc.read(sg)
			return &tx{k: tkSig, w: 1, sig: sg, line: x.Line}
		}
		switch sym.kind {
		case symParam:
			return constTx(sym.val, x.Line)
		case symGenvar:
			e.errorf(file, x.Line, ClassUnsupported, x.Name, "genvar "+x.Name+" used outside a generate loop")
			return e.badTx(x.Line)
		case symSig:
			if sym.sig.isMem {
				e.errorf(file, x.Line, ClassUnsupported, x.Name, "memory "+x.Name+" used without an index")
				return e.badTx(x.Line)
			}
			cc.read(sym.sig)
			return &tx{k: tkSig, w: sym.sig.w, sg: sym.sig.signed, sig: sym.sig, line: x.Line}
		case symFunc:
			return e.resolveCall(sc, &Expr{Kind: eCall, Name: x.Name, Line: x.Line}, cc)
		}
		e.errorf(file, x.Line, ClassUnsupported, x.Name, x.Name+" is not a value")
		return e.badTx(x.Line)
	case eIndex:
		if x.A.Kind == eIdent {
			if sym := e.lookupPath(sc, x.A.Name); sym != nil && sym.kind == symSig && sym.sig.isMem {
				ix := e.resolve(sc, x.B, cc)
				cc.read(sym.sig)
				return &tx{k: tkMemWord, w: sym.sig.w, sg: sym.sig.signed, sig: sym.sig, a: ix, line: x.Line}
			}
		}
		base := e.resolveBase(sc, x.A, cc)
		if base.bad {
			return base
		}
		if base.k != tkSig && base.k != tkMemWord && base.k != tkConst {
			e.errorf(file, x.Line, ClassUnsupported, "", "bit-select of an expression is not supported")
			return e.badTx(x.Line)
		}
		ix := e.resolve(sc, x.B, cc)
		if base.k == tkSig {
			if ix.k == tkConst && !ix.val.Undef {
				cc.noteSelectRead(base, true, base.sig.bitPos(ix.val.asInt()), 1)
			} else {
				cc.noteSelectRead(base, false, 0, 0)
			}
		}
		return &tx{k: tkBitSel, w: 1, a: base, b: ix, line: x.Line}
	case ePartSel, eIdxPart:
		base := e.resolveBase(sc, x.A, cc)
		if base.bad {
			return base
		}
		if base.k != tkSig && base.k != tkMemWord && base.k != tkConst {
			e.errorf(file, x.Line, ClassUnsupported, "", "part-select of an expression is not supported")
			return e.badTx(x.Line)
		}
		bmsb, blsb := base.w-1, 0
		if base.k != tkConst {
			bmsb, blsb = base.sig.msb, base.sig.lsb
		}
		pos := func(i int64) int64 {
			if bmsb >= blsb {
				return i - int64(blsb)
			}
			return int64(blsb) - i
		}
		if x.Kind == ePartSel {
			m, ok1 := e.constInt(sc, x.B)
			l, ok2 := e.constInt(sc, x.C)
			if !ok1 || !ok2 {
				e.errorf(file, x.Line, ClassUnsupported, "", "part-select bounds are not constant")
				return e.badTx(x.Line)
			}
			pm, pl := pos(m), pos(l)
			if pm < pl {
				e.warnf(file, x.Line, ClassUnsupported, "", "part-select direction is reversed with respect to the declaration")
				pm, pl = pl, pm
			}
			w := pm - pl + 1
			if w > 1<<20 || pl < -(1<<30) || pl > 1<<30 {
				e.errorf(file, x.Line, ClassUnsupported, "", "part-select is too large")
				return e.badTx(x.Line)
			}
			cc.noteSelectRead(base, true, pl, int(w))
			return &tx{k: tkPartSel, w: int(w), a: base, lo: int(pl), n: int(w), line: x.Line}
		}
		wv, ok := e.constInt(sc, x.C)
		if !ok || wv <= 0 || wv > 1<<20 {
			e.errorf(file, x.Line, ClassUnsupported, "", "indexed part-select width is not a positive constant")
			return e.badTx(x.Line)
		}
		ix := e.resolve(sc, x.B, cc)
		cc.noteSelectRead(base, false, 0, 0)
		return &tx{k: tkIdxPart, w: int(wv), a: base, b: ix, n: int(wv), up: x.Op == "+:", line: x.Line}
	case eUnary:
		a := e.resolve(sc, x.A, cc)
		if a.bad {
			return a
		}
		switch x.Op {
		case "+", "-", "~":
			return &tx{k: tkUnary, op: x.Op, w: a.w, sg: a.sg, a: a, line: x.Line}
		case "!":
			return &tx{k: tkLogic, op: "!", w: 1, a: a, line: x.Line}
		default:
			return &tx{k: tkReduce, op: x.Op, w: 1, a: a, line: x.Line}
		}
	case eBinary:
		a := e.resolve(sc, x.A, cc)
		b := e.resolve(sc, x.B, cc)
		if a.bad {
			return a
		}
		if b.bad {
			return b
		}
		switch x.Op {
		case "+", "-", "*", "/", "%", "&", "|", "^", "~^", "^~":
			return &tx{k: tkArith, op: x.Op, w: maxInt(a.w, b.w), sg: a.sg && b.sg, a: a, b: b, line: x.Line}
		case "==", "!=", "===", "!==", "<", "<=", ">", ">=":
			return &tx{k: tkCompare, op: x.Op, w: 1, a: a, b: b, line: x.Line}
		case "&&", "||":
			return &tx{k: tkLogic, op: x.Op, w: 1, a: a, b: b, line: x.Line}
		case "<<", ">>", "<<<", ">>>":
			return &tx{k: tkShift, op: x.Op, w: a.w, sg: a.sg, a: a, b: b, line: x.Line}
		case "**":
			// the exponent is self-determined and does not take part in the type (like shifts)
			return &tx{k: tkPow, op: x.Op, w: a.w, sg: a.sg, a: a, b: b, line: x.Line}
		}
		e.errorf(file, x.Line, ClassUnsupported, "", "operator "+x.Op+" is not supported")
		return e.badTx(x.Line)
	case eTernary:
		c := e.resolve(sc, x.A, cc)
		a := e.resolve(sc, x.B, cc)
		b := e.resolve(sc, x.C, cc)
		if c.bad || a.bad || b.bad {
			return e.badTx(x.Line)
		}
		return &tx{k: tkTernary, w: maxInt(a.w, b.w), sg: a.sg && b.sg, a: c, b: a, c: b, line: x.Line}
	case eConcat:
		t := &tx{k: tkConcat, line: x.Line}
		for _, it := range x.List {
			p := e.resolve(sc, it, cc)
			if p.bad {
				return p
			}
			t.list = append(t.list, p)
			t.w += p.w
		}
		if t.w > 1<<20 {
			e.errorf(file, x.Line, ClassUnsupported, "", "concatenation is too wide")
			return e.badTx(x.Line)
		}
		return t
	case eRepl:
		n, ok := e.constInt(sc, x.A)
		if !ok || n <= 0 || n > 1<<20 {
			e.errorf(file, x.Line, ClassUnsupported, "", "replication count must be a positive constant")
			return e.badTx(x.Line)
		}
		t := &tx{k: tkRepl, n: int(n), line: x.Line}
		iw := 0
		for _, it := range x.List {
			p := e.resolve(sc, it, cc)
			if p.bad {
				return p
			}
			t.list = append(t.list, p)
			iw += p.w
		}
		if int64(iw)*n > 1<<20 {
			e.errorf(file, x.Line, ClassUnsupported, "", "replication is too wide")
			return e.badTx(x.Line)
		}
		t.w = iw * int(n)
		return t
	case eCall:
		return e.resolveCall(sc, x, cc)
	}
	e.errorf(file, x.Line, ClassUnsupported, "", "unsupported expression")
	return e.badTx(x.Line)
}

func (e *elab) resolveCall(sc *scope, x *Expr, cc *compCtx) *tx {
	file := sc.mi.mod.File
	if strings.HasPrefix(x.Name, "$") {
		switch x.Name {
		case "$signed", "$unsigned":
			if len(x.List) != 1 {
				e.errorf(file, x.Line, ClassSyntax, x.Name, x.Name+" takes one argument")
				return e.badTx(x.Line)
			}
			a := e.resolve(sc, x.List[0], cc)
			if a.bad {
				return a
			}
			return &tx{k: tkCast, w: a.w, sg: x.Name == "$signed", a: a, line: x.Line}
		case "$clog2":
			if len(x.List) != 1 {
				e.errorf(file, x.Line, ClassSyntax, x.Name, "$clog2 takes one argument")
				return e.badTx(x.Line)
			}
			a := e.resolve(sc, x.List[0], cc)
			if a.bad {
				return a
			}
			return &tx{k: tkClog2, w: 32, sg: true, a: a, line: x.Line}
		case "$time", "$stime", "$realtime":
			w := 64
			if x.Name == "$stime" {
				w = 32
			}
			return constTx(Val{W: w}, x.Line)
		}
		e.errorf(file, x.Line, ClassUnsupported, x.Name, "system function "+x.Name+" is not supported")
		return e.badTx(x.Line)
	}
	sym := e.lookupPath(sc, x.Name)
	if sym == nil {
		// tolerated (the lint reports it): the call evaluates to an undefined 32-bit 0
		e.warnf(file, x.Line, ClassUndeclared, x.Name, "function "+x.Name+" is not declared; the call evaluates to an undefined value")
		for _, a := range x.List {
			e.resolve(sc, a, cc)
		}
		return constTx(Val{W: 32, Undef: true}, x.Line)
	}
	if sym.kind != symFunc {
		e.errorf(file, x.Line, ClassUnsupported, x.Name, x.Name+" is not a function")
		return e.badTx(x.Line)
	}
	fi := sym.fn
	e.compileFunc(fi)
	if fi.ret == nil {
		return e.badTx(x.Line)
	}
	if len(x.List) != len(fi.inputs) {
		e.errorf(file, x.Line, ClassPortCount, x.Name, fmt.Sprintf("function %s called with %d arguments, has %d inputs", x.Name, len(x.List), len(fi.inputs)))
		return e.badTx(x.Line)
	}
	t := &tx{k: tkCall, w: fi.ret.w, sg: fi.ret.signed, fn: fi, line: x.Line}
	for _, a := range x.List {
		p := e.resolve(sc, a, cc)
		if p.bad {
			return p
		}
		t.list = append(t.list, p)
	}
	if cc != nil && cc.reads != nil {
		for sg := range fi.reads {
			cc.reads[sg] = true
		}
	}
	return t
}

// compileFunc compiles a function on first use.
func (e *elab) compileFunc(fi *funcInfo) {
	if fi.compiled {
		return
	}
	if fi.busy {
		e.errorf(fi.file, fi.ast.Line, ClassUnsupported, fi.name, "recursive function "+fi.name+" is not supported")
		return
	}
	fi.busy = true
	defer func() { fi.busy = false; fi.compiled = true }()
	f := fi.ast
	sc := fi.sc
	fsc := sc.child(sc.prefix + f.Name + ".")
	fi.fsc = fsc
	// return variable
	msb, lsb, ok := e.evalRange(sc, f.MSB, f.LSB, f.Line)
	if !ok {
		return
	}
	w := absInt(msb-lsb) + 1
	signed := f.Signed
	kind := skReg
	if f.IsInt {
		msb, lsb, w, kind = 31, 0, 32, skInteger
	}
	if w > 64 {
		e.errorf(fi.file, f.Line, ClassUnsupported, f.Name, "function results wider than 64 bits are not supported")
		return
	}
	ret := &signal{name: fsc.prefix + f.Name, lname: f.Name, kind: kind, w: w, signed: signed, msb: msb, lsb: lsb,
		file: fi.file, line: f.Line, modName: sc.mi.mod.Name, local: true}
	e.sim.addSignal(ret)
	fsc.syms[f.Name] = &symbol{kind: symSig, name: f.Name, sig: ret, line: f.Line, hasType: true}
	var inputs []*signal
	for _, d := range f.Decls {
		e.declare(fsc, d, nil, true)
		if d.Kind == dInput {
			for _, n := range d.Names {
				if sym := fsc.syms[n.Name]; sym != nil && sym.kind == symSig {
					if sym.sig.w > 64 {
						e.errorf(fi.file, n.Line, ClassUnsupported, n.Name, "function inputs wider than 64 bits are not supported")
						return
					}
					inputs = append(inputs, sym.sig)
				}
			}
		}
	}
	cc := &compCtx{mode: modeFunc, reads: map[*signal]bool{}, writes: map[*signal]bool{}, fn: fi, file: fi.file, kind: "function", procID: -1}
	body := e.compileStmt(fsc, f.Body, cc)
	if body == nil {
		body = func(*Sim) {}
	}
	fi.inputs = inputs
	fi.ret = ret
	fi.body = body
	fi.reads = map[*signal]bool{}
	for sg := range cc.reads {
		if !sg.local {
			fi.reads[sg] = true
		}
	}
}

// ---------------------------------------------------------------- finalisation

func (e *elab) finalize() {
	s := e.sim
	// driver bookkeeping for nets with several / partial continuous drivers
	for _, sg := range s.sigs {
		if sg.isMem {
			continue
		}
		var cont []*driver
		for _, d := range sg.drivers {
			if d.kind == "assign" || d.kind == "port" || d.kind == "decl" {
				cont = append(cont, d)
			}
		}
		if len(cont) == 0 {
			continue
		}
		if len(cont) == 1 && cont[0].whole {
			continue
		}
		sg.useCount = true
		s.undefCnt[sg.idx] = int32(len(cont))
		// coverage
		cov := make([]bool, sg.w)
		for _, d := range cont {
			lo, hi := d.lo, d.hi
			if d.whole {
				lo, hi = 0, sg.w-1
			}
			for b := lo; b <= hi && b < sg.w; b++ {
				if b >= 0 {
					cov[b] = true
				}
			}
		}
		sg.covered = true
		for _, c := range cov {
			if !c {
				sg.covered = false
			}
		}
	}
	// order combinational nodes topologically (writers before readers)
	n := len(s.nodes)
	writers := map[*signal][]int{}
	for i, nd := range s.nodes {
		for _, w := range nd.writes {
			writers[w] = append(writers[w], i)
		}
	}
	order := make([]int, 0, n)
	state := make([]uint8, n)
	var visit func(i int)
	visit = func(i int) {
		if state[i] != 0 {
			return
		}
		state[i] = 1
		for _, r := range s.nodes[i].reads {
			for _, w := range writers[r] {
				if state[w] == 0 {
					visit(w)
				}
			}
		}
		state[i] = 2
		order = append(order, i)
	}
	for i := 0; i < n; i++ {
		visit(i)
	}
	sorted := make([]*combNode, n)
	for ni, oi := range order {
		sorted[ni] = s.nodes[oi]
	}
	s.nodes = sorted
	for i, nd := range s.nodes {
		seen := map[*signal]bool{}
		for _, r := range nd.reads {
			if !seen[r] {
				seen[r] = true
				r.fanout = append(r.fanout, int32(i))
			}
		}
	}
	s.dirty = make([]bool, n)
	for i := range s.dirty {
		s.dirty[i] = true
	}
	s.ndirty = n
	s.minDirty = 0
	s.maxDirty = n - 1
	s.trigStamp = make([]uint32, len(s.procs))
	s.watchPrev = make([]uint64, len(s.watches))
	// time 0: declaration initialisers and initial blocks
	for _, f := range e.initials {
		s.stopInit = false
		f(s)
		if len(s.nba) > 0 {
			q := s.nba
			s.nba = nil
			s.commitList(q)
			s.nba = q[:0]
		}
		if s.rtErr != nil {
			if de, ok := s.rtErr.(*DiagError); ok {
				e.errs = append(e.errs, de.Diags...)
			}
			s.rtErr = nil
		}
	}
	s.stopInit = false
	for _, i := range s.writtenList {
		s.written[i] = false
	}
	s.writtenList = s.writtenList[:0]
	// deterministic by-name index already built in addSignal
	_ = sort.Strings
}
