package vsim

import (
	"os"
	"path/filepath"
	"testing"
)

func loadDir(t testing.TB, dir string) map[string]string {
	files := map[string]string{}
	ms, _ := filepath.Glob(filepath.Join(dir, "*.v"))
	for _, m := range ms {
		b, err := os.ReadFile(m)
		if err != nil {
			t.Fatal(err)
		}
		files[filepath.Base(m)] = string(b)
	}
	return files
}

func TestScratchParse(t *testing.T) {
	dirs, _ := filepath.Glob("/verif/.work/corpus/*")
	for _, d := range dirs {
		files := loadDir(t, d)
		_, diags := ParseFiles(files)
		n := 0
		for _, dg := range diags {
			if dg.Class == ClassSyntax || dg.Class == ClassUnsupported {
				t.Errorf("%s: %v", filepath.Base(d), dg)
				n++
				if n > 5 {
					break
				}
			}
		}
	}
}

func TestScratchElab(t *testing.T) {
	dirs, _ := filepath.Glob("/verif/.work/corpus/*")
	for _, d := range dirs {
		files := loadDir(t, d)
		des, _ := ParseFiles(files)
		top := "bondmachine"
		if _, ok := files["bondmachine.v"]; !ok {
			top = "stk"
		}
		// find missing modules
		bb := map[string]bool{}
		for _, mn := range des.Modules() {
			var walk func(items []*Item)
			walk = func(items []*Item) {
				for _, it := range items {
					if it.Kind == iInstance && des.mods[it.Inst.Module] == nil {
						bb[it.Inst.Module] = true
					}
					walk(it.Items)
					walk(it.Else)
				}
			}
			walk(des.mods[mn].Items)
		}
		sim, err := des.Elaborate(top, bb)
		if err != nil {
			t.Errorf("%s: elaborate: %v", filepath.Base(d), err)
			continue
		}
		t.Logf("%s: %d signals, %d nodes, %d procs, %d watches, bb=%v warnings=%d", filepath.Base(d), len(sim.sigs), len(sim.nodes), len(sim.procs), len(sim.watches), bb, len(sim.Warnings()))
		if err := sim.Settle(); err != nil {
			t.Errorf("%s: settle: %v", filepath.Base(d), err)
		}
	}
}

func TestScratchLint(t *testing.T) {
	dirs, _ := filepath.Glob("/verif/.work/corpus/*")
	for _, d := range dirs {
		files := loadDir(t, d)
		des, _ := ParseFiles(files)
		top := "bondmachine"
		if _, ok := files["bondmachine.v"]; !ok {
			top = "stk"
		}
		ds := des.Lint(top, nil)
		t.Logf("== %s: %d diags", filepath.Base(d), len(ds))
		cnt := map[string]int{}
		for _, dg := range ds {
			cnt[dg.Class]++
			if cnt[dg.Class] <= 6 || (dg.Class != ClassDupDecl && dg.Class != ClassNonV2001 && cnt[dg.Class] < 40) {
				t.Logf("   %v", dg)
			}
		}
		t.Logf("   counts: %v", cnt)
	}
}
