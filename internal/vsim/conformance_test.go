package vsim

import (
	"fmt"
	"math/big"
	"strconv"
	"strings"
	"testing"
)

// ccase is one conformance micro-case: a module "t" and a script.
//
// Script commands (separated by ';'):
//
//	set N V        force signal N to V
//	settle         Settle()
//	cycle N        Cycle(N)
//	exp N V        N must be defined and equal V
//	expu N         N must be undefined
//	expv N V       N must equal V (defined flag ignored)
//	expbig N HEX   full-width comparison (hex without prefix), must be defined
//	mem N I V      memory word must be defined and equal V
//	memu N I       memory word must be undefined
//	setmem N I V   SetMem
//	written N / notwritten N
type ccase struct {
	name string
	src  string
	ops  string
}

// comb builds a purely combinational case: declarations + "settle" + expectations "a=1 b=0x10 c=u".
func comb(name, body, expects string) ccase {
	var ops []string
	ops = append(ops, "settle")
	for _, f := range strings.Fields(expects) {
		kv := strings.SplitN(f, "=", 2)
		if kv[1] == "u" {
			ops = append(ops, "expu "+kv[0])
		} else {
			ops = append(ops, "exp "+kv[0]+" "+kv[1])
		}
	}
	return ccase{name: name, src: "module t;\n" + body + "\nendmodule\n", ops: strings.Join(ops, ";")}
}

func parseU(t *testing.T, s string) uint64 {
	t.Helper()
	v, err := strconv.ParseUint(s, 0, 64)
	if err != nil {
		t.Fatalf("bad number %q in script", s)
	}
	return v
}

func runCase(t *testing.T, c ccase) {
	t.Helper()
	d, diags := ParseFiles(map[string]string{"t.v": c.src})
	for _, dg := range diags {
		if dg.Class == ClassSyntax || dg.Class == ClassUnsupported {
			t.Fatalf("parse: %v", dg)
		}
	}
	sim, err := d.Elaborate("t", nil)
	if err != nil {
		t.Fatalf("elaborate: %v", err)
	}
	for _, op := range strings.Split(c.ops, ";") {
		f := strings.Fields(op)
		if len(f) == 0 {
			continue
		}
		switch f[0] {
		case "set":
			if err := sim.Set(f[1], parseU(t, f[2])); err != nil {
				t.Fatalf("%s: %v", op, err)
			}
		case "settle":
			if err := sim.Settle(); err != nil {
				t.Fatalf("%s: %v", op, err)
			}
		case "cycle":
			if err := sim.Cycle(f[1]); err != nil {
				t.Fatalf("%s: %v", op, err)
			}
		case "exp", "expv":
			v, def, err := sim.Get(f[1])
			if err != nil {
				t.Fatalf("%s: %v", op, err)
			}
			want := parseU(t, f[2])
			if v != want || (f[0] == "exp" && !def) {
				t.Errorf("%s: got %#x (defined=%v), want %#x", op, v, def, want)
			}
		case "expu":
			v, def, err := sim.Get(f[1])
			if err != nil {
				t.Fatalf("%s: %v", op, err)
			}
			if def {
				t.Errorf("%s: got defined value %#x, want undefined", op, v)
			}
		case "expbig":
			v, def, err := sim.GetBig(f[1])
			if err != nil {
				t.Fatalf("%s: %v", op, err)
			}
			want, _ := new(big.Int).SetString(f[2], 16)
			if v.Cmp(want) != 0 || !def {
				t.Errorf("%s: got %x (defined=%v), want %x", op, v, def, want)
			}
		case "mem":
			i, _ := strconv.Atoi(f[2])
			v, def, err := sim.GetMem(f[1], i)
			if err != nil {
				t.Fatalf("%s: %v", op, err)
			}
			if want := parseU(t, f[3]); v != want || !def {
				t.Errorf("%s: got %#x (defined=%v), want %#x", op, v, def, want)
			}
		case "memu":
			i, _ := strconv.Atoi(f[2])
			v, def, err := sim.GetMem(f[1], i)
			if err != nil {
				t.Fatalf("%s: %v", op, err)
			}
			if def {
				t.Errorf("%s: got defined %#x, want undefined", op, v)
			}
		case "setmem":
			i, _ := strconv.Atoi(f[2])
			if err := sim.SetMem(f[1], i, parseU(t, f[3])); err != nil {
				t.Fatalf("%s: %v", op, err)
			}
		case "written":
			if !sim.Written(f[1]) {
				t.Errorf("%s: not written", op)
			}
		case "notwritten":
			if sim.Written(f[1]) {
				t.Errorf("%s: written", op)
			}
		default:
			t.Fatalf("unknown script command %q", op)
		}
	}
}

const clkHdr = "module t(input clk, input rst);\n"

var conformance = []ccase{
	// ---------------------------------------------------------------- A. extension / truncation in assignments (5.4.1, 5.5.2-5.5.4)
	comb("asg_zero_extend", "wire [7:0] y = 4'hF;", "y=0x0F"),
	comb("asg_truncate", "wire [3:0] y = 8'hAB;", "y=0xB"),
	comb("asg_signed_rhs_sign_extends", "reg signed [3:0] a = -1; wire [7:0] y = a;", "y=0xFF"),
	comb("asg_unsigned_rhs_to_signed_lhs_zero_extends", "reg [3:0] a = 4'hF; wire signed [7:0] y = a;", "y=0x0F"),
	comb("asg_minus_one", "wire [7:0] y = -1;", "y=0xFF"),
	comb("asg_signed_literal", "wire [7:0] y = 4'sb1000;", "y=0xF8"),
	comb("asg_unsigned_literal", "wire [7:0] y = 4'b1000;", "y=0x08"),
	comb("add_context_width_keeps_carry", "reg [3:0] a = 4'hF, b = 4'h1; wire [4:0] y = a + b;", "y=0x10"),
	comb("add_truncates_at_lhs", "reg [3:0] a = 4'hF, b = 4'h1; wire [3:0] y = a + b;", "y=0"),
	comb("concat_is_self_determined", "reg [3:0] a = 4'hF, b = 4'h1; wire [4:0] y = {a + b};", "y=0"),
	comb("shift_of_sum_uses_context", "reg [3:0] a = 4'hF, b = 4'h1; wire [7:0] y = (a + b) >> 1;", "y=8"),
	comb("shift_of_sum_narrow_context", "reg [3:0] a = 4'hF, b = 4'h1; wire [3:0] y = (a + b) >> 1;", "y=0"),
	comb("not_extends_before_invert", "wire [7:0] y = ~4'b0101;", "y=0xFA"),
	comb("not_in_concat_self_determined", "wire [7:0] y = {~4'b0101};", "y=0x0A"),
	comb("neg_unsigned_wraps_at_context", "wire [7:0] y = -4'd1;", "y=0xFF"),
	comb("neg_in_concat_wraps_at_own_width", "wire [7:0] y = {-4'd1};", "y=0x0F"),
	comb("unsized_based_literal_is_32_bits", "wire [39:0] y = ~'h0;", "y=0xFFFFFFFFFF"),
	comb("unsized_literal_in_concat_is_32_bits", "wire [39:0] y = {~'h0};", "y=0xFFFFFFFF"),
	comb("tick_b0_fills_target", "wire [7:0] y = 'b0;", "y=0"),
	comb("sized_literal_truncates_digits", "wire [7:0] y = 4'hAB;", "y=0x0B"),

	// ---------------------------------------------------------------- B. signed vs unsigned comparison (5.5.1)
	comb("cmp_unsigned_reg_lt_zero", "reg [3:0] a = 4'hF; wire y = a < 0;", "y=0"),
	comb("cmp_signed_reg_lt_zero", "reg signed [3:0] a = -1; wire y = a < 0;", "y=1"),
	comb("cmp_dollar_signed_lt_zero", "reg [3:0] a = 4'hF; wire y = $signed(a) < 0;", "y=1"),
	comb("cmp_literals_signed", "wire y = -1 < 0;", "y=1"),
	comb("cmp_mixed_literal_unsigned", "wire y = -1 < 1'b1;", "y=0"),
	comb("cmp_mixed_regs_unsigned", "reg signed [3:0] a = -1; reg [3:0] b = 1; wire y = a < b;", "y=0"),
	comb("cmp_signed_different_widths", "reg signed [3:0] a = -1; reg signed [7:0] b = 1; wire y = a < b;", "y=1"),
	comb("eq_signed_vs_unsigned_same_width", "reg signed [3:0] a = -1; wire y = a == 4'hF;", "y=1"),
	comb("eq_signed_vs_wider_unsigned_zero_extends", "reg signed [3:0] a = -1; wire y = a == 8'hFF;", "y=0"),
	comb("eq_signed_vs_minus_one", "reg signed [3:0] a = -1; wire y = a == -1;", "y=1"),
	comb("eq_unsigned_vs_minus_one", "reg [3:0] a = 4'hF; wire y = a == -1;", "y=0"),
	comb("eq_dollar_signed_exponent", "reg [9:0] a_e = 10'h381; wire y = $signed(a_e) == -127;", "y=1"),
	comb("eq_unsigned_exponent_not_minus", "reg [9:0] a_e = 10'h381; wire y = a_e == -127;", "y=0"),
	comb("cmp_dollar_unsigned", "wire y = $unsigned(-1) > 0;", "y=1"),
	comb("cmp_signed_ge", "reg signed [7:0] a = -2; wire y = a >= -2; wire z = a > -2;", "y=1 z=0"),
	comb("cmp_result_is_one_bit_unsigned", "reg [3:0] a = 1; wire [7:0] y = (a == 1) + 8'd1; wire [7:0] z = -(a == 1);", "y=2 z=0xFF"),
	comb("fifo_kbd_minus_one_never_matches", "reg [0:0] readsp = 1; wire y = readsp == -1;", "y=0"),

	// ---------------------------------------------------------------- C. mixed signed / unsigned arithmetic
	comb("mul_mixed_is_unsigned", "reg signed [7:0] a = -4; reg [7:0] b = 2; wire [15:0] y = a * b;", "y=0x01F8"),
	comb("mul_signed", "reg signed [7:0] a = -4, b = 2; wire signed [15:0] y = a * b;", "y=0xFFF8"),
	comb("div_signed_truncates_to_zero", "reg signed [7:0] a = -7, b = 2; wire [15:0] y = a / b;", "y=0xFFFD"),
	comb("mod_signed_takes_sign_of_first", "reg signed [7:0] a = -7, b = 2; wire [15:0] y = a % b;", "y=0xFFFF"),
	comb("mod_signed_positive_first", "reg signed [7:0] a = 7, b = -2; wire [15:0] y = a % b;", "y=1"),
	comb("div_unsigned", "reg [7:0] a = 249, b = 2; wire [15:0] y = a / b;", "y=124"),
	comb("sub_wraps_8", "reg [7:0] a = 1, b = 2; wire [7:0] y = a - b;", "y=0xFF"),
	comb("sub_wraps_at_context_9", "reg [7:0] a = 1, b = 2; wire [8:0] y = a - b;", "y=0x1FF"),
	comb("sub_unsigned_gt_zero", "reg [7:0] a = 1, b = 2; wire y = (a - b) > 0;", "y=1"),
	comb("sub_signed_gt_zero", "reg signed [7:0] a = 1, b = 2; wire y = (a - b) > 0;", "y=0"),
	comb("inc_sized_one_wraps", "reg [7:0] a = 8'hFF; wire [7:0] y = a + 1'b1; wire [8:0] z = a + 1'b1;", "y=0 z=0x100"),
	comb("integer_division_negative", "integer i; initial i = -5; wire [31:0] y = i / 2; wire lt = i < 0;", "y=0xFFFFFFFE lt=1"),
	comb("signed_plus_unsigned_literal", "reg signed [7:0] a = -1; wire [15:0] y = a + 8'd1; wire [15:0] z = a + 1;", "y=0x0100 z=0"),
	comb("dynops_mult_fixed_point_signed", "reg signed [15:0] a = -256, b = 512; wire signed [31:0] y = (a[15] || b[15]) ? ((a * b) >>> 8) : ((a * b) >> 8);", "y=0xFFFFFE00"),
	comb("dynops_add_signed_ports", "reg signed [15:0] a = -1, b = -1; wire signed [31:0] y = a + b;", "y=0xFFFFFFFE"),
	comb("unary_minus_signed_compare", "reg signed [7:0] a = 5; wire y = -a < 0;", "y=1"),
	comb("power_operator", "wire [7:0] y = 2 ** 3; wire [7:0] z = (-2) ** 3; integer i; initial i = 3; wire [15:0] p = 2 ** i;", "y=8 z=0xF8 p=8"),

	// ---------------------------------------------------------------- D. the generated FIFO / processor patterns
	comb("fifo_writesp_plus_one_is_32_bit", "reg [1:0] writesp = 3, readsp = 0; wire y = writesp + 1 > readsp;", "y=1"),
	comb("fifo_sized_one_wraps", "reg [1:0] writesp = 3, readsp = 0; wire y = (writesp + 2'd1) > readsp;", "y=0"),
	comb("fifo_lt_readsp_plus_one", "reg [1:0] writesp = 0, readsp = 3; wire y = writesp < readsp + 1;", "y=1"),
	{"pc_plus_sized_one", clkHdr + "reg [3:0] _pc; always @(posedge clk) if (rst) _pc <= 4'hE; else _pc <= #1 _pc + 1'b1; endmodule",
		"set rst 1;cycle clk;exp _pc 0xE;set rst 0;cycle clk;exp _pc 0xF;cycle clk;exp _pc 0;cycle clk;exp _pc 1"},
	{"fifo_sp_expression", clkHdr + "reg [1:0] sp, readsp, writesp; always @(posedge clk) if (rst) begin sp<=0; readsp<=1; writesp<=0; end else sp <= 2 - readsp - 1 + writesp; endmodule",
		"set rst 1;cycle clk;set rst 0;cycle clk;exp sp 0;set readsp 0;set writesp 1;cycle clk;exp sp 2"},
	{"adc_carry_concat", clkHdr + "reg carry; reg [7:0] r0, r1; always @(posedge clk) if (rst) begin r0 <= 8'hF0; r1 <= 8'h20; carry <= 0; end else {carry, r0} <= #1 {1'b0, r1} + {1'b0, r0}; endmodule",
		"set rst 1;cycle clk;set rst 0;cycle clk;exp carry 1;exp r0 0x10;cycle clk;exp carry 0;exp r0 0x30"},

	// ---------------------------------------------------------------- E. shifts (5.1.12)
	comb("shr_logical", "wire [7:0] y = 8'h81 >> 4;", "y=0x08"),
	comb("shl_beyond_width", "wire [7:0] y = 8'h81 << 9; reg [7:0] a = 8'hFF; wire [7:0] z = a >> 8; wire [7:0] w = a >> 100;", "y=0 z=0 w=0"),
	comb("ashr_on_unsigned_is_logical", "reg [7:0] a = 8'h80; wire [7:0] y = a >>> 3;", "y=0x10"),
	comb("ashr_on_signed_reg", "reg signed [7:0] a = 8'h80; wire [7:0] y = a >>> 3;", "y=0xF0"),
	comb("ashr_dollar_signed", "reg [7:0] a = 8'h80; wire [7:0] y = $signed(a) >>> 3;", "y=0xF0"),
	comb("ashr_signed_wider_context", "reg signed [7:0] a = 8'h80; wire [15:0] y = a >>> 3;", "y=0xFFF0"),
	comb("ashr_mixed_context_is_logical", "reg signed [7:0] a = 8'h80; wire [7:0] y = (a >>> 3) + 1'b0;", "y=0x10"),
	comb("ashl_same_as_shl", "reg signed [7:0] a = 8'h81; wire [7:0] y = a <<< 2;", "y=0x04"),
	comb("shift_amount_is_unsigned", "reg signed [3:0] n = -1; wire [7:0] y = 8'h01 << n;", "y=0"),
	comb("shift_literal_context", "wire [7:0] y = 1 << 4; wire [39:0] z = 1 << 35; wire [39:0] w = {1 << 35};", "y=16 z=0x800000000 w=0"),
	comb("ashr_full_width_signed", "reg signed [7:0] a = 8'h80; wire [7:0] y = a >>> 8; wire [7:0] z = a >>> 200;", "y=0xFF z=0xFF"),
	comb("shift_by_undefined_amount", "reg [2:0] n; wire [7:0] y = 8'h01 << n;", "y=u"),
	comb("cir_opcode_shift", "reg [7:0] _r0 = 8'h81; wire [7:0] y = _r0>>> 1'b1;", "y=0x40"),

	// ---------------------------------------------------------------- F. concatenation / replication
	comb("concat_basic", "wire [7:0] y = {4'hA, 4'h5};", "y=0xA5"),
	comb("replication", "wire [7:0] y = {2{4'hA}}; wire [2:0] z = {3{1'b1}};", "y=0xAA z=7"),
	comb("concat_nested_repl", "reg [1:0] a = 2'b10; reg b = 1; wire [5:0] y = {a, {2{b}}, 2'b01};", "y=0x2D"),
	comb("concat_compare", "reg [3:0] a = 4'hA, b = 4'h5; wire y = {a, b} == 8'hA5;", "y=1"),
	comb("concat_of_signed_is_unsigned", "reg signed [3:0] a = -1; wire [7:0] y = {a}; wire lt = {a} < 0;", "y=0x0F lt=0"),
	comb("replication_of_concat", "reg [1:0] a = 2'b01; wire [7:0] y = {2{a, 2'b11}};", "y=0x77"),
	comb("channel_ready_mask", "reg [1:0] w = 2'b01, r = 2'b10; wire [1:0] y = (w | r) & {2{|w}} & {2{|r}};", "y=3"),

	// ---------------------------------------------------------------- G. bit / part / indexed selects
	comb("part_select_read", "reg [7:0] a = 8'hA5; wire [3:0] y = a[7:4]; wire z = a[2]; wire w = a[1];", "y=0xA z=1 w=0"),
	comb("bit_select_dynamic", "reg [7:0] a = 8'hA5; reg [2:0] i = 5; wire y = a[i];", "y=1"),
	comb("indexed_part_select_up", "reg [15:0] a = 16'hBEEF; reg [3:0] i = 4; wire [7:0] y = a[i +: 8];", "y=0xEE"),
	comb("indexed_part_select_down", "reg [15:0] a = 16'hBEEF; reg [3:0] i = 11; wire [7:0] y = a[i -: 8];", "y=0xEE"),
	comb("ascending_range", "reg [0:7] a = 8'hA5; wire y = a[0]; wire z = a[7]; wire [3:0] p = a[0:3]; wire [3:0] q = a[2 +: 4];", "y=1 z=1 p=0xA q=0x9"),
	comb("bit_select_out_of_range_is_undefined", "reg [3:0] a = 4'hF; reg [3:0] i = 9; wire y = a[i];", "y=u"),
	comb("part_select_is_unsigned", "reg signed [7:0] a = -1; wire [7:0] y = a[3:0]; wire lt = a[7:0] < 0;", "y=0x0F lt=0"),
	comb("negative_index_range", "reg [-1:0] a = 2'b10; wire y = a[-1]; wire z = a[0];", "y=1 z=0"),
	comb("offset_range", "reg [11:4] a = 8'hA5; wire [3:0] y = a[11:8]; wire z = a[4];", "y=0xA z=1"),
	comb("select_of_parameter", "localparam [7:0] P = 8'hA5; wire [3:0] y = P[7:4]; wire z = P[0];", "y=0xA z=1"),
	comb("instruction_field_compare", "localparam ADD = 7'b0000001; reg [16:0] ci = 17'b00000010000000000; wire y = ci[16:10] == ADD;", "y=1"),
	{"part_select_write", clkHdr + "reg [7:0] q; always @(posedge clk) if (rst) q <= 8'h00; else q[7:4] <= 4'hA; endmodule",
		"set rst 1;cycle clk;set rst 0;cycle clk;exp q 0xA0"},
	{"indexed_part_select_write", clkHdr + "reg [7:0] q; reg [2:0] i; always @(posedge clk) if (rst) begin q <= 0; i <= 3; end else q[i +: 2] <= 2'b11; endmodule",
		"set rst 1;cycle clk;set rst 0;cycle clk;exp q 0x18"},
	{"bit_write_dynamic", clkHdr + "reg [7:0] q; reg [2:0] i; always @(posedge clk) if (rst) begin q <= 0; i <= 6; end else q[i] <= 1'b1; endmodule",
		"set rst 1;cycle clk;set rst 0;cycle clk;exp q 0x40"},
	{"bit_write_out_of_range_dropped", clkHdr + "reg [3:0] q; reg [3:0] i; always @(posedge clk) if (rst) begin q <= 4'h5; i <= 9; end else q[i] <= 1'b1; endmodule",
		"set rst 1;cycle clk;set rst 0;cycle clk;exp q 0x5"},
	{"part_write_partially_out_of_range", clkHdr + "reg [3:0] q; reg [3:0] i; always @(posedge clk) if (rst) begin q <= 4'h0; i <= 3; end else q[i +: 2] <= 2'b11; endmodule",
		"set rst 1;cycle clk;set rst 0;cycle clk;exp q 0x8"},
	{"ascending_range_write", clkHdr + "reg [0:7] q; always @(posedge clk) if (rst) q <= 0; else begin q[0] <= 1'b1; q[6:7] <= 2'b01; end endmodule",
		"set rst 1;cycle clk;set rst 0;cycle clk;exp q 0x81"},

	// ---------------------------------------------------------------- H. memories
	{"mem_write_read", clkHdr + "reg [7:0] m [0:3]; reg [7:0] q; reg [1:0] a; always @(posedge clk) if (rst) a <= 2; else begin m[a] <= 8'h5A; q <= m[a]; end endmodule",
		"set rst 1;cycle clk;set rst 0;cycle clk;mem m 2 0x5A;expu q;cycle clk;exp q 0x5A;memu m 0"},
	comb("mem_read_out_of_range_undefined", "reg [7:0] m [0:3]; reg [2:0] a = 5; initial m[0] = 1; wire [7:0] y = m[a]; wire [7:0] z = m[0];", "y=u z=1"),
	{"mem_write_out_of_range_dropped", clkHdr + "reg [7:0] m [0:3]; reg [2:0] a; always @(posedge clk) if (rst) begin a <= 4; m[0] <= 0; m[1] <= 0; m[2] <= 0; m[3] <= 0; end else m[a] <= 8'hFF; endmodule",
		"set rst 1;cycle clk;set rst 0;cycle clk;mem m 0 0;mem m 1 0;mem m 2 0;mem m 3 0"},
	comb("mem_word_part_select", "reg [7:0] m [0:3]; initial m[1] = 8'hA5; reg [1:0] a = 1; wire [3:0] y = m[a][7:4]; wire z = m[a][0];", "y=0xA z=1"),
	{"mem_word_part_write", clkHdr + "reg [7:0] m [0:3]; reg [1:0] a; always @(posedge clk) if (rst) begin a <= 1; m[1] <= 8'h00; end else m[a][3:0] <= 4'hC; endmodule",
		"set rst 1;cycle clk;set rst 0;cycle clk;mem m 1 0x0C"},
	comb("mem_descending_range", "reg [7:0] m [3:0]; initial begin m[3] = 8'h33; m[0] = 8'h10; end wire [7:0] y = m[3]; wire [7:0] z = m[0];", "y=0x33 z=0x10"),
	{"mem_reset_loop", clkHdr + "reg [7:0] m [1:0]; integer i; always @(posedge clk) if (rst) for (i=0;i<2;i=i+1) begin m[i]<=8'd0; end endmodule",
		"memu m 0;set rst 1;cycle clk;mem m 0 0;mem m 1 0"},
	{"mem_api", "module t; reg [7:0] m [0:3]; reg [1:0] a = 2; wire [7:0] y = m[a]; endmodule",
		"settle;expu y;setmem m 2 0x77;settle;exp y 0x77;mem m 2 0x77"},
	comb("mem_undefined_address", "reg [7:0] m [0:3]; initial m[0] = 1; reg [1:0] a; wire [7:0] y = m[a];", "y=u"),
	comb("rom_pattern", "reg [16:0] _rom [0:15]; initial begin _rom[0] = 17'b01110000000000000; _rom[1] = 17'b01000000000000000; end reg [3:0] bus = 1; wire [16:0] v = _rom[bus]; wire [6:0] op = v[16:10];", "v=0x8000 op=0x20"),
	comb("mem_negative_index_range", "reg [3:0] m [0:-1]; initial begin m[-1] = 4'h7; m[0] = 4'h2; end wire [3:0] y = m[-1]; wire [3:0] z = m[0];", "y=7 z=2"),
	comb("wire_array_continuous_assign", "wire [7:0] w [0:1]; reg [7:0] a = 8'h12, b = 8'h34; assign w[0] = a; assign w[1] = b; reg i = 1; wire [7:0] y = w[i];", "y=0x34"),

	// ---------------------------------------------------------------- I. non-blocking / blocking semantics (9.2)
	{"nba_swap", clkHdr + "reg [3:0] a, b; always @(posedge clk) if (rst) begin a <= 1; b <= 2; end else begin a <= b; b <= a; end endmodule",
		"set rst 1;cycle clk;set rst 0;cycle clk;exp a 2;exp b 1;cycle clk;exp a 1;exp b 2"},
	{"nba_last_wins", clkHdr + "reg [3:0] a; always @(posedge clk) begin a <= 1; a <= 2; if (rst) a <= 3; end endmodule",
		"cycle clk;exp a 2;set rst 1;cycle clk;exp a 3"},
	{"blocking_then_nonblocking", clkHdr + "reg [3:0] a, b; always @(posedge clk) begin a = 4'd5; b <= a + 1; end endmodule",
		"cycle clk;exp a 5;exp b 6"},
	{"blocking_not_visible_to_other_process", clkHdr + "reg [3:0] a, b; initial a = 0; always @(posedge clk) a = a + 1; always @(posedge clk) b <= a; endmodule",
		"cycle clk;exp a 1;exp b 0;cycle clk;exp a 2;exp b 1"},
	{"nba_partial_merge", clkHdr + "reg [7:0] z; always @(posedge clk) begin z[7:4] <= 4'hA; z[3:0] <= 4'h5; end endmodule",
		"cycle clk;exp z 0xA5"},
	{"nba_whole_then_partial", clkHdr + "reg [7:0] z; always @(posedge clk) begin z <= 8'h00; z[3] <= 1'b1; end endmodule",
		"cycle clk;exp z 0x08"},
	{"nba_partial_then_whole", clkHdr + "reg [7:0] z; always @(posedge clk) begin z[3] <= 1'b1; z <= 8'hF0; end endmodule",
		"cycle clk;exp z 0xF0"},
	{"nba_rhs_uses_old_values", clkHdr + "reg [3:0] a, b; always @(posedge clk) if (rst) begin a <= 0; b <= 0; end else begin a <= a + 1; b <= a; end endmodule",
		"set rst 1;cycle clk;set rst 0;cycle clk;exp a 1;exp b 0;cycle clk;exp a 2;exp b 1"},
	{"nba_index_evaluated_at_execution", clkHdr + "reg [7:0] q; reg [2:0] i; always @(posedge clk) if (rst) begin q <= 0; i <= 0; end else begin q[i] <= 1'b1; i <= i + 1; end endmodule",
		"set rst 1;cycle clk;set rst 0;cycle clk;exp q 1;cycle clk;exp q 3"},
	{"float_adder_pack_pattern", clkHdr + "reg [31:0] z; reg z_s; reg [9:0] z_e; reg [23:0] z_m; always @(posedge clk) if (rst) begin z_s <= 1; z_e <= 10'h382; z_m <= 24'h000000; end else begin z[22:0] <= z_m[22:0]; z[30:23] <= z_e[7:0] + 127; z[31] <= z_s; if ($signed(z_e) == -126 && z_m[23] == 0) z[30:23] <= 0; if ($signed(z_e) == -126 && z_m[23:0] == 24'h0) z[31] <= 1'b0; end endmodule",
		"set rst 1;cycle clk;set rst 0;cycle clk;exp z 0"},
	{"intra_assignment_delay_ignored", clkHdr + "reg [3:0] a; always @(posedge clk) a <= #1 4'd7; endmodule", "cycle clk;exp a 7"},
	{"blocking_sequence_in_edge_process", clkHdr + "reg [3:0] t1, t2, q; always @(posedge clk) begin t1 = 3; t2 = t1 + 1; t1 = t2 + 1; q <= t1 + t2; end endmodule",
		"cycle clk;exp t1 5;exp t2 4;exp q 9"},

	// ---------------------------------------------------------------- J. asynchronous reset / edges
	{"async_reset_fires_without_clock", "module t(input clk, input rst); reg [3:0] q; always @(posedge clk, posedge rst) if (rst) q <= 0; else q <= q + 1; endmodule",
		"settle;expu q;set rst 1;settle;exp q 0;set rst 0;settle;exp q 0;cycle clk;exp q 1;cycle clk;exp q 2;set rst 1;settle;exp q 0"},
	{"async_reset_or_syntax_negedge", "module t(input clk, input rst_n); reg [3:0] q; always @(posedge clk or negedge rst_n) if (!rst_n) q <= 0; else q <= q + 1; endmodule",
		"set rst_n 1;settle;expu q;set rst_n 0;settle;exp q 0;set rst_n 1;settle;exp q 0;cycle clk;exp q 1"},
	{"falling_clock_does_not_trigger_posedge", clkHdr + "reg [3:0] q; initial q = 0; always @(posedge clk) q <= q + 1; endmodule",
		"set clk 1;settle;exp q 1;settle;exp q 1;set clk 0;settle;exp q 1;set clk 1;settle;exp q 2"},
	{"negedge_process", clkHdr + "reg [3:0] q; initial q = 0; always @(negedge clk) q <= q + 1; endmodule",
		"set clk 1;settle;exp q 0;set clk 0;settle;exp q 1"},
	{"clock_high_before_first_settle_is_posedge", clkHdr + "reg q; initial q = 0; always @(posedge clk) q <= 1; endmodule",
		"set clk 1;settle;exp q 1"},
	{"reset_held_while_clocking", "module t(input clk, input rst); reg [3:0] q; always @(posedge clk, posedge rst) if (rst) q <= 0; else q <= q + 1; endmodule",
		"set rst 1;cycle clk;exp q 0;cycle clk;exp q 0;set rst 0;cycle clk;exp q 1"},

	// ---------------------------------------------------------------- K. case statements (9.5)
	{"case_basic_default", "module t(input [1:0] s); reg [3:0] y; always @* case (s) 2'd0: y = 4'd1; 2'd1: y = 4'd2; default: y = 4'd9; endcase endmodule",
		"set s 0;settle;exp y 1;set s 1;settle;exp y 2;set s 3;settle;exp y 9"},
	{"case_no_match_retains", clkHdr + "reg [1:0] s; reg [3:0] y; always @(posedge clk) if (rst) begin s <= 2; y <= 7; end else case (s) 2'd0: y <= 1; 2'd1: y <= 2; endcase endmodule",
		"set rst 1;cycle clk;set rst 0;cycle clk;exp y 7"},
	{"casez_wildcard", "module t(input [3:0] s); reg [1:0] y; always @* casez (s) 4'b1???: y = 3; 4'b01??: y = 2; 4'b001?: y = 1; default: y = 0; endcase endmodule",
		"set s 0xC;settle;exp y 3;set s 0x5;settle;exp y 2;set s 0x3;settle;exp y 1;set s 0;settle;exp y 0"},
	{"casex_wildcard", "module t(input [3:0] s); reg [1:0] y; always @* casex (s) 4'b1xxx: y = 3; 4'bx1zz: y = 2; default: y = 0; endcase endmodule",
		"set s 0x8;settle;exp y 3;set s 0x4;settle;exp y 2;set s 0x1;settle;exp y 0"},
	{"case_x_label_never_matches_in_case", "module t(input [1:0] s); reg [1:0] y; always @* case (s) 2'b0x: y = 1; default: y = 2; endcase endmodule",
		"set s 0;settle;exp y 2"},
	{"case_label_lists", "module t(input [2:0] s); reg y; always @* case (s) 3'd1, 3'd3, 3'd5: y = 1; default: y = 0; endcase endmodule",
		"set s 3;settle;exp y 1;set s 4;settle;exp y 0;set s 5;settle;exp y 1"},
	{"case_undefined_selector_takes_default", "module t; reg [1:0] s; reg [3:0] y; always @* case (s) 2'd0: y = 1; default: y = 9; endcase endmodule",
		"settle;exp y 9"},
	{"case_first_match_wins", "module t(input [1:0] s); reg [3:0] y; always @* case (s) 2'd1: y = 1; 2'd1: y = 2; default: y = 0; endcase endmodule",
		"set s 1;settle;exp y 1"},
	{"case_width_is_max_of_all", "module t(input [1:0] s); reg y; always @* case (s) 4'd2: y = 1; 4'd6: y = 0; default: y = 0; endcase endmodule",
		"set s 2;settle;exp y 1"},
	{"case_param_labels_nested", clkHdr + "localparam ADD=2'b01, R0=1'b0, R1=1'b1; reg [2:0] ci; reg [3:0] r0, r1; always @(posedge clk) if (rst) begin ci <= 3'b011; r0 <= 1; r1 <= 2; end else case (ci[2:1]) ADD: begin case (ci[0]) R0: r0 <= r0 + r1; R1: r1 <= r0 + r1; endcase end default: r0 <= 0; endcase endmodule",
		"set rst 1;cycle clk;set rst 0;cycle clk;exp r0 1;exp r1 3"},
	{"case_non_constant_labels", "module t(input [1:0] s, input [1:0] k); reg y; always @* case (s) k: y = 1; default: y = 0; endcase endmodule",
		"set s 2;set k 2;settle;exp y 1;set k 1;settle;exp y 0"},
	{"case_unsized_labels", "module t(input [1:0] e); reg [7:0] y; always @(e) case (e) 'd1: y = 8'h11; 'd2: y = 8'h22; endcase endmodule",
		"set e 2;settle;exp y 0x22;set e 1;settle;exp y 0x11;set e 3;settle;exp y 0x11"},

	// ---------------------------------------------------------------- L. loops, generate, parameters
	{"for_loop_popcount", "module t(input [7:0] a); reg [3:0] n; integer i; always @* begin n = 0; for (i = 0; i < 8; i = i + 1) if (a[i]) n = n + 1; end endmodule",
		"set a 0xA7;settle;exp n 5;set a 0;settle;exp n 0"},
	{"for_loop_nba_bits", clkHdr + "reg [3:0] f; reg [3:0] s; integer k; always @(posedge clk) if (rst) begin f <= 0; s <= 4'b0110; end else for (k = 0; k < 4; k = k + 1) if (s[k] == 1 & f[k] == 1'b0) f[k] <= 1'b1; endmodule",
		"set rst 1;cycle clk;set rst 0;cycle clk;exp f 6"},
	{"while_loop", "module t(input [7:0] a); reg [3:0] n; reg [7:0] x; always @* begin n = 0; x = a; while (x != 0) begin x = x >> 1; n = n + 1; end end endmodule",
		"set a 0x10;settle;exp n 5"},
	{"repeat_loop", "module t; reg [7:0] x; initial begin x = 1; repeat (3) x = x << 1; end endmodule", "settle;exp x 8"},
	{"generate_for_instances", "module inv(input a, output y); assign y = ~a; endmodule\nmodule t(input [3:0] a, output [3:0] y); genvar i; generate for (i = 0; i < 4; i = i + 1) begin : g inv u(.a(a[i]), .y(y[i])); end endgenerate endmodule",
		"set a 0x5;settle;exp y 0xA;exp g[2].u.y 0;exp g[1].u.a 0;exp g[3].u.y 1"},
	{"generate_for_always_bits", clkHdr + "reg [3:0] q; genvar i; generate for (i = 0; i < 4; i = i + 1) begin always @(posedge clk or posedge rst) begin if (rst) q[i] <= 1'b0; else q[i] <= ~q[i]; end end endgenerate endmodule",
		"set rst 1;settle;exp q 0;set rst 0;cycle clk;exp q 0xF"},
	{"generate_inline_genvar_plusplus", "module t(input [1:0] a, output [1:0] y); generate for (genvar j = 0; j < 2; j++) begin : blk assign y[j] = ~a[j]; end endgenerate endmodule",
		"set a 1;settle;exp y 2"},
	{"generate_if", "module sub #(parameter W = 4) (input [7:0] a, output [7:0] y); generate if (W > 4) begin : wide assign y = a + 1; end else begin : narrow assign y = a - 1; end endgenerate endmodule\nmodule t(input [7:0] a, output [7:0] y, output [7:0] z); sub #(8) u1(a, y); sub u2(a, z); endmodule",
		"set a 5;settle;exp y 6;exp z 4"},
	{"param_positional_override", "module sub #(parameter A = 1, B = 2) (output [7:0] y); assign y = A * 16 + B; endmodule\nmodule t(output [7:0] y, output [7:0] z); sub #(3, 4) u(y); sub v(z); endmodule",
		"settle;exp y 0x34;exp z 0x12"},
	{"param_named_override", "module sub(y); parameter A = 1; parameter B = 2; output [7:0] y; assign y = A * 16 + B; endmodule\nmodule t(output [7:0] y); sub #(.B(7)) u(.y(y)); endmodule",
		"settle;exp y 0x17"},
	{"localparam_from_param_and_range", "module sub #(parameter W = 4) (output [W-1:0] y, output [7:0] n); localparam M = (1 << W) - 1; assign y = M; assign n = W; endmodule\nmodule t(output [7:0] y, output [7:0] n); sub #(.W(6)) u(y, n); endmodule",
		"settle;exp y 0x3F;exp n 6;exp u.y 0x3F"},
	comb("param_sized_width_in_concat", "localparam P = 4'hF; wire [7:0] z = {P, 4'h0}; wire [7:0] y = P + 1;", "z=0xF0 y=0x10"),
	comb("param_with_range_converts", "localparam [3:0] P = 8'hAB; wire [7:0] y = {P, 4'h0};", "y=0xB0"),
	comb("param_unsized_is_signed_integer", "parameter N = -2; wire y = N < 0; wire [7:0] z = N;", "y=1 z=0xFE"),
	comb("clog2", "localparam D = 256; localparam AW = $clog2(D); wire [7:0] y = AW; wire [7:0] z = $clog2(5); wire [7:0] o = $clog2(1);", "y=8 z=3 o=0"),
	comb("param_depth_shift", "parameter RAM_CH_DEPTH = 1 << 8; reg [1:0] m [0:RAM_CH_DEPTH-1]; wire [15:0] y = RAM_CH_DEPTH;", "y=256"),

	// ---------------------------------------------------------------- M. functions (10.4)
	comb("function_basic", "function [7:0] add3; input [7:0] a; begin add3 = a + 3; end endfunction\nreg [7:0] x = 4; wire [7:0] y = add3(x); wire [7:0] z = add3(add3(x));", "y=7 z=10"),
	comb("function_integer_log2_in_range", "parameter one = 10416; function integer log2(input integer M); integer i; begin log2 = 1; for (i = 0; 2**i <= M; i = i + 1) log2 = i + 1; end endfunction\nreg [log2(one * 16)-1:0] rx_clk; reg [log2(one)-1:0] tx_clk; initial begin rx_clk = -1; tx_clk = -1; end wire [31:0] a = rx_clk; wire [31:0] b = tx_clk;", "a=0x3FFFF b=0x3FFF"),
	comb("function_case", "function [3:0] dec; input [1:0] s; case (s) 2'd0: dec = 4'b0001; 2'd1: dec = 4'b0010; 2'd2: dec = 4'b0100; default: dec = 4'b1000; endcase endfunction\nreg [1:0] s = 2; wire [3:0] y = dec(s);", "y=4"),
	{"function_in_continuous_assign_tracks_args", "module t(input [3:0] a); function [3:0] inc; input [3:0] v; inc = v + 1; endfunction\nwire [3:0] y = inc(a); endmodule",
		"set a 3;settle;exp y 4;set a 7;settle;exp y 8"},
	comb("function_signed_result", "function signed [7:0] neg; input signed [7:0] v; neg = -v; endfunction\nreg signed [7:0] a = 5; wire [15:0] y = neg(a); wire lt = neg(a) < 0;", "y=0xFFFB lt=1"),
	comb("function_arg_truncation", "function [7:0] id; input [3:0] v; id = v; endfunction\nwire [7:0] y = id(8'hAB);", "y=0x0B"),

	// ---------------------------------------------------------------- N. reductions and logical operators
	comb("reduction_and", "reg [3:0] a = 4'hF, b = 4'h7; wire y = &a; wire z = &b; wire n = ~&b;", "y=1 z=0 n=1"),
	comb("reduction_or", "reg [3:0] a = 0, b = 4; wire y = |a; wire z = |b; wire n = ~|a;", "y=0 z=1 n=1"),
	comb("reduction_xor", "reg [3:0] a = 4'b0111; wire y = ^a; wire z = ~^a; wire w = ^~a;", "y=1 z=0 w=0"),
	comb("reduction_precedence_over_equality", "reg [1:0] w = 2'b10; wire y = |w==0; wire z = |w==1;", "y=0 z=1"),
	comb("logical_ops_multibit", "reg [3:0] a = 4'h8, b = 0; wire y = a && b; wire z = a || b; wire n = !a; wire m = !b;", "y=0 z=1 n=0 m=1"),
	comb("logical_vs_bitwise", "reg [3:0] a = 4'h2, b = 4'h1; wire y = a & b; wire z = a && b;", "y=0 z=1"),
	comb("case_equality_two_state", "reg [3:0] a = 5; wire y = a === 4'd5; wire z = a !== 4'd5;", "y=1 z=0"),
	comb("xnor_binary", "reg [3:0] a = 4'b1100, b = 4'b1010; wire [3:0] y = a ~^ b; wire [3:0] z = a ^~ b;", "y=0x9 z=0x9"),
	comb("bitwise_mixed_width", "reg [3:0] a = 4'hF; reg [7:0] b = 8'hA0; wire [7:0] y = a | b; wire [7:0] z = ~a & b;", "y=0xAF z=0xA0"),
	comb("if_multibit_condition", "reg [3:0] c = 4'h8; reg y; initial begin if (c) y = 1; else y = 0; end", "y=1"),

	// ---------------------------------------------------------------- O. conditional operator
	comb("ternary_width_is_max", "reg c = 1; wire [7:0] y = c ? 4'hF : 8'h01; wire [7:0] z = {c ? 4'hF : 2'b01};", "y=0x0F z=0x0F"),
	comb("ternary_mixed_sign_is_unsigned", "wire [7:0] y = 1 ? 4'sb1111 : 4'b0000;", "y=0x0F"),
	comb("ternary_both_signed", "wire [7:0] y = 1 ? 4'sb1111 : 4'sb0000;", "y=0xFF"),
	comb("ternary_branch_context", "reg [3:0] a = 4'hF; reg c = 0; wire [4:0] y = c ? 5'd0 : a + 1'b1;", "y=0x10"),
	comb("ternary_undefined_condition", "reg c; wire [3:0] y = c ? 4'd1 : 4'd2; wire [3:0] z = c ? 4'd3 : 4'd3;", "y=u z=3"),
	comb("ternary_only_selected_branch_matters", "reg c = 1; reg [3:0] u; wire [3:0] y = c ? 4'd1 : u;", "y=1"),
	comb("ternary_nested_empty_flag", "reg [1:0] sp = 0; wire e = (sp==0)? 1'b1:1'b0; wire f = (sp==2)? 1'b1:1'b0;", "e=1 f=0"),

	// ---------------------------------------------------------------- P. concatenated lvalues
	{"concat_lvalue_nba", clkHdr + "reg [3:0] a, b; always @(posedge clk) {a, b} <= 8'hA5; endmodule", "cycle clk;exp a 0xA;exp b 5"},
	{"concat_lvalue_blocking", "module t; reg c; reg [3:0] s; initial {c, s} = 4'hF + 4'h1; endmodule", "settle;exp c 1;exp s 0"},
	{"concat_lvalue_continuous", "module t(input [7:0] x); wire [3:0] hi, lo; assign {hi, lo} = x; endmodule", "set x 0x3C;settle;exp hi 3;exp lo 0xC"},
	{"concat_lvalue_with_select", clkHdr + "reg [7:0] q; reg f; always @(posedge clk) if (rst) q <= 0; else {f, q[3:0]} <= 5'h1A; endmodule",
		"set rst 1;cycle clk;set rst 0;cycle clk;exp f 1;exp q 0x0A"},

	// ---------------------------------------------------------------- Q. hierarchy
	{"hier_output_drives_parent_wire", "module sub(input [3:0] a, output [3:0] y); assign y = a + 1; endmodule\nmodule t(input [3:0] a, output [3:0] y); wire [3:0] w; sub u(a, w); assign y = w; endmodule",
		"set a 4;settle;exp y 5;exp w 5;exp u.a 4;exp u.y 5"},
	{"hier_input_expression", "module sub(input [7:0] a, output [7:0] y); assign y = a; endmodule\nmodule t(input [3:0] p, input [3:0] q, output [7:0] y); sub u(.a({p, q} + 8'd1), .y(y)); endmodule",
		"set p 1;set q 0xF;settle;exp y 0x20"},
	{"hier_port_width_mismatch", "module sub(input [3:0] a, output [7:0] y); assign y = {4'hF, a}; endmodule\nmodule t(input [7:0] a, output [3:0] y); sub u(a, y); endmodule",
		"set a 0xAB;settle;exp u.a 0xB;exp u.y 0xFB;exp y 0xB"},
	{"hier_unconnected_input_undefined", "module sub(input a, output y); assign y = a; endmodule\nmodule t(output y, output z); sub u(.a(), .y(y)); sub v(.y(z)); endmodule",
		"settle;expu y;expu z"},
	{"hier_output_reg_registered", "module sub(input clk, input [3:0] d, output reg [3:0] q); always @(posedge clk) q <= d; endmodule\nmodule t(input clk, input [3:0] d, output [3:0] q); sub u(clk, d, q); endmodule",
		"set d 9;settle;expu q;cycle clk;exp q 9;exp u.q 9"},
	{"hier_three_levels", "module l2(input c, output reg [1:0] n); initial n = 0; always @(posedge c) n <= n + 1; endmodule\nmodule l1(input c, output [1:0] n); l2 i2(c, n); endmodule\nmodule t(input clk, output [1:0] n); l1 i1(clk, n); endmodule",
		"cycle clk;exp n 1;cycle clk;exp i1.i2.n 2;exp n 2"},
	{"hier_output_to_part_select", "module sub(output [3:0] y); assign y = 4'h9; endmodule\nmodule t(output [7:0] y); sub a(y[7:4]); sub b(y[3:0]); endmodule",
		"settle;exp y 0x99"},
	{"blackbox_leaves_outputs_undefined", "module t(output [3:0] y, output z); wire [3:0] w; missing u(w); assign y = w; assign z = 1'b1; endmodule", ""},

	// ---------------------------------------------------------------- R. combinational always
	{"comb_always_star", "module t(input [3:0] a, input [3:0] b); reg [4:0] s; always @* s = a + b; endmodule",
		"set a 9;set b 8;settle;exp s 17;set b 1;settle;exp s 10"},
	{"comb_always_paren_star", "module t(input [3:0] a); reg [3:0] y; always @(*) begin y = a; y = y + 1; end endmodule",
		"set a 3;settle;exp y 4"},
	{"comb_incomplete_sensitivity_treated_as_comb", "module t(input [3:0] a, input [3:0] b); reg [3:0] y; always @(a) y = a & b; endmodule",
		"set a 0xF;set b 3;settle;exp y 3;set b 5;settle;exp y 5"},
	{"comb_latch_retains", "module t(input en, input [3:0] d); reg [3:0] q; always @(en or d) if (en) q = d; endmodule",
		"set en 1;set d 5;settle;exp q 5;set en 0;set d 9;settle;exp q 5"},
	{"comb_always_nba", "module t(input [7:0] r, input [7:0] w); reg o; always @(r, w) begin if (r <= w) o <= 1'b0; else if (r > w) o <= 1'b1; end endmodule",
		"set r 1;set w 2;settle;exp o 0;set r 3;settle;exp o 1"},
	{"comb_chain_through_processes", "module t(input [3:0] a); reg [3:0] b; wire [3:0] c = b + 1; reg [3:0] d; always @* b = a + 1; always @* d = c + 1; endmodule",
		"set a 1;settle;exp d 4;set a 5;settle;exp d 8"},
	{"comb_loop_detected", "module t(input a); wire x; assign x = ~x | a; endmodule", ""},
	{"comb_memory_write_in_always_star", "module t(input [1:0] tag, input [7:0] d); reg [7:0] m [0:1]; integer i; always @(*) begin for (i = 0; i < 2; i = i + 1) begin m[i] <= 'b0; if (tag == i) m[i] <= d; end end endmodule",
		"set tag 1;set d 0x42;settle;mem m 1 0x42;mem m 0 0;set tag 0;settle;mem m 0 0x42;mem m 1 0"},

	// ---------------------------------------------------------------- S. derived clocks
	{"derived_clock_divider", clkHdr + "reg div; reg [3:0] n; initial begin div = 0; n = 0; end always @(posedge clk) div <= ~div; always @(posedge div) n <= n + 1; endmodule",
		"cycle clk;exp div 1;exp n 1;cycle clk;exp div 0;exp n 1;cycle clk;exp n 2"},
	{"gated_clock_wire", "module t(input clk, input en); wire g = clk & en; reg [3:0] n; initial n = 0; always @(posedge g) n <= n + 1; endmodule",
		"set en 0;cycle clk;exp n 0;set en 1;cycle clk;exp n 1"},

	// ---------------------------------------------------------------- T. undefined tracking
	{"undef_reg_never_written", clkHdr + "reg [3:0] q, r; always @(posedge clk) q <= 4'd1; endmodule",
		"settle;expu q;expu r;cycle clk;exp q 1;expu r"},
	comb("undef_propagates_through_net", "reg [3:0] r; wire [3:0] w = r + 1; wire [3:0] k = 4'd3;", "w=u k=3"),
	comb("undef_x_literal", "wire [3:0] y = 4'b1x0z; wire [3:0] z = 4'bxxxx; wire [3:0] k = 4'hz;", "y=u z=u k=u"),
	{"undef_x_literal_value_is_zero", "module t; wire [3:0] y = 4'b1x01; endmodule", "settle;expv y 9;expu y"},
	comb("undef_division_by_zero", "reg [3:0] a = 8, b = 0; wire [3:0] y = a / b; wire [3:0] z = a % b; wire [3:0] k = a / 4'd2;", "y=u z=u k=4"),
	comb("undef_logical_short_circuit", "reg u; reg z0 = 0; reg o1 = 1; wire a = z0 && u; wire b = o1 || u; wire c = o1 && u; wire d = z0 || u;", "a=0 b=1 c=u d=u"),
	{"undef_if_takes_else", "module t; reg c; reg [3:0] y; initial begin if (c) y = 1; else y = 2; end endmodule", "settle;exp y 2"},
	{"undef_assign_propagates_to_reg", clkHdr + "reg [3:0] a, b; always @(posedge clk) begin b <= a; end endmodule", "cycle clk;expu b;set a 3;cycle clk;exp b 3"},
	{"undef_unconnected_top_input", "module t(input [3:0] a, output [3:0] y); assign y = a; endmodule", "settle;expu y;set a 2;settle;exp y 2"},
	{"undef_partial_continuous_drivers", "module t(input p, input q); wire [1:0] w; assign w[0] = p; assign w[1] = q; wire [2:0] v; assign v[0] = p; endmodule",
		"set p 1;settle;expu w;set q 0;settle;exp w 1;expu v"},
	comb("undef_initial_counts_as_write", "reg [3:0] a; initial a = 4'd6; reg [3:0] b = 4'd2;", "a=6 b=2"),

	// ---------------------------------------------------------------- U. Written()
	{"written_semantics", clkHdr + "reg [3:0] a, b, c; always @(posedge clk) begin a <= 4'd1; if (rst) b <= 4'd2; c = 4'd3; end endmodule",
		"cycle clk;exp a 1;written a;written c;notwritten b;settle;notwritten a;set clk 1;settle;written a;written c;notwritten b;set clk 0;settle;notwritten a;set rst 1;set clk 1;settle;written b;written a"},
	{"written_equal_value_counts", clkHdr + "reg [3:0] a; initial a = 1; always @(posedge clk) a <= 4'd1; endmodule",
		"notwritten a;set clk 1;settle;written a;exp a 1"},
	{"written_memory", clkHdr + "reg [3:0] m [0:1]; reg [3:0] o; always @(posedge clk) if (rst) m[0] <= 1; else o <= m[0]; endmodule",
		"set rst 1;set clk 1;settle;written m;notwritten o;set clk 0;settle;set rst 0;set clk 1;settle;notwritten m;written o"},

	// ---------------------------------------------------------------- V. miscellaneous
	comb("string_literal_value", "wire [15:0] y = \"AB\";", "y=0x4142"),
	comb("dollar_signed_width_is_operand_width", "reg [3:0] a = 4'hF; wire [7:0] y = $signed(a); wire [7:0] z = $unsigned($signed(a));", "y=0xFF z=0x0F"),
	comb("dollar_signed_in_unsigned_context", "reg [3:0] a = 4'hF; wire [7:0] y = $signed(a) + 8'd0;", "y=0x0F"),
	comb("integer_is_32_bit_signed", "integer i; initial i = -1; wire [39:0] y = i; wire lt = i < 1;", "y=0xFFFFFFFFFF lt=1"),
	comb("wide_add_100_bits", "reg [99:0] a = 100'hFFFFFFFFFFFFFFFFFFFFFFFFF; wire [99:0] y = a + 1; wire [100:0] z = a + 1; wire c = z[100];", "c=1"),
	{"wide_values_api", "module t; reg [99:0] a = 100'hFFFFFFFFFFFFFFFFFFFFFFFFF; wire [99:0] y = a + 1; wire [100:0] z = a + 1; wire [127:0] s = {a[99:36], a[63:0]} ^ 128'h1; endmodule",
		"settle;expbig y 0;expbig z 10000000000000000000000000;expbig s fffffffffffffffffffffffffffffffe"},
	{"wide_register_shift", clkHdr + "reg [71:0] q; always @(posedge clk) if (rst) q <= 72'h1; else q <= q << 35; endmodule",
		"set rst 1;cycle clk;set rst 0;cycle clk;expbig q 800000000;cycle clk;expbig q 400000000000000000;cycle clk;expbig q 0"},
	comb("wide_compare_and_reduce", "reg [79:0] a = 80'h80000000000000000000; reg [79:0] b = 1; wire gt = a > b; wire r = |a; wire x = ^a; wire s = $signed(a) < 0;", "gt=1 r=1 x=1 s=1"),
	comb("width_45_thread_stack", "reg [44:0] d = 45'h1FFFFFFFFFFF; wire [44:0] y = d + 1; wire [44:0] z = ~45'd0;", "y=0 z=0x1FFFFFFFFFFF"),
	comb("sixty_four_bit_ops", "reg [63:0] a = 64'hFFFFFFFFFFFFFFFF; wire [63:0] y = a + 1; wire [63:0] z = a >> 63; wire lt = $signed(a) < 0;", "y=0 z=1 lt=1"),
	comb("decimal_sized_literals", "wire [7:0] y = 8'd255; wire [3:0] z = 4'd10; wire [16:0] w = 17'b0_1110_0000_0000_0000;", "y=255 z=10 w=0xE000"),
	comb("octal_and_underscores", "wire [8:0] y = 9'o777; wire [11:0] z = 12'hA_BC;", "y=0x1FF z=0xABC"),
	comb("unary_plus_and_double_negation", "reg [3:0] a = 3; wire [3:0] y = +a; wire [3:0] z = - -a; wire [3:0] w = ~~a;", "y=3 z=3 w=3"),
	comb("operator_precedence", "wire [7:0] y = 2 + 3 * 4; wire [7:0] z = 1 << 2 + 1; wire w = 3 == 3 & 1; wire [7:0] v = 8'hF0 | 8'h0F & 8'h3C; wire [7:0] t2 = 16 / 4 / 2; wire [7:0] s = 10 - 3 - 2;", "y=14 z=8 w=1 v=0xFC t2=2 s=5"),
	comb("relational_in_condition_lte", "integer idx; reg [1:0] cnt = 2; reg y; initial begin idx = 1; if (idx <= cnt & 1'b1) y = 1; else y = 0; end", "y=1"),
	{"initial_stops_at_delay", "module t; reg [3:0] a, b; initial begin a = 1; #10; b = 2; end endmodule", "settle;exp a 1;expu b"},
	{"testbench_constructs_are_tolerated", "module t; reg clk, reset; always #1 clk = ~clk; initial begin $dumpfile(\"x.vcd\"); $dumpvars; end initial begin clk = 1'b0; reset = 1'b1; #100; reset = 1'b0; #100000; $finish; end endmodule",
		"settle;exp clk 0;exp reset 1"},
	{"display_is_ignored", clkHdr + "reg [3:0] a; always @(posedge clk) begin $display(\"a=%d\", a); a <= 4'd4; $display(\"done\"); end endmodule", "cycle clk;exp a 4"},
	{"named_block_local_variable", clkHdr + "reg [7:0] m [0:3]; always @(posedge clk) begin : MEM_INIT integer k; if (rst) for (k = 0; k < 4; k = k + 1) m[k] <= #1 k; end endmodule",
		"set rst 1;cycle clk;mem m 3 3;mem m 0 0;expv MEM_INIT.k 4"},
	{"attributes_are_skipped", "module t; (* KEEP = \"TRUE\" *) reg [3:0] _pc; (* foo *) initial _pc = 4'd3; endmodule", "settle;exp _pc 3"},
	{"non_ansi_ports_with_reg_redeclaration", "module t(clk, q, d); input clk; input [3:0] d; output [3:0] q; reg [3:0] q; wire [3:0] d; always @(posedge clk) q <= d; endmodule",
		"set d 6;cycle clk;exp q 6"},
	{"set_forces_internal_signal", clkHdr + "reg [3:0] q; wire [3:0] w = q + 1; always @(posedge clk) q <= q; endmodule", "set q 4;settle;exp w 5;cycle clk;exp q 4"},
	{"uart_blocking_countdown", clkHdr + "reg [3:0] c; reg [1:0] st; initial begin c = 3; st = 0; end always @(posedge clk) begin if (c) c = c - 1'd1; case (st) 0: if (!c) st = 1; 1: st = 2; endcase end endmodule",
		"cycle clk;exp c 2;exp st 0;cycle clk;cycle clk;exp c 0;exp st 1;cycle clk;exp st 2"},
	{"decl_initialiser_with_param", "module t; localparam [2:0] RX_IDLE = 3'd5; reg [2:0] st = RX_IDLE; reg o = 1'b1; endmodule", "settle;exp st 5;exp o 1"},
	{"net_declaration_assignment_tracks", "module t(input [3:0] a); wire [3:0] y = a ^ 4'hF; endmodule", "set a 5;settle;exp y 0xA;set a 0;settle;exp y 0xF"},
	{"multiple_assigns_one_statement", "module t(input a); wire x, y; assign x = a, y = ~a; endmodule", "set a 1;settle;exp x 1;exp y 0"},
	{"implicit_net_from_port_connection", "module sub(input a, output y); assign y = ~a; endmodule\nmodule t(input a, output z); sub u(a, imp); assign z = imp; endmodule", "set a 0;settle;exp z 1;exp imp 1"},
	{"lfsr_pattern", clkHdr + "reg [7:0] l; wire fb; initial l = 8'd1; assign fb=(l[7]^(l[5]^(l[4] ^ l[3]))); always @ (posedge clk) begin if (rst) l <= 8'd1; else l <= {l[6:0],fb}; end endmodule",
		"cycle clk;exp l 2;cycle clk;cycle clk;exp l 8;cycle clk;exp l 0x11"},

	// ---------------------------------------------------------------- W. additional operator / typing traps
	comb("mul_truncation", "reg [7:0] a = 8'hFF, b = 8'hFF; wire [7:0] y = a * b; wire [15:0] z = a * b;", "y=0x01 z=0xFE01"),
	comb("div_mod_both_negative", "reg signed [7:0] a = -8, b = -3; wire [7:0] q = a / b; wire [7:0] r = a % b;", "q=2 r=0xFE"),
	comb("precedence_add_over_shift", "wire [7:0] y = 8'd6 + 8'd2 >> 1;", "y=4"),
	comb("precedence_not_over_equality", "reg a = 0, b = 1; wire y = !a == b;", "y=1"),
	comb("precedence_equality_over_bitand", "wire [3:0] z = 4'b1100 & 4'b1010 == 4'b1010;", "z=0"),
	comb("precedence_unary_over_power", "wire [7:0] w = -8'sd3 ** 2;", "w=9"),
	comb("ternary_right_associative", "wire [3:0] y = 0 ? 1 : 1 ? 2 : 3;", "y=2"),
	comb("reduction_of_expression", "reg [3:0] a = 4'b1100, b = 4'b0011; wire y = &(a | b); wire z = |(a & b);", "y=1 z=0"),
	comb("invert_part_select_in_context", "reg [7:0] a = 8'hA5; wire [7:0] y = ~a[3:0]; wire z = |a[3:1];", "y=0xFA z=1"),
	comb("dollar_signed_of_part_select", "reg [7:0] a = 8'h0F; wire [7:0] y = $signed(a[3:0]);", "y=0xFF"),
	comb("integer_overflow_wraps", "integer i; initial i = 2147483647; wire y = i + 1 < 0;", "y=1"),
	comb("x_literal_in_arithmetic", "wire [3:0] y = 4'b1x00 + 1;", "y=u"),
	comb("localparam_takes_expression_width", "localparam X = 2'd3 + 2'd1; localparam Y = 2'd3 + 1; wire [7:0] x = X; wire [7:0] y = Y;", "x=0 y=4"),
	comb("parameter_signed_range", "parameter signed [7:0] P = -1; wire [15:0] y = P; wire lt = P < 0; parameter [7:0] Q = -1; wire [15:0] z = Q; wire lq = Q < 0;", "y=0xFFFF lt=1 z=0x00FF lq=0"),
	comb("signed_memory_word", "reg signed [7:0] m [0:1]; initial m[0] = -2; wire [15:0] y = m[0]; wire lt = m[0] < 0;", "y=0xFFFE lt=1"),
	comb("replication_compare", "reg [1:0] a = 2'b11; wire y = {2{a}} == 4'hF;", "y=1"),
	comb("equality_zero_extends_narrow_side", "wire y = 8'd255 == 9'd255; wire z = 8'hFF == 9'h1FF;", "y=1 z=0"),
	comb("index_expression_is_self_determined", "reg [7:0] a = 8'h01; reg [2:0] i = 7; wire y = a[i + 1]; wire z = a[i + 1'b1];", "y=u z=1"),
	comb("lifo_sp_minus_one_underflow", "reg [3:0] memory [7:0]; reg [3:0] sp = 0; initial memory[0] = 4'h9; wire [3:0] y = memory[sp-1]; reg [3:0] sp1 = 1; wire [3:0] z = memory[sp1-1];", "y=u z=9"),
	comb("one_bit_addition", "reg a = 1, b = 1; wire [1:0] s = a + b; wire c = a + b;", "s=2 c=0"),
	comb("dollar_signed_both_sides", "reg [9:0] a = 10'h3FF, b = 10'h001; wire y = $signed(a) > $signed(b); wire z = a > b;", "y=0 z=1"),
	comb("exponent_unpack_pattern", "reg [31:0] a = 32'h00000000; wire [9:0] a_e = a[30 : 23] - 127; wire z = $signed(a_e) == -127;", "a_e=0x381 z=1"),
	comb("time_variable_is_64_bit", "time tm; initial tm = 64'hFFFFFFFFFFFFFFFF; wire [63:0] y = tm + 1; wire [63:0] now = $time;", "y=0 now=0"),
	comb("bitwise_on_signed_negative", "reg signed [3:0] a = -4; wire [7:0] y = a & 8'hFF; wire [7:0] z = a | 4'sd1;", "y=0x0C z=0xFD"),
	comb("shift_result_feeds_signed_compare", "reg signed [7:0] a = -16; wire y = (a >>> 2) < 0; wire z = (a >> 2) < 0;", "y=1 z=0"),
	comb("unary_reduction_vs_binary", "reg [3:0] a = 4'b0110, b = 4'b0101; wire [3:0] y = a & b; wire z = a && b; wire w = &a & &b; wire v = a ~^ b ? 1'b1 : 1'b0;", "y=4 z=1 w=0 v=1"),
	comb("concat_with_sized_zero_extends_sum", "reg [7:0] r0 = 8'hF0, r1 = 8'h20; wire [8:0] s = {1'b0, r1} + {1'b0, r0};", "s=0x110"),
	comb("nested_memory_index", "reg [1:0] tag [0:3]; reg [3:0] st = 4'b0100; reg [1:0] p = 1; initial tag[1] = 2; wire y = st[tag[p]]; wire z = st[tag[p]]==1'b1 ? 1'b1 : 1'b0;", "y=1 z=1"),
	comb("compare_chain_is_left_assoc", "wire y = 3 > 2 > 1; wire z = 1 < 2 < 3;", "y=0 z=1"),
	comb("modulo_by_power_of_two", "reg [7:0] a = 8'd77; wire [7:0] y = a % 8'd16; wire [7:0] z = a / 8'd16;", "y=13 z=4"),
	{"negedge_clock_with_posedge_reset", "module t(input clk, input rst); reg [3:0] q; always @(negedge clk or posedge rst) if (rst) q <= 0; else q <= q + 1; endmodule",
		"set rst 1;settle;exp q 0;set rst 0;settle;set clk 1;settle;exp q 0;set clk 0;settle;exp q 1"},
	{"sync_reset_needs_clock", clkHdr + "reg [3:0] q; always @(posedge clk) if (rst) q <= 0; else q <= q + 1; endmodule",
		"set rst 1;settle;expu q;cycle clk;exp q 0"},
	{"process_runs_once_per_edge_even_with_two_triggers", "module t(input a, input b); reg [3:0] n; initial n = 0; always @(posedge a or posedge b) n <= n + 1; endmodule",
		"set a 1;set b 1;settle;exp n 1;set a 0;set b 0;settle;exp n 1;set b 1;settle;exp n 2"},
	{"comb_output_feeds_edge_process_same_settle", "module t(input clk, input [3:0] x); reg [3:0] q; wire [3:0] d; assign d = x + 1; always @(posedge clk) q <= d; endmodule",
		"set x 4;cycle clk;exp q 5;set x 9;cycle clk;exp q 10"},
	{"nba_to_memory_and_read_same_cycle", clkHdr + "reg [7:0] m [0:1]; reg [7:0] o; always @(posedge clk) if (rst) begin m[0] <= 8'h11; o <= 0; end else begin m[0] <= m[0] + 1; o <= m[0]; end endmodule",
		"set rst 1;cycle clk;set rst 0;cycle clk;exp o 0x11;mem m 0 0x12;cycle clk;exp o 0x12"},
	{"two_level_derived_clocks", clkHdr + "reg d1, d2; reg [3:0] n; initial begin d1 = 0; d2 = 0; n = 0; end always @(posedge clk) d1 <= ~d1; always @(posedge d1) d2 <= ~d2; always @(posedge d2) n <= n + 1; endmodule",
		"cycle clk;exp d1 1;exp d2 1;exp n 1;cycle clk;cycle clk;exp d2 0;exp n 1;cycle clk;cycle clk;exp n 2"},
	{"function_called_from_edge_process", clkHdr + "function [3:0] nxt; input [3:0] v; if (v == 4'd2) nxt = 0; else nxt = v + 1; endfunction\nreg [3:0] q; always @(posedge clk) if (rst) q <= 0; else q <= nxt(q); endmodule",
		"set rst 1;cycle clk;set rst 0;cycle clk;exp q 1;cycle clk;exp q 2;cycle clk;exp q 0"},
	{"param_override_changes_memory_depth", "module ram #(parameter AW = 2, DW = 4) (input clk, input [AW-1:0] a, input [DW-1:0] d, input we, output reg [DW-1:0] q); reg [DW-1:0] m [0:(1<<AW)-1]; always @(posedge clk) if (we) m[a] <= d; else q <= m[a]; endmodule\nmodule t(input clk, input [3:0] a, input [7:0] d, input we, output [7:0] q); ram #(.AW(4), .DW(8)) r(.clk(clk), .a(a), .d(d), .we(we), .q(q)); endmodule",
		"set a 15;set d 0xAB;set we 1;cycle clk;set we 0;cycle clk;exp q 0xAB;mem r.m 15 0xAB"},
	{"hierarchical_reference_read", "module sub(input clk, input [3:0] d); reg [3:0] q; always @(posedge clk) q <= d; endmodule\nmodule t(input clk, input [3:0] d, output [3:0] y, output z); sub u(clk, d); assign y = u.q; genvar i; generate for (i = 0; i < 2; i = i + 1) begin : g wire w = d[i]; end endgenerate assign z = g[1].w; endmodule",
		"set d 0xA;cycle clk;exp y 0xA;exp z 1;exp u.q 0xA;exp g[0].w 0"},
}

func TestConformance(t *testing.T) {
	if len(conformance) < 150 {
		t.Fatalf("conformance table has only %d cases", len(conformance))
	}
	seen := map[string]bool{}
	for _, c := range conformance {
		if seen[c.name] {
			t.Fatalf("duplicate case name %s", c.name)
		}
		seen[c.name] = true
		c := c
		t.Run(c.name, func(t *testing.T) {
			switch c.name {
			case "blackbox_leaves_outputs_undefined":
				d, _ := ParseFiles(map[string]string{"t.v": c.src})
				if _, err := d.Elaborate("t", nil); err == nil {
					t.Fatalf("missing module must fail elaboration without blackbox")
				} else if de, ok := err.(*DiagError); !ok || de.Class() != ClassUndefModule {
					t.Fatalf("want undefined-module error, got %v", err)
				}
				sim, err := d.Elaborate("t", map[string]bool{"missing": true})
				if err != nil {
					t.Fatal(err)
				}
				if err := sim.Settle(); err != nil {
					t.Fatal(err)
				}
				if _, def, _ := sim.Get("y"); def {
					t.Errorf("y must be undefined")
				}
				if v, def, _ := sim.Get("z"); !def || v != 1 {
					t.Errorf("z = %d,%v", v, def)
				}
			case "comb_loop_detected":
				d, _ := ParseFiles(map[string]string{"t.v": c.src})
				sim, err := d.Elaborate("t", nil)
				if err != nil {
					t.Fatal(err)
				}
				sim.Set("a", 0)
				err = sim.Settle()
				de, ok := err.(*DiagError)
				if !ok || de.Class() != ClassCombLoop {
					t.Fatalf("want comb-loop error, got %v", err)
				}
			default:
				runCase(t, c)
			}
		})
	}
}

// TestSnapshotRestoreHash checks the state API.
func TestSnapshotRestoreHash(t *testing.T) {
	src := clkHdr + "reg [7:0] n; reg [7:0] m [0:3]; always @(posedge clk) if (rst) n <= 0; else begin n <= n + 1; m[n[1:0]] <= n; end endmodule"
	d, _ := ParseFiles(map[string]string{"t.v": src})
	sim, err := d.Elaborate("t", nil)
	if err != nil {
		t.Fatal(err)
	}
	sim.Set("rst", 1)
	sim.Cycle("clk")
	sim.Set("rst", 0)
	sim.Cycle("clk")
	h1 := sim.Hash()
	st := sim.Snapshot()
	a0 := sim.Activations()
	for i := 0; i < 5; i++ {
		sim.Cycle("clk")
	}
	if sim.Activations() <= a0 {
		t.Errorf("activations did not increase")
	}
	if sim.Hash() == h1 {
		t.Errorf("hash did not change")
	}
	v, _, _ := sim.Get("n")
	if v != 6 {
		t.Errorf("n=%d", v)
	}
	sim.Restore(st)
	if sim.Hash() != h1 {
		t.Errorf("hash after restore differs")
	}
	v, _, _ = sim.Get("n")
	if v != 1 {
		t.Errorf("n after restore=%d", v)
	}
	if _, def, _ := sim.GetMem("m", 1); def {
		t.Errorf("m[1] should be undefined after restore")
	}
	sim.Cycle("clk")
	v, def, _ := sim.GetMem("m", 1)
	if v != 1 || !def {
		t.Errorf("m[1]=%d,%v", v, def)
	}
	// same state reached on two paths hashes the same
	h2 := sim.Hash()
	sim.Restore(st)
	sim.Cycle("clk")
	if sim.Hash() != h2 {
		t.Errorf("hash not canonical")
	}
	if w, err := sim.Width("n"); err != nil || w != 8 {
		t.Errorf("Width(n)=%d,%v", w, err)
	}
	if !sim.IsMem("m") || sim.IsMem("n") {
		t.Errorf("IsMem wrong")
	}
	if _, _, err := sim.Get("nope"); err == nil {
		t.Errorf("Get of unknown signal must fail")
	}
	names := fmt.Sprint(sim.Signals())
	for _, n := range []string{"clk", "rst", "n", "m"} {
		if !strings.Contains(names, n) {
			t.Errorf("Signals() lacks %s: %s", n, names)
		}
	}
	if err := sim.SetBig("n", big.NewInt(300)); err != nil {
		t.Fatal(err)
	}
	if v, _, _ := sim.Get("n"); v != 44 {
		t.Errorf("SetBig truncation: n=%d", v)
	}
}
