package vsim

import (
	"fmt"
	"math/big"
	"math/bits"
)

// ---------------------------------------------------------------- typed expression tree

type txKind uint8

const (
	tkConst   txKind = iota // val
	tkSig                   // sig (vector / scalar / integer)
	tkMemWord               // sig[a]
	tkBitSel                // a[b]   (a: tkSig/tkMemWord/tkConst)
	tkPartSel               // a[lo +: w] with constant position lo (already mapped to bit positions)
	tkIdxPart               // a[b +: w] / a[b -: w], dynamic
	tkUnary                 // op a : + - ~
	tkArith                 // a op b : + - * / % & | ^ ~^
	tkCompare               // a op b : == != < <= > >= (=== !==)
	tkLogic                 // && || !
	tkReduce                // & | ^ ~& ~| ~^
	tkShift                 // << >> <<< >>>
	tkPow                   // **
	tkTernary               // a ? b : c
	tkConcat                // list
	tkRepl                  // n x list(concat)
	tkCast                  // $signed / $unsigned
	tkCall                  // user function
	tkClog2                 // $clog2(a)
)

// tx is a resolved expression with its self-determined type (1364-2005 5.4.1, 5.5.1).
type tx struct {
	k    txKind
	w    int  // self-determined width
	sg   bool // self-determined signedness
	line int
	op   string
	a, b *tx
	c    *tx
	list []*tx
	sig  *signal
	val  Val
	n    int // replication count / part-select width
	lo   int // constant bit position of a part select (may be out of range)
	up   bool
	fn   *funcInfo
	bad  bool // resolution failed; evaluates to undefined 0
}

func constTx(v Val, line int) *tx { return &tx{k: tkConst, w: v.W, sg: v.Signed, val: v, line: line} }

func intTx(v int64, line int) *tx {
	return constTx(Val{W: 32, Signed: true, Bits: uint64(v) & 0xffffffff}, line)
}

// cx is a compiled expression of width w (context width).
type cx struct {
	w       int
	fn      evalFn // w <= 64
	wfn     wideFn // w > 64
	isConst bool
	cv      uint64
	cbig    *big.Int
	cdef    bool
}

func constCx(w int, v uint64, def bool) cx {
	v &= maskW(w)
	return cx{w: w, isConst: true, cv: v, cdef: def, fn: func(*Sim) (uint64, bool) { return v, def }}
}

func constCxBig(w int, v *big.Int, def bool) cx {
	if w <= 64 {
		return constCx(w, v.Uint64(), def)
	}
	return cx{w: w, isConst: true, cbig: v, cdef: def, wfn: func(*Sim) (*big.Int, bool) { return v, def }}
}

// fold evaluates a compiled expression whose operands are all constant.
func fold(c cx) cx {
	if c.w <= 64 {
		v, d := c.fn(nil)
		return constCx(c.w, v, d)
	}
	v, d := c.wfn(nil)
	return constCxBig(c.w, v, d)
}

func (c cx) val(signed bool) Val {
	if c.w <= 64 {
		return Val{W: c.w, Signed: signed, Bits: c.cv, Undef: !c.cdef}
	}
	return Val{W: c.w, Signed: signed, Big: c.cbig, Bits: new(big.Int).And(c.cbig, new(big.Int).SetUint64(^uint64(0))).Uint64(), Undef: !c.cdef}
}

// asBig converts any compiled expression into a wide evaluator.
func (c cx) asBig() wideFn {
	if c.w > 64 {
		return c.wfn
	}
	f := c.fn
	return func(s *Sim) (*big.Int, bool) {
		v, d := f(s)
		return new(big.Int).SetUint64(v), d
	}
}

func maxInt(a, b int) int {
	if a > b {
		return a
	}
	return b
}

// ---------------------------------------------------------------- compilation

// compileSelf compiles t in a self-determined context.
func (e *elab) compileSelf(t *tx) cx { return e.compile(t, t.w, t.sg) }

// compileAssignCtx compiles t as the right-hand side of an assignment to an
// lw-bit target: context width max(lw, self width), type of the RHS (5.4.1, 5.5.2).
func (e *elab) compileAssignCtx(t *tx, lw int) cx {
	return e.compile(t, maxInt(lw, t.w), t.sg)
}

// compile compiles t in a context of width W (>= t.w for context-determined
// operands) and signedness S (the type of the whole context expression).
func (e *elab) compile(t *tx, W int, S bool) cx {
	if W < t.w {
		W = t.w
	}
	if W <= 0 {
		W = 1
	}
	if t.bad {
		return constCxBig(W, new(big.Int), false)
	}
	if W > 64 {
		return e.compileWide(t, W, S)
	}
	switch t.k {
	case tkUnary, tkArith, tkShift, tkPow, tkTernary:
		return e.compileCtxOp(t, W, S)
	}
	// self-contained operand: evaluate at own width, then extend to the context
	c := e.compileOperand(t)
	return e.extendCx(c, t.w, W, S && t.sg)
}

// extendCx extends a compiled from-bit operand to W bits.
func (e *elab) extendCx(c cx, from, W int, signExt bool) cx {
	if from > 64 {
		// narrowing never happens for context operands; W > 64 handled elsewhere
		return c
	}
	if W == from || !signExt {
		if c.w == W {
			return c
		}
		c.w = W
		return c
	}
	if c.isConst {
		return constCx(W, extendTo(c.cv, from, W, true), c.cdef)
	}
	f := c.fn
	sh := uint(64 - from)
	m := maskW(W)
	return cx{w: W, fn: func(s *Sim) (uint64, bool) {
		v, d := f(s)
		return uint64(int64(v<<sh)>>sh) & m, d
	}}
}

// compileOperand compiles a self-contained node (leaf, select, concat, comparison,
// reduction, logical, cast, call) at its own width (t.w <= 64 required by caller,
// except that wide operands of comparisons etc. are handled inside).
func (e *elab) compileOperand(t *tx) cx {
	if t.w > 64 {
		return e.compileWide(t, t.w, t.sg)
	}
	switch t.k {
	case tkConst:
		return constCx(t.w, t.val.Bits, !t.val.Undef)
	case tkSig:
		sg := t.sig
		off, doff := sg.off, sg.doff
		return cx{w: t.w, fn: func(s *Sim) (uint64, bool) { return s.val[off], s.def[doff] }}
	case tkMemWord:
		return e.compileMemWord(t)
	case tkBitSel, tkPartSel, tkIdxPart:
		return e.compileSelect(t)
	case tkCompare:
		return e.compileCompare(t)
	case tkLogic:
		return e.compileLogic(t)
	case tkReduce:
		return e.compileReduce(t)
	case tkConcat:
		return e.compileConcat(t)
	case tkRepl:
		inner := e.compileConcat(&tx{k: tkConcat, w: t.w / maxInt(t.n, 1), list: t.list})
		n := t.n
		iw := uint(inner.w)
		f := inner.fn
		c := cx{w: t.w, fn: func(s *Sim) (uint64, bool) {
			v, d := f(s)
			var r uint64
			for i := 0; i < n; i++ {
				r = r<<iw | v
			}
			return r, d
		}}
		if inner.isConst {
			return fold(c)
		}
		return c
	case tkCast:
		// operand is self-determined; result has the operand's width
		return e.compileSelf(t.a)
	case tkCall:
		return e.compileCall(t)
	case tkClog2:
		a := e.compileSelf(t.a)
		if a.w > 64 {
			f := a.wfn
			c := cx{w: 32, fn: func(s *Sim) (uint64, bool) {
				v, d := f(s)
				if v.Sign() == 0 {
					return 0, d
				}
				return uint64(new(big.Int).Sub(v, big.NewInt(1)).BitLen()), d
			}}
			if a.isConst {
				return fold(c)
			}
			return c
		}
		f := a.fn
		c := cx{w: 32, fn: func(s *Sim) (uint64, bool) {
			v, d := f(s)
			return clog2(v), d
		}}
		if a.isConst {
			return fold(c)
		}
		return c
	case tkUnary, tkArith, tkShift, tkPow, tkTernary:
		return e.compileCtxOp(t, t.w, t.sg)
	}
	return constCx(t.w, 0, false)
}

func (e *elab) compileMemWord(t *tx) cx {
	sg := t.sig
	ix := e.compileIndex(t.a)
	off, doff, depth, mmin := sg.off, sg.doff, sg.depth, int64(sg.memMin)
	if sg.nw != 1 {
		return e.compileWide(t, t.w, t.sg)
	}
	if ix.isConst {
		if !ix.cdef {
			return constCx(t.w, 0, false)
		}
		el := ix.ci - mmin
		if el < 0 || el >= int64(depth) {
			return constCx(t.w, 0, false)
		}
		o, do := off+int(el), doff+int(el)
		return cx{w: t.w, fn: func(s *Sim) (uint64, bool) { return s.val[o], s.def[do] }}
	}
	f := ix.fn
	return cx{w: t.w, fn: func(s *Sim) (uint64, bool) {
		i, d := f(s)
		i -= mmin
		if !d || i < 0 || i >= int64(depth) {
			return 0, false
		}
		return s.val[off+int(i)], s.def[doff+int(i)]
	}}
}

// idx is a compiled index expression yielding a Go integer.
type idxFn struct {
	fn      func(s *Sim) (int64, bool)
	isConst bool
	ci      int64
	cdef    bool
}

const idxClamp = int64(1) << 40

// compileIndex compiles a self-determined index expression into an integer evaluator.
func (e *elab) compileIndex(t *tx) idxFn {
	c := e.compileSelf(t)
	signed := t.sg
	w := t.w
	conv := func(v uint64) int64 {
		if signed {
			return sext(v, w)
		}
		if v > uint64(idxClamp) {
			return idxClamp
		}
		return int64(v)
	}
	if c.w > 64 {
		f := c.wfn
		r := idxFn{fn: func(s *Sim) (int64, bool) {
			v, d := f(s)
			if signed {
				v = bigSigned(v, w)
			}
			if !v.IsInt64() {
				if v.Sign() < 0 {
					return -idxClamp, d
				}
				return idxClamp, d
			}
			return v.Int64(), d
		}}
		if c.isConst {
			r.isConst = true
			r.ci, r.cdef = r.fn(nil)
		}
		return r
	}
	if c.isConst {
		ci := conv(c.cv)
		cd := c.cdef
		return idxFn{isConst: true, ci: ci, cdef: cd, fn: func(*Sim) (int64, bool) { return ci, cd }}
	}
	f := c.fn
	if !signed {
		return idxFn{fn: func(s *Sim) (int64, bool) {
			v, d := f(s)
			if v > uint64(idxClamp) {
				return idxClamp, d
			}
			return int64(v), d
		}}
	}
	return idxFn{fn: func(s *Sim) (int64, bool) {
		v, d := f(s)
		return sext(v, w), d
	}}
}

// selBase describes the storage a select operates on.
type selBase struct {
	sg     *signal // nil: generic value base
	elemFn idxFn   // element index for memory words (storage element, already offset by memMin)
	hasEl  bool
	valFn  cx // generic base value (constants, parameters)
	w      int
	msb    int
	lsb    int
}

func (b *selBase) bitPos(idx int64) int64 {
	if b.msb >= b.lsb {
		return idx - int64(b.lsb)
	}
	return int64(b.lsb) - idx
}

func (e *elab) selectBase(a *tx) selBase {
	switch a.k {
	case tkSig:
		return selBase{sg: a.sig, w: a.sig.w, msb: a.sig.msb, lsb: a.sig.lsb}
	case tkMemWord:
		ix := e.compileIndex(a.a)
		sg := a.sig
		mmin, depth := int64(sg.memMin), int64(sg.depth)
		f := ix.fn
		el := idxFn{fn: func(s *Sim) (int64, bool) {
			i, d := f(s)
			i -= mmin
			if !d || i < 0 || i >= depth {
				return -1, false
			}
			return i, true
		}}
		if ix.isConst {
			el.isConst = true
			el.ci, el.cdef = el.fn(nil)
		}
		return selBase{sg: sg, elemFn: el, hasEl: true, w: sg.w, msb: sg.msb, lsb: sg.lsb}
	default:
		return selBase{valFn: e.compileSelf(a), w: a.w, msb: a.w - 1, lsb: 0}
	}
}

// compileSelect compiles bit/part/indexed-part select reads (result <= 64 bits).
func (e *elab) compileSelect(t *tx) cx {
	b := e.selectBase(t.a)
	w := t.w
	// position evaluator
	var posConst bool
	var cpos int64
	var posFn func(s *Sim) (int64, bool)
	switch t.k {
	case tkPartSel:
		posConst, cpos = true, int64(t.lo)
	case tkBitSel:
		ix := e.compileIndex(t.b)
		bb := b
		if ix.isConst {
			if !ix.cdef {
				return constCx(w, 0, false)
			}
			posConst, cpos = true, bb.bitPos(ix.ci)
		} else {
			f := ix.fn
			posFn = func(s *Sim) (int64, bool) {
				i, d := f(s)
				return bb.bitPos(i), d
			}
		}
	case tkIdxPart:
		ix := e.compileIndex(t.b)
		bb := b
		desc := b.msb >= b.lsb
		up := t.up
		adj := func(i int64) int64 {
			// lowest bit position covered by the select
			p := bb.bitPos(i)
			if desc == up {
				return p
			}
			return p - int64(w-1)
		}
		if ix.isConst {
			if !ix.cdef {
				return constCx(w, 0, false)
			}
			posConst, cpos = true, adj(ix.ci)
		} else {
			f := ix.fn
			posFn = func(s *Sim) (int64, bool) {
				i, d := f(s)
				return adj(i), d
			}
		}
	}
	bw := int64(b.w)
	if b.sg == nil {
		// generic value base (<=64 bit or wide)
		vc := b.valFn
		if vc.w > 64 {
			vf := vc.wfn
			get := func(s *Sim, pos int64) (uint64, bool) {
				v, d := vf(s)
				return extractBig(v, bw, pos, w, d)
			}
			return finishSelect(w, posConst, cpos, posFn, get, vc.isConst)
		}
		vf := vc.fn
		get := func(s *Sim, pos int64) (uint64, bool) {
			v, d := vf(s)
			return extract64(v, bw, pos, w, d)
		}
		return finishSelect(w, posConst, cpos, posFn, get, vc.isConst)
	}
	sg := b.sg
	if !b.hasEl {
		if posConst && cpos >= 0 && cpos+int64(w) <= bw {
			// fully in range constant select: the common fast path
			lo := int(cpos)
			if sg.nw == 1 {
				off, doff, sh, m := sg.off, sg.doff, uint(lo), maskW(w)
				return cx{w: w, fn: func(s *Sim) (uint64, bool) { return (s.val[off] >> sh) & m, s.def[doff] }}
			}
			return cx{w: w, fn: func(s *Sim) (uint64, bool) { return s.readBits(sg, 0, lo, w), s.def[sg.doff] }}
		}
		get := func(s *Sim, pos int64) (uint64, bool) {
			return s.extractSig(sg, 0, pos, w)
		}
		return finishSelect(w, posConst, cpos, posFn, get, false)
	}
	el := b.elemFn.fn
	get := func(s *Sim, pos int64) (uint64, bool) {
		i, d := el(s)
		if !d {
			return 0, false
		}
		return s.extractSig(sg, int(i), pos, w)
	}
	return finishSelect(w, posConst, cpos, posFn, get, false)
}

func finishSelect(w int, posConst bool, cpos int64, posFn func(*Sim) (int64, bool), get func(*Sim, int64) (uint64, bool), baseConst bool) cx {
	if posConst {
		c := cx{w: w, fn: func(s *Sim) (uint64, bool) { return get(s, cpos) }}
		if baseConst {
			return fold(c)
		}
		return c
	}
	return cx{w: w, fn: func(s *Sim) (uint64, bool) {
		p, d := posFn(s)
		if !d {
			return 0, false
		}
		return get(s, p)
	}}
}

// extract64 extracts w bits at position pos from the bw-bit value v; out-of-range
// bits read as 0 and make the result undefined.
func extract64(v uint64, bw, pos int64, w int, def bool) (uint64, bool) {
	if pos >= 0 && pos+int64(w) <= bw {
		return (v >> uint(pos)) & maskW(w), def
	}
	if pos >= bw || pos+int64(w) <= 0 {
		return 0, false
	}
	if pos < 0 {
		return (v << uint(-pos)) & maskW(w), false
	}
	return (v >> uint(pos)) & maskW(w), false
}

func extractBig(v *big.Int, bw, pos int64, w int, def bool) (uint64, bool) {
	in := pos >= 0 && pos+int64(w) <= bw
	if pos >= bw || pos+int64(w) <= 0 {
		return 0, false
	}
	r := new(big.Int)
	if pos < 0 {
		r.Lsh(v, uint(-pos))
	} else {
		r.Rsh(v, uint(pos))
	}
	r.And(r, new(big.Int).SetUint64(maskW(w)))
	return r.Uint64(), def && in
}

// extractSig reads w (<=64) bits at bit position pos of an element, tolerating out-of-range positions.
func (s *Sim) extractSig(sg *signal, elem int, pos int64, w int) (uint64, bool) {
	bw := int64(sg.w)
	d := s.def[sg.doff+elem]
	if pos >= 0 && pos+int64(w) <= bw {
		return s.readBits(sg, elem, int(pos), w), d
	}
	if pos >= bw || pos+int64(w) <= 0 {
		return 0, false
	}
	if sg.nw == 1 {
		return extract64(s.val[sg.off+elem], bw, pos, w, false)
	}
	return extractBig(s.loadWide(sg, elem), bw, pos, w, false)
}

// compileCompare compiles relational and equality operators: the operands form
// their own context of width max(L,R), signed iff both are signed (5.4.1, 5.5.1).
func (e *elab) compileCompare(t *tx) cx {
	W := maxInt(t.a.w, t.b.w)
	S := t.a.sg && t.b.sg
	a := e.compile(t.a, W, S)
	b := e.compile(t.b, W, S)
	op := t.op
	var c cx
	if W > 64 {
		af, bf := a.asBig(), b.asBig()
		c = cx{w: 1, fn: func(s *Sim) (uint64, bool) {
			x, dx := af(s)
			y, dy := bf(s)
			if S {
				x, y = bigSigned(x, W), bigSigned(y, W)
			}
			r := x.Cmp(y)
			var ok bool
			switch op {
			case "==", "===":
				ok = r == 0
			case "!=", "!==":
				ok = r != 0
			case "<":
				ok = r < 0
			case "<=":
				ok = r <= 0
			case ">":
				ok = r > 0
			case ">=":
				ok = r >= 0
			}
			if ok {
				return 1, dx && dy
			}
			return 0, dx && dy
		}}
	} else {
		af, bf := a.fn, b.fn
		b2u := func(b bool) uint64 {
			if b {
				return 1
			}
			return 0
		}
		switch op {
		case "==", "===":
			if b.isConst && b.cdef {
				k := b.cv
				c = cx{w: 1, fn: func(s *Sim) (uint64, bool) {
					x, dx := af(s)
					return b2u(x == k), dx
				}}
			} else {
				c = cx{w: 1, fn: func(s *Sim) (uint64, bool) {
					x, dx := af(s)
					y, dy := bf(s)
					return b2u(x == y), dx && dy
				}}
			}
		case "!=", "!==":
			c = cx{w: 1, fn: func(s *Sim) (uint64, bool) {
				x, dx := af(s)
				y, dy := bf(s)
				return b2u(x != y), dx && dy
			}}
		default:
			if S {
				sh := uint(64 - W)
				cmp := func(s *Sim) (int64, int64, bool) {
					x, dx := af(s)
					y, dy := bf(s)
					return int64(x<<sh) >> sh, int64(y<<sh) >> sh, dx && dy
				}
				switch op {
				case "<":
					c = cx{w: 1, fn: func(s *Sim) (uint64, bool) { x, y, d := cmp(s); return b2u(x < y), d }}
				case "<=":
					c = cx{w: 1, fn: func(s *Sim) (uint64, bool) { x, y, d := cmp(s); return b2u(x <= y), d }}
				case ">":
					c = cx{w: 1, fn: func(s *Sim) (uint64, bool) { x, y, d := cmp(s); return b2u(x > y), d }}
				default:
					c = cx{w: 1, fn: func(s *Sim) (uint64, bool) { x, y, d := cmp(s); return b2u(x >= y), d }}
				}
			} else {
				switch op {
				case "<":
					c = cx{w: 1, fn: func(s *Sim) (uint64, bool) {
						x, dx := af(s)
						y, dy := bf(s)
						return b2u(x < y), dx && dy
					}}
				case "<=":
					c = cx{w: 1, fn: func(s *Sim) (uint64, bool) {
						x, dx := af(s)
						y, dy := bf(s)
						return b2u(x <= y), dx && dy
					}}
				case ">":
					c = cx{w: 1, fn: func(s *Sim) (uint64, bool) {
						x, dx := af(s)
						y, dy := bf(s)
						return b2u(x > y), dx && dy
					}}
				default:
					c = cx{w: 1, fn: func(s *Sim) (uint64, bool) {
						x, dx := af(s)
						y, dy := bf(s)
						return b2u(x >= y), dx && dy
					}}
				}
			}
		}
	}
	if a.isConst && b.isConst {
		return fold(c)
	}
	return c
}

// truthFn returns an evaluator of "operand != 0" for a self-determined operand.
func (e *elab) truthFn(t *tx) (func(s *Sim) (bool, bool), bool) {
	c := e.compileSelf(t)
	if c.w > 64 {
		f := c.wfn
		return func(s *Sim) (bool, bool) {
			v, d := f(s)
			return v.Sign() != 0, d
		}, c.isConst
	}
	f := c.fn
	return func(s *Sim) (bool, bool) {
		v, d := f(s)
		return v != 0, d
	}, c.isConst
}

func (e *elab) compileLogic(t *tx) cx {
	af, ac := e.truthFn(t.a)
	if t.op == "!" {
		c := cx{w: 1, fn: func(s *Sim) (uint64, bool) {
			v, d := af(s)
			if v {
				return 0, d
			}
			return 1, d
		}}
		if ac {
			return fold(c)
		}
		return c
	}
	bf, bc := e.truthFn(t.b)
	var c cx
	if t.op == "&&" {
		c = cx{w: 1, fn: func(s *Sim) (uint64, bool) {
			x, dx := af(s)
			if dx && !x {
				return 0, true // 0 && anything = 0
			}
			y, dy := bf(s)
			if dy && !y {
				return 0, true
			}
			if x && y {
				return 1, dx && dy
			}
			return 0, dx && dy
		}}
	} else {
		c = cx{w: 1, fn: func(s *Sim) (uint64, bool) {
			x, dx := af(s)
			if dx && x {
				return 1, true // 1 || anything = 1
			}
			y, dy := bf(s)
			if dy && y {
				return 1, true
			}
			if x || y {
				return 1, dx && dy
			}
			return 0, dx && dy
		}}
	}
	if ac && bc {
		return fold(c)
	}
	return c
}

func (e *elab) compileReduce(t *tx) cx {
	a := e.compileSelf(t.a)
	w := t.a.w
	op := t.op
	var c cx
	if a.w > 64 {
		f := a.wfn
		full := bigMask(w)
		c = cx{w: 1, fn: func(s *Sim) (uint64, bool) {
			v, d := f(s)
			var r uint64
			switch op {
			case "&", "~&":
				if v.Cmp(full) == 0 {
					r = 1
				}
			case "|", "~|":
				if v.Sign() != 0 {
					r = 1
				}
			default:
				n := 0
				for _, wd := range v.Bits() {
					n += bits.OnesCount(uint(wd))
				}
				r = uint64(n & 1)
			}
			if op[0] == '~' || op == "^~" {
				r ^= 1
			}
			return r, d
		}}
	} else {
		f := a.fn
		full := maskW(w)
		inv := uint64(0)
		if op[0] == '~' || op == "^~" {
			inv = 1
		}
		switch op {
		case "&", "~&":
			c = cx{w: 1, fn: func(s *Sim) (uint64, bool) {
				v, d := f(s)
				if v == full {
					return 1 ^ inv, d
				}
				return inv, d
			}}
		case "|", "~|":
			c = cx{w: 1, fn: func(s *Sim) (uint64, bool) {
				v, d := f(s)
				if v != 0 {
					return 1 ^ inv, d
				}
				return inv, d
			}}
		default:
			c = cx{w: 1, fn: func(s *Sim) (uint64, bool) {
				v, d := f(s)
				return uint64(bits.OnesCount64(v)&1) ^ inv, d
			}}
		}
	}
	if a.isConst {
		return fold(c)
	}
	return c
}

func (e *elab) compileConcat(t *tx) cx {
	// result <= 64 bits: all operands self-determined, first is most significant
	type part struct {
		f  evalFn
		sh uint
	}
	parts := make([]part, 0, len(t.list))
	allConst := true
	sh := 0
	for i := len(t.list) - 1; i >= 0; i-- {
		c := e.compileSelf(t.list[i])
		if !c.isConst {
			allConst = false
		}
		parts = append(parts, part{c.fn, uint(sh)})
		sh += t.list[i].w
	}
	var c cx
	switch len(parts) {
	case 1:
		c = cx{w: t.w, fn: parts[0].f}
	case 2:
		f0, f1, s1 := parts[0].f, parts[1].f, parts[1].sh
		c = cx{w: t.w, fn: func(s *Sim) (uint64, bool) {
			a, da := f0(s)
			b, db := f1(s)
			return a | b<<s1, da && db
		}}
	default:
		c = cx{w: t.w, fn: func(s *Sim) (uint64, bool) {
			var r uint64
			d := true
			for _, p := range parts {
				v, dv := p.f(s)
				r |= v << p.sh
				d = d && dv
			}
			return r, d
		}}
	}
	if allConst {
		return fold(c)
	}
	return c
}

// compileCtxOp compiles context-determined operators at width W<=64, type S.
func (e *elab) compileCtxOp(t *tx, W int, S bool) cx {
	m := maskW(W)
	switch t.k {
	case tkUnary:
		a := e.compile(t.a, W, S)
		f := a.fn
		var c cx
		switch t.op {
		case "+":
			return a
		case "-":
			c = cx{w: W, fn: func(s *Sim) (uint64, bool) { v, d := f(s); return (-v) & m, d }}
		default: // ~
			c = cx{w: W, fn: func(s *Sim) (uint64, bool) { v, d := f(s); return (^v) & m, d }}
		}
		if a.isConst {
			return fold(c)
		}
		return c
	case tkArith:
		a := e.compile(t.a, W, S)
		b := e.compile(t.b, W, S)
		af, bf := a.fn, b.fn
		var c cx
		switch t.op {
		case "+":
			if b.isConst && b.cdef {
				k := b.cv
				c = cx{w: W, fn: func(s *Sim) (uint64, bool) { x, d := af(s); return (x + k) & m, d }}
			} else {
				c = cx{w: W, fn: func(s *Sim) (uint64, bool) {
					x, dx := af(s)
					y, dy := bf(s)
					return (x + y) & m, dx && dy
				}}
			}
		case "-":
			c = cx{w: W, fn: func(s *Sim) (uint64, bool) {
				x, dx := af(s)
				y, dy := bf(s)
				return (x - y) & m, dx && dy
			}}
		case "*":
			c = cx{w: W, fn: func(s *Sim) (uint64, bool) {
				x, dx := af(s)
				y, dy := bf(s)
				return (x * y) & m, dx && dy
			}}
		case "/", "%":
			isDiv := t.op == "/"
			sh := uint(64 - W)
			c = cx{w: W, fn: func(s *Sim) (uint64, bool) {
				x, dx := af(s)
				y, dy := bf(s)
				if y == 0 {
					return 0, false
				}
				if S {
					sx, sy := int64(x<<sh)>>sh, int64(y<<sh)>>sh
					if isDiv {
						if sy == -1 {
							return uint64(-sx) & m, dx && dy
						}
						return uint64(sx/sy) & m, dx && dy
					}
					if sy == -1 {
						return 0, dx && dy
					}
					return uint64(sx%sy) & m, dx && dy
				}
				if isDiv {
					return (x / y) & m, dx && dy
				}
				return (x % y) & m, dx && dy
			}}
		case "&":
			c = cx{w: W, fn: func(s *Sim) (uint64, bool) {
				x, dx := af(s)
				y, dy := bf(s)
				return x & y, dx && dy
			}}
		case "|":
			c = cx{w: W, fn: func(s *Sim) (uint64, bool) {
				x, dx := af(s)
				y, dy := bf(s)
				return x | y, dx && dy
			}}
		case "^":
			c = cx{w: W, fn: func(s *Sim) (uint64, bool) {
				x, dx := af(s)
				y, dy := bf(s)
				return x ^ y, dx && dy
			}}
		default: // ~^ ^~
			c = cx{w: W, fn: func(s *Sim) (uint64, bool) {
				x, dx := af(s)
				y, dy := bf(s)
				return ^(x ^ y) & m, dx && dy
			}}
		}
		if a.isConst && b.isConst {
			return fold(c)
		}
		return c
	case tkShift:
		a := e.compile(t.a, W, S)
		amt := e.shiftAmount(t.b)
		af := a.fn
		bf := amt.fn
		var c cx
		switch t.op {
		case "<<", "<<<":
			c = cx{w: W, fn: func(s *Sim) (uint64, bool) {
				x, dx := af(s)
				n, dn := bf(s)
				if n >= uint64(W) {
					return 0, dx && dn
				}
				return (x << n) & m, dx && dn
			}}
		case ">>":
			c = cx{w: W, fn: func(s *Sim) (uint64, bool) {
				x, dx := af(s)
				n, dn := bf(s)
				if n >= uint64(W) {
					return 0, dx && dn
				}
				return x >> n, dx && dn
			}}
		default: // >>>
			if !S {
				c = cx{w: W, fn: func(s *Sim) (uint64, bool) {
					x, dx := af(s)
					n, dn := bf(s)
					if n >= uint64(W) {
						return 0, dx && dn
					}
					return x >> n, dx && dn
				}}
			} else {
				sh := uint(64 - W)
				c = cx{w: W, fn: func(s *Sim) (uint64, bool) {
					x, dx := af(s)
					n, dn := bf(s)
					sx := int64(x<<sh) >> sh
					if n >= 63 {
						n = 63
					}
					return uint64(sx>>n) & m, dx && dn
				}}
			}
		}
		if a.isConst && amt.isConst {
			return fold(c)
		}
		return c
	case tkPow:
		a := e.compile(t.a, W, S)
		bx := e.compileSelf(t.b)
		if bx.w > 64 {
			return constCx(W, 0, false)
		}
		af, bf := a.fn, bx.fn
		bs, bw := t.b.sg, t.b.w
		sh := uint(64 - W)
		c := cx{w: W, fn: func(s *Sim) (uint64, bool) {
			x, dx := af(s)
			y, dy := bf(s)
			d := dx && dy
			if bs && sext(y, bw) < 0 {
				// negative exponent (table 5-6)
				sx := int64(x)
				if S {
					sx = int64(x<<sh) >> sh
				}
				switch {
				case x == 0:
					return 0, false
				case sx == 1:
					return 1, d
				case S && sx == -1:
					if y&1 == 1 {
						return m, d
					}
					return 1, d
				}
				return 0, d
			}
			return powU(x, y) & m, d
		}}
		if a.isConst && bx.isConst {
			return fold(c)
		}
		return c
	case tkTernary:
		cf, cc := e.truthFn(t.a)
		a := e.compile(t.b, W, S)
		b := e.compile(t.c, W, S)
		af, bf := a.fn, b.fn
		c := cx{w: W, fn: func(s *Sim) (uint64, bool) {
			cv, cd := cf(s)
			if !cd {
				// x condition: bitwise merge of both branches; defined only if they agree
				x, dx := af(s)
				y, dy := bf(s)
				if dx && dy && x == y {
					return x, true
				}
				return y, false
			}
			if cv {
				return af(s)
			}
			return bf(s)
		}}
		if cc && a.isConst && b.isConst {
			return fold(c)
		}
		return c
	}
	return constCx(W, 0, false)
}

// shiftAmount compiles the (self-determined, always unsigned) right operand of a shift.
func (e *elab) shiftAmount(t *tx) cx {
	c := e.compileSelf(t)
	if c.w <= 64 {
		return c
	}
	f := c.wfn
	r := cx{w: 64, fn: func(s *Sim) (uint64, bool) {
		v, d := f(s)
		if !v.IsUint64() {
			return ^uint64(0), d
		}
		return v.Uint64(), d
	}}
	if c.isConst {
		return fold(r)
	}
	return r
}

func (e *elab) compileCall(t *tx) cx {
	fi := t.fn
	n := len(t.list)
	args := make([]evalFn, n)
	for i, a := range t.list {
		in := fi.inputs[i]
		c := e.compileAssignCtx(a, in.w)
		if c.w > 64 {
			e.errorf(fi.file, t.line, ClassUnsupported, fi.name, "function arguments wider than 64 bits are not supported")
			return constCx(t.w, 0, false)
		}
		args[i] = c.fn
	}
	inputs := fi.inputs
	ret := fi.ret
	tmpV := make([]uint64, n)
	tmpD := make([]bool, n)
	file, line := fi.file, t.line
	name := fi.name
	return cx{w: t.w, fn: func(s *Sim) (uint64, bool) {
		if fi.body == nil {
			return 0, false
		}
		if fi.active {
			s.runtimeError(file, line, ClassUnsupported, "recursive call of function "+name)
			return 0, false
		}
		for i, a := range args {
			tmpV[i], tmpD[i] = a(s)
		}
		for i, in := range inputs {
			s.storeBits(in, 0, 0, in.w, tmpV[i], tmpD[i])
		}
		s.storeBits(ret, 0, 0, ret.w, 0, false)
		fi.active = true
		fi.body(s)
		fi.active = false
		return s.val[ret.off], s.def[ret.doff]
	}}
}

// ---------------------------------------------------------------- wide (> 64 bit) path

func (e *elab) compileWide(t *tx, W int, S bool) cx {
	switch t.k {
	case tkUnary:
		a := e.compile(t.a, W, S).asBig()
		op := t.op
		return cx{w: W, wfn: func(s *Sim) (*big.Int, bool) {
			v, d := a(s)
			switch op {
			case "-":
				return bigTrunc(new(big.Int).Neg(v), W), d
			case "~":
				return new(big.Int).Xor(v, bigMask(W)), d
			}
			return v, d
		}}
	case tkArith:
		a := e.compile(t.a, W, S).asBig()
		b := e.compile(t.b, W, S).asBig()
		op := t.op
		return cx{w: W, wfn: func(s *Sim) (*big.Int, bool) {
			x, dx := a(s)
			y, dy := b(s)
			d := dx && dy
			r := new(big.Int)
			switch op {
			case "+":
				r.Add(x, y)
			case "-":
				r.Sub(x, y)
			case "*":
				r.Mul(x, y)
			case "/", "%":
				if y.Sign() == 0 {
					return r, false
				}
				if S {
					x, y = bigSigned(x, W), bigSigned(y, W)
				}
				if op == "/" {
					r.Quo(x, y)
				} else {
					r.Rem(x, y)
				}
			case "&":
				r.And(x, y)
			case "|":
				r.Or(x, y)
			case "^":
				r.Xor(x, y)
			default:
				r.Xor(x, y)
				r.Xor(r, bigMask(W))
			}
			return bigTrunc(r, W), d
		}}
	case tkShift:
		a := e.compile(t.a, W, S).asBig()
		amt := e.shiftAmount(t.b).fn
		op := t.op
		return cx{w: W, wfn: func(s *Sim) (*big.Int, bool) {
			x, dx := a(s)
			n, dn := amt(s)
			d := dx && dn
			if n > uint64(W) {
				n = uint64(W)
			}
			r := new(big.Int)
			switch {
			case op == "<<" || op == "<<<":
				r.Lsh(x, uint(n))
			case op == ">>>" && S:
				r.Rsh(bigSigned(x, W), uint(n))
			default:
				r.Rsh(x, uint(n))
			}
			return bigTrunc(r, W), d
		}}
	case tkPow:
		a := e.compile(t.a, W, S).asBig()
		bx := e.compileSelf(t.b)
		b := bx.asBig()
		bs, bw := t.b.sg, t.b.w
		return cx{w: W, wfn: func(s *Sim) (*big.Int, bool) {
			x, dx := a(s)
			y, dy := b(s)
			d := dx && dy
			if bs {
				y = bigSigned(y, bw)
			}
			if y.Sign() < 0 {
				sx := x
				if S {
					sx = bigSigned(x, W)
				}
				switch {
				case sx.Sign() == 0:
					return new(big.Int), false
				case sx.Cmp(big.NewInt(1)) == 0:
					return big.NewInt(1), d
				case sx.Cmp(big.NewInt(-1)) == 0:
					if y.Bit(0) == 1 {
						return bigMask(W), d
					}
					return big.NewInt(1), d
				}
				return new(big.Int), d
			}
			mod := new(big.Int).Lsh(big.NewInt(1), uint(W))
			return new(big.Int).Exp(x, y, mod), d
		}}
	case tkTernary:
		cf, _ := e.truthFn(t.a)
		a := e.compile(t.b, W, S).asBig()
		b := e.compile(t.c, W, S).asBig()
		return cx{w: W, wfn: func(s *Sim) (*big.Int, bool) {
			cv, cd := cf(s)
			if !cd {
				x, dx := a(s)
				y, dy := b(s)
				if dx && dy && x.Cmp(y) == 0 {
					return x, true
				}
				return y, false
			}
			if cv {
				return a(s)
			}
			return b(s)
		}}
	}
	// self-contained operand
	if t.w <= 64 {
		c := e.compileOperand(t)
		f := c.fn
		from := t.w
		se := S && t.sg
		r := cx{w: W, wfn: func(s *Sim) (*big.Int, bool) {
			v, d := f(s)
			b := new(big.Int).SetUint64(v)
			if se {
				b = bigExtend(b, from, W, true)
			}
			return b, d
		}}
		if c.isConst {
			return fold(r)
		}
		return r
	}
	// wide self-contained operand
	var own cx
	switch t.k {
	case tkConst:
		own = constCxBig(t.w, t.val.big(), !t.val.Undef)
	case tkSig:
		sg := t.sig
		own = cx{w: t.w, wfn: func(s *Sim) (*big.Int, bool) { return s.loadWide(sg, 0), s.def[sg.doff] }}
	case tkMemWord:
		sg := t.sig
		ix := e.compileIndex(t.a).fn
		mmin, depth := int64(sg.memMin), int64(sg.depth)
		own = cx{w: t.w, wfn: func(s *Sim) (*big.Int, bool) {
			i, d := ix(s)
			i -= mmin
			if !d || i < 0 || i >= depth {
				return new(big.Int), false
			}
			return s.loadWide(sg, int(i)), s.def[sg.doff+int(i)]
		}}
	case tkConcat:
		type part struct {
			f  wideFn
			sh uint
		}
		var parts []part
		sh := 0
		allConst := true
		for i := len(t.list) - 1; i >= 0; i-- {
			c := e.compileSelf(t.list[i])
			if !c.isConst {
				allConst = false
			}
			parts = append(parts, part{c.asBig(), uint(sh)})
			sh += t.list[i].w
		}
		own = cx{w: t.w, wfn: func(s *Sim) (*big.Int, bool) {
			r := new(big.Int)
			d := true
			for _, p := range parts {
				v, dv := p.f(s)
				r.Or(r, new(big.Int).Lsh(v, p.sh))
				d = d && dv
			}
			return r, d
		}}
		if allConst {
			own = fold(own)
		}
	case tkRepl:
		iw := t.w / maxInt(t.n, 1)
		inner := e.compile(&tx{k: tkConcat, w: iw, list: t.list}, iw, false)
		f := inner.asBig()
		n := t.n
		own = cx{w: t.w, wfn: func(s *Sim) (*big.Int, bool) {
			v, d := f(s)
			r := new(big.Int)
			for i := 0; i < n; i++ {
				r.Lsh(r, uint(iw))
				r.Or(r, v)
			}
			return r, d
		}}
		if inner.isConst {
			own = fold(own)
		}
	case tkCast:
		own = e.compileSelf(t.a)
	case tkPartSel, tkIdxPart:
		own = e.compileWideSelect(t)
	default:
		e.errorf("", t.line, ClassUnsupported, "", fmt.Sprintf("expression kind %d wider than 64 bits is not supported", t.k))
		return constCxBig(W, new(big.Int), false)
	}
	if W == t.w || !(S && t.sg) {
		own.w = W
		return own
	}
	f := own.wfn
	from := t.w
	r := cx{w: W, wfn: func(s *Sim) (*big.Int, bool) {
		v, d := f(s)
		return bigExtend(v, from, W, true), d
	}}
	if own.isConst {
		return fold(r)
	}
	return r
}

// compileWideSelect handles part selects whose result is wider than 64 bits.
func (e *elab) compileWideSelect(t *tx) cx {
	base := t.a
	var bf wideFn
	bw := base.w
	switch base.k {
	case tkSig, tkMemWord, tkConst:
		bf = e.compile(base, maxInt(base.w, 65), false).asBig()
	default:
		return constCxBig(t.w, new(big.Int), false)
	}
	w := t.w
	if t.k == tkPartSel {
		lo := t.lo
		return cx{w: w, wfn: func(s *Sim) (*big.Int, bool) {
			v, d := bf(s)
			return bigSlice(v, bw, int64(lo), w, d)
		}}
	}
	b := e.selectBase(base)
	ix := e.compileIndex(t.b).fn
	desc := b.msb >= b.lsb
	up := t.up
	return cx{w: w, wfn: func(s *Sim) (*big.Int, bool) {
		i, di := ix(s)
		if !di {
			return new(big.Int), false
		}
		p := b.bitPos(i)
		if desc != up {
			p -= int64(w - 1)
		}
		v, d := bf(s)
		return bigSlice(v, bw, p, w, d)
	}}
}

func bigSlice(v *big.Int, bw int, pos int64, w int, def bool) (*big.Int, bool) {
	in := pos >= 0 && pos+int64(w) <= int64(bw)
	if pos >= int64(bw) || pos+int64(w) <= 0 {
		return new(big.Int), false
	}
	r := new(big.Int)
	if pos < 0 {
		r.Lsh(v, uint(-pos))
	} else {
		r.Rsh(v, uint(pos))
	}
	return bigTrunc(r, w), def && in
}
