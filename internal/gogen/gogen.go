// Package gogen generates programs in the Go subset pkg/bondgo compiles and
// evaluates them under Go semantics (unsigned wrap-around at the register size).
// The generator works on its own small AST; Source() prints it as a Go file,
// Eval() is the reference ("go_eval" of property C12).
package gogen

import (
	"fmt"
	"math/rand/v2"
	"strings"
)

// Expr kinds: lit var read add mul call
type Expr struct {
	Kind string  `json:"k"`
	Val  uint64  `json:"v,omitempty"`
	Name string  `json:"n,omitempty"` // variable, input or function name
	L    *Expr   `json:"l,omitempty"`
	R    *Expr   `json:"r,omitempty"`
	Args []*Expr `json:"a,omitempty"`
}

// Case is one clause of a switch (no values = default).
type Case struct {
	Vals []uint64 `json:"vals,omitempty"`
	Body []*Stmt  `json:"body,omitempty"`
	Fall bool     `json:"fallthrough,omitempty"`
}

// Stmt kinds: assign tuple inc dec write if for break continue switch
type Stmt struct {
	Kind string `json:"k"`
	Name string `json:"n,omitempty"` // assigned variable / output name
	// tuple assignment "Names[0], Names[1], ... = Es[0], Es[1], ...": every right-hand side is
	// evaluated before any variable is stored
	Names  []string `json:"names,omitempty"`
	Es     []*Expr  `json:"es,omitempty"`
	E      *Expr    `json:"e,omitempty"` // value, or left side of a condition
	E2     *Expr    `json:"e2,omitempty"`
	Init   *Stmt    `json:"init,omitempty"`
	Post   *Stmt    `json:"post,omitempty"`
	Body   []*Stmt  `json:"body,omitempty"`
	Else   []*Stmt  `json:"else,omitempty"`
	HasEl  bool     `json:"has_else,omitempty"`
	ElseIf bool     `json:"else_if,omitempty"` // print "else if" when the else part is a single if
	Cases  []Case   `json:"cases,omitempty"`
}

// Func is a user function: parameters, optional local statements, one returned expression.
type Func struct {
	Name   string   `json:"name"`
	Params []string `json:"params"`
	Ret    *Expr    `json:"ret"`
}

type Prog struct {
	Rsize   int      `json:"rsize"`
	Inputs  []int    `json:"inputs"`  // global ids, input k is named inK
	Outputs []int    `json:"outputs"` // global ids, output k is named outK
	Vars    []string `json:"vars"`    // reg_* live in registers, others in RAM
	Funcs   []Func   `json:"funcs,omitempty"`
	Body    []*Stmt  `json:"body"`
	// TailChans: number of (unused) channel declarations closing main; they make a
	// channel allocation the compiler's last allocator interaction.
	TailChans int `json:"tail_chans,omitempty"`
}

func (p *Prog) typ() string { return fmt.Sprintf("uint%d", p.Rsize) }

// ---------------------------------------------------------------- printing

func (e *Expr) src() string {
	switch e.Kind {
	case "lit":
		return fmt.Sprint(e.Val)
	case "var":
		return e.Name
	case "read":
		return "bondgo.IORead(" + e.Name + ")"
	case "add":
		return e.L.src() + " + " + e.R.src()
	case "mul":
		l, r := e.L.src(), e.R.src()
		if e.L.Kind == "add" {
			l = "(" + l + ")"
		}
		if e.R.Kind == "add" {
			r = "(" + r + ")"
		}
		return l + " * " + r
	case "call":
		var a []string
		for _, x := range e.Args {
			a = append(a, x.src())
		}
		return e.Name + "(" + strings.Join(a, ", ") + ")"
	}
	return "?"
}

func (s *Stmt) simple() string {
	switch s.Kind {
	case "assign":
		return s.Name + " = " + s.E.src()
	case "tuple":
		var r []string
		for _, e := range s.Es {
			r = append(r, e.src())
		}
		return strings.Join(s.Names, ", ") + " = " + strings.Join(r, ", ")
	case "inc":
		return s.Name + "++"
	case "dec":
		return s.Name + "--"
	}
	return "?"
}

func block(sb *strings.Builder, body []*Stmt, ind string) {
	for _, s := range body {
		s.print(sb, ind)
	}
}

func (s *Stmt) print(sb *strings.Builder, ind string) {
	switch s.Kind {
	case "assign", "tuple", "inc", "dec":
		sb.WriteString(ind + s.simple() + "\n")
	case "write":
		sb.WriteString(ind + "bondgo.IOWrite(" + s.Name + ", " + s.E.src() + ")\n")
	case "break", "continue":
		sb.WriteString(ind + s.Kind + "\n")
	case "if":
		sb.WriteString(ind + "if " + s.E.src() + " == " + s.E2.src() + " {\n")
		block(sb, s.Body, ind+"\t")
		if s.HasEl && s.ElseIf && len(s.Else) == 1 && s.Else[0].Kind == "if" {
			// "else if": printed as a chain (the evaluator sees the same tree)
			var inner strings.Builder
			s.Else[0].print(&inner, ind)
			sb.WriteString(ind + "} else " + strings.TrimPrefix(inner.String(), ind))
			return
		}
		if s.HasEl {
			sb.WriteString(ind + "} else {\n")
			block(sb, s.Else, ind+"\t")
		}
		sb.WriteString(ind + "}\n")
	case "for":
		h := "for "
		if s.Init != nil || s.Post != nil {
			i, p := "", ""
			if s.Init != nil {
				i = s.Init.simple()
			}
			if s.Post != nil {
				p = s.Post.simple()
			}
			c := ""
			if s.E != nil {
				c = s.E.src() + " == " + s.E2.src()
			}
			h += i + "; " + c + "; " + p + " "
		} else if s.E != nil {
			h += s.E.src() + " == " + s.E2.src() + " "
		}
		sb.WriteString(ind + h + "{\n")
		block(sb, s.Body, ind+"\t")
		sb.WriteString(ind + "}\n")
	case "switch":
		sb.WriteString(ind + "switch " + s.E.src() + " {\n")
		for _, c := range s.Cases {
			if len(c.Vals) == 0 {
				sb.WriteString(ind + "default:\n")
			} else {
				var v []string
				for _, x := range c.Vals {
					v = append(v, fmt.Sprint(x))
				}
				sb.WriteString(ind + "case " + strings.Join(v, ", ") + ":\n")
			}
			block(sb, c.Body, ind+"\t")
			if c.Fall {
				sb.WriteString(ind + "\tfallthrough\n")
			}
		}
		sb.WriteString(ind + "}\n")
	}
}

// Source prints the program as a Go file for bondgo.
func (p *Prog) Source() string {
	var sb strings.Builder
	sb.WriteString("package main\n\nimport \"bondgo\"\n\n")
	for _, f := range p.Funcs {
		var ps []string
		for _, a := range f.Params {
			ps = append(ps, a+" "+p.typ())
		}
		sb.WriteString("func " + f.Name + "(" + strings.Join(ps, ", ") + ") " + p.typ() + " {\n\treturn " + f.Ret.src() + "\n}\n\n")
	}
	sb.WriteString("func main() {\n")
	for k := range p.Inputs {
		fmt.Fprintf(&sb, "\tvar in%d bondgo.Input\n", k)
	}
	for k := range p.Outputs {
		fmt.Fprintf(&sb, "\tvar out%d bondgo.Output\n", k)
	}
	for _, v := range p.Vars {
		fmt.Fprintf(&sb, "\tvar %s %s\n", v, p.typ())
	}
	for k, g := range p.Inputs {
		fmt.Fprintf(&sb, "\tin%d = bondgo.Make(bondgo.Input, %d)\n", k, g)
	}
	for k, g := range p.Outputs {
		fmt.Fprintf(&sb, "\tout%d = bondgo.Make(bondgo.Output, %d)\n", k, g)
	}
	block(&sb, p.Body, "\t")
	for k := 0; k < p.TailChans; k++ {
		fmt.Fprintf(&sb, "\tvar ch%d chan %s\n", k, p.typ())
	}
	sb.WriteString("}\n")
	return sb.String()
}

// ---------------------------------------------------------------- evaluation

type evalState struct {
	p     *Prog
	mask  uint64
	vars  map[string]uint64
	in    []uint64
	out   [][]uint64
	steps int
	max   int
	fail  string
	// eqFalse: see EvalAlt
	eqFalse bool
}

func (st *evalState) eq(a, b *Expr) bool {
	x, y := st.expr(a, nil), st.expr(b, nil)
	return x == y && !st.eqFalse
}

func (st *evalState) expr(e *Expr, env map[string]uint64) uint64 {
	st.steps++
	switch e.Kind {
	case "lit":
		return e.Val & st.mask
	case "var":
		if env != nil {
			if v, ok := env[e.Name]; ok {
				return v
			}
		}
		return st.vars[e.Name]
	case "read":
		var k int
		fmt.Sscanf(e.Name, "in%d", &k)
		return st.in[k] & st.mask
	case "add":
		l := st.expr(e.L, env)
		r := st.expr(e.R, env)
		return (l + r) & st.mask
	case "mul":
		l := st.expr(e.L, env)
		r := st.expr(e.R, env)
		return (l * r) & st.mask
	case "call":
		for _, f := range st.p.Funcs {
			if f.Name == e.Name {
				loc := map[string]uint64{}
				for i, a := range f.Params {
					loc[a] = st.expr(e.Args[i], env)
				}
				return st.expr(f.Ret, loc)
			}
		}
		st.fail = "unknown function " + e.Name
	}
	return 0
}

const (
	flowNone = iota
	flowBreak
	flowContinue
)

func (st *evalState) simple(s *Stmt) {
	switch s.Kind {
	case "assign":
		st.vars[s.Name] = st.expr(s.E, nil)
	case "tuple":
		vals := make([]uint64, len(s.Es))
		for i, e := range s.Es {
			vals[i] = st.expr(e, nil)
		}
		for i, n := range s.Names {
			st.vars[n] = vals[i]
		}
	case "inc":
		st.vars[s.Name] = (st.vars[s.Name] + 1) & st.mask
	case "dec":
		st.vars[s.Name] = (st.vars[s.Name] - 1) & st.mask
	}
}

func (st *evalState) run(body []*Stmt) int {
	for _, s := range body {
		st.steps++
		if st.steps > st.max {
			return flowBreak
		}
		switch s.Kind {
		case "assign", "tuple", "inc", "dec":
			st.simple(s)
		case "write":
			var k int
			fmt.Sscanf(s.Name, "out%d", &k)
			st.out[k] = append(st.out[k], st.expr(s.E, nil))
		case "break":
			return flowBreak
		case "continue":
			return flowContinue
		case "if":
			var f int
			if st.eq(s.E, s.E2) {
				f = st.run(s.Body)
			} else if s.HasEl {
				f = st.run(s.Else)
			}
			if f != flowNone {
				return f
			}
		case "for":
			if s.Init != nil {
				st.simple(s.Init)
			}
			for st.steps <= st.max {
				st.steps++
				if s.E != nil && !st.eq(s.E, s.E2) {
					break
				}
				if f := st.run(s.Body); f == flowBreak {
					break
				}
				if s.Post != nil {
					st.simple(s.Post)
				}
			}
		case "switch":
			tag := st.expr(s.E, nil)
			start := -1
			for i, c := range s.Cases {
				for _, v := range c.Vals {
					if v&st.mask == tag && start < 0 && !st.eqFalse {
						start = i
					}
				}
			}
			if start < 0 {
				for i, c := range s.Cases {
					if len(c.Vals) == 0 {
						start = i
					}
				}
			}
			for i := start; i >= 0 && i < len(s.Cases); i++ {
				f := st.run(s.Cases[i].Body)
				if f == flowBreak {
					break // break inside a switch leaves the switch
				}
				if f == flowContinue {
					return f
				}
				if !s.Cases[i].Fall {
					break
				}
			}
		}
	}
	return flowNone
}

// Eval runs the program with constant inputs; ok=false when the step bound was reached.
func (p *Prog) Eval(in []uint64, maxSteps int) (out [][]uint64, ok bool) {
	return p.EvalAlt(in, maxSteps, false)
}

// EvalAlt with eqFalse=true evaluates every == (and every switch case match) as false:
// the behaviour of a machine whose je opcode does nothing.
func (p *Prog) EvalAlt(in []uint64, maxSteps int, eqFalse bool) (out [][]uint64, ok bool) {
	st := &evalState{p: p, eqFalse: eqFalse, vars: map[string]uint64{}, in: in, out: make([][]uint64, len(p.Outputs)), max: maxSteps}
	st.mask = ^uint64(0)
	if p.Rsize < 64 {
		st.mask = 1<<uint(p.Rsize) - 1
	}
	st.run(p.Body)
	return st.out, st.steps <= st.max && st.fail == ""
}

// ---------------------------------------------------------------- generation

// Opts restricts the generator (used by shrinking/feature isolation).
type Opts struct {
	Rsize     int
	NoFuncs   bool
	NoSwitch  bool
	NoLoops   bool
	NoMemVars bool
	NoRegVars bool
	NoTuples  bool
	MaxStmts  int
	// Shape != 0: the program starts with one directed control-flow shape (see shape) before the
	// random statements
	Shape int
}

type gen struct {
	rng   *rand.Rand
	p     *Prog
	o     Opts
	ctrs  int
	inFor int
	// forceK / forceLoop (when >= 0) replace the next statement-kind / loop-form draw
	forceK, forceLoop int
	// variables reserved as loop counters/flags are not assigned by generated bodies
	reserved map[string]bool
}

func (g *gen) lit() *Expr {
	max := uint64(1)<<uint(g.p.Rsize) - 1
	if g.p.Rsize >= 64 {
		max = ^uint64(0)
	}
	switch g.rng.IntN(6) {
	case 0:
		return &Expr{Kind: "lit", Val: []uint64{0, 1, max, max - 1, max/2 + 1}[g.rng.IntN(5)]}
	case 1:
		return &Expr{Kind: "lit", Val: g.rng.Uint64() & max}
	}
	return &Expr{Kind: "lit", Val: uint64(g.rng.IntN(8))}
}

func (g *gen) freeVar() string {
	var c []string
	for _, v := range g.p.Vars {
		if !g.reserved[v] {
			c = append(c, v)
		}
	}
	return c[g.rng.IntN(len(c))]
}

func (g *gen) expr(depth int, params []string) *Expr {
	k := g.rng.IntN(10)
	if depth <= 0 && k >= 5 {
		k = g.rng.IntN(5)
	}
	switch {
	case k < 2:
		return g.lit()
	case k < 4:
		if params != nil {
			return &Expr{Kind: "var", Name: params[g.rng.IntN(len(params))]}
		}
		return &Expr{Kind: "var", Name: g.p.Vars[g.rng.IntN(len(g.p.Vars))]}
	case k == 4:
		if params == nil && len(g.p.Inputs) > 0 {
			return &Expr{Kind: "read", Name: fmt.Sprintf("in%d", g.rng.IntN(len(g.p.Inputs)))}
		}
		return g.lit()
	case k < 7:
		return &Expr{Kind: "add", L: g.expr(depth-1, params), R: g.expr(depth-1, params)}
	case k < 9:
		// pkg/bondgo has no parenthesised expressions: the operands of * are never sums
		l, r := g.expr(depth-1, params), g.expr(depth-1, params)
		if l.Kind == "add" {
			l = g.lit()
		}
		if r.Kind == "add" {
			r = g.lit()
		}
		return &Expr{Kind: "mul", L: l, R: r}
	default:
		if params == nil && len(g.p.Funcs) > 0 {
			f := g.p.Funcs[g.rng.IntN(len(g.p.Funcs))]
			e := &Expr{Kind: "call", Name: f.Name}
			for range f.Params {
				e.Args = append(e.Args, g.expr(depth-1, nil))
			}
			return e
		}
		return &Expr{Kind: "add", L: g.expr(depth-1, params), R: g.expr(depth-1, params)}
	}
}

// tuple draws "a, b[, c] = ..." over distinct free variables; the right-hand sides read the assigned
// variables themselves (swap, rotation, a, b = b, a+b), so storing a value before every right-hand
// side has been evaluated changes the result.
func (g *gen) tuple() *Stmt {
	var free []string
	for _, v := range g.p.Vars {
		if !g.reserved[v] {
			free = append(free, v)
		}
	}
	if len(free) < 2 {
		return nil
	}
	g.rng.Shuffle(len(free), func(i, j int) { free[i], free[j] = free[j], free[i] })
	n := 2
	if len(free) > 2 && g.rng.IntN(3) == 0 {
		n = 3
	}
	s := &Stmt{Kind: "tuple", Names: free[:n]}
	v := func(i int) *Expr { return &Expr{Kind: "var", Name: free[i%n]} }
	for i := 0; i < n; i++ {
		switch g.rng.IntN(4) {
		case 0: // rotation
			s.Es = append(s.Es, v(i+1))
		case 1:
			s.Es = append(s.Es, &Expr{Kind: "add", L: v(i), R: v(i + 1)})
		case 2:
			s.Es = append(s.Es, &Expr{Kind: []string{"add", "mul"}[g.rng.IntN(2)], L: v(i + 1), R: g.lit()})
		default:
			s.Es = append(s.Es, g.expr(1, nil))
		}
	}
	return s
}

func (g *gen) stmts(n, depth int) []*Stmt {
	var out []*Stmt
	for i := 0; i < n; i++ {
		out = append(out, g.stmt(depth)...)
	}
	return out
}

func (g *gen) newCounter() string {
	name := fmt.Sprintf("c%d", g.ctrs)
	if g.rng.IntN(2) == 0 && !g.o.NoRegVars {
		name = fmt.Sprintf("reg_c%d", g.ctrs)
	}
	g.ctrs++
	g.p.Vars = append(g.p.Vars, name)
	g.reserved[name] = true
	return name
}

func (g *gen) stmt(depth int) []*Stmt {
	k := g.rng.IntN(12)
	if depth <= 0 && k >= 6 {
		k = g.rng.IntN(6)
	}
	if g.forceK >= 0 {
		k, g.forceK = g.forceK, -1
	}
	switch {
	case k < 3:
		if !g.o.NoTuples && g.rng.IntN(4) == 0 {
			if t := g.tuple(); t != nil {
				return []*Stmt{t}
			}
		}
		if len(g.p.Funcs) > 0 && g.rng.IntN(4) == 0 {
			// several calls (and other temporaries) alive in one expression, and a call result that is
			// kept in a variable while later temporaries are allocated
			call := func() *Expr {
				f := g.p.Funcs[g.rng.IntN(len(g.p.Funcs))]
				e := &Expr{Kind: "call", Name: f.Name}
				for range f.Params {
					e.Args = append(e.Args, g.expr(0, nil))
				}
				return e
			}
			v := func() *Expr { return &Expr{Kind: "var", Name: g.p.Vars[g.rng.IntN(len(g.p.Vars))]} }
			prod := func() *Expr { return &Expr{Kind: "mul", L: v(), R: v()} }
			switch g.rng.IntN(4) {
			case 0:
				return []*Stmt{{Kind: "assign", Name: g.freeVar(), E: &Expr{Kind: "add", L: call(), R: call()}}}
			case 1:
				return []*Stmt{{Kind: "assign", Name: g.freeVar(), E: &Expr{Kind: "add", L: call(), R: prod()}}}
			case 2:
				return []*Stmt{{Kind: "assign", Name: g.freeVar(), E: &Expr{Kind: "add", L: &Expr{Kind: "add", L: call(), R: call()}, R: call()}}}
			default:
				keep := g.freeVar()
				return []*Stmt{{Kind: "assign", Name: keep, E: call()},
					{Kind: "assign", Name: g.freeVar(), E: &Expr{Kind: "add", L: &Expr{Kind: "add", L: v(), R: prod()}, R: v()}},
					{Kind: "write", Name: fmt.Sprintf("out%d", g.rng.IntN(len(g.p.Outputs))), E: &Expr{Kind: "var", Name: keep}}}
			}
		}
		return []*Stmt{{Kind: "assign", Name: g.freeVar(), E: g.expr(2, nil)}}
	case k == 3:
		return []*Stmt{{Kind: []string{"inc", "dec"}[g.rng.IntN(2)], Name: g.freeVar()}}
	case k < 6:
		return []*Stmt{{Kind: "write", Name: fmt.Sprintf("out%d", g.rng.IntN(len(g.p.Outputs))), E: g.expr(2, nil)}}
	case k < 8:
		s := &Stmt{Kind: "if", E: g.expr(1, nil), E2: g.expr(1, nil), Body: g.stmts(1+g.rng.IntN(2), depth-1)}
		if g.rng.IntN(2) == 0 {
			// make equality likely
			s.E2 = s.E
			if g.rng.IntN(2) == 0 {
				s.E = &Expr{Kind: "var", Name: g.p.Vars[g.rng.IntN(len(g.p.Vars))]}
				s.E2 = g.lit()
			}
		}
		if g.rng.IntN(2) == 0 {
			s.HasEl = true
			s.Else = g.stmts(1+g.rng.IntN(2), depth-1)
			if depth > 0 && g.rng.IntN(3) == 0 {
				// an else-if chain
				in := &Stmt{Kind: "if", E: &Expr{Kind: "var", Name: g.p.Vars[g.rng.IntN(len(g.p.Vars))]}, E2: g.lit(), Body: g.stmts(1, 0)}
				if g.rng.IntN(2) == 0 {
					in.HasEl = true
					in.Else = g.stmts(1, 0)
				}
				s.Else, s.ElseIf = []*Stmt{in}, true
			}
		}
		if g.inFor > 0 && g.rng.IntN(3) == 0 {
			s.Body = append(s.Body, &Stmt{Kind: []string{"break", "continue"}[g.rng.IntN(2)]})
		}
		return []*Stmt{s}
	case k < 10:
		if g.o.NoLoops {
			return g.stmt(0)
		}
		c := g.newCounter()
		n := uint64(1 + g.rng.IntN(4))
		cv := &Expr{Kind: "var", Name: c}
		g.inFor++
		body := g.stmts(1+g.rng.IntN(2), depth-1)
		g.inFor--
		lf := g.rng.IntN(6)
		if g.forceLoop >= 0 {
			lf, g.forceLoop = g.forceLoop, -1
		}
		switch lf {
		case 3: // for c = n; f == 0; c-- { if c == 1 { f = 1 }; body }   (counting down, post is a decrement)
			f := g.newCounter()
			fv := &Expr{Kind: "var", Name: f}
			loop := &Stmt{Kind: "for", Init: &Stmt{Kind: "assign", Name: c, E: &Expr{Kind: "lit", Val: n}}, Post: &Stmt{Kind: "dec", Name: c},
				E: fv, E2: &Expr{Kind: "lit", Val: 0}}
			loop.Body = append([]*Stmt{{Kind: "if", E: cv, E2: &Expr{Kind: "lit", Val: 1}, Body: []*Stmt{{Kind: "assign", Name: f, E: &Expr{Kind: "lit", Val: 1}}}}}, body...)
			return []*Stmt{{Kind: "assign", Name: f, E: &Expr{Kind: "lit", Val: 0}}, loop}
		case 4: // c = n; d = n; for c == d { body; c++ }   (the condition compares two variables)
			d := g.newCounter()
			loop := &Stmt{Kind: "for", E: cv, E2: &Expr{Kind: "var", Name: d}}
			loop.Body = append(append([]*Stmt{}, body...), &Stmt{Kind: "inc", Name: c})
			// a continue in the body would skip the increment: put it first instead
			loop.Body = append([]*Stmt{{Kind: "inc", Name: c}}, body...)
			return []*Stmt{{Kind: "assign", Name: c, E: &Expr{Kind: "lit", Val: n}}, {Kind: "assign", Name: d, E: &Expr{Kind: "lit", Val: n}}, loop}
		case 5: // for c = 0; c == 0; c++ { }   (one iteration of an empty body), then the drawn body once
			loop := &Stmt{Kind: "for", Init: &Stmt{Kind: "assign", Name: c, E: &Expr{Kind: "lit", Val: 0}}, Post: &Stmt{Kind: "inc", Name: c}, E: cv, E2: &Expr{Kind: "lit", Val: 0}}
			return append([]*Stmt{loop}, body...)
		case 0: // c = 0; for { if c == n { break }; body; c++ }
			loop := &Stmt{Kind: "for"}
			loop.Body = append([]*Stmt{{Kind: "if", E: cv, E2: &Expr{Kind: "lit", Val: n}, Body: []*Stmt{{Kind: "break"}}}}, body...)
			// a continue in the body would skip the increment: place the increment first
			loop.Body = append([]*Stmt{loop.Body[0], {Kind: "inc", Name: c}}, loop.Body[1:]...)
			return []*Stmt{{Kind: "assign", Name: c, E: &Expr{Kind: "lit", Val: 0}}, loop}
		case 1: // for c = 0; f == 0; c++ { if c == n-1 { f = 1 }; body }
			f := g.newCounter()
			fv := &Expr{Kind: "var", Name: f}
			loop := &Stmt{Kind: "for", Init: &Stmt{Kind: "assign", Name: c, E: &Expr{Kind: "lit", Val: 0}}, Post: &Stmt{Kind: "inc", Name: c},
				E: fv, E2: &Expr{Kind: "lit", Val: 0}}
			loop.Body = []*Stmt{{Kind: "if", E: cv, E2: &Expr{Kind: "lit", Val: n - 1}, Body: []*Stmt{{Kind: "assign", Name: f, E: &Expr{Kind: "lit", Val: 1}}}}}
			if g.rng.IntN(2) == 0 {
				// one iteration skips the rest of the body: the post statement must still run
				loop.Body = append(loop.Body, &Stmt{Kind: "if", E: cv, E2: &Expr{Kind: "lit", Val: uint64(g.rng.IntN(int(n)))}, Body: []*Stmt{{Kind: "continue"}}})
			}
			loop.Body = append(loop.Body, body...)
			return []*Stmt{{Kind: "assign", Name: f, E: &Expr{Kind: "lit", Val: 0}}, loop}
		default: // c = n; for c == n { body; c++ }  (one iteration, condition-only form)
			loop := &Stmt{Kind: "for", E: cv, E2: &Expr{Kind: "lit", Val: n}}
			loop.Body = append([]*Stmt{{Kind: "inc", Name: c}}, body...)
			return []*Stmt{{Kind: "assign", Name: c, E: &Expr{Kind: "lit", Val: n}}, loop}
		}
	default:
		if g.o.NoSwitch {
			return g.stmt(0)
		}
		s := &Stmt{Kind: "switch", E: &Expr{Kind: "var", Name: g.p.Vars[g.rng.IntN(len(g.p.Vars))]}}
		if g.rng.IntN(3) == 0 {
			s.E = g.expr(1, nil)
		}
		nc := 1 + g.rng.IntN(3)
		used := map[uint64]bool{}
		for i := 0; i < nc; i++ {
			c := Case{}
			for j := 0; j < 1+g.rng.IntN(2); j++ {
				v := uint64(g.rng.IntN(6))
				if !used[v] {
					used[v] = true
					c.Vals = append(c.Vals, v)
				}
			}
			if len(c.Vals) == 0 {
				continue
			}
			cd := 0
			if depth > 0 && g.rng.IntN(2) == 0 {
				cd = depth - 1 // loops and ifs (with their own break/continue) inside a case body
			}
			c.Body = g.stmts(1+g.rng.IntN(2), cd)
			s.Cases = append(s.Cases, c)
		}
		if g.rng.IntN(2) == 0 {
			s.Cases = append(s.Cases, Case{Body: g.stmts(1, 0)})
		}
		if len(s.Cases) == 0 {
			return g.stmt(0)
		}
		for i := 0; i+1 < len(s.Cases); i++ {
			if g.rng.IntN(5) == 0 {
				s.Cases[i].Fall = true
			}
		}
		return []*Stmt{s}
	}
}

// loop draws one loop of the given form (0 endless+break, 1 flag+post+continue, 2 condition only,
// 3 counting down, 4 two-variable condition, 5 empty body) with a simple body.
func (g *gen) loop(form int) []*Stmt {
	g.forceK, g.forceLoop = 8, form
	return g.stmt(1)
}

// simple draws one statement with an observable effect and no control flow.
func (g *gen) simple() []*Stmt {
	if g.rng.IntN(2) == 0 {
		return []*Stmt{{Kind: "write", Name: fmt.Sprintf("out%d", g.rng.IntN(len(g.p.Outputs))), E: g.expr(1, nil)}}
	}
	return []*Stmt{{Kind: "assign", Name: g.freeVar(), E: &Expr{Kind: "add", L: &Expr{Kind: "var", Name: g.p.Vars[g.rng.IntN(len(g.p.Vars))]}, R: g.lit()}}}
}

// shape builds one directed control-flow shape; each is a nesting whose exits (break, continue,
// fallthrough, the jump over an else part) have a neighbouring construct they could be confused with,
// followed by a statement whose effect shows which exit was taken.
//
//	1: a loop ended by break inside a case body, with a statement after the loop in the same case
//	2: a switch inside a loop, a case body leaving the switch with break, a statement after the switch
//	3: an if/else whose then-part ends with a loop (its last line is the loop's back jump)
//	4: a case falling through into default, and one falling through into a case list
//	5: an else-if chain whose middle branch ends with a loop
//	6: a loop whose body ends with an if/else both of whose branches end with continue / break
func (g *gen) shape(k int) []*Stmt {
	v := g.p.Vars[g.rng.IntN(len(g.p.Vars))]
	vv := &Expr{Kind: "var", Name: v}
	a := uint64(g.rng.IntN(4))
	lit := func(x uint64) *Expr { return &Expr{Kind: "lit", Val: x} }
	set := &Stmt{Kind: "assign", Name: v, E: lit(a + uint64(g.rng.IntN(2)))} // the tested value or its neighbour
	forms := []int{0, 0, 1, 2, 3, 4}
	switch k {
	case 1:
		sw := &Stmt{Kind: "switch", E: vv}
		c := Case{Vals: []uint64{a}}
		if g.rng.IntN(2) == 0 {
			c.Body = g.simple()
		}
		c.Body = append(c.Body, g.loop(0)...)
		c.Body = append(c.Body, g.simple()...)
		sw.Cases = append(sw.Cases, c)
		if g.rng.IntN(2) == 0 {
			sw.Cases = append(sw.Cases, Case{Vals: []uint64{a + 1}, Body: append(g.loop(forms[g.rng.IntN(len(forms))]), g.simple()...)})
		}
		if g.rng.IntN(2) == 0 {
			sw.Cases = append(sw.Cases, Case{Body: append(g.loop(0), g.simple()...)})
		}
		return append([]*Stmt{set, sw}, g.simple()...)
	case 2:
		c := g.newCounter()
		f := g.newCounter()
		cv, fv := &Expr{Kind: "var", Name: c}, &Expr{Kind: "var", Name: f}
		n := uint64(2 + g.rng.IntN(3))
		loop := &Stmt{Kind: "for", Init: &Stmt{Kind: "assign", Name: c, E: lit(0)}, Post: &Stmt{Kind: "inc", Name: c}, E: fv, E2: lit(0)}
		loop.Body = []*Stmt{{Kind: "if", E: cv, E2: lit(n - 1), Body: []*Stmt{{Kind: "assign", Name: f, E: lit(1)}}}}
		sw := &Stmt{Kind: "switch", E: cv}
		g.inFor++
		b0 := append(g.simple(), &Stmt{Kind: "if", E: vv, E2: lit(a), Body: []*Stmt{{Kind: "break"}}})
		b0 = append(b0, g.simple()...)
		sw.Cases = append(sw.Cases, Case{Vals: []uint64{uint64(g.rng.IntN(int(n)))}, Body: b0})
		sw.Cases = append(sw.Cases, Case{Body: append(g.simple(), &Stmt{Kind: "break"})})
		g.inFor--
		loop.Body = append(loop.Body, sw)
		loop.Body = append(loop.Body, g.simple()...)
		return append([]*Stmt{set, {Kind: "assign", Name: f, E: lit(0)}, loop}, g.simple()...)
	case 3:
		s := &Stmt{Kind: "if", E: vv, E2: lit(a), HasEl: true}
		s.Body = append(g.simple(), g.loop(forms[g.rng.IntN(len(forms))])...)
		s.Else = g.simple()
		if g.rng.IntN(3) == 0 {
			s.Else = append(s.Else, g.loop(forms[g.rng.IntN(len(forms))])...)
		}
		return append([]*Stmt{set, s}, g.simple()...)
	case 4:
		sw := &Stmt{Kind: "switch", E: vv}
		sw.Cases = append(sw.Cases, Case{Vals: []uint64{a}, Body: g.simple(), Fall: true})
		if g.rng.IntN(2) == 0 {
			sw.Cases = append(sw.Cases, Case{Vals: []uint64{a + 2, a + 3}, Body: g.simple(), Fall: g.rng.IntN(2) == 0})
		}
		sw.Cases = append(sw.Cases, Case{Body: g.simple()})
		return append([]*Stmt{set, sw}, g.simple()...)
	case 5:
		in := &Stmt{Kind: "if", E: vv, E2: lit(a + 1), Body: append(g.simple(), g.loop(forms[g.rng.IntN(len(forms))])...), HasEl: true, Else: g.simple()}
		s := &Stmt{Kind: "if", E: vv, E2: lit(a), Body: g.simple(), HasEl: true, Else: []*Stmt{in}, ElseIf: true}
		return append([]*Stmt{set, s}, g.simple()...)
	default:
		c := g.newCounter()
		cv := &Expr{Kind: "var", Name: c}
		n := uint64(2 + g.rng.IntN(3))
		loop := &Stmt{Kind: "for"}
		g.inFor++
		tail := &Stmt{Kind: "if", E: vv, E2: lit(a), Body: append(g.simple(), &Stmt{Kind: "continue"}), HasEl: true,
			Else: append(g.simple(), &Stmt{Kind: []string{"break", "continue"}[g.rng.IntN(2)]})}
		g.inFor--
		loop.Body = []*Stmt{{Kind: "if", E: cv, E2: lit(n), Body: []*Stmt{{Kind: "break"}}}, {Kind: "inc", Name: c}}
		loop.Body = append(loop.Body, g.simple()...)
		loop.Body = append(loop.Body, tail)
		return append([]*Stmt{set, {Kind: "assign", Name: c, E: lit(0)}, loop}, g.simple()...)
	}
}

// Generate draws one program.
func Generate(rng *rand.Rand, o Opts) *Prog {
	if o.Rsize == 0 {
		o.Rsize = []int{8, 16, 32}[rng.IntN(3)]
	}
	if o.MaxStmts == 0 {
		o.MaxStmts = 8
	}
	p := &Prog{Rsize: o.Rsize}
	g := &gen{rng: rng, p: p, o: o, reserved: map[string]bool{}, forceK: -1, forceLoop: -1}
	for k := 0; k < rng.IntN(3); k++ {
		p.Inputs = append(p.Inputs, 21+k+rng.IntN(2)*10)
	}
	for k := 0; k < 1+rng.IntN(2); k++ {
		p.Outputs = append(p.Outputs, 1+k+rng.IntN(2)*10)
	}
	nm, nr := 1+rng.IntN(3), rng.IntN(3)
	if o.NoMemVars {
		nm, nr = 0, 1+rng.IntN(3)
	}
	if o.NoRegVars {
		nr = 0
		if nm == 0 {
			nm = 1
		}
	}
	for k := 0; k < nm; k++ {
		p.Vars = append(p.Vars, fmt.Sprintf("v%d", k))
	}
	for k := 0; k < nr; k++ {
		p.Vars = append(p.Vars, fmt.Sprintf("reg_%d", k))
	}
	if !o.NoFuncs {
		for k := 0; k < rng.IntN(3); k++ {
			f := Func{Name: fmt.Sprintf("f%d", k)}
			for a := 0; a < 1+rng.IntN(2); a++ {
				f.Params = append(f.Params, fmt.Sprintf("a%d", a))
			}
			f.Ret = g.expr(2, f.Params)
			p.Funcs = append(p.Funcs, f)
		}
	}
	if o.Shape != 0 {
		p.Body = g.shape(o.Shape)
	}
	p.Body = append(p.Body, g.stmts(2+rng.IntN(o.MaxStmts), 2)...)
	// end with a write of every variable so that all final state is observable
	for i, v := range p.Vars {
		p.Body = append(p.Body, &Stmt{Kind: "write", Name: fmt.Sprintf("out%d", i%len(p.Outputs)), E: &Expr{Kind: "var", Name: v}})
	}
	return p
}
