package gogen

import (
	"fmt"
	"math/rand/v2"
	"strings"
)

// GenerateMpm draws a multi-processor program: main starts 1..3 goroutines that talk to it (and to
// each other) through channels. Only the source text is produced: neither back end of this tree can
// execute the channel opcodes (the simulator's wrd/wwr panic, the channel shared object does not
// lint), so such programs are used for the compiler's termination and determinism only.
func GenerateMpm(rng *rand.Rand, rsize int) string {
	t := fmt.Sprintf("uint%d", rsize)
	nw := 1 + rng.IntN(3)
	var sb strings.Builder
	sb.WriteString("package main\n\nimport \"bondgo\"\n\n")
	ops := []string{"+", "*"}
	for w := 0; w < nw; w++ {
		fmt.Fprintf(&sb, "func worker%d(cin chan %s, cout chan %s) {\n\tvar reg_x %s\n", w, t, t, t)
		if rng.IntN(2) == 0 {
			fmt.Fprintf(&sb, "\tvar y %s\n\ty = %d\n", t, rng.IntN(7))
		}
		sb.WriteString("\tfor {\n\t\treg_x = <-cin\n")
		for k := 0; k < 1+rng.IntN(3); k++ {
			fmt.Fprintf(&sb, "\t\treg_x = reg_x %s %d\n", ops[rng.IntN(2)], 1+rng.IntN(5))
		}
		if rng.IntN(3) == 0 {
			sb.WriteString("\t\treg_x++\n")
		}
		sb.WriteString("\t\tcout <- reg_x\n\t}\n}\n\n")
	}
	// goroutines without arguments, started by main before anything else: the new processor is numbered
	// while the usage monitor may still be recording the previous one
	nsolo := 0
	if rng.IntN(2) == 0 {
		nsolo = 1 + rng.IntN(2)
	}
	for k := 0; k < nsolo; k++ {
		fmt.Fprintf(&sb, "func solo%d() {\n\tvar so bondgo.Output\n\tvar reg_s %s\n\tso = bondgo.Make(bondgo.Output, %d)\n\tfor {\n\t\treg_s++\n\t\tbondgo.IOWrite(so, reg_s)\n\t}\n}\n\n", k, t, 40+k)
	}
	sb.WriteString("func main() {\n")
	for k := 0; k < nsolo; k++ {
		fmt.Fprintf(&sb, "\tgo solo%d()\n", k)
	}
	sb.WriteString("\tvar out0 bondgo.Output\n")
	if rng.IntN(2) == 0 {
		sb.WriteString("\tvar in0 bondgo.Input\n")
	}
	for c := 0; c <= nw; c++ {
		fmt.Fprintf(&sb, "\tvar c%d chan %s\n", c, t)
	}
	fmt.Fprintf(&sb, "\tvar reg_a %s\n\tout0 = bondgo.Make(bondgo.Output, 1)\n", t)
	hasIn := strings.Contains(sb.String(), "var in0 bondgo.Input")
	if hasIn {
		sb.WriteString("\tin0 = bondgo.Make(bondgo.Input, 21)\n")
	}
	// a pipeline of workers c0 -> w0 -> c1 -> w1 ... -> c(nw)
	for w := 0; w < nw; w++ {
		fmt.Fprintf(&sb, "\tgo worker%d(c%d, c%d)\n", w, w, w+1)
	}
	fmt.Fprintf(&sb, "\treg_a = %d\n\tfor {\n", 1+rng.IntN(9))
	if hasIn && rng.IntN(2) == 0 {
		sb.WriteString("\t\treg_a = bondgo.IORead(in0)\n")
	}
	fmt.Fprintf(&sb, "\t\tc0 <- reg_a\n\t\treg_a = <-c%d\n\t\tbondgo.IOWrite(out0, reg_a)\n\t}\n}\n", nw)
	return sb.String()
}
