// Package bmsim runs a whole BondMachine on both back ends behind one interface:
// the Go simulator (bondmachine.VM through simdrv) and the generated top-level
// Verilog executed by vsim, each under the protocol environment of DESIGN
// Appendix B, with probes on every processor's pc and registers.
package bmsim

import (
	"fmt"

	"github.com/BondMachineHQ/BondMachine/pkg/bondmachine"
	"verif/internal/hdl"
	"verif/internal/simdrv"
	"verif/internal/vsim"
)

// Machine is one running back end.
type Machine interface {
	Step() error
	Pc(p int) uint64
	Reg(p, r int) uint64
	Out() [][]uint64 // values transferred on each external output so far
	InTaken() []int  // number of values taken from each external input so far
	Ticks() int
	Close()
}

// ---- Go ---------------------------------------------------------------------------

type goM struct{ r *simdrv.Runner }

// NewGo starts the Go simulator on bm.
func NewGo(bm *bondmachine.Bondmachine, env simdrv.Env) (Machine, error) {
	r, err := simdrv.Start(bm, env)
	if err != nil {
		return nil, err
	}
	return &goM{r}, nil
}

func u64(v interface{}) uint64 {
	switch x := v.(type) {
	case uint8:
		return uint64(x)
	case uint16:
		return uint64(x)
	case uint32:
		return uint64(x)
	case uint64:
		return x
	}
	return 0
}

func (g *goM) Step() error         { return g.r.Tick(false) }
func (g *goM) Pc(p int) uint64     { return g.r.VM.Processors[p].Pc }
func (g *goM) Reg(p, r int) uint64 { return u64(g.r.VM.Processors[p].Registers[r]) }
func (g *goM) Out() [][]uint64     { return g.r.Res.Out }
func (g *goM) Ticks() int          { return g.r.Res.Ticks }
func (g *goM) Close()              { g.r.Stop() }
func (g *goM) InTaken() []int {
	t := make([]int, len(g.r.Res.InTick))
	for i, x := range g.r.Res.InTick {
		t[i] = len(x)
	}
	return t
}

// ---- HDL --------------------------------------------------------------------------

type inSt struct{ phase, next, gap int }
type outSt struct {
	seen int
	high bool
}

type hdlM struct {
	sim   *vsim.Sim
	env   simdrv.Env
	ins   []inSt
	outs  []outSt
	out   [][]uint64
	ticks int
}

// Files renders the whole file set of bm (serialised inside hdl.FileSet).
func Files(scratch string, bm *bondmachine.Bondmachine) (map[string]string, error) {
	return hdl.FileSet(scratch, bm, nil, "iverilog")
}

// Elab parses and elaborates the file set at module bondmachine.
func Elab(files map[string]string) (*vsim.Design, *vsim.Sim, error) {
	fs := map[string]string{}
	for k, v := range files {
		if k == "bondmachine_tb.v" {
			continue
		}
		fs[k] = v
	}
	d, diags := vsim.ParseFiles(fs)
	for _, dg := range diags {
		if dg.Class == vsim.ClassSyntax {
			return nil, nil, fmt.Errorf("generated Verilog does not parse: %s", dg.String())
		}
	}
	sim, err := d.Elaborate("bondmachine", nil)
	if err != nil {
		return d, nil, err
	}
	return d, sim, nil
}

// NewHDL elaborates the files and applies reset.
func NewHDL(files map[string]string, nIn, nOut int, env simdrv.Env) (Machine, error) {
	_, sim, err := Elab(files)
	if err != nil {
		return nil, err
	}
	h := &hdlM{sim: sim, env: env, ins: make([]inSt, nIn), outs: make([]outSt, nOut), out: make([][]uint64, nOut)}
	sim.Set("clk", 0)
	sim.Set("reset", 0)
	for k := 0; k < nIn; k++ {
		sim.Set(fmt.Sprintf("i%d", k), 0)
		sim.Set(fmt.Sprintf("i%d_valid", k), 0)
	}
	for k := 0; k < nOut; k++ {
		sim.Set(fmt.Sprintf("o%d_received", k), 0)
	}
	if err := sim.Settle(); err != nil {
		return nil, err
	}
	sim.Set("reset", 1)
	if err := sim.Settle(); err != nil {
		return nil, err
	}
	if err := sim.Cycle("clk"); err != nil {
		return nil, err
	}
	sim.Set("reset", 0)
	if err := sim.Settle(); err != nil {
		return nil, err
	}
	return h, nil
}

func (h *hdlM) get(n string) uint64 {
	v, _, _ := h.sim.Get(n)
	return v
}

func (h *hdlM) Step() error {
	for k := range h.ins {
		var st []uint64
		if k < len(h.env.In) {
			st = h.env.In[k]
		}
		s := &h.ins[k]
		present := func() {
			h.sim.Set(fmt.Sprintf("i%d", k), st[s.next])
			h.sim.Set(fmt.Sprintf("i%d_valid", k), 1)
			s.phase = 1
		}
		switch s.phase {
		case 0:
			if s.gap > 0 {
				s.gap--
			} else if s.next < len(st) {
				present()
			}
		case 1:
			if h.get(fmt.Sprintf("i%d_received", k)) != 0 {
				h.sim.Set(fmt.Sprintf("i%d_valid", k), 0)
				s.next++
				s.phase = 2
			}
		case 2:
			if h.get(fmt.Sprintf("i%d_received", k)) == 0 {
				s.phase = 0
				if k < len(h.env.Gap) {
					s.gap = h.env.Gap[k]
				}
				if s.gap == 0 && s.next < len(st) {
					present()
				}
			}
		}
	}
	if err := h.sim.Cycle("clk"); err != nil {
		return err
	}
	for k := range h.outs {
		o := &h.outs[k]
		ack := 1
		if k < len(h.env.AckDelay) && h.env.AckDelay[k] > 1 {
			ack = h.env.AckDelay[k]
		}
		if h.get(fmt.Sprintf("o%d_valid", k)) != 0 {
			if !o.high {
				o.seen++
				if o.seen >= ack {
					h.sim.Set(fmt.Sprintf("o%d_received", k), 1)
					o.high = true
					h.out[k] = append(h.out[k], h.get(fmt.Sprintf("o%d", k)))
				}
			}
		} else {
			o.seen = 0
			if o.high {
				h.sim.Set(fmt.Sprintf("o%d_received", k), 0)
				o.high = false
			}
		}
	}
	h.ticks++
	return nil
}

func (h *hdlM) Pc(p int) uint64     { return h.get(fmt.Sprintf("a%d_inst.p%d_instance._pc", p, p)) }
func (h *hdlM) Reg(p, r int) uint64 { return h.get(fmt.Sprintf("a%d_inst.p%d_instance._r%d", p, p, r)) }
func (h *hdlM) Out() [][]uint64     { return h.out }
func (h *hdlM) Ticks() int          { return h.ticks }
func (h *hdlM) Close()              {}
func (h *hdlM) InTaken() []int {
	t := make([]int, len(h.ins))
	for i, s := range h.ins {
		t[i] = s.next
	}
	return t
}

// Sim exposes the vsim instance of an HDL machine (nil for the Go back end).
func Sim(m Machine) *vsim.Sim {
	if h, ok := m.(*hdlM); ok {
		return h.sim
	}
	return nil
}
