#!/usr/bin/env python3
"""usage: seedkeep.py <name> <SEED dir> <caught_by> [notes]  — files a confirmed seeded change under /verif/seeded/<name>/"""
import sys, os, json, shutil
name, src, caught = sys.argv[1:4]
notes = sys.argv[4] if len(sys.argv) > 4 else ''
dst = os.path.join('/verif/seeded', name)
shutil.rmtree(dst, ignore_errors=True)
os.makedirs(dst)
shutil.copy(os.path.join(src, 'patch.diff'), dst)
if os.path.isdir(os.path.join(src, 'demo')):
    shutil.copytree(os.path.join(src, 'demo'), os.path.join(dst, 'demo'), ignore=shutil.ignore_patterns('bin', '*.o', 'out*', 'tmp*'))
try:
    m = json.load(open(os.path.join(src, 'meta.json')))
except Exception as e:
    m = {'title': name, 'note_meta': 'meta.json of the agent was not valid JSON: %s' % e}
m['caught_by'] = caught
m['notes'] = notes
m['confirmed'] = 'applies to /repo, builds, tests of touched packages pass, demonstration reproduced (tools/seedtest.sh)'
json.dump(m, open(os.path.join(dst, 'meta.json'), 'w'), indent=1)
print('kept', dst, sum(os.path.getsize(os.path.join(r, f)) for r, _, fs in os.walk(dst) for f in fs), 'bytes')
