#!/usr/bin/env python3
"""Regenerates the generated blocks of DESIGN.md: findings (from known_findings.json) and
seeded changes (from seeded/*/meta.json)."""
import json, glob, os, re
root = os.path.dirname(os.path.dirname(os.path.abspath(__file__)))
d = json.load(open(os.path.join(root, 'known_findings.json')))
out = []
out.append('#### Repaired defects (one `fix:` commit each in /repo; the checks pass on the repaired tree and report the violation again if it returns)\n')
for f in sorted((f for f in d['findings'] if f['status'] == 'fixed'), key=lambda f: f['property']):
    what = re.sub(r'^fixed: property=\S+ \S+ ', '', f['what'])
    out.append(f"* {f['property']} `{f.get('commit','')}` — {what}")
out.append('\n#### Known findings (genuine defects recorded, not repaired; printed as KNOWN-FINDING, exit 0; anything not matched is a VIOLATION)\n')
byp = {}
for f in d['findings']:
    if f['status'] == 'known':
        byp.setdefault(f['property'], []).append(f)
for p in sorted(byp):
    fs = byp[p]
    if len(fs) > 8:
        out.append(f"* {p} — {len(fs)} entries (see known_findings.json), e.g. `{fs[0]['key']}` — {fs[0]['what']}")
    else:
        for f in fs:
            out.append(f"* {p} `{f['key']}` — {f['what']}")
findings = '\n'.join(out) + '\n'
rows = ['| seeded change | property | what it breaks | caught by (tier) | notes |', '|---|---|---|---|---|']
for m in sorted(glob.glob(os.path.join(root, 'seeded', '*', 'meta.json'))):
    j = json.load(open(m))
    name = os.path.basename(os.path.dirname(m))
    rows.append(f"| {name} | {j.get('property','')} | {j.get('title','')}: {j.get('how_it_breaks','')[:160]} | {j.get('caught_by','')} | {j.get('notes','')} |")
seeded = '\n'.join(rows) + '\n'
p = os.path.join(root, 'DESIGN.md')
s = open(p).read()
def block(s, tag, body):
    b, e = f'<!-- {tag}-BEGIN -->', f'<!-- {tag}-END -->'
    i, j = s.index(b), s.index(e)
    return s[:i + len(b)] + '\n' + body + s[j:]
s = block(s, 'FINDINGS', findings)
s = block(s, 'SEEDED', seeded)
open(p, 'w').write(s)
print('DESIGN.md blocks regenerated')
