#!/bin/bash
# Re-runs every filed seeded change (or those matching a glob) against the check of its property
# (quick tier) on scratch worktrees, never touching /repo. One line per seed: CAUGHT / MISSED.
# usage: tools/seedsweep2.sh [name-glob]
cd /verif || exit 2
for d in seeded/${1:-*}/; do
	n=$(basename "$d")
	id=$(python3 -c "import json,sys; print(json.load(open('$d/meta.json')).get('property',''))")
	extra=$(python3 -c "import json,sys; print(' '.join(json.load(open('$d/meta.json')).get('also_checks',[])))")
	out=$(SEEDTEST_SKIP_TESTS=1 tools/seedtest2.sh "$d" quick $id $extra 2>&1 | grep SEEDTEST)
	v=$(echo "$out" | grep -c 'violations=[1-9]')
	if [ "$v" -gt 0 ]; then echo "CAUGHT $n"; else echo "MISSED $n :: $(echo "$out" | tail -1 | cut -c1-200)"; fi
done
