#!/bin/bash
# Like seedtest.sh but never touches /repo: the seeded change is applied to a scratch git worktree
# (under /tmp, removed afterwards) and the checks are aimed at it with VERIF_REPO, so several seeds can
# be tried in parallel and background runs against /repo are not disturbed.
# usage: tools/seedtest2.sh <dir containing patch.diff> <tier> <check-id>...
# env: SEEDTEST_SKIP_TESTS=1 skips the repository's tests of the touched packages.
export GOFLAGS=-mod=mod GOPROXY=off GOSUMDB=off GOTOOLCHAIN=local
dir=$(realpath "$1"); tier=$2; shift 2
cd /verif || exit 2
wt=$(mktemp -d /tmp/seedwt.XXXXXX); rmdir "$wt"
git -C /repo worktree add --detach "$wt" HEAD >/dev/null 2>&1 || { echo "SEEDTEST: cannot create worktree"; exit 2; }
undo() { git -C /repo worktree remove --force "$wt" >/dev/null 2>&1; rm -rf "$wt"; }
trap undo EXIT
if ! git -C "$wt" apply "$dir/patch.diff"; then echo "SEEDTEST: patch does not apply"; exit 2; fi
pkgs=$(git -C "$wt" diff --name-only | grep '\.go$' | xargs -n1 dirname | sort -u | sed 's|^|./|; s|$|/...|' | tr '\n' ' ')
bl=$(cd "$wt" && go list ./... 2>/dev/null | grep -v -e /pkg/melbond -e /cmd/melbond -e bmsdl -e sdl | tr '\n' ' ')
if (cd "$wt" && go build $bl 2>&1 | grep -v -e conda -e sdl2 -e pkg-config -e PKG_CONFIG -e "virtual:world" -e "^#" | head -5 | grep .); then echo "SEEDTEST: build FAILS"; exit 3; fi
echo "SEEDTEST: builds; touched: $pkgs"
if [ -z "${SEEDTEST_SKIP_TESTS:-}" ]; then
	tests=$(VERIF_REPO="$wt" bash tools/baseline.sh $pkgs 2>&1 | grep -v conda | tr '\n' ' ')
	echo "SEEDTEST: tests: $tests"
	case "$tests" in *BASELINE-REGRESSION*) echo "SEEDTEST: existing tests FAIL"; exit 3;; esac
fi
for id in "$@"; do
	out=$(VERIF_REPO="$wt" ./check "$id" "$tier" 2>&1 | grep -v conda)
	v=$(echo "$out" | grep -c '^VIOLATION')
	keys=$(echo "$out" | grep 'key=' | head -4 | tr '\n' ' ')
	echo "SEEDTEST: check $id $tier -> violations=$v $keys | $(echo "$out" | tail -1 | cut -c1-200)"
done
