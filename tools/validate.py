#!/opt/veriftools/pyvenv/bin/python
import json, sys, glob, jsonschema
jsonschema.validate(json.load(open('/verif/MANIFEST.json')), json.load(open('/root/.vp/MANIFEST.schema.json')))
es = json.load(open('/root/.vp/EVIDENCE.schema.json'))
for f in sorted(glob.glob('/verif/evidence/*.json')):
    jsonschema.validate(json.load(open(f)), es)
    print('ok', f)
ps = json.load(open('/root/.vp/PROPERTIES.schema.json'))
ids = []
for l in open('/verif/properties.jsonl'):
    p = json.loads(l); jsonschema.validate(p, ps); ids.append(p['id'])
m = json.load(open('/verif/MANIFEST.json'))
cl = [c['property_id'] for c in m['checks']]; na = [c['property_id'] for c in m.get('not_applicable', [])]
assert sorted(cl + na) == sorted(ids), (cl, na)
print('manifest ok: claimed', cl, 'not_applicable', na)
