#!/bin/bash
# Confirms a sub-agent's seeded change in its scratch worktree: demo fails with the change, passes without.
# usage: tools/seedconfirm.sh <worktree>      (deliverables in <worktree>/SEED)
export GOFLAGS=-mod=mod GOPROXY=off GOSUMDB=off GOTOOLCHAIN=local
wt=$1; cd "$wt" || exit 2
cmd=$(python3 -c "import json;print(json.load(open('SEED/meta.json')).get('demo_cmd',''))")
if [ -f SEED/demo/main.go ]; then cmd="go run ./SEED/demo"; fi
echo "CONFIRM: demo_cmd: $cmd"
git diff --quiet && { echo "CONFIRM: worktree has no change applied; applying patch"; git apply SEED/patch.diff || exit 2; }
git diff -- . ':!SEED' > /tmp/confirm.$$.diff
if ! diff -q <(grep -v '^index ' /tmp/confirm.$$.diff) <(grep -v '^index ' SEED/patch.diff) >/dev/null; then echo "CONFIRM: WARNING patch.diff differs from the worktree's diff"; fi
rm -f /tmp/confirm.$$.diff
( eval "timeout 900 $cmd" ) > /tmp/confirm.$$.mod 2>&1; rc1=$?
git apply -R SEED/patch.diff || { echo "CONFIRM: cannot revert"; exit 2; }
( eval "timeout 900 $cmd" ) > /tmp/confirm.$$.orig 2>&1; rc0=$?
git apply SEED/patch.diff
echo "CONFIRM: with change rc=$rc1: $(grep -v conda /tmp/confirm.$$.mod | tail -3 | cut -c1-300 | tr '\n' '|')"
echo "CONFIRM: original    rc=$rc0: $(grep -v conda /tmp/confirm.$$.orig | tail -3 | cut -c1-300 | tr '\n' '|')"
rm -f /tmp/confirm.$$.mod /tmp/confirm.$$.orig
if [ $rc1 -ne 0 ] && [ $rc0 -eq 0 ]; then echo "CONFIRM: OK"; else echo "CONFIRM: NOT CONFIRMED"; fi
