#!/bin/bash
# Offline setup after a fresh restore: warm the Go build cache for /repo and the harnesses.
export GOFLAGS=-mod=mod GOPROXY=off GOSUMDB=off GOTOOLCHAIN=local
cd /verif || exit 1
mkdir -p .work/bin evidence replay
cp -f /repo/go.sum go.sum.repo 2>/dev/null && rm -f go.sum.repo
go build -tags verif ./... || exit 1
echo setup ok
