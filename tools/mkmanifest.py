#!/usr/bin/env python3
# Regenerates /verif/MANIFEST.json from the table below (claimed checks) and properties.jsonl.
import json, subprocess
props = [json.loads(l) for l in open('/verif/properties.jsonl')]
hook_commits = []
try:
    out = subprocess.run(['git', '-C', '/repo', 'log', '--format=%h %s'], capture_output=True, text=True).stdout
    hook_commits = [l.split()[0] for l in out.splitlines() if l.split(' ', 1)[1].startswith('verif hook')]
except Exception:
    pass
C = {}
def claim(i, cat, technique, text, note, ref):
    C[i] = dict(cat=cat, technique=technique, text=text, note=note, ref=ref)

claim("C03", "exploration",
 "runtime monitor: round-trip/range oracle over Arch.Assembler, Decode_opcode, Machine.Disassembler on generated instruction lines",
 "Runs the real assembler/disassembler on 150 (quick) / 3000 (thorough) sampled architectures (Rsize, R, N, M, L, O, mode, opcode subset incl. dynamic families, shared-object counts, WordSize override) and, per opcode, every in-range operand tuple when the field product is small (else boundary+random in several literal spellings: decimal, 0x (lower and upper case), 0b, 0d, zero-padded decimal and binary) plus lines with one operand out of range (index = count, count+1, 2^bits; numbers beyond the field) or malformed (negative, signed, padded or empty index after the name prefix). Oracle: error, or |word| = Max_word, decodes to the opcode, disasm equals the line token-wise, asm(disasm(w)) = w; out-of-range must be an error.",
 "Trusted: /verif's operand-signature table (internal/gen/opsig.go). In-range lines that are rejected are only tallied. A surplus word after an operand-less mnemonic is outside the statement and only tallied.",
 "§3 C03")
claim("C08", "exploration",
 "runtime monitor: bounded-exhaustive + regex-tree-directed evaluation of the live matcher table; export/import round-trip oracle over bit patterns",
 "Executes the real bmnumbers matcher table on every string of a bounded language (32 prefixes x all bodies over the 19-symbol matcher alphabet up to length 4/5) plus samples drawn from each regex's syntax tree and cross-fed to all other matchers, requires ExportBinaryNBits(v, n) to give exactly n digits with the value unchanged whenever the pattern fits n (n = width, width+3, 63, 64, 65, 100, the number of significant bits) and an error otherwise, and round-trips every bit pattern of every type up to 12/16 bits (random + boundary beyond). Held means: no string explored was claimed by two notations and no pattern explored changed under export/import.",
 "Trusted: Go regexp, the harness's notion of 'width stated by the notation'. Unsigned decimal export carries no width (pinned by the repo's own test) so only value+type are compared there; signed export (unimplemented, returns error) and FloPoCo (external fp2bin) are inconclusive. Ambiguities with witnesses longer than the bound and outside the sampler are missed.",
 "§3 C08")
claim("C10", "exploration",
 "runtime monitor: lock-step reference model (bonds by name) + well-formedness invariants checked after every edit of generated histories",
 "Applies every history of <=3 (quick) / <=4 (thorough) edits from a state-dependent candidate set (incl. out-of-range indices, reversed and unknown endpoints, benchmark-core attachment) to four populated base machines, plus thousands of random histories of length <=60 (one in eight on a machine with a 12-input/11-output processor and 11..13 external inputs and outputs, i.e. two-digit endpoint ids) biased to deleting endpoints below existing bonds, to the real Bondmachine and to an independent name-based model; after each edit compares List_bonds/List_internal_inputs/List_internal_outputs and checks the raw-field invariants; JSON round trip at the leaves.",
 "Trusted: the 120-line name-based model in cmd/c10. Negative indices are not offered.",
 "§3 C10")

import os, sys
extra = '/verif/tools/manifest_claims.py'
if os.path.exists(extra):
    exec(open(extra).read())

m = {"version": 1, "setup_cmd": "bash tools/setup.sh",
     "hooks": {"guard": "verif", "enable": "go build -tags verif (the ./check driver passes -tags verif to every build of /repo code)",
               "baseline_off_cmd": "bash /verif/tools/baseline.sh", "source_commits": hook_commits, "add_only": True},
     "engines": [{"name": "vsim", "path": "internal/vsim", "serves_properties": ["C01", "C02", "C04", "C13", "C18"], "kind_free_text": "Verilog-2001-subset interpreter + lint written for this task (no Verilog simulator exists in the sandbox); executes the HDL the repository generates"}],
     "checks": [], "notes": "All checks: ./check <ID> quick|thorough|--replay <path>. Technique family: runtime monitoring. See DESIGN.md.", "not_applicable": []}
NA = {}
if os.path.exists('/verif/tools/not_applicable.json'):
    NA = json.load(open('/verif/tools/not_applicable.json'))
for p in props:
    i = p['id']
    if i in C:
        c = C[i]
        m["checks"].append({"property_id": i, "quick_cmd": f"./check {i} quick", "thorough_cmd": f"./check {i} thorough",
                            "evidence_file": f"/verif/evidence/{i}.json", "replay_cmd_template": f"./check {i} --replay {{path}}",
                            "level_claimed": {"category": c["cat"], "text": c["text"], "design_ref": c["ref"]},
                            "level_note": c["note"], "technique": c["technique"]})
    else:
        m["not_applicable"].append({"property_id": i, "reason": NA.get(i, "check not yet built in this session (runtime-monitoring design in DESIGN.md §3); will be claimed when its harness is committed")})
json.dump(m, open('/verif/MANIFEST.json', 'w'), indent=1)
print("claimed:", [c["property_id"] for c in m["checks"]])
