#!/bin/bash
# Re-runs every filed seeded change against the check of its property (quick tier) and prints
# one line per seed: CAUGHT / MISSED. usage: tools/seedsweep.sh [name-glob]
cd /verif || exit 2
for d in seeded/${1:-*}/; do
	n=$(basename "$d")
	id=$(python3 -c "import json,sys; print(json.load(open('$d/meta.json')).get('property',''))")
	extra=$(python3 -c "import json,sys; print(' '.join(json.load(open('$d/meta.json')).get('also_checks',[])))")
	out=$(tools/seedtest.sh "$d" quick $id $extra 2>&1 | grep SEEDTEST)
	v=$(echo "$out" | grep -c 'violations=[1-9]')
	if [ "$v" -gt 0 ]; then echo "CAUGHT $n"; else echo "MISSED $n :: $(echo "$out" | tail -1 | cut -c1-200)"; fi
done
