#!/bin/bash
# Applies a seeded change to /repo, confirms it builds and passes the touched packages' tests
# (hooks off), runs the named checks against it, and undoes the change.
# usage: tools/seedtest.sh <dir containing patch.diff> <tier> <check-id>...
# prints one line per step; evidence/ is restored afterwards (checks rewrite it).
export GOFLAGS=-mod=mod GOPROXY=off GOSUMDB=off GOTOOLCHAIN=local
dir=$1; tier=$2; shift 2
cd /verif || exit 2
if [ -n "$(git -C /repo status --porcelain)" ]; then echo "SEEDTEST: /repo is not clean"; exit 2; fi
bak=$(mktemp -d /verif/.work/evbak.XXXX); cp -r evidence/. "$bak"/
undo() { git -C /repo checkout -- . ; git -C /repo clean -fdq -- pkg cmd 2>/dev/null; rm -rf evidence; mkdir evidence; cp -r "$bak"/. evidence/; rm -rf "$bak"; }
trap undo EXIT
if ! git -C /repo apply "$dir/patch.diff"; then echo "SEEDTEST: patch does not apply"; exit 2; fi
pkgs=$(git -C /repo diff --name-only | grep '\.go$' | xargs -n1 dirname | sort -u | sed 's|^|./|; s|$|/...|' | tr '\n' ' ')
# (go build ./... fails on the pristine tree too: go-sdl2 needs a C library, pkg/melbond does not compile)
bl=$(cd /repo && go list ./... 2>/dev/null | grep -v -e /pkg/melbond -e /cmd/melbond -e bmsdl -e sdl | tr '\n' ' ')
if (cd /repo && go build $bl 2>&1 | grep -v -e conda -e sdl2 -e pkg-config -e PKG_CONFIG -e "virtual:world" -e "^#" | head -5 | grep .); then echo "SEEDTEST: build FAILS"; exit 3; fi
echo "SEEDTEST: builds; touched: $pkgs"
tests=$(bash tools/baseline.sh $pkgs 2>&1 | grep -v conda | tr '\n' ' ')
echo "SEEDTEST: tests: $tests"
case "$tests" in *BASELINE-REGRESSION*) echo "SEEDTEST: existing tests FAIL"; exit 3;; esac
for id in "$@"; do
	out=$(./check "$id" "$tier" 2>&1 | grep -v conda)
	code=$?
	v=$(echo "$out" | grep -c '^VIOLATION')
	keys=$(echo "$out" | grep 'key=' | head -4 | tr '\n' ' ')
	echo "SEEDTEST: check $id $tier -> violations=$v $keys | $(echo "$out" | tail -1 | cut -c1-200)"
done
