# further claims, exec'd by mkmanifest.py (claim(id, category, technique, text, note, design_ref))
claim("C14", "exploration",
 "runtime monitor: reference-model oracle (complex128 gate algebra) on QasmToBmMatrices output and RunSoftwareSimulation",
 "Compiles every single-gate circuit (each gate x each ordered tuple of distinct qubits, n=1..5), every two-gate circuit over a reduced gate set on n<=3, and 1.5k (quick) / 80k (thorough) random 2..12-gate circuits with the real QasmToBmMatrices (direct BasmBody, and a sample through the .bmq builder path used by cmd/bmqsim); compares the product of emitted matrices with an independent complex128 reference, M*M^dagger with I, and the software simulation of every basis state with the reference column. Failing circuits are shrunk gate by gate.",
 "Trusted: textbook gate matrices and the 30-line 'apply gate to named qubits' routine in cmd/c14; float32 tolerances 1e-4 / 1e-5. Global phase not quotiented.",
 "§3 C14")
claim("C17", "exploration",
 "runtime monitor: goroutine-profile and heap-object deltas over batches of growing size (resource-growth oracle)",
 "Runs batches of 1, 8, 64, 256 (thorough: ..1024) calls of SinglePipelineSimulate and Fitness_default, sequentially and from 8 concurrent callers, on chains of 1..6 processors; after each batch reads NumGoroutine, the goroutine profile grouped by creation site and HeapObjects. Violation iff the growth for the largest batch exceeds that of the single-call batch by more than 4 goroutines, or the heap grows by more than 64 objects per call; the witness names the leaking creation sites.",
 "Fitness_default can only be driven with an empty input simbox (it passes a nil Config that SimConfig.Init dereferences as soon as a rule exists). Thresholds are constants independent of n; settle = 5 GC/yield rounds.",
 "§3 C17")
claim("C09", "exploration",
 "runtime monitor: per-tick whole-state digest compared across seeded schedule perturbation (verif yield hook), GOMAXPROCS and concurrent simulations; Go race detector over the same workload",
 "Simulates chains, fan-outs, chains whose stages all run addp/multp/divp and random dataflow DAGs alone (reference digest of the complete VM state after every tick), then under 10 (quick) / 40 (thorough) seeded yield/sleep patterns injected at the four worker/tick hand-over hook sites with GOMAXPROCS in {1,2,3,8,16}, then as 2/4/16 concurrent simulations sharing machine objects, then SinglePipelineSimulate from 8 concurrent callers incl. a not-yet-created dynamic data type. The workload is repeated in a -race build (halt_on_error=0, log parsed, reports de-duplicated by the pair of top frames). Evidence reports the distinct worker orders actually observed.",
 "Determinism claimed for SimDelayMap == nil only. Opcode objects' private state is observed through its effect on VM state. Interleavings not produced by the perturbation are not covered.",
 "§3 C09")
