#!/bin/bash
# Runs the repository's pinned test suite (hooks OFF: no build tags) and prints a pass/fail summary per test.
# usage: tools/baseline.sh [pkg-pattern...]   (default ./...)
export GOFLAGS=-mod=mod GOPROXY=off GOSUMDB=off GOTOOLCHAIN=local
cd "${VERIF_REPO:-/repo}" || exit 2
pk="${*:-./...}"
# the suite itself writes these files into the source tree; drop them when they were not there before
art="pkg/bmanalysis/test.ipynb pkg/bmserialize/serialize.v pkg/bmstack/stack.v pkg/bmstack/stack_tb.v"
trap 'for f in $art; do git ls-files --error-unmatch "$f" >/dev/null 2>&1 || rm -f "$f"; done' EXIT
go test -mod=mod -json -vet=off -count=1 -timeout 25m $pk 2>&1 | python3 -c '
import sys, json
res={}
for l in sys.stdin:
    try: e=json.loads(l)
    except Exception: continue
    if e.get("Action") in ("pass","fail") and e.get("Test"):
        res[e["Package"]+"::"+e["Test"]]=e["Action"]
base=set(json.load(open("/root/.vp/BASELINE.json"))["stable_pass"])
p=[k for k,v in res.items() if v=="pass"]; f=[k for k,v in res.items() if v=="fail"]
missing=[b for b in base if res.get(b)!="pass" and (len(sys.argv)<2)]
print("passed",len(p),"failed",len(f))
for k in sorted(f): print("  FAIL",k)
bad=[b for b in base if b in res and res[b]!="pass"]
for b in sorted(bad): print("  BASELINE-REGRESSION",b)
sys.exit(1 if bad else 0)
'
