// c10: topology edits never corrupt the bonds they do not touch.
//
// Histories of Add_input/Del_input/Add_output/Del_output/Add_processor/
// Add_bond/Del_bond/Attach_benchmark_core(V2) are applied to a real
// bondmachine.Bondmachine and, in lock step, to an independent model that stores
// endpoints and bonds by *name* and applies the documented renumbering. After
// every edit the monitor checks well-formedness of the raw fields and equality
// of List_bonds / List_internal_inputs / List_internal_outputs with the model.
package main

import (
	"encoding/json"
	"fmt"
	"os"
	"path/filepath"
	"reflect"
	"sort"
	"strconv"
	"strings"
	"sync"

	"github.com/BondMachineHQ/BondMachine/pkg/bondmachine"
	"github.com/BondMachineHQ/BondMachine/pkg/procbuilder"
	"verif/internal/evid"
	"verif/internal/gen"
	"verif/internal/hx"
)

// ---- operations ----------------------------------------------------------------

type op struct {
	K string `json:"k"` // addin delin addout delout addproc addbond delbond bench benchv2
	I int    `json:"i,omitempty"`
	A string `json:"a,omitempty"`
	B string `json:"b,omitempty"`
}

func (o op) String() string {
	switch o.K {
	case "delin", "delout", "addproc", "delbond":
		return o.K + "(" + strconv.Itoa(o.I) + ")"
	case "addbond", "bench", "benchv2":
		return o.K + "(" + o.A + "," + o.B + ")"
	}
	return o.K
}

// ---- the model -----------------------------------------------------------------

type model struct {
	nm    [][2]int          // domains: N, M
	procs []int             // processor -> domain
	ins   int               // external inputs
	outs  int               // external outputs
	iin   []string          // internal inputs in order (o<k>, p<n>i<j>)
	iout  []string          // internal outputs in order (i<k>, p<n>o<j>)
	bonds map[string]string // internal input name -> internal output name
}

func (m *model) clone() *model {
	c := &model{ins: m.ins, outs: m.outs}
	c.nm = append([][2]int(nil), m.nm...)
	c.procs = append([]int(nil), m.procs...)
	c.iin = append([]string(nil), m.iin...)
	c.iout = append([]string(nil), m.iout...)
	c.bonds = map[string]string{}
	for k, v := range m.bonds {
		c.bonds[k] = v
	}
	return c
}

func has(l []string, s string) bool {
	for _, x := range l {
		if x == s {
			return true
		}
	}
	return false
}

func renum(name string, prefix byte, removed int) string {
	// rename "<prefix><k>" with k>removed to k-1; processor endpoints (p...) untouched
	if len(name) < 2 || name[0] != prefix || name[0] == 'p' {
		return name
	}
	k, err := strconv.Atoi(name[1:])
	if err != nil || k <= removed {
		return name
	}
	return string(prefix) + strconv.Itoa(k-1)
}

// apply returns whether the real call is expected to return an error.
func (m *model) apply(o op) (wantErr bool) {
	switch o.K {
	case "addin":
		m.iout = append(m.iout, "i"+strconv.Itoa(m.ins))
		m.ins++
	case "addout":
		m.iin = append(m.iin, "o"+strconv.Itoa(m.outs))
		m.outs++
	case "delin":
		if o.I >= m.ins {
			return true
		}
		gone := "i" + strconv.Itoa(o.I)
		nb := map[string]string{}
		for in, out := range m.bonds {
			if out == gone {
				continue
			}
			nb[in] = renum(out, 'i', o.I)
		}
		m.bonds = nb
		no := m.iout[:0:0]
		for _, n := range m.iout {
			if n == gone {
				continue
			}
			no = append(no, renum(n, 'i', o.I))
		}
		m.iout = no
		m.ins--
	case "delout":
		if o.I >= m.outs {
			return true
		}
		gone := "o" + strconv.Itoa(o.I)
		nb := map[string]string{}
		for in, out := range m.bonds {
			if in == gone {
				continue
			}
			nb[renum(in, 'o', o.I)] = out
		}
		m.bonds = nb
		ni := m.iin[:0:0]
		for _, n := range m.iin {
			if n == gone {
				continue
			}
			ni = append(ni, renum(n, 'o', o.I))
		}
		m.iin = ni
		m.outs--
	case "addproc":
		if o.I >= len(m.nm) {
			return true
		}
		p := len(m.procs)
		for j := 0; j < m.nm[o.I][0]; j++ {
			m.iin = append(m.iin, fmt.Sprintf("p%di%d", p, j))
		}
		for j := 0; j < m.nm[o.I][1]; j++ {
			m.iout = append(m.iout, fmt.Sprintf("p%do%d", p, j))
		}
		m.procs = append(m.procs, o.I)
	case "addbond":
		switch {
		case has(m.iin, o.A) && has(m.iout, o.B):
			m.bonds[o.A] = o.B
		case has(m.iin, o.B) && has(m.iout, o.A):
			m.bonds[o.B] = o.A
		}
	case "delbond":
		if o.I >= len(m.iin) {
			return true
		}
		delete(m.bonds, m.iin[o.I])
	case "bench", "benchv2":
		if !has(m.iout, o.A) || !has(m.iout, o.B) {
			return true
		}
		m.nm = append(m.nm, [2]int{2, 1})
		m.apply(op{K: "addproc", I: len(m.nm) - 1})
		p := len(m.procs) - 1
		m.apply(op{K: "addbond", A: fmt.Sprintf("p%di0", p), B: o.A})
		m.apply(op{K: "addbond", A: fmt.Sprintf("p%di1", p), B: o.B})
		m.apply(op{K: "addout"})
		m.apply(op{K: "addbond", A: fmt.Sprintf("p%do0", p), B: "o" + strconv.Itoa(m.outs-1)})
	}
	return false
}

func (m *model) bondList() []string {
	out := []string{}
	for in, o := range m.bonds {
		out = append(out, o+","+in)
	}
	sort.Strings(out)
	return out
}

// ---- the real machine ------------------------------------------------------------

func applyReal(bm *bondmachine.Bondmachine, o op) (err error, panicked any) {
	defer func() {
		if r := recover(); r != nil {
			panicked = r
		}
	}()
	switch o.K {
	case "addin":
		_, err = bm.Add_input()
	case "addout":
		_, err = bm.Add_output()
	case "delin":
		err = bm.Del_input(o.I)
	case "delout":
		err = bm.Del_output(o.I)
	case "addproc":
		_, err = bm.Add_processor(o.I)
	case "addbond":
		bm.Add_bond([]string{o.A, o.B})
	case "delbond":
		err = bm.Del_bond(o.I)
	case "bench":
		err = bm.Attach_benchmark_core([]string{o.A, o.B})
	case "benchv2":
		err = bm.AttachBenchmarkCoreV2([]string{o.A, o.B})
	}
	return
}

var domCache sync.Map // [2]int -> *procbuilder.Machine (read-only once built)

func domMachine(d [2]int) *procbuilder.Machine {
	if m, ok := domCache.Load(d); ok {
		return m.(*procbuilder.Machine)
	}
	m, _ := gen.NewMachine(8, 1, uint8(d[0]), uint8(d[1]), 0, 2, "ha", []string{"nop", "j"})
	gen.Assemble(m, []string{"nop", "j 0"})
	domCache.Store(d, m)
	return m
}

func newReal(nm [][2]int) *bondmachine.Bondmachine {
	bm := new(bondmachine.Bondmachine)
	bm.Rsize = 8
	bm.Init()
	for _, d := range nm {
		bm.Domains = append(bm.Domains, domMachine(d))
	}
	return bm
}

func cloneReal(b *bondmachine.Bondmachine) *bondmachine.Bondmachine {
	c := new(bondmachine.Bondmachine)
	*c = *b
	c.Domains = append([]*procbuilder.Machine(nil), b.Domains...)
	c.Processors = append([]int(nil), b.Processors...)
	c.Internal_inputs = append([]bondmachine.Bond(nil), b.Internal_inputs...)
	c.Internal_outputs = append([]bondmachine.Bond(nil), b.Internal_outputs...)
	c.Links = append([]int(nil), b.Links...)
	c.Shared_links = make([]bondmachine.Shared_instance_list, len(b.Shared_links))
	for i, l := range b.Shared_links {
		c.Shared_links[i] = append(bondmachine.Shared_instance_list{}, l...)
	}
	return c
}

// step applies one edit to both sides and compares; "" if fine.
func step(bm *bondmachine.Bondmachine, m *model, o op) string {
	wantErr := m.apply(o)
	err, pan := applyReal(bm, o)
	if pan != nil {
		return fmt.Sprintf("panic in %s: %v", o, pan)
	}
	if wantErr && err == nil && (o.K != "addbond") {
		return fmt.Sprintf("%s should be rejected (out of range) but returned nil", o)
	}
	if !wantErr && err != nil {
		return fmt.Sprintf("%s returned error %v", o, err)
	}
	if d := compare(bm, m); d != "" {
		return fmt.Sprintf("after %s: %s", o, d)
	}
	return ""
}

func jsonTrip(bm *bondmachine.Bondmachine, m *model) string {
	b, err := json.Marshal(bm.Jsoner())
	if err != nil {
		return "json marshal: " + err.Error()
	}
	bj := new(bondmachine.Bondmachine_json)
	if err := json.Unmarshal(b, bj); err != nil {
		return "json unmarshal: " + err.Error()
	}
	if d := compare(bj.Dejsoner(), m); d != "" {
		return "after JSON round trip: " + d
	}
	return ""
}

// compare returns "" or a description of the first disagreement.
func compare(bm *bondmachine.Bondmachine, m *model) string {
	if len(bm.Links) != len(bm.Internal_inputs) {
		return fmt.Sprintf("wf: |Links|=%d != |Internal_inputs|=%d", len(bm.Links), len(bm.Internal_inputs))
	}
	for i, l := range bm.Links {
		if l < -1 || l >= len(bm.Internal_outputs) {
			return fmt.Sprintf("wf: Links[%d]=%d outside [-1,%d)", i, l, len(bm.Internal_outputs))
		}
	}
	if bm.Inputs != m.ins || bm.Outputs != m.outs || len(bm.Processors) != len(m.procs) {
		return fmt.Sprintf("counts: real in/out/procs=%d/%d/%d model=%d/%d/%d", bm.Inputs, bm.Outputs, len(bm.Processors), m.ins, m.outs, len(m.procs))
	}
	if len(bm.Shared_links) != len(bm.Processors) {
		return fmt.Sprintf("wf: |Shared_links|=%d != processors %d", len(bm.Shared_links), len(bm.Processors))
	}
	ii := bm.List_internal_inputs()
	io := bm.List_internal_outputs()
	if !reflect.DeepEqual(ii, m.iin) && !(len(ii) == 0 && len(m.iin) == 0) {
		return fmt.Sprintf("internal inputs: real %v model %v", ii, m.iin)
	}
	if !reflect.DeepEqual(io, m.iout) && !(len(io) == 0 && len(m.iout) == 0) {
		return fmt.Sprintf("internal outputs: real %v model %v", io, m.iout)
	}
	// endpoint lists match processors' port counts, in order
	for p, d := range bm.Processors {
		if d < 0 || d >= len(bm.Domains) {
			return fmt.Sprintf("wf: processor %d in missing domain %d", p, d)
		}
		n, mm := 0, 0
		for _, b := range bm.Internal_inputs {
			if b.Map_to == bondmachine.CPINPUT && b.Res_id == p {
				if b.Ext_id != n {
					return fmt.Sprintf("wf: p%d input order", p)
				}
				n++
			}
		}
		for _, b := range bm.Internal_outputs {
			if b.Map_to == bondmachine.CPOUTPUT && b.Res_id == p {
				if b.Ext_id != mm {
					return fmt.Sprintf("wf: p%d output order", p)
				}
				mm++
			}
		}
		if n != int(bm.Domains[d].N) || mm != int(bm.Domains[d].M) {
			return fmt.Sprintf("wf: p%d has %d/%d endpoints, domain says %d/%d", p, n, mm, bm.Domains[d].N, bm.Domains[d].M)
		}
	}
	real := []string{}
	for _, s := range bm.List_bonds() {
		real = append(real, s)
	}
	sort.Strings(real)
	want := m.bondList()
	if !reflect.DeepEqual(real, want) {
		return fmt.Sprintf("bonds: real %v model %v", real, want)
	}
	if bm.EnumBonds() != len(want) {
		return fmt.Sprintf("EnumBonds=%d model %d", bm.EnumBonds(), len(want))
	}
	return ""
}

// candidate operations at a model state (bounded)
func candidates(m *model, maxEnd int, withBench bool) []op {
	var c []op
	if m.ins < maxEnd {
		c = append(c, op{K: "addin"})
	}
	if m.outs < maxEnd {
		c = append(c, op{K: "addout"})
	}
	if len(m.procs) < maxEnd {
		for d := range m.nm {
			if d < 2 {
				c = append(c, op{K: "addproc", I: d})
			}
		}
		c = append(c, op{K: "addproc", I: len(m.nm)}) // non-existent domain: must be rejected
	}
	for i := 0; i <= m.ins; i++ {
		c = append(c, op{K: "delin", I: i})
	}
	for i := 0; i <= m.outs; i++ {
		c = append(c, op{K: "delout", I: i})
	}
	for i := 0; i <= len(m.iin); i++ {
		c = append(c, op{K: "delbond", I: i})
	}
	for _, a := range m.iin {
		for _, b := range m.iout {
			c = append(c, op{K: "addbond", A: a, B: b})
		}
	}
	if len(m.iin) > 0 && len(m.iout) > 0 {
		c = append(c, op{K: "addbond", A: m.iout[0], B: m.iin[len(m.iin)-1]}) // reversed order of endpoints
		c = append(c, op{K: "addbond", A: m.iin[0], B: "p9o9"})               // unknown endpoint: no change
	}
	if withBench && len(m.iout) >= 1 && len(m.procs) < maxEnd {
		c = append(c, op{K: "bench", A: m.iout[0], B: m.iout[len(m.iout)-1]})
		c = append(c, op{K: "benchv2", A: m.iout[len(m.iout)-1], B: m.iout[0]})
		if len(m.iin) > 0 {
			c = append(c, op{K: "bench", A: m.iin[0], B: m.iout[0]}) // not an internal output: error
		}
	}
	return c
}

type caseT struct {
	Domains [][2]int `json:"domains"`
	Base    []op     `json:"base"`
	Hist    []op     `json:"history"`
}

// runHistory replays base+hist on a fresh machine; returns the index of the
// failing edit (or -1) and a description.
func runHistory(c caseT) (int, string) {
	bm := newReal(c.Domains)
	m := &model{nm: append([][2]int(nil), c.Domains...), bonds: map[string]string{}}
	all := append(append([]op{}, c.Base...), c.Hist...)
	for k, o := range all {
		if d := step(bm, m, o); d != "" {
			return k, d
		}
	}
	if d := jsonTrip(bm, m); d != "" {
		return len(all) - 1, d
	}
	return -1, ""
}

func classify(c caseT, k int, desc string) string {
	all := append(append([]op{}, c.Base...), c.Hist...)
	kind := all[k].K
	short := desc
	if i := strings.Index(short, ":"); i > 0 {
		short = short[:i]
	}
	short = strings.Join(strings.Fields(short), "_")
	if len(short) > 60 {
		short = short[:60]
	}
	return "edit:" + kind + ":" + short
}

func main() {
	tier, replay := hx.Args()
	run := evid.New("C10", tier, "exploration")
	run.Rule = "histories = base state + every sequence of ≤D edits from the state-dependent candidate set (exhaustive DFS), plus seeded random histories of length ≤60 biased to deletions below existing bonds; an evaluation is one history prefix checked after its last edit; non-trivial = the machine has ≥1 bond and ≥1 deletion happened in the history; distinct by the history text"
	run.Assume = []string{"negative indices are not offered (the CLI passes user integers unchecked; only indices ≥ 0 are in scope)",
		"the reference model (names + documented renumbering of external ports above a deleted one) is ours, 120 lines in cmd/c10"}
	run.Floor = 1000
	_ = procbuilder.Allopcodes
	logdir, clean := hx.Scratch("c10")
	defer clean()
	hx.SilenceStdout(filepath.Join(logdir, "lib.log"))

	if replay != "" {
		w, err := evid.ReadWitness(replay)
		if err != nil {
			fmt.Fprintln(os.Stderr, err)
			os.Exit(2)
		}
		b, _ := json.Marshal(w["case"])
		var c caseT
		json.Unmarshal(b, &c)
		run.Floor = 0
		run.Eval(1)
		if k, d := runHistory(c); k >= 0 {
			run.Violation(classify(c, k, d), map[string]any{"case": c, "failing_edit_index": k, "what": d})
		}
		os.Exit(run.Finish())
	}

	report := func(c caseT, k int, d string) {
		// shrink: drop edits while the same class of failure persists
		key := classify(c, k, d)
		for changed := true; changed; {
			changed = false
			for i := 0; i < len(c.Base)+len(c.Hist); i++ {
				c2 := caseT{Domains: c.Domains}
				all := append(append([]op{}, c.Base...), c.Hist...)
				all = append(all[:i:i], all[i+1:]...)
				c2.Hist = all
				if k2, d2 := runHistory(c2); k2 >= 0 && classify(c2, k2, d2) == key {
					c, k, d = c2, k2, d2
					changed = true
					break
				}
			}
		}
		run.Violation(key, map[string]any{"case": c, "failing_edit_index": k, "what": d})
	}

	// ---------- exhaustive DFS from base states ----------
	bases := []caseT{
		{Domains: [][2]int{{1, 1}, {2, 2}}},
		{Domains: [][2]int{{1, 1}, {2, 2}}, Base: []op{{K: "addin"}, {K: "addin"}, {K: "addout"}, {K: "addout"}, {K: "addproc", I: 1},
			{K: "addbond", A: "p0i0", B: "i0"}, {K: "addbond", A: "p0i1", B: "i1"}, {K: "addbond", A: "o0", B: "p0o0"}, {K: "addbond", A: "o1", B: "p0o1"}}},
		{Domains: [][2]int{{2, 1}, {1, 2}}, Base: []op{{K: "addin"}, {K: "addproc", I: 0}, {K: "addin"}, {K: "addout"}, {K: "addproc", I: 1}, {K: "addout"}, {K: "addin"},
			{K: "addbond", A: "p0i0", B: "i2"}, {K: "addbond", A: "p0i1", B: "i1"}, {K: "addbond", A: "p1i0", B: "p0o0"}, {K: "addbond", A: "o1", B: "p1o1"}, {K: "addbond", A: "o0", B: "i2"}}},
		{Domains: [][2]int{{0, 1}, {3, 0}}, Base: []op{{K: "addproc", I: 0}, {K: "addin"}, {K: "addin"}, {K: "addin"}, {K: "addproc", I: 1}, {K: "addout"},
			{K: "addbond", A: "p1i0", B: "i2"}, {K: "addbond", A: "p1i1", B: "p0o0"}, {K: "addbond", A: "p1i2", B: "i0"}, {K: "addbond", A: "o0", B: "i1"}}},
	}
	depth := 3
	maxEnd := 3
	if tier == "thorough" {
		depth = 4
	}
	run.Set("exhaustive_depth", depth)
	type job struct {
		base  caseT
		first op
	}
	var jobs []job
	for _, b := range bases {
		m := &model{nm: append([][2]int(nil), b.Domains...), bonds: map[string]string{}}
		for _, o := range b.Base {
			m.apply(o)
		}
		for _, o := range candidates(m, maxEnd+len(m.procs), true) {
			jobs = append(jobs, job{b, o})
		}
	}
	hx.Par(len(jobs), func(ji int) {
		j := jobs[ji]
		bm0 := newReal(j.base.Domains)
		m0 := &model{nm: append([][2]int(nil), j.base.Domains...), bonds: map[string]string{}}
		for _, o := range j.base.Base {
			if d := step(bm0, m0, o); d != "" {
				c := caseT{Domains: j.base.Domains, Hist: j.base.Base}
				k, desc := runHistory(c)
				report(c, k, desc)
				return
			}
		}
		var rec func(bm *bondmachine.Bondmachine, m *model, hist []op, o op, d int, dels int)
		rec = func(bm *bondmachine.Bondmachine, m *model, hist []op, o op, d int, dels int) {
			bm = cloneReal(bm)
			m = m.clone()
			hist = append(append(make([]op, 0, len(hist)+1), hist...), o)
			run.Eval(1)
			desc := step(bm, m, o)
			if desc == "" && d == depth {
				desc = jsonTrip(bm, m)
			}
			if desc != "" {
				c := caseT{Domains: j.base.Domains, Base: j.base.Base, Hist: hist}
				if k, d2 := runHistory(c); k >= 0 {
					report(c, k, d2)
				} else {
					run.Violation("incremental-vs-replay-mismatch", map[string]any{"case": c, "what": desc})
				}
				return
			}
			if strings.HasPrefix(o.K, "del") {
				dels++
			}
			if dels > 0 && len(m.bonds) > 0 {
				run.Nontrivial(fmt.Sprint(ji, hist))
			}
			if d == depth {
				return
			}
			for _, o2 := range candidates(m, maxEnd+2, d < 2) {
				rec(bm, m, hist, o2, d+1, dels)
			}
		}
		rec(bm0, m0, nil, j.first, 1, 0)
	})
	run.Sample(map[string]any{"kind": "exhaustive", "base": bases[2], "then": fmt.Sprintf("every history of ≤%d edits from the candidate set", depth)})

	// ---------- random long histories ----------
	nRand := 4000
	if tier == "thorough" {
		nRand = 120000
	}
	hx.Par(nRand, func(i int) {
		rng := hx.RNG(run.Seed, "c10rand"+strconv.Itoa(i))
		c := caseT{Domains: [][2]int{{rng.IntN(4), rng.IntN(4)}, {1 + rng.IntN(3), 1 + rng.IntN(3)}, {rng.IntN(3), 1}}}
		maxEnd := 6
		var pre []op
		if i%8 == 3 {
			// endpoint ids with two digits: a processor with 12 inputs and 11 outputs next to 11..13 external
			// inputs and outputs (names such as i1 / i10 / p0i1 / p0i11 are prefixes of one another)
			c.Domains = [][2]int{{12, 11}, {1, 1}}
			maxEnd = 14
			for k := 0; k < 11+rng.IntN(3); k++ {
				pre = append(pre, op{K: "addin"})
			}
			for k := 0; k < 11+rng.IntN(3); k++ {
				pre = append(pre, op{K: "addout"})
			}
			pre = append(pre, op{K: "addproc", I: 0})
		}
		m := &model{nm: append([][2]int(nil), c.Domains...), bonds: map[string]string{}}
		for _, o := range pre {
			m.apply(o)
			c.Hist = append(c.Hist, o)
		}
		n := 10 + rng.IntN(50)
		dels := 0
		for s := 0; s < n; s++ {
			cand := candidates(m, maxEnd, true)
			// bias: half of the time choose a deletion of a low index when bonds exist above it
			var o op
			if len(m.bonds) > 0 && rng.IntN(3) == 0 {
				var dl []op
				for _, x := range cand {
					if x.K == "delin" && x.I < m.ins || x.K == "delout" && x.I < m.outs {
						dl = append(dl, x)
					}
				}
				if len(dl) > 0 {
					o = dl[rng.IntN(len(dl))]
				}
			}
			if o.K == "" {
				// favour building: addbond candidates are many; weight kinds evenly
				kinds := map[string][]op{}
				for _, x := range cand {
					kinds[x.K] = append(kinds[x.K], x)
				}
				ks := make([]string, 0, len(kinds))
				for k := range kinds {
					ks = append(ks, k)
				}
				sort.Strings(ks)
				if len(kinds["addbond"]) > 0 {
					ks = append(ks, "addbond", "addbond") // more bonds
				}
				k := ks[rng.IntN(len(ks))]
				o = kinds[k][rng.IntN(len(kinds[k]))]
			}
			if strings.HasPrefix(o.K, "del") {
				dels++
			}
			m.apply(o)
			c.Hist = append(c.Hist, o)
		}
		run.Eval(int64(len(c.Hist)))
		if k, d := runHistory(c); k >= 0 {
			report(c, k, d)
			return
		}
		if dels > 0 && len(m.bonds) > 0 {
			run.Nontrivial("r" + fmt.Sprint(c.Hist))
		}
		if i < 2 {
			hs := []string{}
			for _, o := range c.Hist {
				hs = append(hs, o.String())
			}
			run.Sample(map[string]any{"kind": "random-history", "domains_NM": c.Domains, "edits": strings.Join(hs, " "), "final_bonds": m.bondList()})
		}
	})
	os.Exit(run.Finish())
}
