// c01: the generated processor HDL executes programs exactly as the ISA simulator does.
//
// For sampled architectures over the co-implemented opcode cells and generated
// programs, the four Verilog files of the processor are rendered by the
// repository's generators and executed clock by clock in vsim, while
// procbuilder.VM is stepped under the same protocol environment. The monitor
// compares pc, register file, output registers and handshake progress at every
// instruction-retire point.
package main

import (
	"encoding/json"
	"fmt"
	"math"
	"os"
	"path/filepath"
	"sort"
	"strconv"
	"strings"

	"github.com/BondMachineHQ/BondMachine/pkg/procbuilder"
	"verif/internal/asmw"
	"verif/internal/evid"
	"verif/internal/gen"
	"verif/internal/hx"
	"verif/internal/procsim"
)

type caseT struct {
	Rsize uint8       `json:"rsize"`
	R     uint8       `json:"r"`
	N     uint8       `json:"n"`
	M     uint8       `json:"m"`
	L     uint8       `json:"l"`
	O     uint8       `json:"o"`
	Ops   []string    `json:"ops"`
	WordX int         `json:"wordsize_extra"` // WordSize = natural + WordX (0: automatic)
	Prog  []string    `json:"program"`
	Env   procsim.Env `json:"env"`
	Kind  string      `json:"kind"`
	// port disciplines of random programs: a streamed input is read only by i2rw, a constant one only by i2r;
	// a handshaked output is written only by r2owa, a plain one only by r2o
	StreamIn []bool `json:"stream_in,omitempty"`
	HandOut  []bool `json:"hand_out,omitempty"`
}

func (c caseT) String() string {
	return fmt.Sprintf("%s rsize=%d R=%d N=%d M=%d L=%d O=%d wx=%d ops=%s prog=[%s]", c.Kind, c.Rsize, c.R, c.N, c.M, c.L, c.O, c.WordX, strings.Join(c.Ops, ","), strings.Join(c.Prog, "; "))
}

func build(c caseT) (*procbuilder.Machine, error) {
	m, err := gen.NewMachine(c.Rsize, c.R, c.N, c.M, c.L, c.O, "ha", c.Ops)
	if err != nil {
		return nil, err
	}
	if c.WordX > 0 {
		m.WordSize = uint8(m.Max_word() + c.WordX)
	}
	if err := gen.Assemble(m, c.Prog); err != nil {
		return nil, err
	}
	return m, nil
}

func opsIn(prog []string) []string {
	set := map[string]bool{}
	for _, l := range prog {
		set[strings.Fields(l)[0]] = true
	}
	var o []string
	for k := range set {
		o = append(o, k)
	}
	sort.Strings(o)
	return o
}

// verdict runs both sides; kind "" = agreement.
func verdict(c caseT, steps int) (kind string, w map[string]any, retires int, regChanged bool) {
	w = map[string]any{"case": c, "text": c.String()}
	m, err := build(c)
	if err != nil {
		w["err"] = err.Error()
		return "not-buildable", w, 0, false
	}
	g := procsim.RunGo(m, c.Env, steps, 400)
	if strings.Contains(g.Err, "panic") {
		return "sim-undefined", w, 0, false // e.g. division by zero: undefined behaviour, not a disagreement
	}
	if g.Err != "" {
		w["sim_err"] = g.Err
		return "sim-error", w, 0, false
	}
	files, err := procsim.HDLFiles(m, nil)
	if err != nil {
		w["err"] = err.Error()
		return "hdl-generation-failed", w, 0, false
	}
	want := len(g.Retires) + 1
	// the floating point units take tens of clocks per instruction: a larger clock budget for them
	budget := steps*8 + 200
	for _, o := range c.Ops {
		if isFloatOp(o) || o == "jgt0f" {
			budget = steps*120 + 200
		}
	}
	h, _ := procsim.RunHDL(m, files, c.Env, want, budget)
	if h.Err != "" {
		w["hdl_err"] = h.Err
		if strings.Contains(h.Err, "unsupported") {
			return "vsim-unsupported", w, 0, false
		}
		return "hdl-not-executable", w, 0, false
	}
	n := len(g.Retires)
	if len(h.Retires) < n {
		n = len(h.Retires)
	}
	for i := 0; i < n; i++ {
		a, b := g.Retires[i], h.Retires[i]
		if i > 0 && fmt.Sprint(g.Retires[i].Regs) != fmt.Sprint(g.Retires[i-1].Regs) {
			regChanged = true
		}
		diff := ""
		switch {
		case b.Undef:
			return "hdl-undefined-register", w, i, regChanged
		case a.Pc != b.Pc:
			diff = "pc"
		case fmt.Sprint(a.Regs) != fmt.Sprint(b.Regs):
			diff = "registers"
		}
		if diff == "" {
			// output registers: compare only those some instruction has written
			for k := range a.Out {
				if a.Out[k] != b.Out[k] && writtenOut(c.Prog, k) {
					diff = "output-register"
				}
			}
		}
		if diff != "" {
			w["retire_index"] = i
			w["sim"] = a
			w["hdl"] = b
			if i > 0 {
				w["previous_retire_sim"] = g.Retires[i-1]
			}
			prev := uint64(0)
			if i > 0 {
				prev = g.Retires[i-1].Pc
			}
			if int(prev) < len(c.Prog) {
				w["instruction_retired"] = c.Prog[prev]
				f := strings.Fields(c.Prog[prev])
				if diff == "registers" && isFloatOp(f[0]) && onlyNaNPayloadsDiffer(a.Regs, b.Regs, c.Rsize) {
					// both back ends produced a NaN, with different payloads: the statement is about values,
					// NaN payloads are compared as a class; later instructions would see different bits
					return "float-nan-payload", w, i, regChanged
				}
				if diff == "pc" && f[0] == "jgt0f" && i > 0 {
					// which operand value makes the two back ends take different branches
					var r int
					fmt.Sscanf(f[1], "r%d", &r)
					if r < len(g.Retires[i-1].Regs) {
						v := math.Float32frombits(uint32(g.Retires[i-1].Regs[r]))
						if v == 0 || v != v {
							return "differs:pc:jgt0f:operand-is-zero-or-nan", w, i, regChanged
						}
					}
				}
				return "differs:" + diff + ":" + f[0], w, i, regChanged
			}
			return "differs:" + diff + ":beyond-program", w, i, regChanged
		}
	}
	if len(h.Retires) < len(g.Retires) && h.Cycles-h.LastAt <= 4096 && len(h.Retires) >= 5 {
		// the hardware was still retiring when the clock budget ran out (multi-cycle units): the
		// retires it made agree with the simulator's, the rest was not observed
		return "", nil, len(h.Retires), regChanged
	}
	if len(h.Retires) < len(g.Retires) {
		w["sim_retires"] = len(g.Retires)
		w["hdl_retires"] = len(h.Retires)
		w["hdl_cycles"] = h.Cycles
		w["hdl_final"] = h.Final
		w["sim_state_at_same_point"] = g.Retires[len(h.Retires)]
		prev := uint64(0)
		if len(h.Retires) > 0 {
			prev = h.Retires[len(h.Retires)-1].Pc
		}
		op := "beyond-program"
		if int(prev) < len(c.Prog) {
			op = strings.Fields(c.Prog[prev])[0]
		}
		if op == "jgt0f" && int(prev) < len(c.Prog) {
			// a jump to itself never shows as a retire: the same disagreement as differs:pc:jgt0f
			f := strings.Fields(c.Prog[prev])
			var r int
			fmt.Sscanf(f[1], "r%d", &r)
			if r < len(h.Final.Regs) {
				if v := math.Float32frombits(uint32(h.Final.Regs[r])); (v == 0 || v != v) && f[2] == strconv.Itoa(int(prev)) {
					return "differs:pc:jgt0f:operand-is-zero-or-nan", w, len(h.Retires), regChanged
				}
			}
		}
		return "hdl-stalls:" + op, w, len(h.Retires), regChanged
	}
	if len(h.Retires) > len(g.Retires) && g.Cycles-g.LastAt > steps/3 && len(g.Retires) < 400 {
		// the simulator stopped retiring long ago, the hardware goes on
		prev := uint64(0)
		if len(g.Retires) > 0 {
			prev = g.Retires[len(g.Retires)-1].Pc
		}
		op := "beyond-program"
		if int(prev) < len(c.Prog) {
			op = strings.Fields(c.Prog[prev])[0]
		}
		w["sim_retires"] = len(g.Retires)
		w["sim_final"] = g.Final
		w["hdl_next"] = h.Retires[len(g.Retires)]
		return "hdl-runs-ahead:" + op, w, len(g.Retires), regChanged
	}
	// handshaked outputs: the shorter stream must be a prefix of the longer one (cycle counts differ per side)
	for k := range g.Final.Sent {
		a, b := g.Final.Sent[k], h.Final.Sent[k]
		for i := 0; i < len(a) && i < len(b); i++ {
			if a[i] != b[i] {
				w["output"] = k
				w["sim_stream"] = a
				w["hdl_stream"] = b
				return "differs:output-stream:r2owa", w, len(g.Retires), regChanged
			}
		}
	}
	return "", nil, len(g.Retires), regChanged
}

func isFloatOp(op string) bool {
	switch op {
	case "addf", "multf", "divf", "addf16", "multf16", "divf16":
		return true
	}
	return false
}

func isNaNBits(v uint64, rsize uint8) bool {
	switch rsize {
	case 32:
		return v&0x7f800000 == 0x7f800000 && v&0x007fffff != 0
	case 16:
		return v&0x7c00 == 0x7c00 && v&0x03ff != 0
	}
	return false
}

func onlyNaNPayloadsDiffer(a, b []uint64, rsize uint8) bool {
	if len(a) != len(b) {
		return false
	}
	for i := range a {
		if a[i] != b[i] && !(isNaNBits(a[i], rsize) && isNaNBits(b[i], rsize)) {
			return false
		}
	}
	return true
}

func writtenOut(prog []string, k int) bool {
	for _, l := range prog {
		f := strings.Fields(l)
		if (f[0] == "r2o" || f[0] == "r2owa") && len(f) == 3 && f[2] == "o"+strconv.Itoa(k) {
			return true
		}
	}
	return false
}

// ---- generators -------------------------------------------------------------------

func line(rng interface {
	IntN(int) int
	Uint64() uint64
}, c *caseT, op string, progLen int) string {
	regs := 1 << c.R
	r := func() string { return "r" + strconv.Itoa(rng.IntN(regs)) }
	imm := func(bits int) string {
		var v uint64
		switch rng.IntN(5) {
		case 0:
			v = 0
		case 1:
			v = 1
		case 2:
			v = ^uint64(0)
		default:
			v = rng.Uint64()
		}
		if bits < 64 {
			v &= (1 << uint(bits)) - 1
		}
		return strconv.FormatUint(v, 10)
	}
	sig, _ := gen.Sig(op)
	parts := []string{op}
	for _, f := range sig {
		switch f.K {
		case gen.KReg:
			parts = append(parts, r())
		case gen.KIn:
			var ok []int
			for k := 0; k < int(c.N); k++ {
				if c.StreamIn == nil || c.StreamIn[k] == (op == "i2rw") {
					ok = append(ok, k)
				}
			}
			if len(ok) == 0 {
				return ""
			}
			parts = append(parts, "i"+strconv.Itoa(ok[rng.IntN(len(ok))]))
		case gen.KOut:
			var ok []int
			for k := 0; k < int(c.M); k++ {
				if c.HandOut == nil || c.HandOut[k] == (op == "r2owa") {
					ok = append(ok, k)
				}
			}
			if len(ok) == 0 {
				return ""
			}
			parts = append(parts, "o"+strconv.Itoa(ok[rng.IntN(len(ok))]))
		case gen.KImm:
			parts = append(parts, imm(int(c.Rsize)))
		case gen.KImmS:
			parts = append(parts, imm(rsetsBits(op)))
		case gen.KRomAddr, gen.KLoc:
			parts = append(parts, strconv.Itoa(rng.IntN(progLen)))
		default:
			parts = append(parts, "0")
		}
	}
	return strings.Join(parts, " ")
}

func rsetsBits(op string) int {
	n, _ := strconv.Atoi(strings.TrimPrefix(op, "rsets"))
	return n
}

func claimedPool(rsize uint8) []string {
	var p []string
	for _, op := range procbuilder.Allopcodes {
		if ok, _ := gen.Claimed(op.Op_get_name(), rsize); ok {
			p = append(p, op.Op_get_name())
		}
	}
	if rsize >= 8 {
		p = append(p, "rsets5")
	}
	// dynamically created arithmetic families whose word size is this register size
	if rsize <= 32 {
		for _, fam := range []string{"fps%df%d", "lqs%dt1"} {
			for _, o := range []string{"add", "mult", "div"} {
				name := o + fmt.Sprintf(fam, rsize, rsize/2)
				if strings.Contains(fam, "lqs") {
					name = o + fmt.Sprintf(fam, rsize)
				}
				if gen.OpByName(name) != nil {
					p = append(p, name)
				}
			}
		}
	}
	sort.Strings(p)
	return p
}

func randomCase(rng interface {
	IntN(int) int
	Uint64() uint64
}, kind string) caseT {
	c := caseT{Kind: kind}
	c.Rsize = []uint8{8, 16, 32, 64}[rng.IntN(4)]
	c.R = uint8(1 + rng.IntN(3))
	c.N = uint8([]int{0, 1, 1, 2, 2, 3, 4, 5}[rng.IntN(8)])
	c.M = uint8([]int{0, 1, 1, 2, 2, 3, 4, 5}[rng.IntN(8)])
	c.L = 0
	pool := claimedPool(c.Rsize)
	k := 2 + rng.IntN(7)
	set := map[string]bool{"rset": true}
	for len(set) < k {
		op := pool[rng.IntN(len(pool))]
		sig, _ := gen.Sig(op)
		ok := true
		for _, f := range sig {
			if f.K == gen.KIn && c.N == 0 || f.K == gen.KOut && c.M == 0 {
				ok = false
			}
		}
		if ok {
			set[op] = true
		}
	}
	for o := range set {
		c.Ops = append(c.Ops, o)
	}
	sort.Strings(c.Ops)
	n := 4 + rng.IntN(20)
	c.O = uint8(procbuilder.Needed_bits(n))
	if rng.IntN(3) == 0 {
		c.O++
	}
	if rng.IntN(5) == 0 {
		c.WordX = 3
	}
	// a couple of rsets first so that data is not all zero
	for i := 0; i < 1<<c.R && i < 3; i++ {
		c.Prog = append(c.Prog, line(rng, &c, "rset", n))
		c.Prog[len(c.Prog)-1] = "rset r" + strconv.Itoa(i) + " " + strings.Fields(c.Prog[len(c.Prog)-1])[2]
	}
	for k := 0; k < int(c.N); k++ {
		c.StreamIn = append(c.StreamIn, rng.IntN(2) == 0)
	}
	for k := 0; k < int(c.M); k++ {
		c.HandOut = append(c.HandOut, rng.IntN(2) == 0)
	}
	for tries := 0; len(c.Prog) < n-1 && tries < 400; tries++ {
		l := line(rng, &c, c.Ops[rng.IntN(len(c.Ops))], n)
		if l == "" {
			continue
		}
		// two handshake instructions on the same port back to back are the protocol corner cases of the
		// directed family below (and of C04); random programs keep one other instruction between them
		if len(c.Prog) > 0 && l == c.Prog[len(c.Prog)-1] && (strings.HasPrefix(l, "r2owa") || strings.HasPrefix(l, "i2rw")) {
			continue
		}
		if len(c.Prog) > 0 {
			a, b := strings.Fields(c.Prog[len(c.Prog)-1]), strings.Fields(l)
			if (a[0] == "r2owa" || a[0] == "i2rw") && a[0] == b[0] && a[2] == b[2] {
				continue
			}
		}
		c.Prog = append(c.Prog, l)
	}
	c.Ops = opsIn(append(append([]string{}, c.Prog...), "j 0", "rset r0 0"))
	// the last instruction jumps to itself: falling off the program is undefined on both back ends
	c.Prog = append(c.Prog, "j "+strconv.Itoa(len(c.Prog)))
	hasJ := false
	for _, o := range c.Ops {
		if o == "j" {
			hasJ = true
		}
	}
	if !hasJ {
		c.Ops = append(c.Ops, "j")
		sort.Strings(c.Ops)
	}
	// environment
	for i := 0; i < int(c.N); i++ {
		c.Env.Const = append(c.Env.Const, rng.Uint64()&mask(c.Rsize))
		var s []uint64
		for j := 0; j < 40; j++ {
			s = append(s, rng.Uint64()&mask(c.Rsize))
		}
		if c.StreamIn[i] {
			c.Env.Streams = append(c.Env.Streams, s)
		} else {
			c.Env.Streams = append(c.Env.Streams, nil)
		}
		c.Env.Gap = append(c.Env.Gap, rng.IntN(3))
	}
	for i := 0; i < int(c.M); i++ {
		c.Env.AckDelay = append(c.Env.AckDelay, 1+rng.IntN(3))
	}
	return c
}

func mask(rsize uint8) uint64 {
	if rsize >= 64 {
		return ^uint64(0)
	}
	return (1 << rsize) - 1
}

// directed: one opcode, operand sweep, boundary register values
func directedCases(rsize uint8) []caseT {
	var cs []caseT
	bnd := []uint64{0, 1, 2, mask(rsize), mask(rsize) - 1, 1 << (rsize - 1), (1 << (rsize - 1)) - 1, 3, 0x55 & mask(rsize)}
	for _, op := range claimedPool(rsize) {
		sig, _ := gen.Sig(op)
		if len(sig) != 2 || sig[0].K != gen.KReg || sig[1].K != gen.KReg {
			continue
		}
		bnd := bnd
		if isFloatOp(op) {
			// operand bit patterns that are interesting as floats: ±1, 2.5, 0.1, -3.75, large, tiny, ±0, ±inf, subnormal
			bnd = []uint64{0x3f800000, 0xbf800000, 0x40200000, 0x3dcccccd, 0xc0700000, 0x7f7fffff, 0x00800000, 0, 0x80000000, 0x7f800000, 0xff800000, 0x00000001, 0x4b800000, 0x33800000}
			if rsize == 16 {
				bnd = []uint64{0x3c00, 0xbc00, 0x4100, 0x2e66, 0xc380, 0x7bff, 0x0400, 0, 0x8000, 0x7c00, 0xfc00, 0x0001, 0x6400, 0x1400}
			}
		}
		for _, R := range []uint8{1, 2} {
			for ai, a := range bnd {
				b := bnd[(ai*3+1)%len(bnd)]
				regs := 1 << R
				for d := 0; d < regs; d++ {
					for s := 0; s < regs; s++ {
						c := caseT{Kind: "directed:" + op, Rsize: rsize, R: R, N: 0, M: 0, Ops: []string{op, "rset", "j"}}
						c.Prog = []string{fmt.Sprintf("rset r%d %d", d, a)}
						if s != d {
							c.Prog = append(c.Prog, fmt.Sprintf("rset r%d %d", s, b))
						}
						c.Prog = append(c.Prog, fmt.Sprintf("%s r%d r%d", op, d, s), fmt.Sprintf("%s r%d r%d", op, d, s))
						c.Prog = append(c.Prog, fmt.Sprintf("j %d", len(c.Prog)))
						c.O = uint8(procbuilder.Needed_bits(len(c.Prog)))
						if c.O == 0 {
							c.O = 1
						}
						cs = append(cs, c)
					}
				}
			}
		}
	}
	return cs
}

// wideCases: machines with 8 registers — every (destination, source) pair of every two-register
// opcode and every register of every one-register opcode, so that a slip in one case arm of one
// template (only r5, only r6 as source) is executed.
func wideCases(rsize uint8) []caseT {
	var cs []caseT
	val := func(i int) uint64 { return (uint64(i)*0x9e3779b97f4a7c15 + 0x55) & mask(rsize) }
	for _, op := range claimedPool(rsize) {
		sig, _ := gen.Sig(op)
		allReg := len(sig) > 0
		for _, f := range sig {
			if f.K != gen.KReg {
				allReg = false
			}
		}
		if !allReg || len(sig) > 2 {
			continue
		}
		if isFloatOp(op) {
			val = func(i int) uint64 {
				if rsize == 16 {
					return []uint64{0x3c00, 0xc100, 0x2e66, 0x4500, 0x3555, 0xb800, 0x4248, 0x1400}[i%8]
				}
				return []uint64{0x3f800000, 0xc0200000, 0x3dcccccd, 0x40a00000, 0x3eaaaaab, 0xbf000000, 0x40490fdb, 0x33800000}[i%8]
			}
		}
		// one program per destination register: load all 8 registers, then apply op with every source
		for d := 0; d < 8; d++ {
			c := caseT{Kind: "wide:" + op, Rsize: rsize, R: 3, Ops: []string{op, "rset", "j"}}
			for r := 0; r < 8; r++ {
				c.Prog = append(c.Prog, fmt.Sprintf("rset r%d %d", r, val(r+d)|1))
			}
			if len(sig) == 1 {
				if d > 0 {
					continue
				}
				for r := 0; r < 8; r++ {
					c.Prog = append(c.Prog, fmt.Sprintf("%s r%d", op, r))
				}
			} else {
				for src := 0; src < 8; src++ {
					c.Prog = append(c.Prog, fmt.Sprintf("%s r%d r%d", op, d, src))
				}
			}
			c.Prog = append(c.Prog, fmt.Sprintf("j %d", len(c.Prog)))
			c.O = uint8(procbuilder.Needed_bits(len(c.Prog)))
			cs = append(cs, c)
		}
	}
	return cs
}

// protocol corner cases: small fixed programs, judged without shrinking
func cornerCases(rsize uint8) []caseT {
	mk := func(name string, n, m uint8, stream bool, prog ...string) caseT {
		c := caseT{Kind: "corner:" + name, Rsize: rsize, R: 1, N: n, M: m, O: 3, Prog: prog}
		c.Ops = opsIn(prog)
		for i := 0; i < int(n); i++ {
			c.Env.Const = append(c.Env.Const, 9)
			if stream {
				c.Env.Streams = append(c.Env.Streams, []uint64{1, 2, 3, 4, 5, 6, 7, 8})
			} else {
				c.Env.Streams = append(c.Env.Streams, nil)
			}
			c.Env.Gap = append(c.Env.Gap, 0)
		}
		for i := 0; i < int(m); i++ {
			c.Env.AckDelay = append(c.Env.AckDelay, 1)
		}
		return c
	}
	return []caseT{
		mk("r2owa-twice-same-output", 0, 1, false, "rset r0 5", "r2owa r0 o0", "r2owa r0 o0", "inc r0", "j 1"),
		mk("r2owa-then-other-output", 0, 2, false, "rset r0 5", "r2owa r0 o0", "r2owa r0 o1", "inc r0", "j 1"),
		mk("r2o-then-r2owa-same-output", 0, 1, false, "rset r0 5", "r2o r0 o0", "r2owa r0 o0", "inc r0", "j 1"),
		mk("i2rw-twice-same-input", 1, 1, true, "i2rw r0 i0", "i2rw r1 i0", "r2owa r0 o0", "cpy r0 r1", "r2owa r0 o0", "j 0"),
		mk("i2r-then-i2rw-same-input", 1, 1, true, "i2r r0 i0", "i2rw r1 i0", "cpy r0 r1", "r2owa r0 o0", "j 0"),
		mk("i2rw-r2owa-loop", 1, 1, true, "i2rw r0 i0", "inc r0", "r2owa r0 o0", "j 0"),
	}
}

// port sweep: every input and output index of machines with 0..5 inputs and 1..5 outputs
// (so that the input- and output-index fields have different widths), plain and handshaked
func portCases(rsize uint8) []caseT {
	var cs []caseT
	for n := 0; n <= 5; n++ {
		for m := 1; m <= 5; m++ {
			for _, hs := range []bool{false, true} {
				c := caseT{Kind: "ports", Rsize: rsize, R: 2, N: uint8(n), M: uint8(m)}
				wr, rd := "r2o", "i2r"
				if hs {
					wr, rd = "r2owa", "i2rw"
				}
				for k := 0; k < m; k++ {
					c.Prog = append(c.Prog, fmt.Sprintf("rset r0 %d", uint64((k+1)*17)&mask(rsize)), fmt.Sprintf("%s r0 o%d", wr, k))
				}
				for k := 0; k < n; k++ {
					c.Prog = append(c.Prog, fmt.Sprintf("%s r%d i%d", rd, 1+k%3, k), fmt.Sprintf("%s r%d o%d", wr, 1+k%3, (k+1)%m))
				}
				c.Prog = append(c.Prog, fmt.Sprintf("j %d", len(c.Prog)))
				c.Ops = opsIn(c.Prog)
				c.O = uint8(procbuilder.Needed_bits(len(c.Prog)))
				for k := 0; k < n; k++ {
					c.Env.Const = append(c.Env.Const, uint64((k+1)*13)&mask(rsize))
					if hs {
						c.Env.Streams = append(c.Env.Streams, []uint64{uint64(100+k) & mask(rsize), uint64(110+k) & mask(rsize)})
					} else {
						c.Env.Streams = append(c.Env.Streams, nil)
					}
					c.Env.Gap = append(c.Env.Gap, k%2)
				}
				for k := 0; k < m; k++ {
					c.Env.AckDelay = append(c.Env.AckDelay, 1+k%2)
				}
				cs = append(cs, c)
			}
		}
	}
	return cs
}

func main() {
	asmw.ServeIfWorker()
	tier, replay := hx.Args()
	run := evid.New("C01", tier, "translation_validation")
	run.Rule = "cases = (architecture, program, environment): 8-register sweeps (every destination x source pair of every two-register opcode, every register of every one-register opcode), directed sweeps (every two-register opcode of the claimed cells × destination/source register pairs × boundary operand values, R=1,2) and seeded random programs over random opcode subsets of the claimed cells (Rsize 8/16/32/64, R 1..3, N,M 0..5, a port sweep over every input/output index for N 0..5 x M 1..5, WordSize automatic or +3, handshaked and constant inputs, output ack delays); non-trivial = both back ends retired ≥5 instructions and a register changed, distinct by the case text"
	run.Assume = []string{"vsim executes the generated Verilog (2-state; '#1' intra-assignment delays ignored, exact for clock periods longer than the delay)",
		"co-implementation table internal/gen/coimpl.go decides which (opcode, Rsize) cells are compared; excluded cells are listed in the evidence",
		"execution mode ha, Threaded = 0 (the simulator has neither RAM-resident code nor a context switch)",
		"a simulator panic (division by zero) or an undefined HDL register makes the case inconclusive, not a violation"}
	run.Floor = 100
	scratch, clean := hx.Scratch("c01")
	defer clean()
	hx.SilenceStdout(filepath.Join(scratch, "lib.log"))
	gen.OpByName("rsets5")
	if err := gen.EnableLinearQuantizer(scratch); err != nil {
		fmt.Fprintln(os.Stderr, "lq ranges:", err)
	}
	steps := 300

	excl := map[string]string{}
	for _, op := range procbuilder.Allopcodes {
		for _, rs := range []uint8{8, 16, 32, 64} {
			if ok, why := gen.Claimed(op.Op_get_name(), rs); !ok {
				excl[fmt.Sprintf("%s@%d", op.Op_get_name(), rs)] = why
			}
		}
	}
	run.Set("excluded_cells", excl)

	report := func(c caseT, kind string, w map[string]any) {
		if strings.HasPrefix(c.Kind, "corner:") {
			run.Violation(strings.Split(kind, ":")[0]+":"+c.Kind+":rsize="+strconv.Itoa(int(c.Rsize)), w)
			return
		}
		// shrink the program: drop lines (jump targets are clamped) while the same kind persists
		for changed := true; changed && len(c.Prog) > 1; {
			changed = false
			for i := range c.Prog {
				c2 := c
				c2.Prog = append(append([]string{}, c.Prog[:i]...), c.Prog[i+1:]...)
				for j, l := range c2.Prog {
					f := strings.Fields(l)
					if f[0] == "j" || f[0] == "jz" || f[0] == "jgt0f" {
						t, _ := strconv.Atoi(f[len(f)-1])
						if t > i {
							t--
						}
						if t >= len(c2.Prog) {
							t = len(c2.Prog) - 1
						}
						f[len(f)-1] = strconv.Itoa(t)
						c2.Prog[j] = strings.Join(f, " ")
					}
				}
				c2.Ops = opsIn(c2.Prog)
				if k2, w2, _, _ := verdict(c2, steps); k2 == kind {
					c, w = c2, w2
					changed = true
					break
				}
			}
		}
		var sigp []string
		for _, l := range c.Prog {
			o := strings.Fields(l)[0]
			if len(sigp) == 0 || sigp[len(sigp)-1] != o {
				sigp = append(sigp, o)
			}
		}
		if len(sigp) > 6 {
			sigp = sigp[:6]
		}
		key := kind + ":prog=" + strings.Join(sigp, "+") + ":rsize=" + strconv.Itoa(int(c.Rsize))
		run.Violation(key, w)
	}

	one := func(c caseT) {
		run.Eval(1)
		kind, w, retires, regCh := verdict(c, steps)
		switch kind {
		case "":
			if retires >= 5 && regCh {
				run.Nontrivial(c.String())
			}
			for _, o := range opsIn(c.Prog) {
				run.Tally("agreeing_cases_by_opcode", o)
			}
		case "not-buildable":
			run.Inconclusive(kind)
			run.Tally("not_buildable_reasons", fmt.Sprint(w["err"]))
		case "sim-undefined", "hdl-undefined-register", "vsim-unsupported", "float-nan-payload":
			run.Inconclusive(kind)
		default:
			report(c, kind, w)
		}
	}

	if replay != "" {
		w, err := evid.ReadWitness(replay)
		if err != nil {
			fmt.Fprintln(os.Stderr, err)
			os.Exit(2)
		}
		run.Floor = 0
		var c caseT
		b, _ := json.Marshal(w["case"])
		json.Unmarshal(b, &c)
		one(c)
		os.Exit(run.Finish())
	}

	var cs []caseT
	sizes := []uint8{8, 32}
	nRand := 1500
	if tier == "thorough" {
		sizes = []uint8{8, 16, 32, 64}
		nRand = 40000
	}
	for _, rs := range sizes {
		d := directedCases(rs)
		if tier != "thorough" {
			// quick: every third directed case
			var d2 []caseT
			for i, c := range d {
				if i%3 == 0 {
					d2 = append(d2, c)
				}
			}
			d = d2
		}
		cs = append(cs, d...)
	}
	for _, rs := range []uint8{8, 16, 32, 64} {
		cs = append(cs, cornerCases(rs)...)
	}
	for _, rs := range sizes {
		cs = append(cs, portCases(rs)...)
	}
	for _, rs := range []uint8{8, 16, 32, 64} {
		w := wideCases(rs)
		if tier != "thorough" {
			// quick: 8/32 bit in full; of the other two sizes the opcodes that exist only there (16 bit floats)
			var w2 []caseT
			for _, c := range w {
				if rs == 8 || rs == 32 || (rs == 16 && strings.HasSuffix(strings.TrimPrefix(c.Kind, "wide:"), "f16")) {
					w2 = append(w2, c)
				}
			}
			w = w2
		}
		cs = append(cs, w...)
	}
	nDirected := len(cs)
	rng := hx.RNG(run.Seed, "c01")
	for i := 0; i < nRand; i++ {
		cs = append(cs, randomCase(rng, "random"))
	}
	run.Set("directed_cases", nDirected)
	run.Set("random_cases", nRand)
	run.Set("programs", len(cs))
	hx.Par(len(cs), func(i int) {
		one(cs[i])
		if i == nDirected || i == nDirected+1 || i == 10 {
			run.Sample(cs[i].String())
		}
	})
	run.Set("disagreements_checked", run.Violations())
	hwoptStage(run, scratch, tier)
	os.Exit(run.Finish())
}
