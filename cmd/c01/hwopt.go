package main

// Hardware-optimisation clause of C01: "enabling a hardware optimisation that was derived from the
// program never changes that behaviour". Sources are assembled by pkg/basm (worker process), which
// also produces the requirement tree the optimisations are derived from; the machine is rendered to
// Verilog without and with the optimisation flags and both file sets are executed by vsim under the
// same environment: program counter and every register of every processor must agree at every clock.

import (
	"encoding/json"
	"fmt"
	"math/rand/v2"
	"path/filepath"
	"strings"

	"github.com/BondMachineHQ/BondMachine/pkg/bmreqs"
	"github.com/BondMachineHQ/BondMachine/pkg/bondmachine"
	"github.com/BondMachineHQ/BondMachine/pkg/procbuilder"
	"verif/internal/asmw"
	"verif/internal/basmgen"
	"verif/internal/bmsim"
	"verif/internal/evid"
	"verif/internal/hdl"
	"verif/internal/hx"
	"verif/internal/simdrv"
)

func hwoptStage(run *evid.Run, scratch string, tier string) {
	n := 40
	if tier == "thorough" {
		n = 600
	}
	pools := asmw.NewPools(filepath.Join(scratch, "asm"))
	rng := hx.RNG(run.Seed, "c01-hwopt")
	type hcase struct {
		src string
		in  [][]uint64
	}
	var cs []hcase
	for i := 0; i < n; i++ {
		p := basmgen.Generate(rng, true, 0)
		if i%2 == 1 {
			p = basmgen.GenerateWide(rng, true, 0) // also addp/multp and instructions with one register in both operands
		}
		var in [][]uint64
		for k := 0; k < p.ExtIn; k++ {
			var s []uint64
			for v := 0; v < 6; v++ {
				s = append(s, rng.Uint64()&(uint64(1)<<uint(p.Rsize)-1))
			}
			in = append(in, s)
		}
		cs = append(cs, hcase{p.Text(), in})
	}
	_ = rand.Int
	hx.Par(len(cs), func(i int) {
		c := cs[i]
		run.Eval(1)
		r := pools.Call(asmw.Req{Src: c.src, Opt: "nodyn", NoSim: true, WantJSON: true})
		if r.Err != "" || r.Crash || r.JSON == "" {
			run.Inconclusive("hwopt:source-rejected-by-assembler")
			return
		}
		bj := new(bondmachine.Bondmachine_json)
		if err := json.Unmarshal([]byte(r.JSON), bj); err != nil {
			run.Inconclusive("hwopt:machine-json")
			return
		}
		bm := bj.Dejsoner()
		reqs := new(bmreqs.ExportedReqs)
		if err := json.Unmarshal([]byte(r.Reqs), reqs); err != nil {
			run.Inconclusive("hwopt:requirements-json")
			return
		}
		rg, err := bmreqs.Import(reqs)
		if err != nil || rg == nil {
			run.Inconclusive("hwopt:requirements-import")
			return
		}
		plain, err := hdl.FileSet(scratch, bm, nil, "iverilog")
		if err != nil {
			run.Inconclusive("hwopt:plain-verilog-not-generated")
			return
		}
		for _, flags := range []struct {
			name string
			v    uint64
		}{{"onlydestregs", procbuilder.OnlyDestRegs}, {"onlysrcregs", procbuilder.OnlySrcRegs}, {"both", procbuilder.OnlyDestRegs | procbuilder.OnlySrcRegs}} {
			conf := new(bondmachine.Config)
			conf.HwOptimizations = procbuilder.HwOptimizations(flags.v)
			conf.ReqRoot = rg
			opt, err := hdl.FileSet(scratch, bm, conf, "iverilog")
			w := map[string]any{"kind": "hwopt", "source": c.src, "inputs": c.in, "flags": flags.name}
			if err != nil {
				w["error"] = err.Error()
				run.Violation("hwopt:verilog-generation-fails:"+flags.name, w)
				continue
			}
			differs := false
			for k, v := range plain {
				if opt[k] != v {
					differs = true
				}
			}
			if !differs {
				run.Tally("hwopt_file_sets", flags.name+":identical-to-plain")
				continue
			}
			run.Tally("hwopt_file_sets", flags.name+":pruned")
			env := simdrv.Env{In: c.in}
			a, e1 := bmsim.NewHDL(plain, bm.Inputs, bm.Outputs, env)
			b, e2 := bmsim.NewHDL(opt, bm.Inputs, bm.Outputs, env)
			if e1 != nil {
				run.Inconclusive("hwopt:plain-does-not-elaborate")
				continue
			}
			if e2 != nil {
				w["error"] = e2.Error()
				run.Violation("hwopt:optimised-verilog-does-not-elaborate:"+flags.name, w)
				continue
			}
			bad := ""
			for t := 0; t < 400 && bad == ""; t++ {
				if err := a.Step(); err != nil {
					break
				}
				if err := b.Step(); err != nil {
					bad = fmt.Sprintf("clock %d: optimised design fails: %v", t, err)
					break
				}
				for p := range bm.Processors {
					if a.Pc(p) != b.Pc(p) {
						bad = fmt.Sprintf("clock %d: p%d pc %d (plain) vs %d (optimised)", t, p, a.Pc(p), b.Pc(p))
						break
					}
					for rr := 0; rr < 1<<bm.Domains[bm.Processors[p]].R; rr++ {
						if a.Reg(p, rr) != b.Reg(p, rr) {
							bad = fmt.Sprintf("clock %d: p%d r%d = %d (plain) vs %d (optimised)", t, p, rr, a.Reg(p, rr), b.Reg(p, rr))
							break
						}
					}
				}
			}
			if bad == "" && fmt.Sprint(a.Out()) != fmt.Sprint(b.Out()) {
				bad = fmt.Sprintf("output streams %v (plain) vs %v (optimised)", a.Out(), b.Out())
			}
			if bad != "" {
				w["difference"] = bad
				// name the opcodes whose arms were pruned in the first differing processor file
				var ops []string
				for k, v := range plain {
					if opt[k] != v && strings.HasPrefix(k, "p") {
						ops = append(ops, k)
					}
				}
				w["files_changed_by_the_optimisation"] = ops
				run.Violation("hwopt:behaviour-changes:"+flags.name, w)
				continue
			}
			run.Nontrivial("hwopt|" + flags.name + "|" + c.src)
		}
	})
}
