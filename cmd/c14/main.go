// c14: compiled quantum circuits implement the circuit's unitary.
//
// Circuits over the supported gate set are handed to the real
// BmQSimulator.QasmToBmMatrices (directly as a BasmBody, and through the .bmq
// parser path that cmd/bmqsim uses); the monitor compares the product of the
// emitted matrices with a complex128 reference built by applying each gate's
// defining matrix to the named qubits, checks unitarity of every emitted
// matrix, and compares RunSoftwareSimulation on every basis state.
package main

import (
	"encoding/json"
	"fmt"
	"math"
	"math/cmplx"
	"os"
	"path/filepath"
	"strconv"
	"strings"
	"sync"

	"github.com/BondMachineHQ/BondMachine/pkg/bmbuilder"
	"github.com/BondMachineHQ/BondMachine/pkg/bmline"
	"github.com/BondMachineHQ/BondMachine/pkg/bmmatrix"
	"github.com/BondMachineHQ/BondMachine/pkg/bmqsim"
	"verif/internal/evid"
	"verif/internal/hx"
)

type gate struct {
	Name   string   `json:"g"`
	Qubits []int    `json:"q"`
	Angle  *float32 `json:"a,omitempty"`
}

type circuit struct {
	N     int    `json:"n"`
	Gates []gate `json:"gates"`
}

func (c circuit) String() string {
	var p []string
	for _, g := range c.Gates {
		s := g.Name
		for _, q := range g.Qubits {
			s += " q" + strconv.Itoa(q)
		}
		if g.Angle != nil {
			s += " " + strconv.FormatFloat(float64(*g.Angle), 'g', -1, 32)
		}
		p = append(p, s)
	}
	return fmt.Sprintf("n=%d: %s", c.N, strings.Join(p, "; "))
}

type cm [][]complex128

func ident(n int) cm {
	m := make(cm, n)
	for i := range m {
		m[i] = make([]complex128, n)
		m[i][i] = 1
	}
	return m
}

const s2 = 0.70710678118654752440

// defining matrices (textbook definitions; first argument = most significant bit of the gate's own basis)
func gateMatrix(name string, a float64) cm {
	i := complex(0, 1)
	switch name {
	case "h":
		return cm{{s2, s2}, {s2, -s2}}
	case "x":
		return cm{{0, 1}, {1, 0}}
	case "y":
		return cm{{0, -i}, {i, 0}}
	case "z":
		return cm{{1, 0}, {0, -1}}
	case "s":
		return cm{{1, 0}, {0, i}}
	case "t":
		return cm{{1, 0}, {0, cmplx.Exp(i * math.Pi / 4)}}
	case "sx":
		return cm{{0.5 + 0.5i, 0.5 - 0.5i}, {0.5 - 0.5i, 0.5 + 0.5i}}
	case "rx":
		c, s := complex(math.Cos(a/2), 0), complex(math.Sin(a/2), 0)
		return cm{{c, -i * s}, {-i * s, c}}
	case "ry":
		c, s := complex(math.Cos(a/2), 0), complex(math.Sin(a/2), 0)
		return cm{{c, -s}, {s, c}}
	case "rz":
		return cm{{cmplx.Exp(-i * complex(a/2, 0)), 0}, {0, cmplx.Exp(i * complex(a/2, 0))}}
	case "r": // phase shift P(a) — spelled "r" in the tool's gate table
		return cm{{1, 0}, {0, cmplx.Exp(i * complex(a, 0))}}
	case "cx":
		return cm{{1, 0, 0, 0}, {0, 1, 0, 0}, {0, 0, 0, 1}, {0, 0, 1, 0}}
	case "cz":
		return cm{{1, 0, 0, 0}, {0, 1, 0, 0}, {0, 0, 1, 0}, {0, 0, 0, -1}}
	case "swap":
		return cm{{1, 0, 0, 0}, {0, 0, 1, 0}, {0, 1, 0, 0}, {0, 0, 0, 1}}
	case "iswap":
		return cm{{1, 0, 0, 0}, {0, 0, i, 0}, {0, i, 0, 0}, {0, 0, 0, 1}}
	case "dcnot": // CNOT(a->b) followed by CNOT(b->a)
		return cm{{1, 0, 0, 0}, {0, 0, 1, 0}, {0, 0, 0, 1}, {0, 1, 0, 0}}
	}
	return nil
}

var gates1 = []string{"h", "x", "y", "z", "s", "t", "sx"}
var gates1p = []string{"rx", "ry", "rz", "r"}
var gates2 = []string{"cx", "cz", "swap", "iswap", "dcnot"}

// apply G on qubits qs (qubit 0 = most significant) to U: U' = G_full · U
func apply(U cm, G cm, qs []int, n int) cm {
	dim := 1 << n
	k := len(qs)
	out := make(cm, dim)
	for r := range out {
		out[r] = make([]complex128, dim)
	}
	pos := make([]int, k)
	for j, q := range qs {
		pos[j] = n - 1 - q
	}
	for r := 0; r < dim; r++ {
		a := 0
		for j := 0; j < k; j++ {
			a = a<<1 | (r>>pos[j])&1
		}
		for b := 0; b < 1<<k; b++ {
			g := G[a][b]
			if g == 0 {
				continue
			}
			src := r
			for j := 0; j < k; j++ {
				bit := (b >> (k - 1 - j)) & 1
				src = src&^(1<<pos[j]) | bit<<pos[j]
			}
			for c := 0; c < dim; c++ {
				out[r][c] += g * U[src][c]
			}
		}
	}
	return out
}

func reference(c circuit) cm {
	U := ident(1 << c.N)
	for _, g := range c.Gates {
		a := 0.0
		if g.Angle != nil {
			a = float64(*g.Angle)
		}
		U = apply(U, gateMatrix(g.Name, a), g.Qubits, c.N)
	}
	return U
}

func toCM(m *bmmatrix.BmMatrixSquareComplex) cm {
	out := make(cm, m.N)
	for i := range out {
		out[i] = make([]complex128, m.N)
		for j := range out[i] {
			out[i][j] = complex(float64(m.Data[i][j].Real), float64(m.Data[i][j].Imag))
		}
	}
	return out
}

func mul(a, b cm) cm {
	n := len(a)
	out := make(cm, n)
	for i := range out {
		out[i] = make([]complex128, n)
		for k := 0; k < n; k++ {
			if a[i][k] == 0 {
				continue
			}
			for j := 0; j < n; j++ {
				out[i][j] += a[i][k] * b[k][j]
			}
		}
	}
	return out
}

func maxDiff(a, b cm) float64 {
	d := 0.0
	for i := range a {
		for j := range a[i] {
			if x := cmplx.Abs(a[i][j] - b[i][j]); x > d {
				d = x
			}
		}
	}
	return d
}

func dagger(a cm) cm {
	n := len(a)
	out := make(cm, n)
	for i := range out {
		out[i] = make([]complex128, n)
		for j := range out[i] {
			out[i][j] = cmplx.Conj(a[j][i])
		}
	}
	return out
}

func body(c circuit) *bmline.BasmBody {
	b := new(bmline.BasmBody)
	names := make([]string, c.N)
	for i := range names {
		names[i] = "q" + strconv.Itoa(i)
	}
	b.BasmMeta = b.BasmMeta.SetMeta("qbits", strings.Join(names, ":"))
	for _, g := range c.Gates {
		l := new(bmline.BasmLine)
		l.Operation = new(bmline.BasmElement)
		l.Operation.SetValue(g.Name)
		for _, q := range g.Qubits {
			e := new(bmline.BasmElement)
			e.SetValue(names[q])
			l.Elements = append(l.Elements, e)
		}
		if g.Angle != nil {
			e := new(bmline.BasmElement)
			e.SetValue(strconv.FormatFloat(float64(*g.Angle), 'g', -1, 32))
			l.Elements = append(l.Elements, e)
		}
		b.Lines = append(b.Lines, l)
	}
	return b
}

func bmqText(c circuit) string {
	var sb strings.Builder
	names := make([]string, c.N)
	for i := range names {
		names[i] = "q" + strconv.Itoa(i)
	}
	sb.WriteString("%block code1 .sequential\n")
	sb.WriteString("\tqbits\t" + strings.Join(names, ", ") + "\n")
	sb.WriteString("\tzero\t" + strings.Join(names, ", ") + "\n")
	for _, g := range c.Gates {
		var a []string
		for _, q := range g.Qubits {
			a = append(a, names[q])
		}
		if g.Angle != nil {
			a = append(a, strconv.FormatFloat(float64(*g.Angle), 'f', -1, 32))
		}
		sb.WriteString("\t" + g.Name + "\t" + strings.Join(a, ", ") + "\n")
	}
	sb.WriteString("%endblock\n\n%meta bmdef global main:code1\n")
	return sb.String()
}

var bmqMu sync.Mutex

func compile(c circuit, viaBmq bool, scratch string) (ms []*bmmatrix.BmMatrixSquareComplex, sim *bmqsim.BmQSimulator, err error, pan any) {
	defer func() {
		if r := recover(); r != nil {
			pan = r
		}
	}()
	sim = new(bmqsim.BmQSimulator)
	sim.BmQSimulatorInit()
	var b *bmline.BasmBody
	if viaBmq {
		bmqMu.Lock() // the builder keeps package-level state; parse serially
		defer bmqMu.Unlock()
		f := filepath.Join(scratch, "c.bmq")
		os.WriteFile(f, []byte(bmqText(c)), 0o644)
		bld := new(bmbuilder.BMBuilder)
		bld.BMBuilderInit()
		if e := bld.ParseBuilderDefault(f); e != nil {
			return nil, nil, e, nil
		}
		bld.UnsetActive("generatorsexec")
		if e := bld.RunBuilder(); e != nil {
			return nil, nil, e, nil
		}
		b, err = bld.ExportBasmBody()
		if err != nil {
			return nil, nil, err, nil
		}
	} else {
		b = body(c)
	}
	ms, err = sim.QasmToBmMatrices(b)
	return
}

func gateClass(c circuit) string {
	// (kept for reference) describe the first multi-qubit gate's placement
	for _, g := range c.Gates {
		if len(g.Qubits) == 2 {
			d := g.Qubits[1] - g.Qubits[0]
			o := "ascending"
			if d < 0 {
				o = "descending"
				d = -d
			}
			adj := "adjacent"
			if d > 1 {
				adj = "distant"
			}
			return g.Name + "-" + o + "-" + adj
		}
	}
	if len(c.Gates) > 0 {
		return c.Gates[0].Name
	}
	return "empty"
}

func check(run *evid.Run, c circuit, viaBmq bool, scratch string) {
	run.Eval(1)
	if k, _ := verdict(c, viaBmq, scratch); k != "" {
		// shrink: drop gates while the same kind of failure persists
		for changed := true; changed; {
			changed = false
			for i := range c.Gates {
				c2 := circuit{N: c.N, Gates: append(append([]gate{}, c.Gates[:i]...), c.Gates[i+1:]...)}
				if k2, _ := verdict(c2, viaBmq, scratch); k2 == k {
					c = c2
					changed = true
					break
				}
			}
		}
		k, w := verdict(c, viaBmq, scratch)
		path := "body"
		if viaBmq {
			path = "bmq"
		}
		run.Violation(k+":"+path+":"+shape(c), w)
		return
	}
	ms, _, _, _ := compile(c, viaBmq, scratch)
	path := "body"
	if viaBmq {
		path = "bmq"
	}
	multi := 0
	for _, g := range c.Gates {
		if len(g.Qubits) > 1 {
			multi++
		}
	}
	if len(ms) > 0 {
		run.Nontrivial(path + "|" + c.String())
		run.Tally("matrices_emitted_histogram", strconv.Itoa(len(ms)))
		if multi > 0 {
			run.Count("circuits_with_multi_qubit_gate", 1)
		}
	}
}

// verdict compiles and judges one circuit: "" if it held, else the kind of failure and a witness.
func verdict(c circuit, viaBmq bool, scratch string) (string, map[string]any) {
	path := "body"
	if viaBmq {
		path = "bmq"
	}
	ms, sim, err, pan := compile(c, viaBmq, scratch)
	w := map[string]any{"circuit": c, "text": c.String(), "path": path}
	if pan != nil {
		w["panic"] = fmt.Sprint(pan)
		return "panic", w
	}
	if err != nil {
		w["err"] = err.Error()
		return "compile-error", w
	}
	dim := 1 << c.N
	U := ident(dim)
	for k, m := range ms {
		if m == nil || m.N != dim {
			w["matrix_index"] = k
			return "matrix-dimension", w
		}
		M := toCM(m)
		if d := maxDiff(mul(M, dagger(M)), ident(dim)); d > 1e-5 {
			w["matrix_index"] = k
			w["deviation"] = d
			return "not-unitary", w
		}
		U = mul(M, U)
	}
	ref := reference(c)
	if d := maxDiff(U, ref); d > 1e-4 {
		w["max_abs_entry_difference"] = d
		w["matrices"] = len(ms)
		return "unitary-differs", w
	}
	// software simulation on every basis state
	sim.Mtx = ms
	sim.Inputs = nil
	for b := 0; b < dim; b++ {
		v := make([]bmmatrix.Complex32, dim)
		v[b] = bmmatrix.Complex32{Real: 1}
		sim.Inputs = append(sim.Inputs, bmqsim.StateArray{Vector: v})
	}
	if e := sim.RunSoftwareSimulation(); e != nil {
		w["err"] = e.Error()
		return "swsim-error", w
	}
	for b := 0; b < dim; b++ {
		for r := 0; r < dim; r++ {
			o := sim.Outputs[b].Vector[r]
			if cmplx.Abs(complex(float64(o.Real), float64(o.Imag))-ref[r][b]) > 1e-4 {
				w["basis_state"] = b
				return "swsim-differs", w
			}
		}
	}
	return "", nil
}

func f32(x float64) *float32 { v := float32(x); return &v }

func main() {
	tier, replay := hx.Args()
	run := evid.New("C14", tier, "exploration")
	run.Rule = "all single-gate circuits (every gate × every ordered tuple of distinct qubits, n=1..5), all two-gate circuits on n≤3 over a reduced gate set, and seeded random sequences of 2..12 gates with random angles (within one turn, within ±5π and within ±40; the single-gate circuits also at 0, 2π, 3π, −4π, 7, −8.5, 13, 100, 1e-1, 1e-5); each compiled through the direct BasmBody path and a sample through the .bmq parser path; non-trivial = ≥1 matrix emitted, distinct by (path, circuit text)"
	run.Assume = []string{"reference unitary: complex128, textbook gate matrices, first declared qubit = most significant; float32 tolerance 1e-4 on the product and on simulation outputs, 1e-5 on M·M†",
		"global phase is not quotiented", "the tool spells the parametrised phase-shift gate 'r' (its 'p' is the fixed S gate); the reference follows the tool's spelling for the mnemonic only"}
	run.Floor = 200
	scratch, clean := hx.Scratch("c14")
	defer clean()
	hx.SilenceStdout(filepath.Join(scratch, "lib.log"))

	if replay != "" {
		w, err := evid.ReadWitness(replay)
		if err != nil {
			fmt.Fprintln(os.Stderr, err)
			os.Exit(2)
		}
		run.Floor = 0
		var c circuit
		b, _ := json.Marshal(w["circuit"])
		json.Unmarshal(b, &c)
		check(run, c, w["path"] == "bmq", scratch)
		os.Exit(run.Finish())
	}

	var cs []circuit
	// exhaustive single-gate circuits
	for n := 1; n <= 5; n++ {
		for q := 0; q < n; q++ {
			for _, g := range gates1 {
				cs = append(cs, circuit{n, []gate{{Name: g, Qubits: []int{q}}}})
			}
			for _, g := range gates1p {
				for _, a := range []float64{0.3, math.Pi / 2, -1.1, math.Pi, 0, 2 * math.Pi, 7.0, -8.5, 3 * math.Pi, -4 * math.Pi, 13.0, 1e-1, 1e-5, -2.5e1, 100} {
					cs = append(cs, circuit{n, []gate{{Name: g, Qubits: []int{q}, Angle: f32(a)}}})
				}
			}
		}
		for a := 0; a < n; a++ {
			for b := 0; b < n; b++ {
				if a == b {
					continue
				}
				for _, g := range gates2 {
					cs = append(cs, circuit{n, []gate{{Name: g, Qubits: []int{a, b}}}})
				}
			}
		}
	}
	nSingle := len(cs)
	// exhaustive two-gate circuits on n ≤ 3 (grouping logic: same matrix vs new matrix)
	small := []string{"h", "s", "cx", "iswap", "dcnot"}
	for n := 2; n <= 3; n++ {
		var gs []gate
		for _, g := range small {
			if gateMatrix(g, 0) != nil && len(gateMatrix(g, 0)) == 2 {
				for q := 0; q < n; q++ {
					gs = append(gs, gate{Name: g, Qubits: []int{q}})
				}
			} else {
				for a := 0; a < n; a++ {
					for b := 0; b < n; b++ {
						if a != b {
							gs = append(gs, gate{Name: g, Qubits: []int{a, b}})
						}
					}
				}
			}
		}
		for _, g1 := range gs {
			for _, g2 := range gs {
				cs = append(cs, circuit{n, []gate{g1, g2}})
			}
		}
	}
	nPairs := len(cs) - nSingle
	// random sequences
	nRand := 1500
	if tier == "thorough" {
		nRand = 80000
	}
	rng := hx.RNG(run.Seed, "c14")
	for i := 0; i < nRand; i++ {
		n := 1 + rng.IntN(5)
		k := 2 + rng.IntN(11)
		c := circuit{N: n}
		for j := 0; j < k; j++ {
			r := rng.IntN(10)
			switch {
			case n >= 2 && r < 5:
				a := rng.IntN(n)
				b := rng.IntN(n - 1)
				if b >= a {
					b++
				}
				c.Gates = append(c.Gates, gate{Name: gates2[rng.IntN(len(gates2))], Qubits: []int{a, b}})
			case r < 8:
				c.Gates = append(c.Gates, gate{Name: gates1[rng.IntN(len(gates1))], Qubits: []int{rng.IntN(n)}})
			default:
				c.Gates = append(c.Gates, gate{Name: gates1p[rng.IntN(len(gates1p))], Qubits: []int{rng.IntN(n)}, Angle: f32((rng.Float64()*2 - 1) * []float64{2 * math.Pi, 2 * math.Pi, 5 * math.Pi, 40}[rng.IntN(4)])})
			}
		}
		cs = append(cs, c)
	}
	run.Set("single_gate_circuits_exhaustive", nSingle)
	run.Set("two_gate_circuits_exhaustive", nPairs)
	run.Set("random_circuits", nRand)
	hx.Par(len(cs), func(i int) {
		check(run, cs[i], false, scratch)
		if i%7 == 0 && i < 6000 {
			check(run, cs[i], true, scratch)
		}
		if i == 5 || i == nSingle+3 || i == len(cs)-1 {
			run.Sample(cs[i].String())
		}
	})
	os.Exit(run.Finish())
}

// shape is the structural class of a (shrunk) circuit: gate names with the
// relative placement of their qubits, without the absolute indices.
func shape(c circuit) string {
	var p []string
	for _, g := range c.Gates {
		if len(g.Qubits) == 2 {
			d := g.Qubits[1] - g.Qubits[0]
			p = append(p, fmt.Sprintf("%s(%+d)", g.Name, d))
		} else {
			p = append(p, g.Name)
		}
	}
	return fmt.Sprintf("n%d:", c.N) + strings.Join(p, ",")
}
