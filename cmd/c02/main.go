// c02: a whole BondMachine behaves the same in generated HDL as in simulation.
//
// (1) Stream monitor: random bond graphs of handshake-only dataflow processors
// run on the Go simulator and on the generated top-level Verilog (vsim) under
// independent environment stall patterns; the values delivered on every external
// output must agree prefix-wise.
// (2) Netlist monitor, on the elaborated top level with the processors
// black-boxed: the instance port lists must name exactly the nets the bond table
// prescribes, data/valid of every external output must follow its source, and
// the boolean function driving every <output>_received is tabulated over the
// consumers' received lines and must be their conjunction.
package main

import (
	"encoding/json"
	"fmt"
	"os"
	"path/filepath"
	"regexp"
	"sort"
	"strings"

	"github.com/BondMachineHQ/BondMachine/pkg/bondmachine"
	"github.com/BondMachineHQ/BondMachine/pkg/procbuilder"
	"verif/internal/bmsim"
	"verif/internal/bondmon"
	"verif/internal/evid"
	"verif/internal/gen"
	"verif/internal/hx"
	"verif/internal/simdrv"
	"verif/internal/vsim"
)

type caseT struct {
	Net    gen.NetSpec `json:"net"`
	EnvSim simdrv.Env  `json:"env_sim"`
	EnvHDL simdrv.Env  `json:"env_hdl"`
	// Structural: a bond graph judged by the netlist monitor only (no program could run on it:
	// self loops, unbonded ports, processors without inputs or outputs, fan-out up to 5)
	Structural *structSpec `json:"structural,omitempty"`
}

type structSpec struct {
	Rsize   uint8       `json:"rsize"`
	Procs   [][2]int    `json:"procs_n_m"`
	Inputs  int         `json:"inputs"`
	Outputs int         `json:"outputs"`
	Bonds   [][2]string `json:"bonds"`
	Order   uint64      `json:"build_order"`
}

func (sp *structSpec) build() (*bondmachine.Bondmachine, error) {
	var machs []*procbuilder.Machine
	for _, nm := range sp.Procs {
		m, err := gen.NewMachine(sp.Rsize, 1, uint8(nm[0]), uint8(nm[1]), 0, 1, "ha", []string{"j", "nop"})
		if err != nil {
			return nil, err
		}
		if err := gen.Assemble(m, []string{"nop", "j 0"}); err != nil {
			return nil, err
		}
		machs = append(machs, m)
	}
	return gen.NewBMOrder(sp.Rsize, machs, sp.Inputs, sp.Outputs, sp.Bonds, sp.Order), nil
}

func randStruct(rng interface {
	IntN(int) int
	Uint64() uint64
}) *structSpec {
	sp := &structSpec{Rsize: []uint8{8, 16, 32}[rng.IntN(3)], Inputs: rng.IntN(4), Outputs: rng.IntN(4)}
	np := 1 + rng.IntN(4)
	var iin, iout []string
	for i := 0; i < sp.Inputs; i++ {
		iout = append(iout, fmt.Sprintf("i%d", i))
	}
	for i := 0; i < sp.Outputs; i++ {
		iin = append(iin, fmt.Sprintf("o%d", i))
	}
	for p := 0; p < np; p++ {
		n, m := rng.IntN(4), rng.IntN(4)
		sp.Procs = append(sp.Procs, [2]int{n, m})
		for j := 0; j < n; j++ {
			iin = append(iin, fmt.Sprintf("p%di%d", p, j))
		}
		for j := 0; j < m; j++ {
			iout = append(iout, fmt.Sprintf("p%do%d", p, j))
		}
	}
	if len(iout) == 0 {
		return sp
	}
	// every internal input is bonded with probability 3/4, to any internal output (self loops, fan-out
	// of any degree and pass-through wires included); a few sources are favoured so that outputs with
	// three and more consumers are common
	hot := iout[rng.IntN(len(iout))]
	for _, in := range iin {
		switch rng.IntN(4) {
		case 0:
		case 1:
			sp.Bonds = append(sp.Bonds, [2]string{in, hot})
		default:
			sp.Bonds = append(sp.Bonds, [2]string{in, iout[rng.IntN(len(iout))]})
		}
	}
	if rng.IntN(2) == 0 {
		sp.Order = 1 + rng.Uint64()%1000003
	}
	return sp
}

// ---- netlist monitor ----------------------------------------------------------------

func names(bm *bondmachine.Bondmachine) (iin, iout []string) {
	for _, b := range bm.Internal_inputs {
		iin = append(iin, strings.ToLower(b.String()))
	}
	for _, b := range bm.Internal_outputs {
		iout = append(iout, strings.ToLower(b.String()))
	}
	return
}

var instRe = regexp.MustCompile(`(?m)^\s*a(\d+)\s+a\d+_inst\s*\(([^;]*)\);`)

func netlist(bm *bondmachine.Bondmachine, files map[string]string) (string, map[string]any, int) {
	iin, iout := names(bm)
	src := map[string]string{} // internal input name -> internal output name
	consumers := map[string][]string{}
	for i, l := range bm.Links {
		if l >= 0 {
			src[iin[i]] = iout[l]
			consumers[iout[l]] = append(consumers[iout[l]], iin[i])
		}
	}
	checks := 0
	// (a) instance port lists
	found := map[int][]string{}
	for _, m := range instRe.FindAllStringSubmatch(files["bondmachine.v"], -1) {
		var id int
		fmt.Sscanf(m[1], "%d", &id)
		var ports []string
		for _, p := range strings.Split(m[2], ",") {
			ports = append(ports, strings.TrimSpace(p))
		}
		found[id] = ports
	}
	for p, dom := range bm.Processors {
		want := []string{"clk", "reset"}
		for j := 0; j < int(bm.Domains[dom].N); j++ {
			n := fmt.Sprintf("p%di%d", p, j)
			if s, ok := src[n]; ok {
				want = append(want, s, s+"_valid", n+"_received")
			} else {
				want = append(want, n, n+"_valid", n+"_received")
			}
		}
		for j := 0; j < int(bm.Domains[dom].M); j++ {
			n := fmt.Sprintf("p%do%d", p, j)
			want = append(want, n, n+"_valid", n+"_received")
		}
		checks++
		if strings.Join(found[p], ",") != strings.Join(want, ",") {
			return "instance-ports", map[string]any{"processor": p, "found": found[p], "prescribed": want}, checks
		}
	}
	// (b) behaviour of the top level with the processors black-boxed
	fs := map[string]string{}
	bb := map[string]bool{}
	for k, v := range files {
		if k == "bondmachine.v" {
			fs[k] = v
		}
	}
	for p := range bm.Processors {
		bb[fmt.Sprintf("a%d", p)] = true
	}
	d, _ := vsim.ParseFiles(fs)
	sim, err := d.Elaborate("bondmachine", bb)
	if err != nil {
		return "top-level-not-elaborable", map[string]any{"err": err.Error()}, checks
	}
	// every "received" line that something in the top level may read
	var recvNets []string
	for _, n := range iin {
		recvNets = append(recvNets, n+"_received") // processor inputs: driven by the (black-boxed) processor; external outputs: top-level inputs
	}
	sort.Strings(recvNets)
	var prodNets []string
	for _, n := range iout {
		if strings.HasPrefix(n, "p") {
			prodNets = append(prodNets, n)
		} else {
			prodNets = append(prodNets, n) // external input: top-level port
		}
	}
	if len(prodNets) == 0 {
		return "", nil, checks
	}
	width, _ := sim.Width(prodNets[0])
	mask := uint64(1)<<uint(width) - 1
	if width >= 64 {
		mask = ^uint64(0)
	}
	m := len(recvNets)
	vectors := 1 << uint(m)
	exhaustive := true
	if m > 11 {
		vectors = 3000
		exhaustive = false
	}
	rng := hx.RNG(1, "c02vectors"+fmt.Sprint(len(iin), len(iout)))
	for v := 0; v < vectors; v++ {
		bits := uint64(v)
		if !exhaustive {
			bits = rng.Uint64()
		}
		val := map[string]bool{}
		for i, n := range recvNets {
			b := bits>>uint(i)&1 == 1
			val[n] = b
			x := uint64(0)
			if b {
				x = 1
			}
			if err := sim.Set(n, x); err != nil {
				if _, bonded := src[strings.TrimSuffix(n, "_received")]; !bonded {
					continue // the received line of an unbonded input is an implicit net nothing reads
				}
				return "net-missing", map[string]any{"net": n, "err": err.Error()}, checks
			}
		}
		// data and valid of every producer: distinct values
		for i, n := range prodNets {
			sim.Set(n, (uint64(i)*37+uint64(v)+1)&mask)
			sim.Set(n+"_valid", uint64((v>>uint(i%8))&1))
		}
		if err := sim.Settle(); err != nil {
			return "top-level-comb-loop", map[string]any{"err": err.Error()}, checks
		}
		for _, out := range iout {
			cs := consumers[out]
			if len(cs) == 0 {
				continue
			}
			want := true
			for _, c := range cs {
				want = want && val[c+"_received"]
			}
			got, _, err := sim.Get(out + "_received")
			checks++
			if err != nil || (got != 0) != want {
				return "received-is-not-the-conjunction", map[string]any{"output": out, "consumers": cs, "consumer_received": val, "got": got, "want_and": want}, checks
			}
		}
		for i, in := range iin {
			if !strings.HasPrefix(in, "o") {
				continue
			}
			s, ok := src[in]
			if !ok {
				continue
			}
			var si int
			for k, n := range prodNets {
				if n == s {
					si = k
				}
			}
			wantV := (uint64(si)*37 + uint64(v) + 1) & mask
			wantValid := uint64((v >> uint(si%8)) & 1)
			gv, _, _ := sim.Get(in)
			gvalid, _, _ := sim.Get(in + "_valid")
			checks++
			if gv != wantV || gvalid != wantValid {
				return "external-output-not-driven-by-its-source", map[string]any{"output": in, "source": s, "got": gv, "want": wantV, "got_valid": gvalid, "want_valid": wantValid, "i": i}, checks
			}
		}
	}
	return "", nil, checks
}

// ---- stream monitor -------------------------------------------------------------------

type sideRes struct {
	out    [][]uint64
	dups   []bondmon.DupNote
	viol   string
	detail map[string]any
}

func runSide(m bmsim.Machine, n gen.NetSpec, env simdrv.Env, maxTicks, want int) sideRes {
	defer m.Close()
	v, d, _, dups := bondmon.Monitor(m, n, env, maxTicks, want)
	out := make([][]uint64, len(m.Out()))
	for i, o := range m.Out() {
		out[i] = append([]uint64(nil), o...)
	}
	return sideRes{out, dups, v, d}
}

func verdict(scratch string, c caseT, maxTicks, want int) (kind string, w map[string]any, transfers int, netChecks int) {
	if c.Structural != nil {
		w = map[string]any{"case": c}
		bm, err := c.Structural.build()
		if err != nil {
			return "not-buildable", w, 0, 0
		}
		files, err := bmsim.Files(scratch, bm)
		if err != nil {
			w["err"] = err.Error()
			return "hdl-generation-failed", w, 0, 0
		}
		k, d, nc := netlist(bm, files)
		if k != "" {
			for a, b := range d {
				w[a] = b
			}
			return "netlist:" + k, w, 0, nc
		}
		return "structural-ok", nil, 0, nc
	}
	n := c.Net
	bm, err := n.Build()
	w = map[string]any{"case": c}
	if err != nil {
		return "not-buildable", w, 0, 0
	}
	c.Net = n
	w["case"] = c
	w["text"] = n.String()
	files, err := bmsim.Files(scratch, bm)
	if err != nil {
		w["err"] = err.Error()
		return "hdl-generation-failed", w, 0, 0
	}
	if k, d, nc := netlist(bm, files); k != "" {
		for a, b := range d {
			w[a] = b
		}
		return "netlist:" + k, w, 0, nc
	} else {
		netChecks = nc
	}
	gm, err := bmsim.NewGo(bm, c.EnvSim)
	if err != nil {
		w["err"] = err.Error()
		return "sim-not-runnable", w, 0, netChecks
	}
	g := runSide(gm, n, c.EnvSim, maxTicks, want)
	hm, err := bmsim.NewHDL(files, n.Inputs, n.Outputs, c.EnvHDL)
	if err != nil {
		w["err"] = err.Error()
		if strings.Contains(err.Error(), "unsupported") {
			return "vsim-unsupported", w, 0, netChecks
		}
		return "hdl-not-executable", w, 0, netChecks
	}
	h := runSide(hm, n, c.EnvHDL, maxTicks*6, want)
	if g.viol == "no-progress" && h.viol == "no-progress" {
		return "net-deadlocks-by-construction", w, 0, netChecks
	}
	if len(g.dups) > 0 || len(h.dups) > 0 {
		// a value was read twice on one side (C04's recorded defect): the streams are then timing dependent
		return "duplicate-read-on-one-side", w, 0, netChecks
	}
	if (g.viol == "no-progress") != (h.viol == "no-progress") {
		w["sim_outputs"] = g.out
		w["hdl_outputs"] = h.out
		return "one-side-makes-no-progress", w, 0, netChecks
	}
	for o := range g.out {
		a, b := g.out[o], h.out[o]
		for i := 0; i < len(a) && i < len(b); i++ {
			transfers++
			if a[i] != b[i] {
				w["output"] = o
				w["index"] = i
				w["sim_stream"] = a
				w["hdl_stream"] = b
				return "stream-differs", w, transfers, netChecks
			}
		}
		if len(a) == 0 || len(b) == 0 {
			w["output"] = o
			w["sim_stream"] = a
			w["hdl_stream"] = b
			return "stream-empty-on-one-side", w, transfers, netChecks
		}
	}
	return "", nil, transfers, netChecks
}

func randEnv(rng interface {
	IntN(int) int
	Uint64() uint64
}, n gen.NetSpec, streams [][]uint64) simdrv.Env {
	e := simdrv.Env{In: streams}
	for i := 0; i < n.Inputs; i++ {
		e.Gap = append(e.Gap, rng.IntN(8))
	}
	for i := 0; i < n.Outputs; i++ {
		e.AckDelay = append(e.AckDelay, 1+rng.IntN(7))
	}
	return e
}

func main() {
	tier, replay := hx.Args()
	run := evid.New("C02", tier, "translation_validation")
	run.Rule = "cases = random bond graphs (1..5 processors, 1..3 external inputs, fan-out, processor→processor and processor→external bonds) of handshake-only dataflow kernels with random paddings, random input streams, and environment stall patterns (input gap 0..7, ack delay 1..7) drawn independently for the two back ends, plus the chain/fan-out families; non-trivial = both back ends delivered ≥1 value on every external output and no duplicate read occurred; distinct by machine text + environments. Netlist: instance port lists vs the bond table, and the top level with black-boxed processors driven with all 2^m received-line vectors (m ≤ 11, else 3000 random)"
	run.Assume = []string{"vsim executes the generated Verilog", "a case in which either back end reads a value twice (C04's recorded findings) is timing dependent and counted inconclusive here",
		"programs use the co-implemented opcodes i2rw, r2owa, add, mult, inc, dec, cpy, j only"}
	run.Floor = 20
	scratch, clean := hx.Scratch("c02")
	defer clean()
	hx.SilenceStdout(filepath.Join(scratch, "lib.log"))
	maxTicks, want := 3000, 24
	if tier == "thorough" {
		maxTicks, want = 20000, 64
	}
	one := func(c caseT) {
		run.Eval(1)
		k, w, tr, nc := verdict(scratch, c, maxTicks, want)
		run.Count("netlist_checks", int64(nc))
		run.Count("transfers_compared", int64(tr))
		switch k {
		case "structural-ok":
			b, _ := json.Marshal(c.Structural)
			run.Nontrivial("structural:" + string(b))
			run.Count("structural_bond_graphs_checked", 1)
		case "":
			run.Nontrivial(c.Net.String() + fmt.Sprint(c.EnvSim.Gap, c.EnvSim.AckDelay, c.EnvHDL.Gap, c.EnvHDL.AckDelay))
		case "not-buildable", "vsim-unsupported", "net-deadlocks-by-construction", "duplicate-read-on-one-side":
			run.Inconclusive(k)
		default:
			fan := "no-fan-out"
			seen := map[string]int{}
			for _, b := range c.Net.Bonds {
				seen[b[1]]++
				if seen[b[1]] > 1 {
					fan = "fan-out"
				}
			}
			run.Violation(k+":"+fan, w)
		}
	}
	if replay != "" {
		w, err := evid.ReadWitness(replay)
		if err != nil {
			fmt.Fprintln(os.Stderr, err)
			os.Exit(2)
		}
		run.Floor = 0
		var c caseT
		b, _ := json.Marshal(w["case"])
		json.Unmarshal(b, &c)
		one(c)
		os.Exit(run.Finish())
	}
	var cs []caseT
	rng := hx.RNG(run.Seed, "c02")
	mk := func(n gen.NetSpec) {
		var streams [][]uint64
		for i := 0; i < n.Inputs; i++ {
			var s []uint64
			for j := 0; j < 200; j++ {
				v := rng.Uint64() & ((1 << n.Rsize) - 1)
				for j > 0 && v == s[j-1] {
					v = (v + 1) & ((1 << n.Rsize) - 1)
				}
				s = append(s, v)
			}
			streams = append(streams, s)
		}
		cs = append(cs, caseT{Net: n, EnvSim: randEnv(rng, n, streams), EnvHDL: randEnv(rng, n, streams)})
	}
	for k := 1; k <= 5; k++ {
		mk(gen.Chain(k, 8, []string{"inc r0", "add r0 r0"}, k%3, (k+2)%3))
		mk(gen.Chain(k, 32, []string{"mult r0 r0", "dec r0"}, 0, 0))
	}
	for k := 1; k <= 3; k++ {
		mk(gen.FanOut(k, 16, 1, []int{2, 2, 2}, false))
		mk(gen.FanOut(k, 8, 0, []int{0, 0, 0}, false))
	}
	// endpoint lists with two-digit indices: a processor with 10..13 inputs and outputs, 11..12
	// external inputs/outputs, chains of 11..12 processors
	for _, n := range []int{10, 11, 12, 13} {
		perm := rng.Perm(n)
		mk(gen.Crossbar(n, 8, nil))
		mk(gen.Crossbar(n, 16, perm))
	}
	for _, k := range []int{11, 12} {
		mk(gen.Chain(k, 8, []string{"inc r0"}, 0, 0))
	}
	nRand := 900
	if tier == "thorough" {
		nRand = 6000
	}
	for i := 0; i < nRand; i++ {
		mk(gen.RandomNet(rng, 5, []string{"add", "mult", "inc", "dec", "cpy"}))
	}
	// machines built with external inputs, external outputs and processors added in a shuffled order
	for i := 0; i < nRand/5; i++ {
		n := gen.RandomNet(rng, 4, []string{"add", "inc", "cpy", "dec"})
		n.Family = "random-dag-interleaved-build"
		n.BuildOrder = 1 + rng.Uint64()%1000003
		mk(n)
	}
	// bonds without a processor on one or both ends: pass-through wires and tapped inputs
	for i := 0; i < nRand/6; i++ {
		mk(gen.RandomNetIO(rng, 3, []string{"add", "inc", "cpy"}))
	}
	// bond graphs for the netlist monitor alone
	nStruct := 300
	if tier == "thorough" {
		nStruct = 4000
	}
	for i := 0; i < nStruct; i++ {
		cs = append(cs, caseT{Structural: randStruct(rng)})
	}
	hx.Par(len(cs), func(i int) {
		one(cs[i])
		if i == 0 || i == 20 {
			run.Sample(map[string]any{"machine": cs[i].Net.String(), "env_sim": fmt.Sprint(cs[i].EnvSim.Gap, cs[i].EnvSim.AckDelay), "env_hdl": fmt.Sprint(cs[i].EnvHDL.Gap, cs[i].EnvHDL.AckDelay)})
		}
	})
	run.Set("programs", len(cs))
	run.Set("disagreements_checked", run.Violations())
	os.Exit(run.Finish())
}
