// c17: finished simulations leave no workers behind.
//
// Batches of n ∈ {1, 8, 64, 256} calls of SinglePipelineSimulate /
// Fitness_default (sequential and from 8 concurrent callers) are run on machines
// of 1..6 processors; after every batch the monitor reads
// runtime.NumGoroutine(), the goroutine profile grouped by creation site and
// the live heap objects. Violation: growth that depends on n.
package main

import (
	"fmt"
	"os"
	"path/filepath"
	"regexp"
	"runtime"
	"runtime/pprof"
	"sort"
	"strings"
	"sync"
	"time"

	"github.com/BondMachineHQ/BondMachine/pkg/bondmachine"
	"github.com/BondMachineHQ/BondMachine/pkg/procbuilder"
	"github.com/BondMachineHQ/BondMachine/pkg/simbox"
	"verif/internal/evid"
	"verif/internal/gen"
	"verif/internal/hx"
)

// chain builds i0 -> p0 -> p1 ... -> o0, every processor adds 1.
// With cmd the processors also execute r2v, an opcode that hands a command to the VM's
// command dispatcher goroutine (no emulation driver is attached in a plain simulation).
// With oneshot every processor but the last runs its program once and then sits past its end (no
// trailing jump) while the rest of the chain finishes the run.
func chain(k int, cmd, oneshot bool) *bondmachine.Bondmachine {
	var ms []*procbuilder.Machine
	var bonds [][2]string
	for p := 0; p < k; p++ {
		ops, prog := []string{"i2rw", "inc", "r2owa", "j"}, []string{"i2rw r0 i0", "inc r0", "r2owa r0 o0", "j 0"}
		if cmd {
			ops, prog = append(ops, "r2v"), []string{"i2rw r0 i0", "inc r0", "r2v r0 3", "r2owa r0 o0", "j 0"}
		}
		if oneshot && p < k-1 {
			prog = prog[:len(prog)-1]
		}
		m, err := gen.NewMachine(8, 1, 1, 1, 0, 3, "ha", ops)
		if err != nil {
			panic(err)
		}
		if err := gen.Assemble(m, prog); err != nil {
			panic(err)
		}
		ms = append(ms, m)
		if p == 0 {
			bonds = append(bonds, [2]string{"i0", "p0i0"})
		} else {
			bonds = append(bonds, [2]string{fmt.Sprintf("p%do0", p-1), fmt.Sprintf("p%di0", p)})
		}
	}
	bonds = append(bonds, [2]string{fmt.Sprintf("p%do0", k-1), "o0"})
	return gen.NewBM(8, ms, 1, 1, bonds)
}

var creatorRe = regexp.MustCompile(`(?m)^created by (\S+)`)

// goroutinesBySite returns live goroutine counts grouped by creating function.
func goroutinesBySite() map[string]int {
	var sb strings.Builder
	pprof.Lookup("goroutine").WriteTo(&sb, 2)
	out := map[string]int{}
	for _, blk := range strings.Split(sb.String(), "\n\n") {
		m := creatorRe.FindStringSubmatch(blk)
		if m != nil {
			out[m[1]]++
		} else if strings.TrimSpace(blk) != "" {
			out["(main/runtime)"]++
		}
	}
	return out
}

func settle() (int, uint64) {
	n := 0
	for i := 0; i < 5; i++ {
		runtime.GC()
		runtime.Gosched()
		time.Sleep(2 * time.Millisecond) // let finished goroutines unwind; not a deciding clock
		n = runtime.NumGoroutine()
	}
	var ms runtime.MemStats
	runtime.ReadMemStats(&ms)
	return n, ms.HeapObjects
}

type entry struct {
	name string
	call func(bm *bondmachine.Bondmachine) error
}

func main() {
	tier, _ := hx.Args()
	run := evid.New("C17", tier, "exploration")
	run.Rule = "a case = (entry point, machine size, caller pattern, batch size n); the monitor records goroutines and heap objects before/after each batch; non-trivial = a batch in which every call returned a result; distinct by the 4-tuple"
	run.Assume = []string{"a goroutine that is still runnable right after the call but exits on its own is waited for (5 GC/yield rounds); only goroutines alive after that count",
		"violation threshold: after-before for n=256 exceeds after-before for n=1 by more than 4 goroutines (a leak of one goroutine per call gives 255)",
		"heap: more than 2 retained objects per call between the two largest batches (and more than 400 objects), confirmed by a second measurement"}
	run.Floor = 8
	scratch, clean := hx.Scratch("c17")
	defer clean()
	hx.SilenceStdout(filepath.Join(scratch, "lib.log"))

	entries := []entry{
		{"SinglePipelineSimulate", func(bm *bondmachine.Bondmachine) error {
			out, err := bm.SinglePipelineSimulate("unsigned", []string{"5"}, nil)
			if err != nil {
				return err
			}
			if len(out) != 1 || out[0] != fmt.Sprint(5+len(bm.Processors)) {
				return fmt.Errorf("unexpected result %v", out)
			}
			return nil
		}},
		{"SinglePipelineSimulate-with-delay-map", func(bm *bondmachine.Bondmachine) error {
			// the tuning path (cmd/simfinetune): every call gets a per-opcode delay map; one-point
			// distributions keep the result a function of the machine
			d := simbox.NewSimDelays()
			d.OpcodeDelays["inc"] = simbox.DelayDistribution{2: 1}
			d.OpcodeDelays["i2rw"] = simbox.DelayDistribution{1: 1}
			d.OpcodeDelays["r2owa"] = simbox.DelayDistribution{3: 0.5, 4: 0.5}
			out, err := bm.SinglePipelineSimulate("unsigned", []string{"5"}, d)
			if err != nil {
				return err
			}
			if len(out) != 1 || out[0] != fmt.Sprint(5+len(bm.Processors)) {
				return fmt.Errorf("unexpected result %v", out)
			}
			return nil
		}},
		{"SinglePipelineSimulate-failing-after-the-run", func(bm *bondmachine.Bondmachine) error {
			// a two-output machine and a data type whose export fails ("signed": not implemented) or that does
			// not exist: the pipeline runs to its end, then the call returns an error
			k := len(bm.Processors)
			n := gen.FanOut(2, 8, k%2, []int{0, k % 3}, false)
			fbm, err := n.Build()
			if err != nil {
				return err
			}
			typ := []string{"signed", "float64"}[k%2]
			out, err := fbm.SinglePipelineSimulate(typ, []string{"5"}, nil)
			if err == nil {
				return fmt.Errorf("expected an error for data type %s, got %v", typ, out)
			}
			return nil
		}},
		{"Fitness_default", func(bm *bondmachine.Bondmachine) error {
			// Fitness_default hands a nil *Config to SimConfig.Init/SimDrive.Init, which dereference it
			// as soon as the input simbox has a rule; it is only callable with an empty input simbox.
			in := new(simbox.Simbox)
			exp := new(simbox.Simbox)
			if err := exp.Add("absolute:30:set:o0:6"); err != nil {
				return err
			}
			_, err := bm.Fitness_default(in, exp, 40)
			return err
		}},
	}
	entries = append(entries, entry{"Fitness_default-several-expected-values", func(bm *bondmachine.Bondmachine) error {
		// several expected values, one of them at a tick the run never reaches; a short run in which
		// the outputs never become valid
		in := new(simbox.Simbox)
		exp := new(simbox.Simbox)
		for _, r := range []string{"absolute:5:set:o0:6", "absolute:30:set:o0:6", "absolute:31:set:o0:7", "absolute:500:set:o0:1"} {
			if err := exp.Add(r); err != nil {
				return err
			}
		}
		if _, err := bm.Fitness_default(in, exp, 40); err != nil {
			return err
		}
		_, err := bm.Fitness_default(in, exp, 3)
		return err
	}})
	sizes := []int{1, 3, 6}
	batches := []int{1, 8, 64, 256}
	if tier == "thorough" {
		sizes = []int{1, 2, 3, 4, 5, 6}
		batches = []int{1, 8, 64, 256, 1024}
	}
	maxPerCall := 0.0
	for _, e := range entries {
		for ki, k := range append(append(append([]int{}, sizes...), sizes...), sizes...) {
			cmd := ki >= len(sizes) && ki < 2*len(sizes)
			oneshot := ki >= 2*len(sizes)
			if oneshot && k == 1 {
				k = 2 // a one-shot stage needs a looping stage after it
			}
			bm := chain(k, cmd, oneshot)
			if cmd {
				k += 100 // keeps the case keys distinct: 10k = k processors that also issue VM commands
			}
			if oneshot {
				k += 200 // 20k = k processors of which all but the last have run off their program
			}
			for _, conc := range []int{1, 8} {
				type obs struct {
					N             int            `json:"n"`
					GoDelta       int            `json:"goroutines_after_minus_before"`
					HeapDelta     int64          `json:"heap_objects_after_minus_before"`
					NewBySite     map[string]int `json:"new_goroutines_by_creation_site"`
					CallsReturned int            `json:"calls_returned"`
				}
				var series []obs
				failed := ""
				for _, n := range batches {
					g0, h0 := settle()
					s0 := goroutinesBySite()
					var mu sync.Mutex
					okCalls := 0
					var wg sync.WaitGroup
					per := n / conc
					if per == 0 {
						per = 1
					}
					workers := conc
					if n < conc {
						workers = n
					}
					for w := 0; w < workers; w++ {
						wg.Add(1)
						go func() {
							defer wg.Done()
							for c := 0; c < per; c++ {
								if err := safeCall(e.call, bm); err != nil {
									mu.Lock()
									failed = err.Error()
									mu.Unlock()
									return
								}
								mu.Lock()
								okCalls++
								mu.Unlock()
							}
						}()
					}
					wg.Wait()
					g1, h1 := settle()
					s1 := goroutinesBySite()
					d := map[string]int{}
					for k2, v := range s1 {
						if v-s0[k2] != 0 {
							d[k2] = v - s0[k2]
						}
					}
					series = append(series, obs{n, g1 - g0, int64(h1) - int64(h0), d, okCalls})
					run.Eval(int64(okCalls))
					if failed == "" {
						run.Nontrivial(fmt.Sprintf("%s|p%d|c%d|n%d", e.name, k, conc, n))
					}
				}
				if failed != "" {
					run.Inconclusive("call-failed:" + e.name + ":" + failed)
					continue
				}
				first, last := series[0], series[len(series)-1]
				w := map[string]any{"entry": e.name, "processors": k, "concurrent_callers": conc, "series": series}
				if last.GoDelta > first.GoDelta+4 {
					sites := []string{}
					for s := range last.NewBySite {
						sites = append(sites, s)
					}
					sort.Strings(sites)
					w["leaking_creation_sites"] = sites
					run.Violation("goroutine-growth:"+e.name, w)
				}
				// heap: live objects retained per finished call, from the two largest batches (the small
				// batches only carry one-off initialisation). A slope above 2 objects per call that also
				// amounts to more than 400 objects is measured a second time with a fresh batch of the
				// largest size; only growth seen in both measurements is a violation (the collector's
				// own bookkeeping makes single deltas of a few hundred objects meaningless).
				prev := series[len(series)-2]
				perCall := float64(last.HeapDelta-prev.HeapDelta) / float64(last.N-prev.N)
				w["heap_objects_per_call"] = perCall
				if perCall > maxPerCall {
					maxPerCall = perCall
				}
				if perCall > 2 && last.HeapDelta-prev.HeapDelta > 400 {
					_, h0 := settle()
					var wg sync.WaitGroup
					per := last.N / conc
					for wk := 0; wk < conc; wk++ {
						wg.Add(1)
						go func() {
							defer wg.Done()
							for c := 0; c < per; c++ {
								safeCall(e.call, bm)
							}
						}()
					}
					wg.Wait()
					_, h1 := settle()
					again := int64(h1) - int64(h0)
					w["heap_objects_second_measurement"] = again
					if float64(again)/float64(last.N) > 2 && again > 400 {
						run.Violation("heap-growth:"+e.name, w)
					}
				}
				if k == sizes[0] && conc == 1 {
					run.Sample(w)
				}
			}
		}
	}
	run.Extra["max_heap_objects_per_call_observed"] = maxPerCall
	os.Exit(run.Finish())
}

func safeCall(f func(*bondmachine.Bondmachine) error, bm *bondmachine.Bondmachine) (err error) {
	defer func() {
		if r := recover(); r != nil {
			err = fmt.Errorf("panic: %v", r)
		}
	}()
	return f(bm)
}
