// basmprobe: assemble a .basm file through the library and show the machine + a short simulation. Tool, not a check.
package main

import (
	"fmt"
	"os"

	"verif/internal/basmrun"
	"verif/internal/simdrv"
)

func main() {
	b, err := os.ReadFile(os.Args[1])
	if err != nil {
		panic(err)
	}
	res, err := basmrun.Assemble(string(b), basmrun.Options{DisableDynamicalMatching: len(os.Args) > 2 && os.Args[2] == "nodyn", ChooserMinWordSize: len(os.Args) > 2 && os.Args[2] == "minword"})
	if err != nil {
		fmt.Println("ERROR:", err)
		return
	}
	bm := res.BM
	fmt.Println("rsize", bm.Rsize, "inputs", bm.Inputs, "outputs", bm.Outputs, "procs", bm.Processors)
	for i, d := range bm.Domains {
		dis, _ := d.Disassembler()
		ops := []string{}
		for _, o := range d.Op {
			ops = append(ops, o.Op_get_name())
		}
		fmt.Printf("domain %d: R=%d N=%d M=%d L=%d O=%d ws=%d modes=%v ops=%v\n%s vars=%v\n", i, d.R, d.N, d.M, d.L, d.O, d.WordSize, d.Modes, ops, dis, d.Data.Vars)
	}
	fmt.Println("bonds", bm.List_bonds())
	env := simdrv.Env{}
	for i := 0; i < bm.Inputs; i++ {
		env.In = append(env.In, []uint64{3, 5, 7, 9, 11, 13})
	}
	r, err := simdrv.Run(bm, env, 6, 400, false)
	fmt.Println("sim:", r.Out, r.Ticks, err)
}
