// c11: saving and reloading a machine loses nothing.
//
// Machines from the generators of the other checks (plus all dynamic opcode
// families, every shared-object kind, threaded processors, WordSize overrides,
// ROM data) and reflectively populated machines are saved with the repository's
// Jsoner / json.Marshal and loaded back with Unmarshal / Dejsoner; the monitor
// compares the structures field by field, the JSON bytes of a second save, the
// regenerated Verilog file set and the simulation digest.
package main

import (
	"bytes"
	"encoding/json"
	"fmt"
	"os"
	"os/exec"
	"path/filepath"
	"reflect"
	"sort"
	"strings"
	"sync/atomic"

	"github.com/BondMachineHQ/BondMachine/pkg/bondmachine"
	"github.com/BondMachineHQ/BondMachine/pkg/procbuilder"
	"verif/internal/bmsim"
	"verif/internal/evid"
	"verif/internal/gen"
	"verif/internal/hx"
	"verif/internal/simdrv"
)

// fields the generators overwrite on every use (not persistent state)
var transient = map[string]bool{"CpID": true, "Tag": true, "SharedHDLOps": true}

func saveLoad(bm *bondmachine.Bondmachine) (*bondmachine.Bondmachine, []byte, error) {
	b, err := json.Marshal(bm.Jsoner())
	if err != nil {
		return nil, nil, err
	}
	bj := new(bondmachine.Bondmachine_json)
	if err := json.Unmarshal(b, bj); err != nil {
		return nil, b, err
	}
	return bj.Dejsoner(), b, nil
}

// diff walks two values and returns the path of the first difference ("" if equal).
func diff(path string, a, b reflect.Value) string {
	if a.Kind() != b.Kind() {
		return path + " (kind)"
	}
	switch a.Kind() {
	case reflect.Ptr, reflect.Interface:
		if a.IsNil() != b.IsNil() {
			return path + " (nil on one side)"
		}
		if a.IsNil() {
			return ""
		}
		if a.Kind() == reflect.Interface {
			// opcodes and shared objects: by name/text and dynamic type
			if op, ok := a.Interface().(procbuilder.Opcode); ok {
				op2, ok2 := b.Interface().(procbuilder.Opcode)
				if !ok2 || op.Op_get_name() != op2.Op_get_name() || reflect.TypeOf(op) != reflect.TypeOf(op2) {
					return path + " (opcode)"
				}
				if !reflect.DeepEqual(op, op2) {
					return path + " (opcode object " + op.Op_get_name() + " differs from the registry's)"
				}
				return ""
			}
			if so, ok := a.Interface().(bondmachine.Shared_instance); ok {
				so2, ok2 := b.Interface().(bondmachine.Shared_instance)
				if !ok2 || so.String() != so2.String() || reflect.TypeOf(so) != reflect.TypeOf(so2) {
					return path + " (shared object)"
				}
				return ""
			}
		}
		return diff(path, a.Elem(), b.Elem())
	case reflect.Struct:
		for i := 0; i < a.NumField(); i++ {
			f := a.Type().Field(i)
			if !f.IsExported() || transient[f.Name] {
				continue
			}
			if d := diff(path+"."+f.Name, a.Field(i), b.Field(i)); d != "" {
				return d
			}
		}
		return ""
	case reflect.Slice:
		if a.Len() != b.Len() {
			return fmt.Sprintf("%s (len %d vs %d)", path, a.Len(), b.Len())
		}
		for i := 0; i < a.Len(); i++ {
			if d := diff(fmt.Sprintf("%s[%d]", path, i), a.Index(i), b.Index(i)); d != "" {
				return d
			}
		}
		return ""
	default:
		if !reflect.DeepEqual(a.Interface(), b.Interface()) {
			return path
		}
		return ""
	}
}

// populate sets every still-zero exported basic field reachable from v to a non-zero value.
func populate(v reflect.Value, salt int) {
	switch v.Kind() {
	case reflect.Ptr:
		if !v.IsNil() {
			populate(v.Elem(), salt)
		}
	case reflect.Struct:
		for i := 0; i < v.NumField(); i++ {
			f := v.Type().Field(i)
			if !f.IsExported() {
				continue
			}
			populate(v.Field(i), salt+i)
		}
	case reflect.Slice:
		for i := 0; i < v.Len(); i++ {
			populate(v.Index(i), salt)
		}
	case reflect.String:
		if v.CanSet() && v.String() == "" {
			v.SetString("x")
		}
	case reflect.Int, reflect.Int8, reflect.Int16, reflect.Int32, reflect.Int64:
		if v.CanSet() && v.Int() == 0 {
			v.SetInt(int64(1 + salt%3))
		}
	case reflect.Uint, reflect.Uint8, reflect.Uint16, reflect.Uint32, reflect.Uint64:
		if v.CanSet() && v.Uint() == 0 {
			v.SetUint(uint64(1 + salt%3))
		}
	case reflect.Bool:
		if v.CanSet() {
			v.SetBool(true)
		}
	}
}

type caseT struct {
	Name string
	bm   *bondmachine.Bondmachine
	sim  bool // simulate and render
	net  *gen.NetSpec
}

func check(run *evid.Run, scratch string, c caseT) {
	run.Eval(1)
	w := map[string]any{"case": c.Name}
	class := strings.Split(c.Name, ":")[0]
	bm2, js, err := func() (b *bondmachine.Bondmachine, j []byte, e error) {
		defer func() {
			if r := recover(); r != nil {
				e = fmt.Errorf("panic: %v", r)
			}
		}()
		return saveLoad(c.bm)
	}()
	if err != nil {
		w["err"] = err.Error()
		run.Violation("save-load-fails:"+class, w)
		return
	}
	run.Nontrivial(c.Name + fmt.Sprint(len(js)))
	// nothing silently dropped
	for di, d := range bm2.Domains {
		for oi, op := range d.Op {
			if op == nil {
				w["domain"], w["opcode_index"], w["opcode_name"] = di, oi, c.bm.Domains[di].Op[oi].Op_get_name()
				run.Violation("opcode-dropped-on-load:"+class, w)
				return
			}
		}
	}
	for si, so := range bm2.Shared_objects {
		if so == nil {
			w["shared_object"] = c.bm.Shared_objects[si].String()
			run.Violation("shared-object-dropped-on-load:"+class, w)
			return
		}
	}
	if d := diff("bm", reflect.ValueOf(c.bm), reflect.ValueOf(bm2)); d != "" {
		w["first_differing_field"] = d
		fld := d
		if i := strings.LastIndex(fld, "."); i >= 0 {
			fld = fld[i+1:]
		}
		fld = strings.Fields(fld)[0]
		if j := strings.Index(fld, "["); j >= 0 {
			fld = fld[:j]
		}
		run.Violation("field-not-preserved:"+fld+":"+class, w)
		return
	}
	js2, err := json.Marshal(bm2.Jsoner())
	if err != nil || !bytes.Equal(js, js2) {
		w["json_first"], w["json_second"] = string(js[:min(len(js), 400)]), string(js2[:min(len(js2), 400)])
		run.Violation("resave-differs:"+class, w)
		return
	}
	// the same JSON loaded by a fresh process (empty dynamic-opcode registry, as every tool that reads
	// a machine file starts) must give the same machine
	if d := freshProcessLoad(scratch, js); d != "" {
		w["fresh_process"] = d
		run.Violation("fresh-process-load:"+strings.SplitN(d, ":", 2)[0]+":"+class, w)
		return
	}
	run.Count("fresh_process_loads", 1)
	if !c.sim {
		return
	}
	f1, e1 := bmsim.Files(scratch, c.bm)
	f2, e2 := bmsim.Files(scratch, bm2)
	if (e1 == nil) != (e2 == nil) {
		w["err_original"], w["err_reloaded"] = fmt.Sprint(e1), fmt.Sprint(e2)
		run.Violation("verilog-generation-differs:"+class, w)
		return
	}
	if e1 == nil {
		var names []string
		for k := range f1 {
			names = append(names, k)
		}
		sort.Strings(names)
		for _, k := range names {
			if f1[k] != f2[k] {
				w["file"] = k
				run.Violation("verilog-differs:"+class, w)
				return
			}
		}
		if len(f1) != len(f2) {
			run.Violation("verilog-file-set-differs:"+class, w)
			return
		}
		run.Count("verilog_file_sets_compared", 1)
	}
	if c.net != nil {
		env := simdrv.Env{}
		for i := 0; i < c.net.Inputs; i++ {
			var s []uint64
			for j := 0; j < 30; j++ {
				s = append(s, uint64(j*7+i+1)&((1<<c.net.Rsize)-1))
			}
			env.In = append(env.In, s)
		}
		r1, err1 := simdrv.Run(c.bm, env, 1<<30, 200, true)
		r2, err2 := simdrv.Run(bm2, env, 1<<30, 200, true)
		if err1 != nil || err2 != nil {
			run.Inconclusive("simulation-error")
			return
		}
		for i := range r1.Digests {
			if i >= len(r2.Digests) || r1.Digests[i] != r2.Digests[i] {
				w["tick"] = i
				run.Violation("simulation-differs:"+class, w)
				return
			}
		}
		run.Count("simulations_compared", 1)
	}
}

var freshSeq int64

// freshProcessLoad re-runs this binary as a child that loads and re-saves the JSON.
func freshProcessLoad(scratch string, js []byte) string {
	f := filepath.Join(scratch, fmt.Sprintf("fresh%d.json", atomic.AddInt64(&freshSeq, 1)))
	if err := os.WriteFile(f, js, 0o644); err != nil {
		return ""
	}
	defer os.Remove(f)
	out, err := exec.Command(os.Args[0], "--fresh-load", f).Output()
	if err != nil {
		msg := strings.TrimSpace(string(out))
		if len(msg) > 200 {
			msg = msg[:200]
		}
		if msg == "" {
			msg = "child-failed: " + err.Error()
		}
		return msg
	}
	if !bytes.Equal(out, js) {
		return "resave-differs: " + string(out[:min(len(out), 300)])
	}
	return ""
}

func freshLoadChild(path string) {
	defer func() {
		if r := recover(); r != nil {
			fmt.Printf("panic: %v", r)
			os.Exit(3)
		}
	}()
	b, err := os.ReadFile(path)
	if err != nil {
		fmt.Print("child-failed: ", err)
		os.Exit(3)
	}
	// a tool that reads a machine with linear-quantizer opcodes is started with -linear-data-range
	gen.EnableLinearQuantizer(filepath.Dir(path))
	bj := new(bondmachine.Bondmachine_json)
	if err := json.Unmarshal(b, bj); err != nil {
		fmt.Print("unmarshal: ", err)
		os.Exit(3)
	}
	bm := bj.Dejsoner()
	for di, d := range bm.Domains {
		for oi, op := range d.Op {
			if op == nil {
				fmt.Printf("opcode-dropped: domain %d opcode %d (%s)", di, oi, bj.Domains[di].Op[oi])
				os.Exit(3)
			}
		}
	}
	for si, so := range bm.Shared_objects {
		if so == nil {
			fmt.Printf("shared-object-dropped: %d", si)
			os.Exit(3)
		}
	}
	js2, err := json.Marshal(bm.Jsoner())
	if err != nil {
		fmt.Print("marshal: ", err)
		os.Exit(3)
	}
	os.Stdout.Write(js2)
	os.Exit(0)
}

func main() {
	if len(os.Args) > 2 && os.Args[1] == "--fresh-load" {
		freshLoadChild(os.Args[2])
	}
	tier, _ := hx.Args()
	run := evid.New("C11", tier, "exploration")
	run.Rule = "machines: dataflow nets from the C02/C04 generators, one machine per opcode (all static opcodes and instances of every dynamic family), every shared-object kind attached to 1..2 processors, Threaded 0..3, WordSize override, ROM data, ROM fill levels (code + data below, at and one under 2^O for O=1..4), random architectures, and the same machines with every zero-valued exported scalar field set non-zero by reflection; non-trivial = a machine that was saved and loaded; distinct by name+JSON size"
	run.Assume = []string{"Conproc.CpID, Arch.Tag and Conproc.SharedHDLOps are overwritten by the generators on every use and are not persistent state",
		"opcodes are compared by name, dynamic type and equality with the registry object; shared objects by String() and type"}
	run.Floor = 100
	scratch, clean := hx.Scratch("c11")
	defer clean()
	if err := gen.EnableLinearQuantizer(scratch); err != nil {
		fmt.Fprintln(os.Stderr, "lq ranges:", err)
	}
	hx.SilenceStdout(filepath.Join(scratch, "lib.log"))
	var cs []caseT
	rng := hx.RNG(run.Seed, "c11")
	nNets := 60
	if tier == "thorough" {
		nNets = 1500
	}
	for i := 0; i < nNets; i++ {
		n := gen.RandomNet(rng, 5, []string{"add", "mult", "inc", "dec", "cpy", "addp"})
		bm, err := n.Build()
		if err != nil {
			continue
		}
		nn := n
		cs = append(cs, caseT{Name: fmt.Sprintf("net:%d", i), bm: bm, sim: i%4 == 0, net: &nn})
	}
	// one machine per opcode, incl. dynamic families
	names := []string{}
	for _, op := range procbuilder.Allopcodes {
		names = append(names, op.Op_get_name())
	}
	names = append(names, "rsets3", "rsets13", "addfps16f8", "multfps16f8", "divfps16f8", "addfps8f4", "addfxps16f8", "multfxps16f8", "divfxps16f8", "addlqs8t1", "multlqs8t1",
		"callo8s", "calla8s", "ret8s", "callo16stk_a", "push4t", "pull4t", "push16uu", "addflpe5f10", "multflpe5f10", "divflpe8f23")
	for _, nm := range names {
		m, err := gen.NewMachine(16, 2, 1, 1, 2, 3, "ha", []string{nm, "j"})
		if err != nil {
			run.Inconclusive("opcode-not-creatable:" + nm)
			continue
		}
		m.Program = procbuilder.Program{Slocs: []string{strings.Repeat("0", m.Max_word())}}
		bm := gen.NewBM(16, []*procbuilder.Machine{m}, 1, 1, [][2]string{{"p0i0", "i0"}, {"o0", "p0o0"}})
		cs = append(cs, caseT{Name: "opcode:" + nm, bm: bm})
	}
	// shared objects
	for _, so := range []string{"stack:4", "queue:8", "channel:", "barrier:10", "lfsr8:1", "sharedmem:4", "uart:9600:4", "kbd:k0", "vtextmem:0:3:3:16:16:1:20:3:16:16",
		// unusual but legal parameters: two-digit and power-of-two depths, other rates/seeds/names, several boxes
		"stack:10", "stack:16", "stack:1", "queue:12", "queue:32", "queue:1", "barrier:3", "barrier:128", "lfsr8:17", "lfsr8:255", "sharedmem:10", "sharedmem:16",
		"uart:115200:8", "uart:300:16", "kbd:k12", "vtextmem:0:3:3:16:16:1:20:3:16:16:2:40:3:16:16"} {
		for procs := 1; procs <= 2; procs++ {
			var ms []*procbuilder.Machine
			for p := 0; p < procs; p++ {
				m, _ := gen.NewMachine(8, 2, 1, 1, 0, 3, "ha", []string{"nop", "j"})
				gen.Assemble(m, []string{"nop", "j 0"})
				ms = append(ms, m)
			}
			bm := gen.NewBM(8, ms, 1, 1, [][2]string{{"p0i0", "i0"}, {"o0", "p0o0"}})
			bm.Add_shared_objects([]string{so})
			for p := 0; p < procs; p++ {
				bm.Connect_processor_shared_object([]string{fmt.Sprint(p), "0"})
			}
			cs = append(cs, caseT{Name: "so:" + so + fmt.Sprint(procs), bm: bm})
		}
	}
	// threaded, wordsize, modes, ROM data
	for _, thr := range []int{0, 1, 2, 3, 16, 255, 256, 300, 1000} {
		for _, ws := range []uint8{0, 20, 31} {
			for _, mode := range []string{"ha", "vn", "hy"} {
				m, _ := gen.NewMachine(8, 2, 2, 2, 3, 4, mode, []string{"rset", "add", "j", "i2rw", "r2owa", "ro2rri"})
				m.Threaded = thr
				m.WordSize = ws
				gen.Assemble(m, []string{"rset r0 5", "add r0 r0", "j 0"})
				m.Data = procbuilder.Data{Vars: []string{strings.Repeat("1", m.Max_word()), strings.Repeat("0", m.Max_word())}}
				m.Shared_constraints = ""
				bm := gen.NewBM(8, []*procbuilder.Machine{m}, 2, 2, [][2]string{{"p0i0", "i0"}, {"p0i1", "i1"}, {"o0", "p0o0"}, {"o1", "p0o1"}})
				cs = append(cs, caseT{Name: fmt.Sprintf("misc:thr%d-ws%d-%s", thr, ws, mode), bm: bm, sim: thr == 0 && mode == "ha"})
			}
		}
	}
	// ROM fill levels: code + ROM data below, exactly at and one under the capacity 2^O
	for o := uint8(1); o <= 4; o++ {
		for code := 1; code <= 1<<o; code++ {
			for _, data := range []int{0, (1 << o) - code, (1 << o) - code - 1} {
				if data < 0 || (data == 0 && code != 1<<o && code != 1) {
					continue
				}
				m, err := gen.NewMachine(8, 1, 1, 1, 0, o, "ha", []string{"inc", "j", "ro2rri"})
				if err != nil {
					continue
				}
				var prog []string
				for i := 0; i < code-1; i++ {
					prog = append(prog, "inc r0")
				}
				prog = append(prog, "j 0")
				if gen.Assemble(m, prog) != nil {
					continue
				}
				for i := 0; i < data; i++ {
					m.Data.Vars = append(m.Data.Vars, fmt.Sprintf("%0*b", m.Max_word(), (i*5+3)%(1<<m.Max_word())))
				}
				bm := gen.NewBM(8, []*procbuilder.Machine{m}, 1, 1, [][2]string{{"p0i0", "i0"}, {"o0", "p0o0"}})
				cs = append(cs, caseT{Name: fmt.Sprintf("romfill:O%d-code%d-data%d", o, code, data), bm: bm})
			}
		}
	}
	// reflectively populated copies
	base := len(cs)
	for i := 0; i < base; i += 3 {
		c := cs[i]
		cp, _, err := saveLoad(c.bm)
		if err != nil {
			continue
		}
		populate(reflect.ValueOf(cp), i)
		for _, d := range cp.Domains { // keep structurally meaningful fields coherent
			_ = d
		}
		cs = append(cs, caseT{Name: "populated:" + c.Name, bm: cp})
	}
	hx.Par(len(cs), func(i int) {
		check(run, scratch, cs[i])
		if i == 0 || i == base+1 {
			b, _ := json.Marshal(cs[i].bm.Jsoner())
			run.Sample(map[string]any{"case": cs[i].Name, "json_prefix": string(b[:min(len(b), 300)])})
		}
	})
	run.Set("machines", len(cs))
	os.Exit(run.Finish())
}
