// c08: one meaning per numeric literal; print∘parse = id (bmnumbers).
//
// Monitor 1 (ambiguity): the *live* matcher table bmnumbers.AllMatchers is
// evaluated on (a) every string prefix+body with body over the alphabet the
// regexes use, up to a bound, and (b) samples drawn by walking each regex's
// syntax tree, cross-fed to all other matchers. Violation: a string accepted by
// more than one matcher (key = the pair of regexes).
// Monitor 2 (round trip): for every type, ExportString→ImportString must give
// the same value, type and (where the notation states one) width; the binary
// exports must have exactly the stated width.
package main

import (
	"fmt"
	"math"
	"math/big"
	"os"
	"path/filepath"
	"regexp"
	"regexp/syntax"
	"sort"
	"strconv"
	"strings"
	"sync"

	"github.com/BondMachineHQ/BondMachine/pkg/bmnumbers"
	"verif/internal/evid"
	"verif/internal/hx"
)

type matcher struct {
	src string
	re  *regexp.Regexp
}

var matchers []matcher

func loadMatchers() {
	matchers = matchers[:0]
	keys := make([]string, 0, len(bmnumbers.AllMatchers))
	for k := range bmnumbers.AllMatchers {
		keys = append(keys, k)
	}
	sort.Strings(keys)
	for _, k := range keys {
		matchers = append(matchers, matcher{k, regexp.MustCompile(k)})
	}
}

func accepting(s string) []string {
	var out []string
	for _, m := range matchers {
		if m.re.MatchString(s) {
			out = append(out, m.src)
		}
	}
	return out
}

func checkAmbig(run *evid.Run, s string) {
	acc := accepting(s)
	run.Eval(1)
	if len(acc) >= 1 {
		run.Nontrivial("lit:" + s)
		run.Tally("accepted_by_matcher", acc[0])
	}
	if len(acc) > 1 {
		// report every pair
		for i := 0; i < len(acc); i++ {
			for j := i + 1; j < len(acc); j++ {
				key := "ambiguous:" + acc[i] + " | " + acc[j]
				vals := []string{}
				for k := 0; k < 6; k++ { // ImportString walks the map: show what it can return
					if n, err := bmnumbers.ImportString(s); err == nil {
						b, _ := n.ExportBinary(true)
						vals = append(vals, n.GetTypeName()+":"+b)
					} else {
						vals = append(vals, "err:"+err.Error())
					}
				}
				run.Violation(key, map[string]any{"string": s, "matchers": acc, "ImportString_results_over_6_calls": vals})
			}
		}
	}
}

// ---- regex-directed sampler -------------------------------------------------

var sigma = []rune("0123456789abcdefxudslqp<>.-+eELPX_ ")

func sampleRe(re *syntax.Regexp, rng interface{ IntN(int) int }, out *[]rune, depth int) {
	switch re.Op {
	case syntax.OpLiteral:
		*out = append(*out, re.Rune...)
	case syntax.OpCharClass:
		// pick a rune from the class, preferring sigma members
		var cands []rune
		for _, c := range sigma {
			for i := 0; i+1 < len(re.Rune); i += 2 {
				if c >= re.Rune[i] && c <= re.Rune[i+1] {
					cands = append(cands, c)
					break
				}
			}
		}
		if len(cands) == 0 {
			cands = []rune{re.Rune[0]}
		}
		*out = append(*out, cands[rng.IntN(len(cands))])
	case syntax.OpAnyCharNotNL, syntax.OpAnyChar:
		*out = append(*out, sigma[rng.IntN(len(sigma))])
	case syntax.OpBeginLine, syntax.OpEndLine, syntax.OpBeginText, syntax.OpEndText, syntax.OpEmptyMatch:
	case syntax.OpCapture:
		sampleRe(re.Sub[0], rng, out, depth)
	case syntax.OpStar, syntax.OpPlus, syntax.OpQuest, syntax.OpRepeat:
		lo, hi := 0, 3
		switch re.Op {
		case syntax.OpPlus:
			lo = 1
		case syntax.OpQuest:
			hi = 1
		case syntax.OpRepeat:
			lo, hi = re.Min, re.Max
			if hi < 0 || hi > lo+3 {
				hi = lo + 3
			}
		}
		n := lo + rng.IntN(hi-lo+1)
		for i := 0; i < n; i++ {
			sampleRe(re.Sub[0], rng, out, depth+1)
		}
	case syntax.OpConcat:
		for _, s := range re.Sub {
			sampleRe(s, rng, out, depth)
		}
	case syntax.OpAlternate:
		sampleRe(re.Sub[rng.IntN(len(re.Sub))], rng, out, depth)
	}
}

// ---- round trip -----------------------------------------------------------------

func mkNumber(val *big.Int, bits int, typ string) (*bmnumbers.BMNumber, error) {
	nb := (bits + 7) / 8
	buf := make([]byte, nb)
	val.FillBytes(buf) // big endian
	n, err := bmnumbers.ImportBytes(buf, bits)
	if err != nil {
		return nil, err
	}
	if typ != "unsigned" {
		t := bmnumbers.GetType(typ)
		if t == nil {
			return nil, fmt.Errorf("no type %s", typ)
		}
		if err := bmnumbers.CastType(n, t); err != nil {
			return nil, err
		}
	}
	return n, nil
}

func valueOf(n *bmnumbers.BMNumber) (val string, bits int) {
	b, _ := n.ExportBinary(true) // 0b<bits>digits
	i := strings.Index(b, ">")
	bits, _ = strconv.Atoi(b[3:i])
	return b[i+1:], bits
}

var statesWidth = map[string]bool{"bin": true, "hex": true, "float16": true, "float32": true}

func roundTrip(run *evid.Run, n *bmnumbers.BMNumber, what string) {
	run.Eval(1)
	typ := n.GetTypeName()
	v0, b0 := valueOf(n)
	s, err := n.ExportString(nil)
	if err != nil {
		run.Inconclusive("export-error:" + typ)
		return
	}
	m, err := bmnumbers.ImportString(s)
	if err != nil || m == nil {
		run.Violation("roundtrip:"+typ+":reimport-fails", map[string]any{"case": what, "bits": b0, "value_bin": v0, "exported": s, "err": fmt.Sprint(err)})
		return
	}
	v1, b1 := valueOf(m)
	run.Tally("roundtrips_by_type", typ)
	run.Nontrivial("rt:" + typ + ":" + strconv.Itoa(b0) + ":" + v0)
	isNaN := false
	if typ == "float32" && b0 == 32 {
		x, _ := strconv.ParseUint(v0, 2, 32)
		isNaN = math.IsNaN(float64(math.Float32frombits(uint32(x))))
	}
	if typ == "float16" && b0 == 16 {
		x, _ := strconv.ParseUint(v0, 2, 16)
		isNaN = x&0x7c00 == 0x7c00 && x&0x3ff != 0
	}
	if m.GetTypeName() != typ {
		run.Violation("roundtrip:"+typ+":type-changes-to-"+m.GetTypeName(), map[string]any{"case": what, "exported": s})
		return
	}
	// the integer view of the pattern (what the simulator and simbox consume) must survive as well
	if u0, e0 := n.ExportUint64(); e0 == nil && b0 <= 64 && !isNaN {
		if u1, e1 := m.ExportUint64(); e1 != nil || u1 != u0 {
			run.Violation("roundtrip:"+typ+":uint64-view-changes", map[string]any{"case": what, "exported": s, "uint64_before": u0, "uint64_after": u1, "err_after": fmt.Sprint(e1)})
			return
		}
	}
	widthStated := statesWidth[typ] || strings.HasPrefix(typ, "fps") || strings.HasPrefix(typ, "fxps") || strings.HasPrefix(typ, "lqs")
	if widthStated && b1 != b0 {
		run.Violation("roundtrip:"+typ+":width-changes", map[string]any{"case": what, "exported": s, "bits_before": b0, "bits_after": b1})
		return
	}
	if v1 != v0 {
		if isNaN {
			// NaN payloads are compared as a class
			var y uint64
			y, _ = strconv.ParseUint(v1, 2, 64)
			if (typ == "float32" && math.IsNaN(float64(math.Float32frombits(uint32(y))))) || (typ == "float16" && y&0x7c00 == 0x7c00 && y&0x3ff != 0) {
				return
			}
		}
		cls := "value-changes"
		if typ == "float32" {
			x, _ := strconv.ParseUint(v0, 2, 32)
			f := math.Abs(float64(math.Float32frombits(uint32(x))))
			if f != 0 && f < 1e-13 {
				cls = "small-magnitude-value-changes"
			}
		}
		run.Violation("roundtrip:"+typ+":"+cls, map[string]any{"case": what, "bits": b0, "value_bin_before": v0, "exported": s, "value_bin_after": v1})
	}
}

func exportsWidth(run *evid.Run, n *bmnumbers.BMNumber, lit string) {
	_, bits := valueOf(n)
	typ := n.GetTypeName()
	vb, err := n.ExportVerilogBinary()
	if err == nil {
		pre := strconv.Itoa(bits) + "'b"
		if !strings.HasPrefix(vb, pre) || len(vb)-len(pre) != bits {
			run.Violation("export-width:verilog:"+typ, map[string]any{"literal": lit, "bits": bits, "ExportVerilogBinary": vb})
		}
	}
	// the pattern's significant digits (what any wider export must end with, zero-extended)
	v, _ := valueOf(n)
	sig := strings.TrimLeft(v, "0")
	for _, nb := range []int{bits, bits + 3, 1, 63, 64, 65, 100, len(sig), len(sig) - 1} {
		if nb < 1 {
			continue
		}
		s, err := n.ExportBinaryNBits(nb)
		if err == nil && len(s) != nb {
			run.Violation("export-width:nbits:"+typ, map[string]any{"literal": lit, "n": nb, "ExportBinaryNBits": s})
			continue
		}
		switch {
		case nb >= len(sig) && err != nil:
			// the value fits n bits: an error is not "exactly n digits"
			run.Violation("export-width:nbits-refuses-a-value-that-fits:"+typ, map[string]any{"literal": lit, "n": nb, "significant_bits": len(sig), "err": err.Error()})
		case nb >= len(sig) && strings.TrimLeft(s, "0") != sig:
			run.Violation("export-width:nbits-changes-the-value:"+typ, map[string]any{"literal": lit, "n": nb, "pattern": v, "ExportBinaryNBits": s})
		case nb < len(sig) && err == nil:
			run.Violation("export-width:nbits-truncates:"+typ, map[string]any{"literal": lit, "n": nb, "pattern": v, "ExportBinaryNBits": s})
		}
	}
}

func main() {
	tier, replay := hx.Args()
	run := evid.New("C08", tier, "exploration")
	run.Rule = "ambiguity: every string prefix+body (body over the matcher alphabet up to the bound) and every regex-tree sample is offered to all live matchers; non-trivial = accepted by ≥1 matcher, distinct by string. round trip: (type,width,bit pattern) triples exported and re-imported; distinct by triple"
	run.Assume = []string{
		"unsigned decimal export carries no width (pinned by the repository's TestUnsignedWithSizeExport), so for type unsigned only value and type are compared",
		"NaN payloads of float16/float32 are compared as a class",
		"signed has no ExportString (returns an error) and FloPoCo needs the external fp2bin/bin2fp tools: counted inconclusive, not violations",
		"an ambiguity whose shortest witness is longer than the explored bound and is not hit by the regex-tree sampler is missed",
	}
	run.Floor = 1000
	logdir, clean := hx.Scratch("c08")
	defer clean()
	hx.SilenceStdout(filepath.Join(logdir, "lib.log"))

	// linear quantizer needs a data range file
	rf := filepath.Join(logdir, "range.txt")
	os.WriteFile(rf, []byte("0.5\n-3.0\n2.25\n"), 0o644)
	if err := bmnumbers.LoadLinearDataRangesFromFile("1," + rf); err != nil {
		fmt.Fprintln(os.Stderr, "lq ranges:", err)
	}
	// create dynamic types over a grid before reading the matcher table
	fpGrid := [][2]int{{1, 0}, {2, 1}, {4, 2}, {8, 4}, {8, 0}, {8, 7}, {12, 6}, {16, 8}, {16, 15}, {24, 12}, {32, 16}, {32, 31}}
	for _, g := range fpGrid {
		bmnumbers.EventuallyCreateType(fmt.Sprintf("fps%df%d", g[0], g[1]), nil)
		bmnumbers.EventuallyCreateType(fmt.Sprintf("fxps%df%d", g[0], g[1]), nil)
	}
	for _, s := range []int{2, 4, 8, 12, 16} {
		bmnumbers.EventuallyCreateType(fmt.Sprintf("lqs%dt1", s), nil)
	}
	bmnumbers.EventuallyCreateType("flpe5f10", nil)
	loadMatchers()
	ms := []string{}
	for _, m := range matchers {
		ms = append(ms, m.src)
	}
	run.Set("live_matchers", ms)

	if replay != "" {
		doReplay(run, replay)
		os.Exit(run.Finish())
	}

	// ---------- Monitor 1a: bounded exhaustive ----------
	prefixes := []string{"", "0", "0u", "0d", "0s", "0sd", "0x", "0b", "0f", "0u<8>", "0d<8>", "0x<8>", "0x<16>", "0b<8>", "0f<16>", "0f<32>",
		"0fp<8.4>", "0fxp<8.4>", "0flp<4.4>", "0lq<8.1>", "0u1", "0d1", "0s-", "0f1", "0x1", "0b1", "0fp", "0fx", "0fl", "0lq", "0u<", "0f<"}
	alpha := []byte("019afxudsblqp<>.-+e")
	maxLen := 4
	if tier == "thorough" {
		maxLen = 5
	}
	run.Set("exhaustive_body_alphabet", string(alpha))
	run.Set("exhaustive_body_maxlen", maxLen)
	run.Set("exhaustive_prefixes", prefixes)
	var mu sync.Mutex
	sampleKept := 0
	hx.Par(len(prefixes), func(pi int) {
		p := prefixes[pi]
		buf := make([]byte, 0, 16)
		var rec func(d int)
		rec = func(d int) {
			s := p + string(buf)
			checkAmbig(run, s)
			if d == maxLen {
				return
			}
			for _, c := range alpha {
				buf = append(buf, c)
				rec(d + 1)
				buf = buf[:len(buf)-1]
			}
		}
		rec(0)
		mu.Lock()
		if sampleKept < 3 {
			run.Sample(map[string]any{"kind": "exhaustive-block", "prefix": p, "bodies": fmt.Sprintf("all strings over %q of length 0..%d", alpha, maxLen)})
			sampleKept++
		}
		mu.Unlock()
	})

	// ---------- Monitor 1b: regex-directed sampling, cross-fed ----------
	nSamples := 20000
	if tier == "thorough" {
		nSamples = 400000
	}
	hx.Par(len(matchers), func(mi int) {
		m := matchers[mi]
		re, err := syntax.Parse(m.src, syntax.Perl)
		if err != nil {
			return
		}
		rng := hx.RNG(run.Seed, "resample:"+m.src)
		for k := 0; k < nSamples; k++ {
			var out []rune
			sampleRe(re, rng, &out, 0)
			s := string(out)
			if !m.re.MatchString(s) {
				continue
			}
			checkAmbig(run, s)
			if k < 2 {
				run.Sample(map[string]any{"kind": "regex-sample", "matcher": m.src, "string": s})
			}
		}
	})
	run.Set("regex_samples_per_matcher", nSamples)

	// ---------- Monitor 2: accepted literals have the stated width ----------
	lits := []string{}
	for _, sz := range []int{1, 2, 3, 4, 7, 8, 9, 12, 15, 16, 17, 24, 31, 32, 33, 48, 63, 64} {
		for _, v := range []uint64{0, 1, 2, 3, 127, 128, 255, 256, 65535, 65536, 1<<31 - 1, 1 << 31, 1<<32 - 1, 1 << 32, 1<<63 - 1, 1 << 63, math.MaxUint64} {
			lits = append(lits, fmt.Sprintf("0u<%d>%d", sz, v), fmt.Sprintf("0d<%d>%d", sz, v), fmt.Sprintf("0b<%d>%b", sz, v), fmt.Sprintf("0x<%d>%x", sz, v))
		}
	}
	for _, v := range []string{"0", "1", "255", "18446744073709551615", "18446744073709551616", "0u7", "0d7", "0x0", "0xff", "0xfff", "0b0", "0b1", "0b101", "0b000000001", "0s-1", "0sd-128", "0s5",
		"0f1.5", "0f-0", "0f<32>1e-30", "0f<16>65504", "0f<16>1e-8", "0f+Inf", "0fNaN", "0fp<8.4>1.5", "0fp<8.4>-1.5", "0fp<8.4>7.9375", "0fp<8.4>100", "0fp<1.0>-1", "0fp<32.16>-32768", "0fp<33.1>1", "0fxp<8.4>-8", "0lq<8.1>1.5", "0lq<8.1>-2.9", "0lq<8.1>3", "0lq<8.1>100"} {
		lits = append(lits, v)
	}
	for _, l := range lits {
		n, err := bmnumbers.ImportString(l)
		run.Eval(1)
		if err != nil || n == nil {
			run.Tally("literal_outcomes", "rejected")
			continue
		}
		run.Tally("literal_outcomes", "accepted")
		exportsWidth(run, n, l)
		// the notation's stated width
		if i := strings.Index(l, "<"); i > 0 && !strings.HasPrefix(l, "0f") && !strings.HasPrefix(l, "0lq") {
			j := strings.Index(l, ">")
			if sz, err := strconv.Atoi(l[i+1 : j]); err == nil {
				if _, b := valueOf(n); b != sz {
					run.Violation("stated-width:"+l[:i], map[string]any{"literal": l, "stated": sz, "bits": b})
				}
			}
		}
		roundTrip(run, n, "literal "+l)
	}

	// ---------- Monitor 2: round trip over bit patterns ----------
	type job struct {
		typ  string
		bits int
	}
	jobs := []job{}
	for _, b := range []int{1, 2, 3, 4, 5, 7, 8, 9, 12, 15, 16, 17, 24, 31, 32, 33, 40, 48, 63, 64} {
		jobs = append(jobs, job{"unsigned", b}, job{"bin", b})
	}
	for _, b := range []int{8, 16, 24, 32, 40, 64} {
		jobs = append(jobs, job{"hex", b})
	}
	jobs = append(jobs, job{"float16", 16}, job{"float32", 32})
	for _, g := range fpGrid {
		jobs = append(jobs, job{fmt.Sprintf("fps%df%d", g[0], g[1]), g[0]}, job{fmt.Sprintf("fxps%df%d", g[0], g[1]), g[0]})
	}
	for _, s := range []int{2, 4, 8, 12, 16} {
		jobs = append(jobs, job{fmt.Sprintf("lqs%dt1", s), s})
	}
	jobs = append(jobs, job{"signed", 64})
	exhaustBits := 12
	nRandom := 3000
	if tier == "thorough" {
		exhaustBits = 16
		nRandom = 60000
	}
	hx.Par(len(jobs), func(ji int) {
		j := jobs[ji]
		rng := hx.RNG(run.Seed, fmt.Sprintf("rt:%s:%d", j.typ, j.bits))
		try := func(v *big.Int) {
			if strings.HasPrefix(j.typ, "lqs") && v.BitLen() == j.bits && v.TrailingZeroBits() == uint(j.bits-1) {
				// band -2^(s-1): the linear quantiser's value set is the symmetric range
				// (-2^(s-1), 2^(s-1)) by its own import rule, so this pattern is not a value of the type
				run.Inconclusive("lq-most-negative-pattern-not-a-value")
				return
			}
			n, err := mkNumber(v, j.bits, j.typ)
			if err != nil {
				run.Inconclusive("cannot-construct:" + j.typ)
				return
			}
			roundTrip(run, n, fmt.Sprintf("%s/%d bits pattern %s", j.typ, j.bits, v.Text(2)))
			if v.BitLen() <= j.bits {
				exportsWidth(run, n, fmt.Sprintf("%s/%d %s", j.typ, j.bits, v.Text(2)))
			}
		}
		if j.bits <= exhaustBits || j.typ == "float16" {
			lim := new(big.Int).Lsh(big.NewInt(1), uint(j.bits))
			for v := big.NewInt(0); v.Cmp(lim) < 0; v = new(big.Int).Add(v, big.NewInt(1)) {
				try(v)
			}
			run.Tally("exhaustive_pattern_spaces", fmt.Sprintf("%s/%d", j.typ, j.bits))
			return
		}
		one := big.NewInt(1)
		top := new(big.Int).Lsh(one, uint(j.bits))
		bnd := []*big.Int{big.NewInt(0), big.NewInt(1), big.NewInt(2), new(big.Int).Sub(top, one), new(big.Int).Sub(top, big.NewInt(2)),
			new(big.Int).Lsh(one, uint(j.bits-1)), new(big.Int).Sub(new(big.Int).Lsh(one, uint(j.bits-1)), one)}
		if j.typ == "float32" {
			for _, f := range []float32{0, float32(math.Copysign(0, -1)), 1, -1, 0.5, 1e-5, 1e-10, 1e-20, 1e-30, 1.17549435e-38, 1e-45, 3.4028235e38, float32(math.Inf(1)), float32(math.Inf(-1)), 16777216, 0.1, 1e10, 123456.789} {
				bnd = append(bnd, new(big.Int).SetUint64(uint64(math.Float32bits(f))))
			}
		}
		for _, v := range bnd {
			try(v)
		}
		for k := 0; k < nRandom; k++ {
			v := new(big.Int)
			for w := 0; w < j.bits; w += 32 {
				v.Lsh(v, 32)
				v.Or(v, new(big.Int).SetUint64(uint64(rng.Uint32())))
			}
			v.Mod(v, top)
			if k%3 == 0 { // small magnitudes too
				v.Rsh(v, uint(rng.IntN(j.bits)))
			}
			try(v)
		}
	})
	run.Sample(map[string]any{"kind": "roundtrip-job", "types_x_widths": len(jobs), "exhaustive_up_to_bits": exhaustBits, "random_per_wider_type": nRandom})
	os.Exit(run.Finish())
}

func doReplay(run *evid.Run, path string) {
	w, err := evid.ReadWitness(path)
	if err != nil {
		fmt.Fprintln(os.Stderr, err)
		os.Exit(2)
	}
	run.Floor = 0
	if s, ok := w["string"].(string); ok {
		checkAmbig(run, s)
		return
	}
	if s, ok := w["literal"].(string); ok {
		if n, err := bmnumbers.ImportString(s); err == nil {
			exportsWidth(run, n, s)
			roundTrip(run, n, "literal "+s)
		}
		return
	}
	if c, ok := w["case"].(string); ok {
		var typ, pat string
		var bits int
		if strings.HasPrefix(c, "literal ") {
			if n, err := bmnumbers.ImportString(strings.TrimPrefix(c, "literal ")); err == nil {
				roundTrip(run, n, c)
			}
			return
		}
		fmt.Sscanf(c, "%s", &typ)
		parts := strings.Fields(c)
		if len(parts) >= 4 {
			tb := strings.Split(parts[0], "/")
			typ = tb[0]
			bits, _ = strconv.Atoi(tb[1])
			pat = parts[3]
			v, _ := new(big.Int).SetString(pat, 2)
			if n, err := mkNumber(v, bits, typ); err == nil {
				roundTrip(run, n, c)
			}
		}
	}
}
