// c12: compiled Go programs do what the source does; compilation always terminates.
//
// Every generated program (internal/gogen) is compiled by the real cmd/bondgo,
// built with the verif hooks, as a child process under a set of forced and
// seeded schedules of the compiler's goroutines (visitor, Var_assigner,
// Usage_Monitor) and several GOMAXPROCS values. The monitor requires that
//
//	T  every run ends (a run that does not end is stopped with SIGQUIT and the
//	   goroutine dump decides: all compiler goroutines blocked on channels =
//	   deadlock; anything else = inconclusive),
//	D  every run of one program writes byte-identical assembly, machine and
//	   requirements,
//	S  the emitted machine, executed by procbuilder.VM with the program's
//	   inputs, writes to each output the sequence of values that the source
//	   produces under Go semantics (reference interpreter gogen.Eval).
package main

import (
	"bytes"
	"context"
	"crypto/sha256"
	"encoding/hex"
	"encoding/json"
	"fmt"
	"math/rand/v2"
	"os"
	"os/exec"
	"path/filepath"
	"reflect"
	"regexp"
	"sort"
	"strconv"
	"strings"
	"sync/atomic"
	"syscall"
	"time"

	"github.com/BondMachineHQ/BondMachine/pkg/procbuilder"
	"verif/internal/evid"
	"verif/internal/gogen"
	"verif/internal/hx"
	"verif/internal/procsim"
)

type compiled struct {
	Status string // ok rejected deadlock inconclusive crashed
	Detail string
	Asm    string
	Mach   []byte
	Stdout string
	Sites  map[string]int
	Last   string // last allocator hook site before the exit handshake
}

var (
	reGoroutine = regexp.MustCompile(`(?m)^goroutine \d+[^\[]*\[([^\]]+)\]:`)
)

// classifyDump decides from a SIGQUIT goroutine dump whether the compiler is deadlocked.
func classifyDump(dump string) (string, string) {
	blocks := strings.Split(dump, "\n\n")
	var states []string
	for _, b := range blocks {
		m := reGoroutine.FindStringSubmatch(b)
		if m == nil {
			continue
		}
		if !strings.Contains(b, "main.main") && !strings.Contains(b, "pkg/bondgo.") {
			continue
		}
		st := strings.SplitN(m[1], ",", 2)[0]
		fn := "?"
		for _, l := range strings.Split(b, "\n") {
			if strings.Contains(l, "pkg/bondgo.(") || strings.HasPrefix(l, "main.main") {
				fn = strings.SplitN(strings.TrimSpace(l), "(0x", 2)[0]
				break
			}
		}
		states = append(states, st+" in "+fn)
	}
	if len(states) == 0 {
		return "inconclusive", "no compiler goroutine in the dump"
	}
	sort.Strings(states)
	for _, s := range states {
		if !strings.HasPrefix(s, "chan send") && !strings.HasPrefix(s, "chan receive") && !strings.HasPrefix(s, "select") {
			return "inconclusive", "a compiler goroutine is not blocked: " + strings.Join(states, "; ")
		}
	}
	return "deadlock", strings.Join(states, "; ")
}

func compile(bin, dir string, p *gogen.Prog, sched string, gmp int) compiled {
	return compileSrc(bin, dir, p.Source(), p.Rsize, false, sched, gmp)
}

// compileSrc runs bondgo once. With mpm the multi-processor mode is used: the artefacts are the
// bondmachine JSON and one assembly file per processor (concatenated into Asm).
func compileSrc(bin, dir, src string, rsize int, mpm bool, sched string, gmp int) compiled {
	os.RemoveAll(dir)
	os.MkdirAll(dir, 0o755)
	os.WriteFile(filepath.Join(dir, "p.go"), []byte(src), 0o644)
	ctx, cancel := context.WithCancel(context.Background())
	defer cancel()
	args := []string{"-input-file", "p.go", "-save-assembly", "out.asm", "-save-machine", "m.json", "-show-requirements", "-register-size", strconv.Itoa(rsize)}
	if mpm {
		args = []string{"-mpm", "-input-file", "p.go", "-save-assembly", "out.asm", "-save-bondmachine", "m.json", "-show-requirements", "-register-size", strconv.Itoa(rsize)}
	}
	cmd := exec.CommandContext(ctx, filepath.Join(bin, "bondgo"), args...)
	cmd.Dir = dir
	cmd.Env = append(os.Environ(), "GOMAXPROCS="+strconv.Itoa(gmp), "VERIF_BONDGO_SCHED="+sched, "VERIF_BONDGO_LOG="+filepath.Join(dir, "sites.log"))
	var so, se bytes.Buffer
	cmd.Stdout, cmd.Stderr = &so, &se
	if err := cmd.Start(); err != nil {
		return compiled{Status: "inconclusive", Detail: err.Error()}
	}
	done := make(chan error, 1)
	go func() { done <- cmd.Wait() }()
	var err error
	res := compiled{}
	select {
	case err = <-done:
	case <-time.After(watchdog): // watchdog only: the verdict comes from the dump
		cmd.Process.Signal(syscall.SIGQUIT)
		select {
		case <-done:
		case <-time.After(10 * time.Second):
			cmd.Process.Kill()
			<-done
		}
		st, det := classifyDump(se.String())
		res.Status, res.Detail = st, det
	}
	res.Stdout = so.String()
	res.Sites = map[string]int{}
	if b, e := os.ReadFile(filepath.Join(dir, "sites.log")); e == nil {
		for _, l := range strings.Split(string(b), "\n") {
			if l == "" {
				continue
			}
			res.Sites[l]++
			if strings.HasPrefix(l, "va-") {
				res.Last = l
			}
		}
	}
	if res.Status != "" {
		return res
	}
	if err != nil {
		msg := lastLines(se.String()+so.String(), 6)
		for _, l := range strings.Split(se.String(), "\n") {
			if strings.HasPrefix(l, "panic:") || strings.HasPrefix(l, "fatal error:") {
				msg = l
				break
			}
		}
		res.Status, res.Detail = "crashed", fmt.Sprintf("%v: %.300s", err, msg)
		return res
	}
	asmErr := strings.Index(res.Stdout, "operand does not fit")
	if asmErr < 0 {
		asmErr = strings.Index(res.Stdout, "Unknown Opcode")
	}
	if i := asmErr; i >= 0 {
		// the assembler refuses a line the compiler emitted; bondgo goes on and saves a machine without program
		res.Status, res.Detail = "unencodable", strings.SplitN(res.Stdout[i:], "\n", 2)[0]
		if a, e := os.ReadFile(filepath.Join(dir, "out.asm")); e == nil {
			res.Asm = string(a)
		}
		return res
	}
	if strings.Contains(res.Stdout, "Error: ") {
		res.Status = "rejected"
		for _, l := range strings.Split(res.Stdout, "\n") {
			if strings.HasPrefix(l, "Error: ") {
				res.Detail = l
				break
			}
		}
		return res
	}
	a, e1 := os.ReadFile(filepath.Join(dir, "out.asm"))
	if mpm {
		// numbered per processor: out.asm_0, out.asm_1, ...
		a, e1 = nil, nil
		for i := 0; ; i++ {
			b, e := os.ReadFile(filepath.Join(dir, fmt.Sprintf("out.asm_%d", i)))
			if e != nil {
				if i == 0 {
					e1 = e
				}
				break
			}
			a = append(a, []byte(fmt.Sprintf("== processor %d\n", i))...)
			a = append(a, b...)
		}
	}
	m, e2 := os.ReadFile(filepath.Join(dir, "m.json"))
	if e1 != nil || e2 != nil {
		res.Status, res.Detail = "crashed", "no assembly or machine written, no error printed"
		return res
	}
	res.Status, res.Asm, res.Mach = "ok", string(a), m
	return res
}

func lastLines(s string, n int) string {
	l := strings.Split(strings.TrimSpace(s), "\n")
	if len(l) > n {
		l = l[len(l)-n:]
	}
	return strings.Join(l, " / ")
}

var sampled int32

var reR2O = regexp.MustCompile(`^r2o\s+r\d+\s+o(\d+)$`)

const useHDL = true

// watchdog: how long a compile run may take before its goroutine dump is requested
// (a compile takes milliseconds; with the forced 3 ms delays at most a few seconds).
var watchdog = func() time.Duration {
	if s, err := strconv.Atoi(os.Getenv("VERIF_C12_WATCHDOG_S")); err == nil && s > 0 {
		return time.Duration(s) * time.Second
	}
	return 45 * time.Second
}()

func toU64(v interface{}) uint64 {
	switch x := v.(type) {
	case uint8:
		return uint64(x)
	case uint16:
		return uint64(x)
	case uint32:
		return uint64(x)
	case uint64:
		return x
	}
	return 0
}

func fromU64(rsize uint8, v uint64) interface{} {
	switch {
	case rsize <= 8:
		return uint8(v)
	case rsize <= 16:
		return uint16(v)
	case rsize <= 32:
		return uint32(v)
	}
	return v
}

// simulate runs the emitted machine and records the value of every executed r2o.
func simulate(c compiled, nOut int, in []uint64, maxSteps int) (out [][]uint64, status string) {
	defer func() {
		if r := recover(); r != nil {
			status = fmt.Sprintf("simulator panic: %v", r)
		}
	}()
	mj := new(procbuilder.Machine_json)
	if err := json.Unmarshal(c.Mach, mj); err != nil {
		return nil, "machine json: " + err.Error()
	}
	m := mj.Dejsoner()
	lines := strings.Split(strings.TrimSpace(c.Asm), "\n")
	if len(m.Program.Slocs) != len(lines) {
		return nil, fmt.Sprintf("machine has %d instructions, assembly %d lines", len(m.Program.Slocs), len(lines))
	}
	out = make([][]uint64, nOut)
	if useHDL {
		// the Go simulator has no RAM (m2r/r2m are stubs) and turns a jump to the end of the
		// program into pc+1: the emitted machine is run as generated hardware under vsim
		files, err := procsim.HDLFiles(m, nil)
		if err != nil {
			return nil, "hdl: " + err.Error()
		}
		cur, ended, bad := 0, false, ""
		stop := func(s procsim.Snap) bool {
			if mm := reR2O.FindStringSubmatch(strings.TrimSpace(lines[cur])); mm != nil {
				k, _ := strconv.Atoi(mm[1])
				if k >= nOut || k >= len(s.Out) {
					bad = fmt.Sprintf("r2o to o%d, the source has %d outputs", k, nOut)
					return true
				}
				out[k] = append(out[k], s.Out[k])
			}
			next := int(s.Pc)
			if next >= len(lines) || (cur == len(lines)-1 && next == 0 && !strings.HasPrefix(strings.TrimSpace(lines[cur]), "j")) {
				ended = true
				return true
			}
			cur = next
			return false
		}
		tr, _ := procsim.RunHDLStop(m, files, procsim.Env{Const: in}, maxSteps, maxSteps*8, stop)
		switch {
		case bad != "":
			return out, bad
		case tr.Err != "":
			return out, "hdl: " + tr.Err
		case ended:
			return out, "ended"
		}
		return out, "step-bound"
	}
	vm := new(procbuilder.VM)
	vm.Mach = m
	if err := vm.Init(); err != nil {
		return nil, "vm init: " + err.Error()
	}
	for k := range vm.Inputs {
		if k < len(in) {
			vm.Inputs[k] = fromU64(m.Rsize, in[k])
		}
	}
	for s := 0; s < maxSteps; s++ {
		pc := int(vm.Pc)
		if pc >= len(lines) {
			return out, "ended"
		}
		mm := reR2O.FindStringSubmatch(strings.TrimSpace(lines[pc]))
		if _, err := vm.Step(nil); err != nil {
			return out, "step: " + err.Error()
		}
		if mm != nil && int(vm.Pc) != pc {
			k, _ := strconv.Atoi(mm[1])
			if k >= len(vm.Outputs) {
				return out, fmt.Sprintf("r2o to o%d but the machine has %d outputs", k, len(vm.Outputs))
			}
			if k < nOut {
				out[k] = append(out[k], toU64(vm.Outputs[k]))
			} else {
				return out, fmt.Sprintf("r2o to o%d, the source has %d outputs", k, nOut)
			}
		}
	}
	return out, "step-bound"
}

type sched struct {
	name string
	gmp  int
}

func digest(c compiled) string {
	h := sha256.New()
	h.Write([]byte(c.Asm))
	h.Write([]byte{0})
	h.Write(c.Mach)
	h.Write([]byte{0})
	h.Write([]byte(c.Stdout))
	return hex.EncodeToString(h.Sum(nil))[:16]
}

// features names the constructs a program uses (for violation keys).
func features(p *gogen.Prog) []string {
	f := map[string]bool{}
	var ex func(e *gogen.Expr)
	ex = func(e *gogen.Expr) {
		if e == nil {
			return
		}
		switch e.Kind {
		case "var":
			if strings.HasPrefix(e.Name, "reg_") {
				f["regvar"] = true
			} else if !strings.HasPrefix(e.Name, "a") {
				f["memvar"] = true
			}
		default:
			f[e.Kind] = true
		}
		ex(e.L)
		ex(e.R)
		for _, a := range e.Args {
			ex(a)
		}
	}
	var st func(b []*gogen.Stmt)
	st = func(b []*gogen.Stmt) {
		for _, s := range b {
			f[s.Kind] = true
			ex(s.E)
			ex(s.E2)
			for _, e := range s.Es {
				ex(e)
			}
			if s.Init != nil {
				st([]*gogen.Stmt{s.Init})
			}
			if s.Post != nil {
				st([]*gogen.Stmt{s.Post})
			}
			st(s.Body)
			st(s.Else)
			for _, c := range s.Cases {
				st(c.Body)
				if c.Fall {
					f["fallthrough"] = true
				}
			}
		}
	}
	st(p.Body)
	var out []string
	for k := range f {
		out = append(out, k)
	}
	sort.Strings(out)
	return out
}

// semantic compares simulation and reference; "" = agree.
// idealRun executes the emitted assembly on the instruction set as documented (je jumps when its two
// registers are equal, a jump may target the first address after the program = the end). It
// separates what the compiler emits from what the machine of this tree does with it.
func idealRun(asm string, rsize int, in []uint64, nOut, maxSteps int) (out [][]uint64, status string) {
	lines := strings.Split(strings.TrimSpace(asm), "\n")
	mask := ^uint64(0)
	if rsize < 64 {
		mask = 1<<uint(rsize) - 1
	}
	regs := map[int]uint64{}
	mem := map[int]uint64{}
	out = make([][]uint64, nOut)
	num := func(s string) int {
		n, err := strconv.Atoi(strings.TrimLeft(s, "rioch"))
		if err != nil {
			return -1
		}
		return n
	}
	pc := 0
	for s := 0; s < maxSteps; s++ {
		if pc >= len(lines) {
			return out, "ended"
		}
		f := strings.Fields(lines[pc])
		if len(f) == 0 {
			return out, "empty line"
		}
		a := make([]int, 3)
		for i := 1; i < len(f) && i <= 3; i++ {
			a[i-1] = num(f[i])
		}
		next := pc + 1
		switch f[0] {
		case "clr":
			regs[a[0]] = 0
		case "rset":
			v, err := strconv.ParseUint(f[2], 10, 64)
			if err != nil {
				return out, "rset operand " + f[2]
			}
			regs[a[0]] = v & mask
		case "cpy":
			regs[a[0]] = regs[a[1]]
		case "add":
			regs[a[0]] = (regs[a[0]] + regs[a[1]]) & mask
		case "mult":
			regs[a[0]] = (regs[a[0]] * regs[a[1]]) & mask
		case "inc":
			regs[a[0]] = (regs[a[0]] + 1) & mask
		case "dec":
			regs[a[0]] = (regs[a[0]] - 1) & mask
		case "j":
			next = a[0]
		case "jz":
			if regs[a[0]] == 0 {
				next = a[1]
			}
		case "je":
			if regs[a[0]] == regs[a[1]] {
				next = a[2]
			}
		case "i2r":
			if a[1] < 0 || a[1] >= len(in) {
				return out, "i2r from an input the source does not have: " + lines[pc]
			}
			regs[a[0]] = in[a[1]] & mask
		case "r2o":
			if a[1] < 0 || a[1] >= nOut {
				return out, "r2o to an output the source does not have: " + lines[pc]
			}
			out[a[1]] = append(out[a[1]], regs[a[0]])
		case "m2r":
			regs[a[0]] = mem[a[1]]
		case "r2m":
			mem[a[1]] = regs[a[0]]
		default:
			return out, "opcode outside the ideal interpreter: " + f[0]
		}
		if next < 0 {
			return out, "unreadable operand: " + lines[pc]
		}
		pc = next
	}
	return out, "step-bound"
}

func semantic(c compiled, p *gogen.Prog, in []uint64) (diff string, inconclusive string) {
	want, ok := p.Eval(in, 200000)
	if !ok {
		return "", "reference-step-bound"
	}
	// 1. the emitted code on the documented instruction set: decides whether the compiler is right
	iout, ist := idealRun(c.Asm, p.Rsize, in, len(p.Outputs), 400000)
	if ist != "ended" {
		if ist == "step-bound" {
			return fmt.Sprintf("IDEAL the emitted program does not end (the source ends); outputs so far %v, expected %v", iout, want), ""
		}
		return "IDEAL " + ist, ""
	}
	for k := range want {
		if !reflect.DeepEqual(append([]uint64{}, want[k]...), append([]uint64{}, iout[k]...)) {
			return fmt.Sprintf("IDEAL out%d: emitted program writes %v, the source writes %v (inputs %v)", k, iout[k], want[k], in), ""
		}
	}
	// 2. the emitted machine as generated hardware
	got, st := simulate(c, len(p.Outputs), in, 20000)
	same := func(want [][]uint64) string {
		if st != "ended" {
			if st == "step-bound" {
				return fmt.Sprintf("the emitted program does not end within the step bound (the source ends); outputs so far %v, expected %v", got, want)
			}
			return st
		}
		for k := range want {
			if !reflect.DeepEqual(append([]uint64{}, want[k]...), append([]uint64{}, got[k]...)) {
				return fmt.Sprintf("out%d: emitted program writes %v, the source writes %v (inputs %v)", k, got[k], want[k], in)
			}
		}
		return ""
	}
	d := same(want)
	if d == "" {
		return "", ""
	}
	// the recorded finding: je (the only comparison bondgo emits) is a stub opcode, so every == is false
	uses := false
	for _, f := range features(p) {
		uses = uses || f == "if" || f == "switch" || f == "for"
	}
	if uses && strings.Contains(c.Asm, "je ") {
		if alt, ok := p.EvalAlt(in, 20000, true); ok {
			if same(alt) == "" {
				return "JE-STUB " + d, ""
			}
		} else if st == "step-bound" {
			return "JE-STUB " + d, "" // neither the machine nor the source with == false ends
		}
	}
	return d, ""
}

// ---- shrinking ------------------------------------------------------------------------

func clone(p *gogen.Prog) *gogen.Prog {
	b, _ := json.Marshal(p)
	q := new(gogen.Prog)
	json.Unmarshal(b, q)
	return q
}

// candidates returns programs one step smaller than p.
func candidates(p *gogen.Prog) []*gogen.Prog {
	var out []*gogen.Prog
	// drop one top-level statement, hoist bodies
	var paths [][]int
	var walk func(b []*gogen.Stmt, pre []int)
	walk = func(b []*gogen.Stmt, pre []int) {
		for i, s := range b {
			paths = append(paths, append(append([]int{}, pre...), i))
			walk(s.Body, append(append([]int{}, pre...), i, 0))
			walk(s.Else, append(append([]int{}, pre...), i, 1))
			for ci, c := range s.Cases {
				walk(c.Body, append(append([]int{}, pre...), i, 2+ci))
			}
		}
	}
	walk(p.Body, nil)
	get := func(q *gogen.Prog, path []int) (*[]*gogen.Stmt, int) {
		cur := &q.Body
		for len(path) > 1 {
			s := (*cur)[path[0]]
			switch {
			case path[1] == 0:
				cur = &s.Body
			case path[1] == 1:
				cur = &s.Else
			default:
				cur = &s.Cases[path[1]-2].Body
			}
			path = path[2:]
		}
		return cur, path[0]
	}
	for _, path := range paths {
		q := clone(p)
		l, i := get(q, path)
		s := (*l)[i]
		*l = append(append([]*gogen.Stmt{}, (*l)[:i]...), (*l)[i+1:]...)
		out = append(out, q)
		if len(s.Body) > 0 && (s.Kind == "if") {
			q2 := clone(p)
			l2, i2 := get(q2, path)
			s2 := (*l2)[i2]
			*l2 = append(append(append([]*gogen.Stmt{}, (*l2)[:i2]...), s2.Body...), (*l2)[i2+1:]...)
			out = append(out, q2)
		}
	}
	// simplify expressions: replace a binary node by one of its operands / a call by a literal
	var exprs func(q *gogen.Prog) []**gogen.Expr
	exprs = func(q *gogen.Prog) []**gogen.Expr {
		var res []**gogen.Expr
		var ex func(e **gogen.Expr)
		ex = func(e **gogen.Expr) {
			if *e == nil {
				return
			}
			res = append(res, e)
			ex(&(*e).L)
			ex(&(*e).R)
			for i := range (*e).Args {
				ex(&(*e).Args[i])
			}
		}
		var st func(b []*gogen.Stmt)
		st = func(b []*gogen.Stmt) {
			for _, s := range b {
				ex(&s.E)
				ex(&s.E2)
				for i := range s.Es {
					ex(&s.Es[i])
				}
				st(s.Body)
				st(s.Else)
				for _, c := range s.Cases {
					st(c.Body)
				}
			}
		}
		st(q.Body)
		for i := range q.Funcs {
			ex(&q.Funcs[i].Ret)
		}
		return res
	}
	n := len(exprs(p))
	for i := 0; i < n; i++ {
		e := *exprs(p)[i]
		switch e.Kind {
		case "add", "mul":
			for side := 0; side < 2; side++ {
				q := clone(p)
				pe := exprs(q)[i]
				if side == 0 {
					*pe = (*pe).L
				} else {
					*pe = (*pe).R
				}
				out = append(out, q)
			}
		case "call", "read":
			q := clone(p)
			*exprs(q)[i] = &gogen.Expr{Kind: "lit", Val: 1}
			out = append(out, q)
		case "lit":
			if e.Val > 3 {
				q := clone(p)
				(*exprs(q)[i]).Val = 2
				out = append(out, q)
			}
		}
	}
	// drop unused functions
	for i := range p.Funcs {
		src := p.Source()
		if strings.Count(src, p.Funcs[i].Name+"(") == 1 {
			q := clone(p)
			q.Funcs = append(append([]gogen.Func{}, q.Funcs[:i]...), q.Funcs[i+1:]...)
			out = append(out, q)
		}
	}
	return out
}

// ---------------------------------------------------------------------------------------

func buildTool(scratch string) (string, error) {
	bin := filepath.Join(scratch, "bin")
	os.MkdirAll(bin, 0o755)
	repo := os.Getenv("VERIF_REPO")
	if repo == "" {
		repo = "/repo"
	}
	cmd := exec.Command("go", "build", "-tags", "verif", "-o", filepath.Join(bin, "bondgo"), "./cmd/bondgo")
	cmd.Dir = repo
	if out, err := cmd.CombinedOutput(); err != nil {
		return "", fmt.Errorf("go build bondgo: %v\n%s", err, out)
	}
	return bin, nil
}

func inputsFor(rng *rand.Rand, p *gogen.Prog) []uint64 {
	in := make([]uint64, len(p.Inputs))
	for i := range in {
		in[i] = rng.Uint64() & (1<<uint(p.Rsize) - 1)
		if rng.IntN(2) == 0 {
			in[i] &= 7
		}
	}
	return in
}

func main() {
	tier, replay := hx.Args()
	run := evid.New("C12", tier, "exploration")
	run.Rule = "a case = one generated Go-subset program; it is compiled under every schedule of the list (forced delays at the allocator's notify/answer points and before TR_EXIT, seeded random yield/sleep at all hook sites, GOMAXPROCS 1/2/4/16); non-trivial = compiled in every run and simulated to the end; distinct by source text"
	run.Assume = []string{
		"the accepted subset explored: register-sized unsigned variables in registers (reg_*) and RAM, assignment, + and *, == conditions, ++/--, if/else, for (all three header forms, break, continue), switch with value lists, default and fallthrough, inlined functions returning one expression, bondgo.Make/IORead/IOWrite; single processor (no goroutines/channels)",
		"a compile run that does not end is judged from its goroutine dump (all compiler goroutines blocked on channel operations = deadlock); the 45 s watchdog only decides when to look",
		"outputs are observed as the value of every executed r2o (asynchronous outputs keep only the last value otherwise); inputs are constant",
		"programs the compiler rejects with an error message are outside the quantifier and tallied",
	}
	run.Floor = 10
	scratch, clean := hx.Scratch("c12")
	defer clean()
	bin, err := buildTool(scratch)
	if err != nil {
		fmt.Fprintln(os.Stderr, err)
		os.Exit(2)
	}
	seed := evid.Seed()
	scheds := []sched{{"", 16}, {"delay:va-notify", 4}, {"delay:va-answer", 2}, {"delay:main-tr-exit", 16}, {"rand:1", 1}, {"rand:2", 2}, {"rand:3", 16}}
	nProg := 48
	if tier == "thorough" {
		nProg = 1200
		for s := 4; s < 10; s++ {
			scheds = append(scheds, sched{fmt.Sprintf("rand:%d", s), []int{1, 2, 4, 16}[s%4]})
		}
	}

	// judgeOne compiles under all schedules and checks T, D, S. Returns (key, witness) or ("", nil).
	judgeOne := func(dir string, p *gogen.Prog, in []uint64, all bool) (string, map[string]any, compiled) {
		var first compiled
		src := p.Source()
		use := scheds
		if !all {
			use = scheds[:1]
		}
		for i, sc := range use {
			c := compile(bin, filepath.Join(dir, fmt.Sprint(i)), p, sc.name, sc.gmp)
			w := map[string]any{"kind": "program", "program": p, "source": src, "schedule": sc.name, "gomaxprocs": sc.gmp, "inputs": in}
			switch c.Status {
			case "deadlock":
				w["goroutines"] = c.Detail
				w["last_allocator_site"] = c.Last
				site := c.Last
				if j := strings.Index(site, ":"); j >= 0 {
					site = site[j+1:]
				}
				return "compiler-deadlock:" + site, w, c
			case "inconclusive":
				return "?inconclusive:" + c.Detail, w, c
			case "crashed":
				// a crash ends the run: the statement asks for termination and for correct code of
				// accepted programs, so a crashing input counts as not accepted (tallied)
				if i == 0 {
					return "?rejected:crash " + c.Detail, w, c
				}
				w["detail"] = c.Detail
				return "schedule-dependent-crash", w, c
			case "unencodable":
				w["detail"] = c.Detail
				w["assembly"] = c.Asm
				lines := strings.Split(strings.TrimSpace(c.Asm), "\n")
				cls := "other"
				if strings.Contains(c.Detail, "Unknown Opcode") {
					cls = "opcode-missing-from-the-requested-machine"
				}
				if n := len(lines); n&(n-1) == 0 {
					for _, l := range lines {
						f := strings.Fields(l)
						if len(f) > 0 && strings.HasPrefix(f[0], "j") && f[len(f)-1] == strconv.Itoa(n) {
							cls = "jump-to-end-of-a-program-of-2^k-lines"
						}
					}
				}
				return "emits-unencodable-instruction:" + cls, w, c
			case "rejected":
				if i == 0 {
					return "?rejected:" + c.Detail, w, c
				}
				w["detail"] = c.Detail
				return "schedule-dependent-rejection", w, c
			}
			if i == 0 {
				first = c
				continue
			}
			if digest(c) != digest(first) {
				w["difference"] = firstDiff(first, c)
				return "schedule-dependent-output", w, c
			}
		}
		if p.TailChans > 0 {
			// the machine requests a channel shared object the single-processor bench cannot provide:
			// such programs are judged for termination and determinism only
			return "", nil, first
		}
		d, inc := semantic(first, p, in)
		if inc != "" {
			return "?inconclusive:" + inc, nil, first
		}
		if strings.HasPrefix(d, "JE-STUB ") {
			return "equality-compiles-to-the-stub-opcode-je", map[string]any{"kind": "program", "program": p, "source": src, "inputs": in, "difference": strings.TrimPrefix(d, "JE-STUB "), "assembly": first.Asm}, first
		}
		if d != "" && !strings.HasPrefix(d, "IDEAL ") {
			// the compiler's code is right on the documented instruction set, the generated hardware differs
			return "emitted-machine-differs-from-the-instruction-set", map[string]any{"kind": "program", "program": p, "source": src, "inputs": in, "difference": d, "assembly": first.Asm}, first
		}
		d = strings.TrimPrefix(d, "IDEAL ")
		if d != "" {
			return "miscompiled", map[string]any{"kind": "program", "program": p, "source": src, "inputs": in, "difference": d, "assembly": first.Asm}, first
		}
		return "", nil, first
	}

	if replay != "" {
		w, err := evid.ReadWitness(replay)
		if err != nil {
			fmt.Fprintln(os.Stderr, err)
			os.Exit(2)
		}
		b, _ := json.Marshal(w)
		var x struct {
			Program *gogen.Prog
			Inputs  []uint64
		}
		json.Unmarshal(b, &x)
		key, ww, _ := judgeOne(filepath.Join(scratch, "replay"), x.Program, x.Inputs, true)
		fmt.Printf("key=%q\n", key)
		if ww != nil {
			fmt.Println(ww["difference"], ww["goroutines"], ww["detail"])
		}
		if key != "" && !strings.HasPrefix(key, "?") {
			os.Exit(1)
		}
		os.Exit(0)
	}

	rng := hx.RNG(seed, "c12-programs")
	type pc struct {
		p  *gogen.Prog
		in []uint64
	}
	var progs []pc
	for i := 0; i < nProg; i++ {
		o := gogen.Opts{}
		switch i % 6 {
		case 1:
			o = gogen.Opts{NoFuncs: true, NoSwitch: true, NoLoops: true, MaxStmts: 4}
		case 2:
			o = gogen.Opts{NoMemVars: true}
		case 3:
			o = gogen.Opts{NoRegVars: true}
		}
		p := gogen.Generate(rng, o)
		if i%6 == 5 {
			p.TailChans = 1 + i%2 // the last allocator interaction is a channel allocation (termination/determinism only)
		}
		progs = append(progs, pc{p, inputsFor(rng, p)})
	}
	// directed control-flow shapes (their own stream: the programs above stay the same), each followed
	// by random statements
	rngS := hx.RNG(seed, "c12-shapes")
	for i := 0; i < nProg/2; i++ {
		o := gogen.Opts{Shape: 1 + i%6, MaxStmts: 3, NoFuncs: i%2 == 0}
		switch (i / 6) % 3 {
		case 1:
			o.NoMemVars = true
		case 2:
			o.NoRegVars = true
		}
		p := gogen.Generate(rngS, o)
		progs = append(progs, pc{p, inputsFor(rngS, p)})
	}
	// directed: a program whose emitted code has exactly 2^k lines and jumps to its end (the recorded
	// finding: the target needs k+1 bits)
	progs = append(progs, pc{&gogen.Prog{Rsize: 8, Outputs: []int{11}, Vars: []string{"reg_0", "reg_1"},
		Body: []*gogen.Stmt{{Kind: "for", Body: []*gogen.Stmt{{Kind: "break"}}}}}, nil})
	lastSites := map[string]int{}
	hx.Par(len(progs), func(i int) {
		p, in := progs[i].p, progs[i].in
		dir := filepath.Join(scratch, fmt.Sprintf("p%d", i))
		defer os.RemoveAll(dir)
		run.Eval(int64(len(scheds)))
		key, w, c := judgeOne(dir, p, in, true)
		if strings.HasPrefix(key, "?rejected:") {
			run.Tally("rejected_by_the_compiler", strings.TrimPrefix(key, "?rejected:"))
			return
		}
		if strings.HasPrefix(key, "?inconclusive:") {
			run.Inconclusive(strings.TrimPrefix(key, "?inconclusive:"))
			return
		}
		for _, f := range features(p) {
			run.Tally("features_compiled", f)
		}
		if key == "" {
			run.Tally("last_allocator_interaction", c.Last)
			run.Count("hook_calls_observed", int64(sum(c.Sites)))
			_ = lastSites
			run.Nontrivial(p.Source())
			if atomic.AddInt32(&sampled, 1) <= 2 {
				run.Sample(map[string]any{"source": p.Source(), "inputs": in, "assembly_lines": strings.Count(c.Asm, "\n"), "schedules": len(scheds)})
			}
			return
		}
		if key == "equality-compiles-to-the-stub-opcode-je" {
			// everything else in the program was compared against the reference in which == is false
			run.Tally("judged_against_the_je_stub_reference", "programs")
			run.Nontrivial(p.Source())
		}
		if key == "miscompiled" {
			// shrink with the default schedule only, then name the construct
			small := p
			budget := 150
			for changed := true; changed && budget > 0; {
				changed = false
				for _, q := range candidates(small) {
					budget--
					if budget <= 0 {
						break
					}
					k2, _, _ := judgeOne(dir, q, in, false)
					if k2 == "miscompiled" {
						small = q
						changed = true
						break
					}
				}
			}
			_, w2, _ := judgeOne(dir, small, in, false)
			if w2 != nil {
				w = w2
			}
			key = "miscompiled:" + strings.Join(features(small), "+")
		}
		run.Violation(key, w)
	})

	// multi-processor programs (goroutines and channels): termination and determinism of the compiler
	nMpm := 12
	if tier == "thorough" {
		nMpm = 200
	}
	rngM := hx.RNG(seed, "c12-mpm")
	mpmSrc := make([]string, nMpm)
	mpmRs := make([]int, nMpm)
	for i := range mpmSrc {
		mpmRs[i] = []int{8, 16, 32}[rngM.IntN(3)]
		mpmSrc[i] = gogen.GenerateMpm(rngM, mpmRs[i])
	}
	hx.Par(nMpm, func(i int) {
		dir := filepath.Join(scratch, fmt.Sprintf("m%d", i))
		defer os.RemoveAll(dir)
		run.Eval(int64(len(scheds)))
		var first compiled
		for si, sc := range scheds {
			c := compileSrc(bin, filepath.Join(dir, fmt.Sprint(si)), mpmSrc[i], mpmRs[i], true, sc.name, sc.gmp)
			w := map[string]any{"kind": "mpm", "source": mpmSrc[i], "rsize": mpmRs[i], "schedule": sc.name, "gomaxprocs": sc.gmp}
			switch c.Status {
			case "deadlock":
				w["goroutines"], w["last_allocator_site"] = c.Detail, c.Last
				site := c.Last
				if j := strings.Index(site, ":"); j >= 0 {
					site = site[j+1:]
				}
				run.Violation("compiler-deadlock:"+site, w)
				return
			case "inconclusive":
				run.Inconclusive("mpm:" + c.Detail)
				return
			case "rejected", "crashed", "unencodable":
				if si == 0 {
					run.Tally("mpm_rejected_by_the_compiler", c.Status+": "+c.Detail)
					return
				}
				w["detail"] = c.Detail
				run.Violation("schedule-dependent-rejection", w)
				return
			}
			if si == 0 {
				first = c
				continue
			}
			if digest(c) != digest(first) {
				w["difference"] = firstDiff(first, c)
				run.Violation("schedule-dependent-output", w)
				return
			}
		}
		run.Tally("last_allocator_interaction", first.Last)
		run.Tally("features_compiled", "goroutines+channels")
		run.Nontrivial(mpmSrc[i])
	})
	os.Exit(run.Finish())
}

func sum(m map[string]int) int {
	n := 0
	for _, v := range m {
		n += v
	}
	return n
}

func firstDiff(a, b compiled) string {
	for _, pair := range [][3]string{{"assembly", a.Asm, b.Asm}, {"machine", string(a.Mach), string(b.Mach)}, {"stdout", a.Stdout, b.Stdout}} {
		if pair[1] != pair[2] {
			la, lb := strings.Split(pair[1], "\n"), strings.Split(pair[2], "\n")
			for i := 0; i < len(la) || i < len(lb); i++ {
				x, y := "<end>", "<end>"
				if i < len(la) {
					x = la[i]
				}
				if i < len(lb) {
					y = lb[i]
				}
				if x != y {
					return fmt.Sprintf("%s line %d: %.200q vs %.200q", pair[0], i, x, y)
				}
			}
		}
	}
	return "equal"
}
