// mkcorpus writes sample HDL file sets produced by the repository into a
// directory, for bringing up vsim. Not a check.
package main

import (
	"fmt"
	"os"
	"path/filepath"

	"github.com/BondMachineHQ/BondMachine/pkg/bmstack"
	"github.com/BondMachineHQ/BondMachine/pkg/bondmachine"
	"github.com/BondMachineHQ/BondMachine/pkg/procbuilder"
	"github.com/BondMachineHQ/BondMachine/pkg/simbox"
	"verif/internal/gen"
)

func must(err error) {
	if err != nil {
		panic(err)
	}
}

func writeBM(dir string, bm *bondmachine.Bondmachine) {
	must(os.MkdirAll(dir, 0o755))
	cwd, _ := os.Getwd()
	must(os.Chdir(dir))
	defer os.Chdir(cwd)
	conf := new(bondmachine.Config)
	defer func() {
		if r := recover(); r != nil {
			fmt.Println("PANIC in", dir, r)
		}
	}()
	if err := bm.Write_verilog(conf, "iverilog", &bondmachine.IOmap{Assoc: map[string]string{}}, nil, new(simbox.Simbox)); err != nil {
		fmt.Println("ERR", dir, err)
	}
}

func main() {
	out, _ := filepath.Abs(os.Args[1])
	// 1: all static opcodes per rsize, single processor
	for _, rs := range []uint8{8, 16, 32} {
		names := []string{}
		for _, op := range procbuilder.Allopcodes {
			n := op.Op_get_name()
			switch n {
			case "wrd", "wwr", "k2r", "q2r", "r2q", "t2r", "r2t", "r2u", "u2r", "r2v", "r2vri", "r2s", "s2r", "lfsr82r", "hit", "tsp":
				continue
			}
			names = append(names, n)
		}
		m, err := gen.NewMachine(rs, 2, 2, 2, 3, 4, "ha", names)
		must(err)
		must(gen.Assemble(m, []string{"nop", "j 0"}))
		bm := gen.NewBM(rs, []*procbuilder.Machine{m}, 2, 2, [][2]string{{"i0", "p0i0"}, {"i1", "p0i1"}, {"p0o0", "o0"}, {"p0o1", "o1"}})
		writeBM(filepath.Join(out, fmt.Sprintf("allops_%d", rs)), bm)
	}
	// 2: shared objects
	type soCase struct {
		name string
		so   string
		ops  []string
	}
	for _, c := range []soCase{
		{"stack", "stack:4", []string{"r2t", "t2r", "j", "nop"}},
		{"queue", "queue:4", []string{"r2q", "q2r", "j", "nop"}},
		{"channel", "channel:", []string{"wrd", "wwr", "chc", "chw", "j", "nop"}},
		{"barrier", "barrier:10", []string{"hit", "j", "nop"}},
		{"lfsr8", "lfsr8:1", []string{"lfsr82r", "j", "nop"}},
		{"sharedmem", "sharedmem:4", []string{"r2s", "s2r", "j", "nop"}},
		{"uart", "uart:9600:4", []string{"r2u", "u2r", "j", "nop"}},
		{"kbd", "kbd:k0", []string{"k2r", "j", "nop"}},
		{"vtextmem", "vtextmem:0:3:3:16:16:1:20:3:16:16", []string{"r2v", "r2vri", "j", "nop"}},
	} {
		m1, err := gen.NewMachine(8, 2, 1, 1, 0, 3, "ha", c.ops)
		must(err)
		must(gen.Assemble(m1, []string{"nop", "j 0"}))
		m2, _ := gen.NewMachine(8, 2, 1, 1, 0, 3, "ha", c.ops)
		must(gen.Assemble(m2, []string{"nop", "j 0"}))
		bm := gen.NewBM(8, []*procbuilder.Machine{m1, m2}, 1, 1, [][2]string{{"i0", "p0i0"}, {"p0o0", "p1i0"}, {"p1o0", "o0"}})
		before := len(bm.Shared_objects)
		bm.Add_shared_objects([]string{c.so})
		if len(bm.Shared_objects) == before {
			fmt.Println("SO not instantiated:", c.so)
			continue
		}
		bm.Connect_processor_shared_object([]string{"0", "0"})
		bm.Connect_processor_shared_object([]string{"1", "0"})
		writeBM(filepath.Join(out, "so_"+c.name), bm)
	}
	// 3: modes and threading
	for _, mode := range []string{"vn", "hy"} {
		m, err := gen.NewMachine(8, 2, 1, 1, 4, 4, mode, []string{"add", "rset", "j", "nop", "r2m", "m2r", "ja", "jo", "i2rw", "r2owa", "ro2rri", "m2rri"})
		must(err)
		must(gen.Assemble(m, []string{"nop", "j 0"}))
		bm := gen.NewBM(8, []*procbuilder.Machine{m}, 1, 1, [][2]string{{"i0", "p0i0"}, {"p0o0", "o0"}})
		writeBM(filepath.Join(out, "mode_"+mode), bm)
	}
	{
		m, err := gen.NewMachine(8, 2, 1, 1, 0, 4, "ha", []string{"add", "rset", "j", "nop", "i2rw", "r2owa", "tsp"})
		must(err)
		m.Threaded = 2
		must(gen.Assemble(m, []string{"nop", "j 0"}))
		bm := gen.NewBM(8, []*procbuilder.Machine{m}, 1, 1, [][2]string{{"i0", "p0i0"}, {"p0o0", "o0"}})
		writeBM(filepath.Join(out, "threaded"), bm)
	}
	// 4: dynamic ops
	{
		ops := []string{"rsets8", "addfps16f8", "multfps16f8", "divfps16f8", "callo8s", "calla8s", "ret8s", "push4t", "pull4t", "addlqs8t1", "multlqs8t1", "j", "nop", "rset"}
		okops := []string{}
		for _, o := range ops {
			if gen.OpByName(o) != nil {
				okops = append(okops, o)
			} else {
				fmt.Println("dynamic op not created:", o)
			}
		}
		m, err := gen.NewMachine(16, 2, 1, 1, 0, 4, "ha", okops)
		must(err)
		must(gen.Assemble(m, []string{"nop", "j 0"}))
		bm := gen.NewBM(16, []*procbuilder.Machine{m}, 1, 1, [][2]string{{"i0", "p0i0"}, {"p0o0", "o0"}})
		writeBM(filepath.Join(out, "dynops"), bm)
	}
	// 5: stacks
	for _, mt := range []string{"LIFO", "FIFO"} {
		for _, depth := range []int{1, 2, 4} {
			s := bmstack.CreateBasicStack()
			s.ModuleName = "stk"
			s.DataSize = 8
			s.Depth = depth
			s.MemType = mt
			s.Senders = []string{"s0", "s1"}
			s.Receivers = []string{"r0", "r1", "r2"}
			r, err := s.WriteHDL()
			must(err)
			d := filepath.Join(out, fmt.Sprintf("stack_%s_%d", mt, depth))
			os.MkdirAll(d, 0o755)
			os.WriteFile(filepath.Join(d, "stk.v"), []byte(r), 0o644)
		}
	}
}
