// c09: simulation results do not depend on scheduling or on other simulations.
//
// Every machine is simulated alone (reference: digest of the whole VM state
// after every tick + output streams), then again under seeded perturbation of
// the worker/tick hand-over points (verif hook in pkg/bondmachine) and different
// GOMAXPROCS, then concurrently with other simulations in the same process.
// The whole workload is repeated in a -race build whose report log is parsed
// and de-duplicated.
package main

import (
	"bytes"
	"encoding/json"
	"fmt"
	"hash/fnv"
	"os"
	"os/exec"
	"path/filepath"
	"regexp"
	"runtime"
	"sort"
	"strconv"
	"strings"
	"sync"
	"sync/atomic"
	"time"

	"github.com/BondMachineHQ/BondMachine/pkg/bondmachine"
	"verif/internal/evid"
	"verif/internal/gen"
	"verif/internal/hx"
	"verif/internal/simdrv"
)

type caseT struct {
	Net   gen.NetSpec `json:"net"`
	Env   simdrv.Env  `json:"env"`
	Ticks int         `json:"ticks"`
}

// ---- schedule perturbation -----------------------------------------------------

var (
	yieldSeed    atomic.Uint64
	yieldCount   atomic.Uint64
	yieldActions [4]atomic.Uint64
	orderMu      sync.Mutex
	orderLog     []int // procIDs at "worker-before-step", only meaningful when one VM runs
	orderOn      atomic.Bool
)

// A logical step budget for calls that have no tick limit of their own (SinglePipelineSimulate
// runs until its outputs are valid): the hook is called a fixed number of times per simulated
// tick, so "many times more hook calls than the same call needed when it ran alone" means the
// run has left the reference trace and will not come back; decided on counted steps, not on time.
var (
	budgetOn    atomic.Bool
	budgetCalls atomic.Int64
	budgetMax   atomic.Int64
	budgetOnce  sync.Once
	budgetFire  func(calls int64)
)

// Deadlock monitor. Every simulated tick passes the hook sites (4 per processor), so "a simulation is
// in flight and no hook site has been passed" means that no goroutine of it can make progress: the
// tick loop and the workers wait for one another. The monitor samples the hook-call counter; six
// consecutive samples (30 s) without a single call while a simulation is in flight is that state —
// decided on the absence of events, with the goroutine dump as the witness — not a slow run.
var (
	hookCalls atomic.Int64
	inFlight  atomic.Int64
	flightMu  sync.Mutex
	flightTxt = map[int64]string{}
	flightSeq atomic.Int64
)

func countCB(site string, procID int) { hookCalls.Add(1) }

func enter(text string) int64 {
	id := flightSeq.Add(1)
	flightMu.Lock()
	flightTxt[id] = text
	flightMu.Unlock()
	inFlight.Add(1)
	return id
}

func leave(id int64) {
	inFlight.Add(-1)
	flightMu.Lock()
	delete(flightTxt, id)
	flightMu.Unlock()
}

func deadlockMonitor(run *evid.Run) {
	last, idle := hookCalls.Load(), 0
	for {
		time.Sleep(5 * time.Second)
		now := hookCalls.Load()
		if inFlight.Load() > 0 && now == last {
			idle++
		} else {
			idle = 0
		}
		last = now
		if idle < 6 {
			continue
		}
		buf := make([]byte, 1<<20)
		buf = buf[:runtime.Stack(buf, true)]
		var keep []string
		for _, blk := range strings.Split(string(buf), "\n\n") {
			if strings.Contains(blk, "pkg/bondmachine.(*VM)") {
				if len(blk) > 700 {
					blk = blk[:700]
				}
				keep = append(keep, blk)
			}
			if len(keep) >= 12 {
				break
			}
		}
		flightMu.Lock()
		var sims []string
		for _, t := range flightTxt {
			sims = append(sims, t)
		}
		flightMu.Unlock()
		sort.Strings(sims)
		run.Violation("tick-never-completes", map[string]any{"simulations_in_flight": sims, "hook_calls_so_far": now,
			"what": "a simulation was in flight and no worker/tick hand-over point was passed for 30 s: VM.Step and the per-processor workers wait for one another", "goroutines": keep})
		os.Exit(run.Finish())
	}
}

func yieldCB(site string, procID int) {
	hookCalls.Add(1)
	if budgetOn.Load() {
		if c := budgetCalls.Add(1); c > budgetMax.Load() {
			budgetOnce.Do(func() { budgetFire(c) })
		}
	}
	n := yieldCount.Add(1)
	h := fnv.New64a()
	var b [24]byte
	s := yieldSeed.Load()
	for i := 0; i < 8; i++ {
		b[i] = byte(s >> (8 * i))
		b[8+i] = byte(n >> (8 * i))
	}
	b[16] = byte(procID)
	b[17] = byte(len(site))
	h.Write(b[:])
	h.Write([]byte(site))
	v := h.Sum64() % 100
	if site == "worker-before-step" && orderOn.Load() {
		orderMu.Lock()
		orderLog = append(orderLog, procID)
		orderMu.Unlock()
	}
	switch {
	case v < 45:
		yieldActions[0].Add(1)
	case v < 80:
		yieldActions[1].Add(1)
		runtime.Gosched()
	case v < 93:
		yieldActions[2].Add(1)
		for i := 0; i < 4; i++ {
			runtime.Gosched()
		}
	default:
		yieldActions[3].Add(1)
		time.Sleep(20 * time.Microsecond) // widens the window; never decides anything
	}
}

// ---- running one case -------------------------------------------------------------

type trace struct {
	Digests [][32]byte
	Out     [][]uint64
	Err     string
}

func runCase(bm *bondmachine.Bondmachine, c caseT) trace {
	defer leave(enter(c.Net.String()))
	var t trace
	r, err := simdrv.Start(bm, c.Env)
	if err != nil {
		t.Err = err.Error()
		return t
	}
	defer r.Stop()
	for i := 0; i < c.Ticks; i++ {
		if err := r.Tick(true); err != nil {
			t.Err = err.Error()
			break
		}
	}
	t.Digests = r.Res.Digests
	t.Out = r.Res.Out
	return t
}

func firstDiff(a, b trace) (int, bool) {
	if a.Err != b.Err {
		return -1, true
	}
	for i := range a.Digests {
		if i >= len(b.Digests) || a.Digests[i] != b.Digests[i] {
			return i, true
		}
	}
	if len(a.Digests) != len(b.Digests) {
		return len(a.Digests), true
	}
	return 0, false
}

func suspectOps(n gen.NetSpec) string {
	set := map[string]bool{}
	for _, p := range n.Procs {
		for _, l := range p.Prog {
			op := strings.Fields(l)[0]
			switch op {
			case "addp", "multp", "divp", "ro2rri":
				set[op] = true
			default:
				// the dynamically created two-phase arithmetic families (fixed point, fxp, linear quantizer)
				for _, pre := range []string{"addfps", "multfps", "divfps", "addfxps", "multfxps", "divfxps", "addlqs", "multlqs", "divlqs"} {
					if strings.HasPrefix(op, pre) {
						set[pre] = true
					}
				}
			}
		}
	}
	if n.SharedDomain {
		set["one-domain"] = true
	}
	var s []string
	for k := range set {
		s = append(s, k)
	}
	sort.Strings(s)
	if len(s) == 0 {
		return "plain"
	}
	return strings.Join(s, "+")
}

func randEnv(rng interface {
	IntN(int) int
	Uint64() uint64
}, n gen.NetSpec, vals int) simdrv.Env {
	var e simdrv.Env
	for i := 0; i < n.Inputs; i++ {
		var s []uint64
		for j := 0; j < vals; j++ {
			s = append(s, rng.Uint64()&((1<<n.Rsize)-1))
		}
		e.In = append(e.In, s)
		e.Gap = append(e.Gap, rng.IntN(4))
	}
	for i := 0; i < n.Outputs; i++ {
		e.AckDelay = append(e.AckDelay, 1+rng.IntN(3))
	}
	return e
}

func machines(seed int64, nRandom int) []gen.NetSpec {
	var ms []gen.NetSpec
	for k := 1; k <= 6; k++ {
		ms = append(ms, gen.Chain(k, 8, []string{"inc r0"}, k%3, (k+1)%3))
	}
	for k := 1; k <= 3; k++ {
		ms = append(ms, gen.FanOut(k, 16, k%2, []int{0, 1, 2}, false))
	}
	// several processors running the pipelined arithmetic opcodes at the same time
	for k := 2; k <= 4; k++ {
		for _, op := range []string{"addp", "multp", "divp"} {
			n := gen.Chain(k, 8, []string{"rset r1 3", op + " r0 r1", op + " r0 r1"}, 0, 0)
			n.Family = fmt.Sprintf("chain%d-%s", k, op)
			ms = append(ms, n)
		}
	}
	// the same for the dynamically created two-phase arithmetic families (what neuralbond-generated
	// machines execute on every processor)
	for k := 2; k <= 3; k++ {
		for _, op := range []string{"addfps16f8", "multfps16f8", "divfps16f8", "addfxps16f8", "multfxps16f8", "divfxps16f8", "addlqs16t1", "multlqs16t1", "divlqs16t1"} {
			n := gen.Chain(k, 16, []string{"rset r1 3", op + " r0 r1", op + " r0 r1"}, 0, 0)
			n.Family = fmt.Sprintf("chain%d-%s", k, op)
			ms = append(ms, n)
		}
	}
	// machines simulated with a per-opcode delay map (one-point distributions: the trace stays a
	// function of the machine; the map is shared by all processors of the VM)
	for k := 2; k <= 6; k++ {
		n := gen.Chain(k, 8, []string{"inc r0", "cpy r1 r0"}, 1, 1)
		n.Family = fmt.Sprintf("chain%d-delays", k)
		ms = append(ms, n)
	}
	for k := 2; k <= 3; k++ {
		n := gen.FanOut(k, 16, 1, []int{1, 0, 2}, false)
		n.Family = fmt.Sprintf("fanout%d-delays", k)
		ms = append(ms, n)
	}
	// several processors that are instances of ONE domain (one *procbuilder.Machine shared by their
	// VMs), with and without ROM data read through ro2rri: whatever the simulator keeps on the
	// machine object is then shared by the workers of one tick
	for k := 2; k <= 4; k++ {
		for v := 0; v < 3; v++ {
			body := []string{"inc r0", "cpy r1 r0"}
			var rom []uint64
			if v > 0 {
				body = []string{"rset r1 @rom0", "ro2rri r2 r1", "add r0 r2", "rset r1 @rom2", "ro2rri r2 r1", "add r0 r2"}
				rom = []uint64{3, 200, 5, 77}
			}
			n := gen.Chain(k, []uint8{8, 16, 32}[k%3], body, 0, 0)
			for i := range n.Procs {
				n.Procs[i].Rom = rom
			}
			n.SharedDomain = v < 2
			n.Family = fmt.Sprintf("chain%d-%s", k, []string{"one-domain", "one-domain-rom", "rom"}[v])
			ms = append(ms, n)
		}
	}
	rng := hx.RNG(seed, "c09machines")
	for i := 0; i < nRandom; i++ {
		pool := []string{"add", "mult", "inc", "dec", "cpy"}
		if i%3 == 0 {
			pool = append(pool, "addp", "multp")
		}
		ms = append(ms, gen.RandomNet(rng, 6, pool))
	}
	return ms
}

func workload(run *evid.Run, tier string, race bool) {
	nRandom, nSched, ticks := 25, 10, 300
	if tier == "thorough" {
		nRandom, nSched, ticks = 280, 40, 1000
	}
	if race {
		nRandom, nSched, ticks = nRandom/3+1, nSched/3+1, ticks/2
	}
	bondmachine.SetVerifYield(countCB) // counts only (the deadlock monitor needs the events), never yields
	nets := machines(run.Seed, nRandom)
	type built struct {
		c   caseT
		bm  *bondmachine.Bondmachine
		ref trace
	}
	var cases []built
	rng := hx.RNG(run.Seed, "c09env")
	for _, n := range nets {
		n := n
		bm, err := n.Build()
		if err != nil {
			run.Inconclusive("machine-not-buildable")
			continue
		}
		c := caseT{Net: n, Env: randEnv(rng, n, 12), Ticks: ticks}
		if strings.HasSuffix(n.Family, "-delays") {
			c.Env.Delays = map[string]int{"inc": 2, "cpy": 1, "i2rw": 1, "r2owa": 3}
			c.Env.DelayWeight = []float32{1, 3, 0.5}[len(cases)%3]
		}
		cases = append(cases, built{c: c, bm: bm})
	}
	orders := map[string]struct{}{}
	procs := []int{1, 2, 3, 8, 16}
	defGMP := runtime.GOMAXPROCS(0)
	// ---------- phase 1: solo reference, repeated once (plain determinism) ----------
	for i := range cases {
		b := &cases[i]
		b.ref = runCase(b.bm, b.c)
		run.Eval(1)
		again := runCase(b.bm, b.c)
		if t, d := firstDiff(b.ref, again); d {
			run.Violation("digest-differs:solo-repeat:"+suspectOps(b.c.Net), map[string]any{"case": b.c, "text": b.c.Net.String(), "first_differing_tick": t})
		}
		produced := 0
		for _, o := range b.ref.Out {
			produced += len(o)
		}
		if produced == 0 {
			run.Inconclusive("reference-run-produced-no-output")
		}
	}
	// ---------- phase 2: perturbed schedules, varied GOMAXPROCS ----------
	bondmachine.SetVerifYield(yieldCB)
	for i := range cases {
		b := &cases[i]
		for s := 0; s < nSched; s++ {
			yieldSeed.Store(uint64(run.Seed)*1000003 + uint64(i)*977 + uint64(s))
			yieldCount.Store(0)
			runtime.GOMAXPROCS(procs[(i+s)%len(procs)])
			orderMu.Lock()
			orderLog = orderLog[:0]
			orderMu.Unlock()
			orderOn.Store(true)
			got := runCase(b.bm, b.c)
			orderOn.Store(false)
			run.Eval(1)
			// which worker orders were taken
			orderMu.Lock()
			np := len(b.c.Net.Procs)
			reordered := false
			for k := 0; k+np <= len(orderLog); k += np {
				key := fmt.Sprint(orderLog[k : k+np])
				orders[strconv.Itoa(np)+":"+key] = struct{}{}
				for x := 1; x < np; x++ {
					if orderLog[k+x] < orderLog[k+x-1] {
						reordered = true
					}
				}
			}
			orderMu.Unlock()
			if reordered || np == 1 {
				run.Nontrivial(fmt.Sprintf("m%d|s%d", i, s))
			}
			if t, d := firstDiff(b.ref, got); d {
				run.Violation("digest-differs:perturbed:"+suspectOps(b.c.Net), map[string]any{"case": b.c, "text": b.c.Net.String(), "first_differing_tick": t,
					"yield_seed": yieldSeed.Load(), "gomaxprocs": procs[(i+s)%len(procs)]})
			}
		}
	}
	runtime.GOMAXPROCS(defGMP)
	run.Set("distinct_worker_orders_observed", len(orders))
	// ---------- phase 3: concurrent simulations ----------
	orderOn.Store(false)
	rounds := 6
	if tier == "thorough" {
		rounds = 40
	}
	if race {
		rounds = rounds/2 + 1
	}
	prng := hx.RNG(run.Seed, "c09conc")
	for r := 0; r < rounds; r++ {
		m := []int{2, 4, 16}[r%3]
		picks := make([]int, m)
		for k := range picks {
			if k%2 == 1 {
				picks[k] = picks[k-1] // the same machine object twice
			} else {
				picks[k] = prng.IntN(len(cases))
			}
		}
		yieldSeed.Store(uint64(run.Seed)*7919 + uint64(r))
		got := make([]trace, m)
		var wg sync.WaitGroup
		for k := 0; k < m; k++ {
			wg.Add(1)
			go func(k int) {
				defer wg.Done()
				got[k] = runCase(cases[picks[k]].bm, cases[picks[k]].c)
			}(k)
		}
		wg.Wait()
		for k := 0; k < m; k++ {
			run.Eval(1)
			b := &cases[picks[k]]
			run.Nontrivial(fmt.Sprintf("conc|r%d|k%d", r, k))
			if t, d := firstDiff(b.ref, got[k]); d {
				with := []string{}
				for _, p := range picks {
					with = append(with, cases[p].c.Net.Family)
				}
				run.Violation("digest-differs:concurrent:"+suspectOps(b.c.Net), map[string]any{"case": b.c, "text": b.c.Net.String(), "first_differing_tick": t, "running_with": with})
			}
		}
	}
	// ---------- phase 3b: cold machines ----------
	// A freshly built machine simulated for the first time by several simulations at once (and by
	// the several workers of each): whatever the simulator derives from the machine on first use
	// is derived here under contention, not by the solo reference run as in the phases above.
	bondmachine.SetVerifYield(yieldCB)
	coldReps := 3
	if tier == "thorough" {
		coldReps = 12
	}
	for i := range cases {
		b := &cases[i]
		if !b.c.Net.SharedDomain && len(b.c.Net.Procs[0].Rom) == 0 && i%4 != 0 {
			continue
		}
		for rep := 0; rep < coldReps; rep++ {
			n := b.c.Net
			fresh, err := n.Build()
			if err != nil {
				continue
			}
			yieldSeed.Store(uint64(run.Seed)*104729 + uint64(i)*31 + uint64(rep))
			m := 2 + rep%3
			got := make([]trace, m)
			var wg sync.WaitGroup
			for k := 0; k < m; k++ {
				wg.Add(1)
				go func(k int) {
					defer wg.Done()
					got[k] = runCase(fresh, b.c)
				}(k)
			}
			wg.Wait()
			for k := 0; k < m; k++ {
				run.Eval(1)
				run.Nontrivial(fmt.Sprintf("cold|m%d|r%d|k%d", i, rep, k))
				if t, d := firstDiff(b.ref, got[k]); d {
					run.Violation("digest-differs:cold-concurrent:"+suspectOps(b.c.Net), map[string]any{"case": b.c, "text": b.c.Net.String(), "first_differing_tick": t,
						"simulations_at_once": m, "yield_seed": yieldSeed.Load()})
				}
			}
		}
	}
	// ---------- phase 4: SinglePipelineSimulate from concurrent callers ----------
	bondmachine.SetVerifYield(yieldCB)
	for di, dtBase := range []string{"unsigned", "fps8f"} {
		for k := 1; k <= 4; k++ {
			dt := dtBase
			if di == 1 {
				// a fixed-point type nobody created yet in this process: the concurrent callers below are
				// the first to need it, as the workers of cmd/simfinetune are
				f := k
				if race {
					f = k + 3
				}
				if tier == "thorough" {
					f = 7 - f%7
				}
				dt = dtBase + strconv.Itoa(f%8)
			}
			// the data type only applies to the outputs before the last one: use a fan-out machine
			n := gen.FanOut(1+k%3, 8, 0, []int{0, 0, 0}, false)
			if di == 0 {
				n = gen.Chain(k, 8, []string{"inc r0"}, 0, 0)
			}
			bm, err := n.Build()
			if err != nil {
				continue
			}
			callers := 8
			// the same call alone, counted in hook calls (the reference for the step budget)
			budgetCalls.Store(0)
			budgetMax.Store(20_000_000)
			budgetFire = func(calls int64) {
				run.Inconclusive("sps-reference-exceeded-the-step-bound")
				fmt.Fprintf(os.Stderr, "C09: SinglePipelineSimulate(%s) alone on %s did not end within %d hook calls\n", dt, n.String(), calls)
				os.Exit(run.Finish() | 2)
			}
			budgetOn.Store(true)
			_, _ = bm.SinglePipelineSimulate(dt, []string{"7"}, nil)
			budgetOn.Store(false)
			refCalls := budgetCalls.Load()
			budgetCalls.Store(0)
			budgetMax.Store(int64(callers)*refCalls*100 + 100_000)
			budgetFire = func(calls int64) {
				run.Violation("sps-concurrent-does-not-end:"+dtBase, map[string]any{"machine": n.String(), "data_type": dt, "concurrent_callers": callers,
					"hook_calls_of_the_call_alone": refCalls, "hook_calls_when_stopped": calls,
					"what": "concurrent SinglePipelineSimulate calls on one machine used more than 100 times the simulation steps the same call needs alone and had not returned: a call left the trace of the solo run"})
				os.Exit(run.Finish())
			}
			budgetOn.Store(true)
			spsID := enter("SinglePipelineSimulate x" + strconv.Itoa(callers) + " " + dt + " on " + n.String())
			res := make([][]string, callers)
			errs := make([]error, callers)
			var wg sync.WaitGroup
			for c := 0; c < callers; c++ {
				wg.Add(1)
				go func(c int) {
					defer wg.Done()
					defer func() {
						if r := recover(); r != nil {
							errs[c] = fmt.Errorf("panic: %v", r)
						}
					}()
					res[c], errs[c] = bm.SinglePipelineSimulate(dt, []string{"7"}, nil)
				}(c)
			}
			wg.Wait()
			leave(spsID)
			budgetOn.Store(false)
			want, err := bm.SinglePipelineSimulate(dt, []string{"7"}, nil)
			if err != nil {
				run.Inconclusive("sps-reference-failed:" + err.Error())
				continue
			}
			for c := 0; c < callers; c++ {
				run.Eval(1)
				run.Nontrivial(fmt.Sprintf("sps|%s|k%d|c%d", dt, k, c))
				if errs[c] != nil || fmt.Sprint(res[c]) != fmt.Sprint(want) {
					run.Violation("sps-concurrent-differs:"+dtBase, map[string]any{"chain": k, "datatype": dt, "alone": want, "concurrent": res[c], "err": fmt.Sprint(errs[c])})
				}
			}
		}
	}
	bondmachine.SetVerifYield(nil)
	run.Set("yield_actions_none_gosched_gosched4_sleep", []uint64{yieldActions[0].Load(), yieldActions[1].Load(), yieldActions[2].Load(), yieldActions[3].Load()})
	if len(cases) > 0 {
		run.Sample(map[string]any{"machine": cases[len(cases)-1].c.Net.String(), "env": cases[len(cases)-1].c.Env, "ticks": ticks})
		run.Sample(map[string]any{"machine": cases[7].c.Net.String(), "ticks": ticks, "schedules": nSched})
	}
}

// ---- race log parsing -----------------------------------------------------------

var frameRe = regexp.MustCompile(`(?m)^  (\S+)\(`)

func parseRaceLogs(dir string) (blocks int, dedup map[string]string) {
	dedup = map[string]string{}
	files, _ := filepath.Glob(filepath.Join(dir, "race.*"))
	for _, f := range files {
		b, err := os.ReadFile(f)
		if err != nil {
			continue
		}
		for _, blk := range strings.Split(string(b), "==================") {
			if !strings.Contains(blk, "WARNING: DATA RACE") {
				continue
			}
			blocks++
			// key: the first frame of each of the two accesses
			parts := regexp.MustCompile(`(?m)^(Previous )?(Read|Write|read|write) at|^(Previous )?(atomic )?(read|write) at`).Split(blk, -1)
			var tops []string
			for _, p := range parts[1:] {
				if m := frameRe.FindStringSubmatch(p); m != nil {
					tops = append(tops, m[1])
				}
				if len(tops) == 2 {
					break
				}
			}
			sort.Strings(tops)
			key := strings.Join(tops, " <-> ")
			if _, ok := dedup[key]; !ok {
				if len(blk) > 3000 {
					blk = blk[:3000]
				}
				dedup[key] = blk
			}
		}
	}
	return
}

func main() {
	tier, replay := hx.Args()
	child := len(os.Args) > 1 && os.Args[1] == "race-child"
	if child && len(os.Args) > 2 {
		tier = os.Args[2]
	}
	run := evid.New("C09", tier, "exploration")
	run.Rule = "a case = (machine, environment, schedule); machines: chains, fan-outs, chains whose stages all execute addp/multp/divp, random dataflow DAGs; schedule = seed of the yield callback at the 4 hook sites × GOMAXPROCS ∈ {1,2,3,8,16}, or a set of 2/4/16 concurrent simulations; non-trivial = a perturbed run in which the workers were observed in a non-ascending order at least once (or any concurrent run); distinct by (machine, schedule seed)"
	run.Assume = []string{"determinism is claimed for SimDelayMap == nil (delays draw from the global random source by design)",
		"digest = SHA-256 over every exported field of bondmachine.VM and procbuilder.VM (registers, memory, IO, valid/recv, pc, delay counter, deferred-instruction names, Extra_states); opcode objects' private state is visible only through its effect on these"}
	run.Floor = 20
	scratch, clean := hx.Scratch("c09")
	defer clean()
	go deadlockMonitor(run)
	// the linear quantizer opcodes need a registered data range (index 1)
	if err := gen.EnableLinearQuantizer(scratch); err != nil {
		fmt.Fprintln(os.Stderr, "lq ranges:", err)
	}
	if child {
		// evidence of the race build goes to the scratch dir given by the parent
		evid.EvidenceDir = os.Getenv("VERIF_CHILD_EVIDENCE")
		hx.SilenceStdout(filepath.Join(scratch, "lib.log"))
		workload(run, tier, true)
		os.Exit(run.Finish())
	}
	hx.SilenceStdout(filepath.Join(scratch, "lib.log"))
	if replay != "" {
		w, err := evid.ReadWitness(replay)
		if err != nil {
			fmt.Fprintln(os.Stderr, err)
			os.Exit(2)
		}
		run.Floor = 0
		var c caseT
		b, _ := json.Marshal(w["case"])
		json.Unmarshal(b, &c)
		bm, err := c.Net.Build()
		if err != nil {
			fmt.Fprintln(os.Stderr, err)
			os.Exit(2)
		}
		ref := runCase(bm, c)
		bondmachine.SetVerifYield(yieldCB)
		for s := 0; s < 50; s++ {
			yieldSeed.Store(uint64(s))
			runtime.GOMAXPROCS([]int{1, 2, 3, 8, 16}[s%5])
			run.Eval(1)
			if t, d := firstDiff(ref, runCase(bm, c)); d {
				run.Violation("digest-differs:perturbed:"+suspectOps(c.Net), map[string]any{"case": c, "first_differing_tick": t})
			}
		}
		os.Exit(run.Finish())
	}

	workload(run, tier, false)

	// ---------- the same workload under the race detector ----------
	bin := filepath.Join(evid.Root, ".work", "bin", fmt.Sprintf("c09race.%d", os.Getpid()))
	args := []string{"build", "-race", "-tags", "verif"}
	if mf := os.Getenv("VERIF_MODFLAG"); mf != "" {
		args = append(args, mf)
	}
	args = append(args, "-o", bin, "./cmd/c09")
	cmd := exec.Command("go", args...)
	cmd.Dir = evid.Root
	var berr bytes.Buffer
	cmd.Stderr = &berr
	cmd.Stdout = &berr
	if err := cmd.Run(); err != nil {
		fmt.Fprintln(os.Stderr, "race build failed:", err, berr.String())
		run.Inconclusive("race-build-failed")
		os.Exit(run.Finish() | 2)
	}
	defer os.Remove(bin)
	ch := exec.Command(bin, "race-child", tier)
	ch.Dir = evid.Root
	ch.Env = append(os.Environ(), "GORACE=halt_on_error=0 log_path="+filepath.Join(scratch, "race"), "VERIF_CHILD_EVIDENCE="+scratch)
	ch.Stdout = evid.Out
	ch.Stderr = os.Stderr
	cerr := ch.Run()
	childCode := 0
	if cerr != nil {
		if ee, ok := cerr.(*exec.ExitError); ok {
			childCode = ee.ExitCode()
		} else {
			childCode = 2
		}
	}
	blocks, dedup := parseRaceLogs(scratch)
	run.Set("race_report_blocks", blocks)
	run.Set("race_reports_distinct", len(dedup))
	if b, err := os.ReadFile(filepath.Join(scratch, "C09.json")); err == nil {
		var ev map[string]any
		if json.Unmarshal(b, &ev) == nil {
			cov, _ := ev["coverage"].(map[string]any)
			run.Set("race_build_run", map[string]any{"evaluations": cov["evaluations"], "distinct_nontrivial": cov["distinct_nontrivial"], "violations": ev["violations"], "wall_s": ev["wall_s"], "exit": childCode})
		}
	} else {
		run.Inconclusive("race-child-left-no-evidence")
	}
	keys := make([]string, 0, len(dedup))
	for k := range dedup {
		keys = append(keys, k)
	}
	sort.Strings(keys)
	for _, k := range keys {
		run.Violation("race:"+k, map[string]any{"report": dedup[k]})
	}
	code := run.Finish()
	if childCode == 1 && code == 0 {
		code = 1 // the child already printed its VIOLATION lines
	}
	if childCode > 1 && code == 0 {
		code = 2
	}
	os.Exit(code)
}
