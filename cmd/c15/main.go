// c15: simulation rules are applied exactly as written.
//
//	A  (pkg/simbox, in process and through cmd/simbox): every rule text of the
//	   documented grammar is parsed by Add into the rule an independent parser
//	   predicts; String() of that rule parses back to it; add/delete/suspend/
//	   reactivate histories are followed against a list model, with Print() and the
//	   JSON file form read back after every step.
//	B1 (compile step): SimConfig/SimDrive/SimReport.Init on a VM are compared with the
//	   tables predicted from the active rules (right element pointer, tick, value,
//	   valid-flag side effect; nothing from suspended rules).
//	B2 (end to end): cmd/bondmachine -sim is run as a child process on generated
//	   machines and rule lists; its show lines and CSV report are compared with the
//	   prediction of a small rule interpreter that steps the same VM directly; the
//	   same list with its suspended rules deleted must give byte-identical output.
//	B3 SinglePipelineSimulate (second copy of the rule loop) against the same interpreter.
package main

import (
	"bytes"
	"context"
	"encoding/csv"
	"encoding/json"
	"fmt"
	"math"
	"math/rand/v2"
	"os"
	"os/exec"
	"path/filepath"
	"reflect"
	"regexp"
	"sort"
	"strconv"
	"strings"
	"time"

	"github.com/BondMachineHQ/BondMachine/pkg/bondmachine"
	"github.com/BondMachineHQ/BondMachine/pkg/simbox"
	"verif/internal/evid"
	"verif/internal/gen"
	"verif/internal/hx"
)

// ---------------------------------------------------------------- rule grammar (spec side)

// spec is a rule as the documentation describes it.
type spec struct {
	Kind  string // absolute relative onvalid onrecv onexit config
	Tick  int64
	Act   string // set get show config
	Obj   string
	Extra string
}

var plainConfig = []string{"show_pc", "show_instruction", "show_disasm", "show_ticks", "get_ticks",
	"show_proc_regs_pre", "show_proc_regs_post", "show_proc_io_pre", "show_proc_io_post", "show_io_pre", "show_io_post"}
var bulkConfig = []string{"get_all", "get_all_internal", "show_all", "show_all_internal"}

func in(l []string, s string) bool {
	for _, x := range l {
		if x == s {
			return true
		}
	}
	return false
}

// specParse is the independent reading of docs/simbox-rules.md.
func specParse(text string) (spec, bool) {
	w := strings.Split(text, ":")
	switch w[0] {
	case "absolute", "relative":
		if len(w) != 4 && len(w) != 5 {
			return spec{}, false
		}
		t, err := strconv.Atoi(w[1])
		if err != nil {
			return spec{}, false
		}
		s := spec{Kind: w[0], Tick: int64(t), Act: w[2], Obj: w[3]}
		switch w[2] {
		case "set":
			if len(w) != 5 {
				return spec{}, false
			}
			s.Extra = w[4]
		case "get", "show":
			s.Extra = "unsigned"
			if len(w) == 5 {
				s.Extra = w[4]
			}
		default:
			return spec{}, false
		}
		return s, true
	case "onvalid", "onrecv", "onexit":
		if len(w) != 3 && len(w) != 4 {
			return spec{}, false
		}
		if w[1] != "get" && w[1] != "show" {
			return spec{}, false
		}
		s := spec{Kind: w[0], Act: w[1], Obj: w[2], Extra: "unsigned"}
		if len(w) == 4 {
			s.Extra = w[3]
		}
		return s, true
	case "config":
		if len(w) == 2 && in(plainConfig, w[1]) {
			return spec{Kind: "config", Act: "config", Obj: w[1]}, true
		}
		if len(w) == 3 && in(bulkConfig, w[1]) {
			return spec{Kind: "config", Act: "config", Obj: w[1], Extra: w[2]}, true
		}
	}
	return spec{}, false
}

func (s spec) rule() simbox.Rule {
	r := simbox.Rule{Tick: uint64(s.Tick), Object: s.Obj, Extra: s.Extra}
	switch s.Kind {
	case "absolute":
		r.Timec = simbox.TIMEC_ABS
	case "relative":
		r.Timec = simbox.TIMEC_REL
	case "onvalid":
		r.Timec = simbox.TIMEC_ON_VALID
	case "onrecv":
		r.Timec = simbox.TIMEC_ON_RECV
	case "onexit":
		r.Timec = simbox.TIMEC_ON_EXIT
	case "config":
		r.Timec = simbox.TIMEC_NONE
	}
	switch s.Act {
	case "set":
		r.Action = simbox.ACTION_SET
	case "get":
		r.Action = simbox.ACTION_GET
	case "show":
		r.Action = simbox.ACTION_SHOW
	case "config":
		r.Action = simbox.ACTION_CONFIG
	}
	return r
}

func pick(rng *rand.Rand, l []string) string { return l[rng.IntN(len(l))] }

// hostile pools for part A (no ':' inside a field: the separator cannot be escaped)
var objPool = []string{"i0", "o1", "p0r3", "p12o3", "p3i1", "r0", "memory_0", "io_input", "io_output", "i00", "", "x y", "ò", "get", "set", "unsigned", "config"}
var extraPool = []string{"unsigned", "signed", "hex", "bin", "float32", "0x1f", "0b101", "0d12", "0f1.5", "42", "-3", "", " ", "flpe4f6", "a,b", "SUSPENDED"}
var tickPool = []string{"0", "1", "7", "10", "100", "65535", "4294967296", "007", "+5", "-1", "9223372036854775807"}

// genText draws one well-formed rule text over the given pools.
func genText(rng *rand.Rand, objs, extras, ticks []string) string {
	switch rng.IntN(10) {
	case 0, 1:
		return fmt.Sprintf("%s:%s:set:%s:%s", pick(rng, []string{"absolute", "relative"}), pick(rng, ticks), pick(rng, objs), pick(rng, extras))
	case 2, 3, 4:
		s := fmt.Sprintf("%s:%s:%s:%s", pick(rng, []string{"absolute", "relative"}), pick(rng, ticks), pick(rng, []string{"get", "show"}), pick(rng, objs))
		if rng.IntN(3) > 0 {
			s += ":" + pick(rng, extras)
		}
		return s
	case 5, 6, 7:
		s := fmt.Sprintf("%s:%s:%s", pick(rng, []string{"onvalid", "onrecv", "onexit"}), pick(rng, []string{"get", "show"}), pick(rng, objs))
		if rng.IntN(3) > 0 {
			s += ":" + pick(rng, extras)
		}
		return s
	case 8:
		return "config:" + pick(rng, plainConfig)
	default:
		return "config:" + pick(rng, bulkConfig) + ":" + pick(rng, extras)
	}
}

var badTexts = []string{"", "foo", "absolute", "absolute:x:set:i0:1", "absolute:5:set:i0", "absolute:5:put:i0:1", "relative::get:o0", "onvalid:set:i0:1",
	"onvalid:get", "config", "config:bogus", "config:show_pc:hex", "absolute:5:get:o0:hex:extra", "onexit:show:o0:hex:x", "config:get_all:hex:x", "Absolute:5:get:o0"}

// ---------------------------------------------------------------- part A

type listModel struct {
	specs []spec
	susp  []bool
}

func (m *listModel) rules() []simbox.Rule {
	out := []simbox.Rule{}
	for i, s := range m.specs {
		r := s.rule()
		r.Suspended = m.susp[i]
		out = append(out, r)
	}
	return out
}

var printLine = regexp.MustCompile(`^(\d+) - (.*?)( \[SUSPENDED\])?$`)

// checkBox compares a Simbox with the model through Rules, Print() and the JSON form.
func checkBox(sb *simbox.Simbox, m *listModel) string {
	want := m.rules()
	got := sb.Rules
	if got == nil {
		got = []simbox.Rule{}
	}
	if !reflect.DeepEqual(got, want) {
		return fmt.Sprintf("rule list differs from the model: got %+v want %+v", got, want)
	}
	lines := strings.Split(strings.TrimSuffix(sb.Print(), "\n"), "\n")
	if len(want) == 0 {
		lines = nil
	}
	if len(lines) != len(want) {
		return fmt.Sprintf("Print() has %d lines for %d rules", len(lines), len(want))
	}
	for i, l := range lines {
		mm := printLine.FindStringSubmatch(l)
		if mm == nil {
			return fmt.Sprintf("Print() line %d unreadable: %q", i, l)
		}
		if n, _ := strconv.Atoi(mm[1]); n != i {
			return fmt.Sprintf("Print() line %d carries index %s", i, mm[1])
		}
		if (mm[3] != "") != want[i].Suspended {
			return fmt.Sprintf("Print() line %d suspension marker %q, rule suspended=%v", i, mm[3], want[i].Suspended)
		}
		re := new(simbox.Simbox)
		if err := re.Add(mm[2]); err != nil || len(re.Rules) != 1 {
			return fmt.Sprintf("Print() line %d text %q does not parse back: %v", i, mm[2], err)
		}
		w := want[i]
		w.Suspended = false
		if re.Rules[0] != w {
			return fmt.Sprintf("Print() line %d text %q parses back to %+v, rule is %+v", i, mm[2], re.Rules[0], w)
		}
	}
	b, err := json.Marshal(sb)
	if err != nil {
		return "json.Marshal: " + err.Error()
	}
	back := new(simbox.Simbox)
	if err := json.Unmarshal(b, back); err != nil {
		return "json.Unmarshal: " + err.Error()
	}
	bg := back.Rules
	if bg == nil {
		bg = []simbox.Rule{}
	}
	if !reflect.DeepEqual(bg, want) {
		return fmt.Sprintf("rule list differs after save/load: got %+v want %+v", bg, want)
	}
	return ""
}

func partARoundTrip(run *evid.Run, rng *rand.Rand, n int) {
	forms := map[string]int{}
	for c := 0; c < n; c++ {
		text := genText(rng, objPool, extraPool, tickPool)
		run.Eval(1)
		sp, ok := specParse(text)
		if !ok {
			run.Inconclusive("generator-produced-text-outside-the-grammar")
			continue
		}
		form := fmt.Sprintf("%s:%s:%dw", sp.Kind, sp.Act, len(strings.Split(text, ":")))
		sb := new(simbox.Simbox)
		err := sb.Add(text)
		w := map[string]any{"kind": "text", "text": text}
		if err != nil {
			run.Violation("add-rejects-documented-form:"+form, w)
			continue
		}
		if len(sb.Rules) != 1 {
			run.Violation("add-appends-not-exactly-one-rule:"+form, w)
			continue
		}
		r := sb.Rules[0]
		if r != sp.rule() {
			w["got"], w["want"] = fmt.Sprintf("%+v", r), fmt.Sprintf("%+v", sp.rule())
			run.Violation("add-misreads:"+form, w)
			continue
		}
		printed := r.String()
		sb2 := new(simbox.Simbox)
		if err := sb2.Add(printed); err != nil || len(sb2.Rules) != 1 {
			w["printed"] = printed
			run.Violation("print-does-not-parse-back:"+form, w)
			continue
		}
		if sb2.Rules[0] != r {
			w["printed"], w["got"], w["want"] = printed, fmt.Sprintf("%+v", sb2.Rules[0]), fmt.Sprintf("%+v", r)
			run.Violation("print-parse-differs:"+form, w)
			continue
		}
		if p2 := sb2.Rules[0].String(); p2 != printed {
			w["printed"], w["printed_again"] = printed, p2
			run.Violation("print-not-stable:"+form, w)
			continue
		}
		// a suspended rule prints and parses like the active one (the flag lives in the list)
		r.Suspended = true
		if r.String() != printed {
			run.Violation("suspended-rule-prints-differently:"+form, w)
			continue
		}
		forms[form]++
		run.Nontrivial("roundtrip|" + form + "|" + sp.Obj + "|" + sp.Extra)
	}
	for _, t := range badTexts {
		sb := new(simbox.Simbox)
		sb.Add("config:show_pc")
		err := sb.Add(t)
		run.Eval(1)
		if err != nil {
			if len(sb.Rules) != 1 {
				run.Violation("rejected-text-changes-the-list", map[string]any{"kind": "text", "text": t})
			}
			run.Tally("malformed_text", "rejected")
		} else {
			run.Tally("malformed_text", "accepted:"+t)
		}
	}
	run.Set("roundtrip_forms_seen", forms)
}

type histOp struct {
	Op   string `json:"op"`
	Text string `json:"text,omitempty"`
	Idx  int    `json:"idx,omitempty"`
}

func genHistory(rng *rand.Rand, n int) []histOp {
	var ops []histOp
	l := 0
	for i := 0; i < n; i++ {
		k := rng.IntN(10)
		switch {
		case k < 4 || l == 0:
			if rng.IntN(8) == 0 {
				ops = append(ops, histOp{Op: "add", Text: pick(rng, badTexts[1:])})
			} else {
				ops = append(ops, histOp{Op: "add", Text: genText(rng, objPool, extraPool, tickPool)})
				l++
			}
		case k < 6:
			idx := rng.IntN(l + 2)
			ops = append(ops, histOp{Op: "del", Idx: idx})
			if idx < l {
				l--
			}
		case k < 8:
			ops = append(ops, histOp{Op: "suspend", Idx: rng.IntN(l + 2)})
		default:
			ops = append(ops, histOp{Op: "reactivate", Idx: rng.IntN(l + 2)})
		}
	}
	return ops
}

// apply one op to the model; returns whether the op must succeed.
func (m *listModel) apply(op histOp) bool {
	switch op.Op {
	case "add":
		sp, ok := specParse(op.Text)
		if !ok {
			return false
		}
		m.specs = append(m.specs, sp)
		m.susp = append(m.susp, false)
		return true
	case "del":
		if op.Idx >= len(m.specs) {
			return false
		}
		m.specs = append(append([]spec{}, m.specs[:op.Idx]...), m.specs[op.Idx+1:]...)
		m.susp = append(append([]bool{}, m.susp[:op.Idx]...), m.susp[op.Idx+1:]...)
		return true
	case "suspend", "reactivate":
		if op.Idx >= len(m.specs) {
			return false
		}
		m.susp[op.Idx] = op.Op == "suspend"
		return true
	}
	return false
}

func runHistoryLib(ops []histOp) (string, int) {
	sb := new(simbox.Simbox)
	m := new(listModel)
	for i, op := range ops {
		must := m.apply(op)
		var err error
		switch op.Op {
		case "add":
			err = sb.Add(op.Text)
		case "del":
			err = sb.Del(op.Idx)
		case "suspend":
			err = sb.Suspend(op.Idx)
		case "reactivate":
			err = sb.Reactivate(op.Idx)
		}
		if must && err != nil {
			return fmt.Sprintf("step %d %+v: error %v on an operation that must succeed", i, op, err), i
		}
		if !must && err == nil && op.Op != "add" {
			return fmt.Sprintf("step %d %+v: out-of-range operation reported success", i, op), i
		}
		if !must && err == nil && op.Op == "add" {
			// a text outside the documented grammar was accepted: not judged, resynchronise the model
			return "", -2
		}
		if d := checkBox(sb, m); d != "" {
			return fmt.Sprintf("step %d %+v: %s", i, op, d), i
		}
	}
	return "", -1
}

func runHistoryCLI(bin, dir string, ops []histOp) (string, int) {
	os.MkdirAll(dir, 0o755)
	file := filepath.Join(dir, "sb.json")
	os.Remove(file)
	m := new(listModel)
	for i, op := range ops {
		must := m.apply(op)
		var args []string
		switch op.Op {
		case "add":
			args = []string{"-add", op.Text}
			if op.Text == "" {
				continue
			}
		case "del":
			args = []string{"-del", strconv.Itoa(op.Idx)}
		case "suspend":
			args = []string{"-suspend", strconv.Itoa(op.Idx)}
		case "reactivate":
			args = []string{"-unsuspend", strconv.Itoa(op.Idx)}
		}
		args = append([]string{"-simbox-file", file}, args...)
		out, err := exec.Command(filepath.Join(bin, "simbox"), args...).CombinedOutput()
		if must && err != nil {
			return fmt.Sprintf("step %d %+v: simbox exits with %v: %.300s", i, op, err, out), i
		}
		if !must && err == nil {
			if op.Op == "add" {
				return "", -2
			}
			return fmt.Sprintf("step %d %+v: out-of-range operation exits 0", i, op), i
		}
		if !must {
			// the tool panics before rewriting the file: the file must be unchanged
		}
		b, rerr := os.ReadFile(file)
		sb := new(simbox.Simbox)
		if rerr == nil {
			if err := json.Unmarshal(b, sb); err != nil {
				return fmt.Sprintf("step %d %+v: file unreadable: %v", i, op, err), i
			}
		} else if len(m.specs) > 0 {
			return fmt.Sprintf("step %d %+v: no file", i, op), i
		}
		if d := checkBox(sb, m); d != "" {
			return fmt.Sprintf("step %d %+v (file): %s", i, op, d), i
		}
		lst, err := exec.Command(filepath.Join(bin, "simbox"), "-simbox-file", file, "-list").Output()
		if err != nil {
			return fmt.Sprintf("step %d: -list fails: %v", i, err), i
		}
		if string(lst) != sb.Print() {
			return fmt.Sprintf("step %d: -list prints %q, library prints %q", i, lst, sb.Print()), i
		}
	}
	return "", -1
}

// ---------------------------------------------------------------- reference rule interpreter

type altFlags struct{ NoPerSet, NoEventGet, NoExitAtLimit bool }

var reObj = regexp.MustCompile(`^(?:(i|o)(\d+)|p(\d+)(i|o|r)(\d+))$`)

// elem resolves an object name by direct field access (not through GetElementLocation).
func elem(vm *bondmachine.VM, obj string) *interface{} {
	m := reObj.FindStringSubmatch(obj)
	if m == nil {
		return nil
	}
	if m[1] != "" {
		k, _ := strconv.Atoi(m[2])
		if m[1] == "i" {
			if k < len(vm.Inputs_regs) {
				return &vm.Inputs_regs[k]
			}
			return nil
		}
		if k < len(vm.Outputs_regs) {
			return &vm.Outputs_regs[k]
		}
		return nil
	}
	p, _ := strconv.Atoi(m[3])
	k, _ := strconv.Atoi(m[5])
	if p >= len(vm.Processors) {
		return nil
	}
	var l []interface{}
	switch m[4] {
	case "i":
		l = vm.Processors[p].Inputs
	case "o":
		l = vm.Processors[p].Outputs
	default:
		l = vm.Processors[p].Registers
	}
	if k < len(l) {
		return &l[k]
	}
	return nil
}

func validOf(vm *bondmachine.VM, obj string) (bool, bool) {
	m := reObj.FindStringSubmatch(obj)
	if m == nil || m[1] == "" {
		return false, false
	}
	k, _ := strconv.Atoi(m[2])
	if m[1] == "i" {
		if k < len(vm.InputsValid) {
			return vm.InputsValid[k], true
		}
		return false, false
	}
	if k < len(vm.OutputsValid) {
		return vm.OutputsValid[k], true
	}
	return false, false
}

func toU64(v interface{}) uint64 {
	switch x := v.(type) {
	case uint8:
		return uint64(x)
	case uint16:
		return uint64(x)
	case uint32:
		return uint64(x)
	case uint64:
		return x
	}
	return 0
}

func fromU64(rsize uint8, v uint64) interface{} {
	switch {
	case rsize <= 8:
		return uint8(v)
	case rsize <= 16:
		return uint16(v)
	case rsize <= 32:
		return uint32(v)
	}
	return v
}

// litValue reads the literal notations the generator uses.
func litValue(s string) (uint64, bool) {
	switch {
	case strings.HasPrefix(s, "0x"):
		v, err := strconv.ParseUint(s[2:], 16, 64)
		return v, err == nil
	case strings.HasPrefix(s, "0b"):
		v, err := strconv.ParseUint(s[2:], 2, 64)
		return v, err == nil
	case strings.HasPrefix(s, "0d"):
		v, err := strconv.ParseUint(s[2:], 10, 64)
		return v, err == nil
	case strings.HasPrefix(s, "0f"):
		f, err := strconv.ParseFloat(s[2:], 32)
		return uint64(math.Float32bits(float32(f))), err == nil
	}
	v, err := strconv.ParseUint(s, 10, 64)
	return v, err == nil
}

type showLine struct {
	Marker int      `json:"after_tick_header"` // last "Absolute tick" header printed before the line (-1: none)
	Objs   []string `json:"objects"`
	Vals   []uint64 `json:"values"`
}

type csvRow struct {
	Tick int               `json:"tick"` // -1 without get_ticks
	Vals map[string]uint64 `json:"values"`
}

type prediction struct {
	Shows    []showLine
	Rows     []csvRow
	Header   []string // sorted reportable names
	ShowType string
	GetType  string
	Ticks    bool // get_ticks
	Err      string
}

func bondNames(bm *bondmachine.Bondmachine, internal bool, vm *bondmachine.VM) []string {
	var out []string
	for _, b := range bm.Internal_inputs {
		out = append(out, b.String())
	}
	for _, b := range bm.Internal_outputs {
		out = append(out, b.String())
	}
	if internal {
		for p, pv := range vm.Processors {
			for r := range pv.Registers {
				out = append(out, fmt.Sprintf("p%dr%d", p, r))
			}
		}
	}
	return out
}

// predict interprets the active rules over a VM stepped directly.
func predict(bm *bondmachine.Bondmachine, active []spec, ticks, stopOn int, alt altFlags) (pr prediction) {
	defer func() {
		if r := recover(); r != nil {
			pr.Err = fmt.Sprintf("reference interpreter panic: %v", r)
		}
	}()
	vm := new(bondmachine.VM)
	vm.Bmach = bm
	if err := vm.Init(); err != nil {
		pr.Err = err.Error()
		return
	}
	if err := vm.Launch_processors(nil); err != nil {
		pr.Err = err.Error()
		return
	}
	defer vm.Shutdown()
	cfg := map[string]bool{}
	var showOrder, getNames []string
	seenShow, seenGet := map[string]bool{}, map[string]bool{}
	addShow := func(o string) {
		if !seenShow[o] {
			seenShow[o] = true
			showOrder = append(showOrder, o)
		}
	}
	addGet := func(o string) {
		if !seenGet[o] {
			seenGet[o] = true
			getNames = append(getNames, o)
		}
	}
	for _, s := range active {
		switch {
		case s.Kind == "config":
			cfg[s.Obj] = true
			switch s.Obj {
			case "get_all":
				for _, o := range bondNames(bm, false, vm) {
					addGet(o)
				}
			case "get_all_internal":
				for _, o := range bondNames(bm, true, vm) {
					addGet(o)
				}
			case "show_all":
				for _, o := range bondNames(bm, false, vm) {
					addShow(o)
				}
			case "show_all_internal":
				for _, o := range bondNames(bm, true, vm) {
					addShow(o)
				}
			}
		case s.Act == "show" && s.Kind != "onrecv":
			addShow(s.Obj)
		case s.Act == "get" && s.Kind != "onrecv":
			addGet(s.Obj)
		}
	}
	showIdx := map[string]int{}
	for i, o := range showOrder {
		showIdx[o] = i
	}
	pr.Header = append([]string{}, getNames...)
	sort.Strings(pr.Header)
	pr.Ticks = cfg["get_ticks"]
	prevValid := map[string]bool{}
	marker := -1
	for i := 0; i < ticks; i++ {
		shutdown := stopOn >= 0 && vm.OutputsValid[stopOn]
		if !shutdown {
			for k, r := range vm.InputsRecv {
				if r {
					vm.InputsValid[k] = false
				}
			}
			for _, s := range active {
				if s.Act != "set" {
					continue
				}
				due := s.Kind == "absolute" && s.Tick == int64(i)
				if s.Kind == "relative" && !alt.NoPerSet && s.Tick > 0 && int64(i)%s.Tick == 0 {
					due = true
				}
				if !due {
					continue
				}
				v, ok := litValue(s.Extra)
				e := elem(vm, s.Obj)
				if !ok || e == nil {
					pr.Err = "reference cannot apply " + fmt.Sprint(s)
					return
				}
				*e = fromU64(bm.Rsize, v)
				if m := reObj.FindStringSubmatch(s.Obj); m[1] == "i" {
					k, _ := strconv.Atoi(m[2])
					vm.InputsValid[k] = true
				}
			}
			if _, err := vm.Step(nil); err != nil {
				pr.Err = err.Error()
				return
			}
			for k, v := range vm.OutputsValid {
				vm.OutputsRecv[k] = v
			}
			if cfg["show_ticks"] {
				marker = i
			}
		}
		exit := shutdown || (!alt.NoExitAtLimit && i == ticks-1)
		shown, got := map[string]bool{}, map[string]bool{}
		for _, s := range active {
			if s.Act != "show" && s.Act != "get" {
				continue
			}
			due := false
			switch s.Kind {
			case "absolute":
				due = s.Tick == int64(i)
			case "relative":
				due = s.Tick > 0 && int64(i)%s.Tick == 0
			case "onvalid":
				v, has := validOf(vm, s.Obj)
				due = has && v && !prevValid[s.Obj] && !shutdown
			case "onexit":
				due = exit
			}
			if !due {
				continue
			}
			if s.Act == "show" {
				shown[s.Obj] = true
			} else if s.Kind == "absolute" || s.Kind == "relative" || !alt.NoEventGet {
				got[s.Obj] = true
			}
		}
		if cfg["get_all"] || cfg["get_all_internal"] {
			for _, o := range getNames {
				got[o] = true
			}
		}
		if len(shown) > 0 {
			var objs []string
			for o := range shown {
				objs = append(objs, o)
			}
			sort.Slice(objs, func(a, b int) bool { return showIdx[objs[a]] < showIdx[objs[b]] })
			l := showLine{Marker: marker}
			for _, o := range objs {
				e := elem(vm, o)
				if e == nil {
					pr.Err = "reference cannot read " + o
					return
				}
				l.Objs = append(l.Objs, o)
				l.Vals = append(l.Vals, toU64(*e))
			}
			pr.Shows = append(pr.Shows, l)
		}
		if pr.Ticks || len(got) > 0 {
			row := csvRow{Tick: -1, Vals: map[string]uint64{}}
			if pr.Ticks {
				row.Tick = i
			}
			for o := range got {
				e := elem(vm, o)
				if e == nil {
					pr.Err = "reference cannot read " + o
					return
				}
				row.Vals[o] = toU64(*e)
			}
			pr.Rows = append(pr.Rows, row)
		}
		for _, o := range []string{"i", "o"} {
			n := len(vm.InputsValid)
			if o == "o" {
				n = len(vm.OutputsValid)
			}
			for k := 0; k < n; k++ {
				name := fmt.Sprintf("%s%d", o, k)
				prevValid[name], _ = validOf(vm, name)
			}
		}
		if shutdown {
			break
		}
	}
	return
}

// ---------------------------------------------------------------- observed side (CLI output)

var (
	reUns   = regexp.MustCompile(`^\d+$`)
	reHex   = regexp.MustCompile(`^0x<\d+>([0-9a-fA-F]+)$`)
	reBin   = regexp.MustCompile(`^0b<\d+>([01]+)$`)
	reFlt   = regexp.MustCompile(`^0f<32>(\S+)$`)
	reTickH = regexp.MustCompile(`^Absolute tick:(\d+)$`)
)

// decode reads one printed value of the given type.
func decode(tok, typ string) (uint64, bool) {
	switch typ {
	case "unsigned":
		if reUns.MatchString(tok) {
			v, err := strconv.ParseUint(tok, 10, 64)
			return v, err == nil
		}
	case "hex":
		if m := reHex.FindStringSubmatch(tok); m != nil {
			v, err := strconv.ParseUint(m[1], 16, 64)
			return v, err == nil
		}
	case "bin":
		if m := reBin.FindStringSubmatch(tok); m != nil {
			v, err := strconv.ParseUint(m[1], 2, 64)
			return v, err == nil
		}
	case "float32":
		if m := reFlt.FindStringSubmatch(tok); m != nil {
			f, err := strconv.ParseFloat(m[1], 32)
			return uint64(math.Float32bits(float32(f))), err == nil
		}
	}
	return 0, false
}

type obsShow struct {
	Marker int
	Vals   []uint64
	Raw    string
}

// parseStdout extracts the show lines (and the tick header each one follows).
func parseStdout(out, typ string) []obsShow {
	var res []obsShow
	marker := -1
	for _, l := range strings.Split(out, "\n") {
		if m := reTickH.FindStringSubmatch(l); m != nil {
			marker, _ = strconv.Atoi(m[1])
			continue
		}
		if l == "" || strings.HasPrefix(l, "\t") || !strings.HasSuffix(l, " ") {
			continue
		}
		toks := strings.Fields(l)
		vals := []uint64{}
		ok := len(toks) > 0
		for _, t := range toks {
			v, good := decode(t, typ)
			if !good {
				ok = false
				break
			}
			vals = append(vals, v)
		}
		if ok {
			res = append(res, obsShow{marker, vals, l})
		}
	}
	return res
}

type obsCSV struct {
	Header []string
	Ticks  bool
	Rows   []csvRow
	Err    string
}

func parseCSV(b []byte, typ string) obsCSV {
	var o obsCSV
	rd := csv.NewReader(bytes.NewReader(b))
	rd.FieldsPerRecord = -1
	recs, err := rd.ReadAll()
	if err != nil {
		o.Err = err.Error()
		return o
	}
	if len(recs) == 0 {
		return o // no reportable at all: the header line is empty
	}
	h := recs[0]
	if len(h) > 0 && h[0] == "tick" {
		o.Ticks = true
		h = h[1:]
	}
	names := append([]string{}, h...)
	o.Header = append([]string{}, h...)
	sort.Strings(o.Header)
	for ri, rec := range recs[1:] {
		row := csvRow{Tick: -1, Vals: map[string]uint64{}}
		f := rec
		if o.Ticks {
			if len(f) == 0 {
				o.Err = fmt.Sprintf("row %d empty", ri)
				return o
			}
			row.Tick, err = strconv.Atoi(f[0])
			if err != nil {
				o.Err = fmt.Sprintf("row %d: tick %q", ri, f[0])
				return o
			}
			f = f[1:]
		}
		if len(f) != len(names) {
			o.Err = fmt.Sprintf("row %d has %d value fields for %d columns", ri, len(f), len(names))
			return o
		}
		for k, cell := range f {
			if cell == "" {
				continue
			}
			v, ok := decode(cell, typ)
			if !ok {
				o.Err = fmt.Sprintf("row %d column %s: %q is not a %s value", ri, names[k], cell, typ)
				return o
			}
			row.Vals[names[k]] = v
		}
		o.Rows = append(o.Rows, row)
	}
	return o
}

// compare returns "" or the first difference.
func compare(pr prediction, shows []obsShow, rep obsCSV, useMarker bool, showType string) string {
	if showType == "float32" {
		// a NaN is printed as "NaN": the payload is not part of the displayed value
		for i := range pr.Shows {
			for k, v := range pr.Shows[i].Vals {
				if f := math.Float32frombits(uint32(v)); f != f {
					pr.Shows[i].Vals[k] = uint64(math.Float32bits(float32(math.NaN())))
				}
			}
		}
	}
	for i := 0; i < len(pr.Shows) || i < len(shows); i++ {
		if i >= len(shows) {
			return fmt.Sprintf("show: line %d missing (expected %v=%v)", i, pr.Shows[i].Objs, pr.Shows[i].Vals)
		}
		if i >= len(pr.Shows) {
			return fmt.Sprintf("show: unexpected line %d %q", i, shows[i].Raw)
		}
		e, g := pr.Shows[i], shows[i]
		if useMarker && e.Marker != g.Marker {
			return fmt.Sprintf("show: line %d printed after tick header %d, expected after %d (%v=%v)", i, g.Marker, e.Marker, e.Objs, e.Vals)
		}
		if !reflect.DeepEqual(e.Vals, g.Vals) {
			return fmt.Sprintf("show: line %d is %q %v, expected %v=%v", i, g.Raw, g.Vals, e.Objs, e.Vals)
		}
	}
	if rep.Err != "" {
		return "report: " + rep.Err
	}
	if rep.Ticks != pr.Ticks {
		return fmt.Sprintf("report: tick column present=%v, expected %v", rep.Ticks, pr.Ticks)
	}
	if !reflect.DeepEqual(rep.Header, pr.Header) && !(len(rep.Header) == 0 && len(pr.Header) == 0) {
		return fmt.Sprintf("report: columns %v, expected %v", rep.Header, pr.Header)
	}
	for i := 0; i < len(pr.Rows) || i < len(rep.Rows); i++ {
		if i >= len(rep.Rows) {
			return fmt.Sprintf("report: row %d missing (expected tick %d %v)", i, pr.Rows[i].Tick, pr.Rows[i].Vals)
		}
		if i >= len(pr.Rows) {
			return fmt.Sprintf("report: unexpected row %d (tick %d %v)", i, rep.Rows[i].Tick, rep.Rows[i].Vals)
		}
		if pr.Rows[i].Tick != rep.Rows[i].Tick || !reflect.DeepEqual(pr.Rows[i].Vals, rep.Rows[i].Vals) {
			return fmt.Sprintf("report: row %d is tick %d %v, expected tick %d %v", i, rep.Rows[i].Tick, rep.Rows[i].Vals, pr.Rows[i].Tick, pr.Rows[i].Vals)
		}
	}
	return ""
}

// ---------------------------------------------------------------- B2 cases

type ruleT struct {
	Text string `json:"text"`
	Susp bool   `json:"suspended,omitempty"`
}

type cliCase struct {
	Net      gen.NetSpec `json:"net"`
	Rules    []ruleT     `json:"rules"`
	Ticks    int         `json:"ticks"`
	StopOn   int         `json:"stop_on_valid_of"`
	ShowType string      `json:"show_type"`
	GetType  string      `json:"get_type"`
}

func valueLit(rng *rand.Rand, rsize uint8) string {
	max := uint64(1)<<rsize - 1
	if rsize >= 64 {
		max = math.MaxUint64
	}
	var v uint64
	switch rng.IntN(4) {
	case 0:
		v = []uint64{0, 1, max, max - 1, max/2 + 1}[rng.IntN(5)]
	default:
		v = rng.Uint64() & max
		if rng.IntN(2) == 0 {
			v &= 0xff
		}
	}
	switch rng.IntN(8) {
	case 0:
		return fmt.Sprintf("0x%x", v)
	case 1:
		return fmt.Sprintf("0b%b", v)
	case 2:
		return fmt.Sprintf("0d%d", v)
	case 3:
		return fmt.Sprintf("0%d", v) // zero-padded decimal (what a %03d rule generator writes): still decimal
	case 4:
		return fmt.Sprintf("00%d", v)
	case 5:
		return fmt.Sprintf("0x%X", v)
	}
	return fmt.Sprint(v)
}

func objectsOf(bm *bondmachine.Bondmachine) (ins, outs, inner []string) {
	for i := 0; i < bm.Inputs; i++ {
		ins = append(ins, fmt.Sprintf("i%d", i))
	}
	for i := 0; i < bm.Outputs; i++ {
		outs = append(outs, fmt.Sprintf("o%d", i))
	}
	for p := range bm.Processors {
		m := bm.Domains[bm.Processors[p]]
		for k := 0; k < int(m.N); k++ {
			inner = append(inner, fmt.Sprintf("p%di%d", p, k))
		}
		for k := 0; k < int(m.M); k++ {
			inner = append(inner, fmt.Sprintf("p%do%d", p, k))
		}
		for k := 0; k < 1<<m.R; k++ {
			inner = append(inner, fmt.Sprintf("p%dr%d", p, k))
		}
	}
	return
}

// genCase draws a machine and a rule list. Cases without an onexit rule in a run that
// ends at the tick limit (the recorded finding) are the majority, so that it cannot
// mask anything else.
func genCase(rng *rand.Rand) (cliCase, *bondmachine.Bondmachine, error) {
	var ns gen.NetSpec
	switch rng.IntN(5) {
	case 0:
		ns = gen.Chain(1+rng.IntN(3), []uint8{8, 16, 32}[rng.IntN(3)], []string{"inc r0"}, rng.IntN(3), rng.IntN(3))
	case 1:
		ns = gen.FanOut(1+rng.IntN(2), []uint8{8, 16, 32}[rng.IntN(3)], rng.IntN(2), []int{rng.IntN(3), rng.IntN(3)}, false)
	case 2:
		// one processor that takes two values from its input back to back and forwards both
		// (i2rw r0 i0; i2rw r1 i0; r2owa r0 o0; r2owa r1 o1): values set on consecutive ticks all arrive
		ns = gen.NetSpec{Rsize: []uint8{8, 16, 32}[rng.IntN(3)], Inputs: 1, Outputs: 2, Family: "pair-reader",
			Procs: []gen.ProcSpec{{R: 2, NIn: 1, NOut: 2, DoubleIn: true, OutRegs: []int{0, 1}, PadOut: rng.IntN(2)}},
			Bonds: [][2]string{{"p0i0", "i0"}, {"o0", "p0o0"}, {"o1", "p0o1"}}}
	default:
		ns = gen.RandomNet(rng, 3, nil)
	}
	bm, err := ns.Build()
	if err != nil {
		return cliCase{}, nil, err
	}
	c := cliCase{Net: ns, Ticks: 12 + rng.IntN(50), StopOn: -1}
	types := []string{"unsigned", "hex", "bin"}
	c.ShowType, c.GetType = pick(rng, types), pick(rng, types)
	if ns.Rsize == 32 && rng.IntN(5) == 0 {
		c.ShowType = "float32"
	}
	ins, outs, inner := objectsOf(bm)
	all := append(append(append([]string{}, ins...), outs...), inner...)
	if rng.IntN(4) == 0 {
		c.StopOn = rng.IntN(bm.Outputs)
	}
	var rules []ruleT
	add := func(t string) { rules = append(rules, ruleT{Text: t}) }
	// input stimuli: distinct (tick, object) pairs
	usedSet := map[string]bool{}
	perObj := map[string]bool{}
	// periodic sets: up to three, on distinct objects, periods from a small pool so that several rules
	// share a period and a period coincides with the tick of an absolute set on another object
	var periods []int
	if rng.IntN(2) == 0 {
		for k := 0; k < 1+rng.IntN(3); k++ {
			o := pick(rng, ins)
			if rng.IntN(3) == 0 {
				o = pick(rng, all)
			}
			if perObj[o] {
				continue
			}
			perObj[o] = true
			p := []int{2, 3, 4, 4, 5, 7, 10}[rng.IntN(7)]
			periods = append(periods, p)
			add(fmt.Sprintf("relative:%d:set:%s:%s", p, o, valueLit(rng, ns.Rsize)))
		}
	}
	// a burst: the same input set on consecutive (or every other) ticks
	if rng.IntN(3) == 0 {
		o := pick(rng, ins)
		if !perObj[o] {
			t0, step := rng.IntN(4), 1+rng.IntN(2)
			for k := 0; k < 2+rng.IntN(3); k++ {
				t := t0 + k*step
				if t >= c.Ticks {
					break
				}
				usedSet[fmt.Sprintf("%d/%s", t, o)] = true
				add(fmt.Sprintf("absolute:%d:set:%s:%s", t, o, valueLit(rng, ns.Rsize)))
			}
		}
	}
	nset := 1 + rng.IntN(6)
	for k := 0; k < nset; k++ {
		o := pick(rng, ins)
		if rng.IntN(6) == 0 {
			o = pick(rng, all)
		}
		t := rng.IntN(c.Ticks)
		if len(periods) > 0 && rng.IntN(2) == 0 {
			t = periods[rng.IntN(len(periods))]
		}
		key := fmt.Sprintf("%d/%s", t, o)
		if usedSet[key] || perObj[o] {
			continue
		}
		usedSet[key] = true
		add(fmt.Sprintf("absolute:%d:set:%s:%s", t, o, valueLit(rng, ns.Rsize)))
	}
	// observation rules
	bulkGet := rng.IntN(6) == 0
	nobs := 2 + rng.IntN(8)
	for k := 0; k < nobs; k++ {
		act := pick(rng, []string{"get", "show"})
		if bulkGet {
			act = "show"
		}
		typ := c.ShowType
		if act == "get" {
			typ = c.GetType
		}
		o := pick(rng, all)
		if rng.IntN(2) == 0 {
			o = pick(rng, outs)
		}
		suffix := ":" + typ
		if typ == "unsigned" && rng.IntN(2) == 0 {
			suffix = ""
		}
		switch rng.IntN(8) {
		case 0, 1, 2:
			add(fmt.Sprintf("absolute:%d:%s:%s%s", rng.IntN(c.Ticks+2), act, o, suffix))
		case 3, 4:
			add(fmt.Sprintf("relative:%d:%s:%s%s", 1+rng.IntN(9), act, o, suffix))
		case 5, 6:
			o = pick(rng, append(append([]string{}, ins...), outs...))
			add(fmt.Sprintf("onvalid:%s:%s%s", act, o, suffix))
		default:
			add(fmt.Sprintf("onexit:%s:%s%s", act, o, suffix))
		}
	}
	if bulkGet {
		add("config:" + pick(rng, []string{"get_all", "get_all_internal"}) + ":" + c.GetType)
	}
	for _, o := range []string{"show_ticks", "get_ticks", "show_io_pre", "show_io_post"} {
		if rng.IntN(3) == 0 {
			add("config:" + o)
		}
	}
	// suspended rules of every kind, including ones that would change a lot
	nsus := rng.IntN(5)
	for k := 0; k < nsus; k++ {
		var t string
		switch rng.IntN(7) {
		case 0:
			t = fmt.Sprintf("%s:%d:set:%s:%s", pick(rng, []string{"absolute", "relative"}), 1+rng.IntN(c.Ticks), pick(rng, all), valueLit(rng, ns.Rsize))
		case 1:
			t = fmt.Sprintf("relative:%d:%s:%s:%s", 1+rng.IntN(4), pick(rng, []string{"get", "show"}), pick(rng, all), pick(rng, types))
		case 2:
			t = "config:" + pick(rng, plainConfig)
		case 3:
			t = "config:" + pick(rng, bulkConfig) + ":" + pick(rng, types)
		case 4:
			t = fmt.Sprintf("onvalid:%s:%s", pick(rng, []string{"get", "show"}), pick(rng, outs))
		case 5:
			t = fmt.Sprintf("absolute:%d:%s:%s:%s", rng.IntN(c.Ticks), pick(rng, []string{"get", "show"}), pick(rng, all), pick(rng, types))
		default:
			t = fmt.Sprintf("onexit:show:%s", pick(rng, outs))
		}
		rules = append(rules, ruleT{Text: t, Susp: true})
	}
	rng.Shuffle(len(rules), func(a, b int) { rules[a], rules[b] = rules[b], rules[a] })
	c.Rules = rules
	return c, bm, nil
}

type cliOut struct {
	Stdout string
	CSV    []byte
	Err    string
}

func runCLI(bin, dir string, bmJSON []byte, rules []ruleT, keepSuspended bool, ticks, stopOn int) cliOut {
	os.MkdirAll(dir, 0o755)
	sb := new(simbox.Simbox)
	for _, r := range rules {
		if r.Susp && !keepSuspended {
			continue
		}
		if err := sb.Add(r.Text); err != nil {
			return cliOut{Err: "Add(" + r.Text + "): " + err.Error()}
		}
		if r.Susp {
			sb.Suspend(len(sb.Rules) - 1)
		}
	}
	sj, _ := json.Marshal(sb)
	os.WriteFile(filepath.Join(dir, "bm.json"), bmJSON, 0o644)
	os.WriteFile(filepath.Join(dir, "sb.json"), sj, 0o644)
	os.Remove(filepath.Join(dir, "rep.csv"))
	args := []string{"-bondmachine-file", "bm.json", "-sim", "-sim-interactions", strconv.Itoa(ticks), "-simbox-file", "sb.json", "-sim-report", "rep.csv"}
	if stopOn >= 0 {
		args = append(args, "-sim-stop-on-valid-of", strconv.Itoa(stopOn))
	}
	ctx, cancel := context.WithTimeout(context.Background(), 60*time.Second)
	defer cancel()
	cmd := exec.CommandContext(ctx, filepath.Join(bin, "bondmachine"), args...)
	cmd.Dir = dir
	var so, se bytes.Buffer
	cmd.Stdout, cmd.Stderr = &so, &se
	err := cmd.Run()
	if ctx.Err() != nil {
		return cliOut{Err: "timeout"}
	}
	if err != nil {
		return cliOut{Stdout: so.String(), Err: fmt.Sprintf("%v: %.400s", err, se.String())}
	}
	b, _ := os.ReadFile(filepath.Join(dir, "rep.csv"))
	return cliOut{Stdout: so.String(), CSV: b}
}

func activeSpecs(rules []ruleT) []spec {
	var out []spec
	for _, r := range rules {
		if r.Susp {
			continue
		}
		if s, ok := specParse(r.Text); ok {
			out = append(out, s)
		}
	}
	return out
}

// judge runs one case on the CLI and against the reference; returns "" (held), a
// finding key, and the explanation.
func judge(bin, dir string, c cliCase, bm *bondmachine.Bondmachine, bmJSON []byte) (key, why string, inconclusive bool) {
	withS := runCLI(bin, dir, bmJSON, c.Rules, true, c.Ticks, c.StopOn)
	if withS.Err == "timeout" {
		return "", "timeout", true
	}
	if withS.Err != "" {
		return "cli-fails", withS.Err, false
	}
	hasS := false
	for _, r := range c.Rules {
		hasS = hasS || r.Susp
	}
	if hasS {
		without := runCLI(bin, dir, bmJSON, c.Rules, false, c.Ticks, c.StopOn)
		if without.Err == "timeout" {
			return "", "timeout", true
		}
		if without.Err != "" {
			return "cli-fails", without.Err, false
		}
		if without.Stdout != withS.Stdout || !bytes.Equal(without.CSV, withS.CSV) {
			return "suspended-rule-has-effect", firstDiff(without.Stdout+"\n--report--\n"+string(without.CSV), withS.Stdout+"\n--report--\n"+string(withS.CSV)), false
		}
	}
	act := activeSpecs(c.Rules)
	shows := parseStdout(withS.Stdout, c.ShowType)
	rep := parseCSV(withS.CSV, c.GetType)
	useMarker := false
	for _, s := range act {
		if s.Kind == "config" && s.Obj == "show_ticks" {
			useMarker = true
		}
	}
	pr := predict(bm, act, c.Ticks, c.StopOn, altFlags{})
	if pr.Err != "" {
		return "", "reference: " + pr.Err, true
	}
	d := compare(pr, shows, rep, useMarker, c.ShowType)
	if d == "" {
		return "", "", false
	}
	// does the recorded departure (onexit rules never fire when the run ends at the tick limit) explain it?
	hasExit := false
	for _, s := range act {
		hasExit = hasExit || s.Kind == "onexit"
	}
	if hasExit {
		p2 := predict(bm, act, c.Ticks, c.StopOn, altFlags{NoExitAtLimit: true})
		if p2.Err == "" && compare(p2, shows, rep, useMarker, c.ShowType) == "" {
			return "onexit-not-fired-at-tick-limit", d, false
		}
	}
	cls := "show"
	if strings.HasPrefix(d, "report") {
		cls = "report"
	}
	return "cli-differs-from-rules:" + cls, d, false
}

func firstDiff(a, b string) string {
	la, lb := strings.Split(a, "\n"), strings.Split(b, "\n")
	for i := 0; i < len(la) || i < len(lb); i++ {
		x, y := "<end>", "<end>"
		if i < len(la) {
			x = la[i]
		}
		if i < len(lb) {
			y = lb[i]
		}
		if x != y {
			return fmt.Sprintf("line %d: without the suspended rules %q, with them %q", i, x, y)
		}
	}
	return "equal"
}

// shrink drops rules while the same key is reported.
func shrink(bin, dir string, c cliCase, bm *bondmachine.Bondmachine, bmJSON []byte, key string) cliCase {
	budget := 60
	for changed := true; changed && budget > 0; {
		changed = false
		for i := 0; i < len(c.Rules) && budget > 0; i++ {
			c2 := c
			c2.Rules = append(append([]ruleT{}, c.Rules[:i]...), c.Rules[i+1:]...)
			budget--
			if k, _, inc := judge(bin, dir, c2, bm, bmJSON); !inc && k == key {
				c = c2
				changed = true
				i--
			}
		}
	}
	return c
}

// ---------------------------------------------------------------- B1 compile monitor

func compileMonitor(c cliCase, bm *bondmachine.Bondmachine) string {
	vm := new(bondmachine.VM)
	vm.Bmach = bm
	if err := vm.Init(); err != nil {
		return ""
	}
	build := func(keep bool) (*simbox.Simbox, error) {
		sb := new(simbox.Simbox)
		for _, r := range c.Rules {
			if r.Susp && !keep {
				continue
			}
			if err := sb.Add(r.Text); err != nil {
				return nil, err
			}
			if r.Susp {
				sb.Suspend(len(sb.Rules) - 1)
			}
		}
		return sb, nil
	}
	sb, err := build(true)
	if err != nil {
		return ""
	}
	conf := new(bondmachine.Config)
	sc, sd, sr := new(bondmachine.SimConfig), new(bondmachine.SimDrive), new(bondmachine.SimReport)
	if err := sc.Init(sb, vm, conf); err != nil {
		return "SimConfig.Init: " + err.Error()
	}
	if err := sd.Init(conf, sb, vm); err != nil {
		return "SimDrive.Init: " + err.Error()
	}
	if err := sr.Init(sb, vm); err != nil {
		return "SimReport.Init: " + err.Error()
	}
	act := activeSpecs(c.Rules)
	cfg := map[string]bool{}
	type tk struct {
		tick uint64
		obj  string
	}
	absSet, perSet := map[tk]uint64{}, map[tk]uint64{}
	absGet, perGet, absShow, perShow := map[tk]bool{}, map[tk]bool{}, map[tk]bool{}, map[tk]bool{}
	evShow, evGet := map[string]bool{}, map[string]bool{}
	for _, s := range act {
		k := tk{uint64(s.Tick), s.Obj}
		switch {
		case s.Kind == "config":
			cfg[s.Obj] = true
		case s.Act == "set":
			v, _ := litValue(s.Extra)
			if s.Kind == "absolute" {
				absSet[k] = v
			} else {
				perSet[k] = v
			}
		case s.Kind == "absolute" && s.Act == "get":
			absGet[k] = true
		case s.Kind == "relative" && s.Act == "get":
			perGet[k] = true
		case s.Kind == "absolute" && s.Act == "show":
			absShow[k] = true
		case s.Kind == "relative" && s.Act == "show":
			perShow[k] = true
		case s.Kind == "onvalid" || s.Kind == "onexit":
			if _, has := validOf(vm, s.Obj); has || s.Kind == "onexit" {
				if s.Act == "show" {
					evShow[s.Kind+"/"+s.Obj] = true
				} else {
					evGet[s.Kind+"/"+s.Obj] = true
				}
			}
		}
	}
	if sc.ShowTicks != cfg["show_ticks"] || sc.GetTicks != cfg["get_ticks"] || sc.ShowIoPre != cfg["show_io_pre"] || sc.ShowIoPost != cfg["show_io_post"] ||
		sc.GetAll != cfg["get_all"] || sc.GetAllInternal != cfg["get_all_internal"] {
		return fmt.Sprintf("SimConfig %+v does not reflect the active config rules %v", *sc, cfg)
	}
	// set tables
	chkSet := func(name string, tab map[uint64]bondmachine.SimTickSet, want map[tk]uint64) string {
		n := 0
		for tick, m := range tab {
			for ipos, val := range m {
				n++
				if ipos < 0 || ipos >= len(sd.Injectables) {
					return fmt.Sprintf("%s[%d] refers to injectable %d of %d", name, tick, ipos, len(sd.Injectables))
				}
				found := false
				for k, v := range want {
					if k.tick == tick && elem(vm, k.obj) == sd.Injectables[ipos] {
						found = true
						if !reflect.DeepEqual(val, fromU64(bm.Rsize, v)) {
							return fmt.Sprintf("%s[%d] sets %s to %v (%T), rule says %d", name, tick, k.obj, val, val, v)
						}
						m2 := reObj.FindStringSubmatch(k.obj)
						idx, isIn := sd.NeedValid[ipos]
						if name == "AbsSet" {
							if wantIn := m2[1] == "i"; wantIn != isIn {
								return fmt.Sprintf("NeedValid for %s present=%v", k.obj, isIn)
							} else if wantIn {
								if kk, _ := strconv.Atoi(m2[2]); kk != idx {
									return fmt.Sprintf("NeedValid for %s names input %d", k.obj, idx)
								}
							}
						}
					}
				}
				if !found {
					return fmt.Sprintf("%s[%d] has an action on an element no active rule names at that tick", name, tick)
				}
			}
		}
		if n != len(want) {
			return fmt.Sprintf("%s holds %d actions for %d active rules", name, n, len(want))
		}
		return ""
	}
	if d := chkSet("AbsSet", sd.AbsSet, absSet); d != "" {
		return d
	}
	if d := chkSet("PerSet", sd.PerSet, perSet); d != "" {
		return d
	}
	chkObs := func(name string, n int, get func(func(tick uint64, ipos int) string) string, ptrs []*interface{}, names []string, want map[tk]bool) string {
		cnt := 0
		d := get(func(tick uint64, ipos int) string {
			cnt++
			if ipos < 0 || ipos >= len(ptrs) {
				return fmt.Sprintf("%s[%d] refers to element %d of %d", name, tick, ipos, len(ptrs))
			}
			for k := range want {
				if k.tick == tick && elem(vm, k.obj) == ptrs[ipos] {
					if names[ipos] != k.obj {
						return fmt.Sprintf("%s: element of %s is named %s", name, k.obj, names[ipos])
					}
					return ""
				}
			}
			return fmt.Sprintf("%s[%d] observes %s which no active rule names at that tick", name, tick, names[ipos])
		})
		if d != "" {
			return d
		}
		if cnt != len(want) {
			return fmt.Sprintf("%s holds %d observations for %d active rules", name, cnt, len(want))
		}
		return ""
	}
	overGet := func(tab map[uint64]bondmachine.SimTickGet) func(func(uint64, int) string) string {
		return func(f func(uint64, int) string) string {
			for t, m := range tab {
				for i := range m {
					if d := f(t, i); d != "" {
						return d
					}
				}
			}
			return ""
		}
	}
	overShow := func(tab map[uint64]bondmachine.SimTickShow) func(func(uint64, int) string) string {
		return func(f func(uint64, int) string) string {
			for t, m := range tab {
				for i := range m {
					if d := f(t, i); d != "" {
						return d
					}
				}
			}
			return ""
		}
	}
	if d := chkObs("AbsGet", 0, overGet(sr.AbsGet), sr.Reportables, sr.ReportablesNames, absGet); d != "" {
		return d
	}
	if d := chkObs("PerGet", 0, overGet(sr.PerGet), sr.Reportables, sr.ReportablesNames, perGet); d != "" {
		return d
	}
	if d := chkObs("AbsShow", 0, overShow(sr.AbsShow), sr.Showables, sr.ShowablesNames, absShow); d != "" {
		return d
	}
	if d := chkObs("PerShow", 0, overShow(sr.PerShow), sr.Showables, sr.ShowablesNames, perShow); d != "" {
		return d
	}
	if len(sr.EventShow) != len(evShow) {
		return fmt.Sprintf("EventShow holds %d events for %d active event show rules", len(sr.EventShow), len(evShow))
	}
	if len(sr.EventGet) != len(evGet) {
		return fmt.Sprintf("EventGet holds %d events for %d active event get rules", len(sr.EventGet), len(evGet))
	}
	// every element pointer must be the element its name designates
	for i, p := range sr.Reportables {
		if e := elem(vm, sr.ReportablesNames[i]); e != p {
			return fmt.Sprintf("reportable %s does not point to that element", sr.ReportablesNames[i])
		}
	}
	for i, p := range sr.Showables {
		if e := elem(vm, sr.ShowablesNames[i]); e != p {
			return fmt.Sprintf("showable %s does not point to that element", sr.ShowablesNames[i])
		}
	}
	return ""
}

// ---------------------------------------------------------------- B3 SinglePipelineSimulate

func pipelineCase(rng *rand.Rand) (string, string, bool) {
	k := 1 + rng.IntN(4)
	rsize := []uint8{8, 16, 32}[rng.IntN(3)]
	var ns gen.NetSpec
	if rng.IntN(3) == 0 {
		ns = gen.FanOut(1+rng.IntN(3), rsize, rng.IntN(3), []int{rng.IntN(3), rng.IntN(3), rng.IntN(3)}, false)
	} else {
		ns = gen.Chain(k, rsize, []string{"inc r0"}, rng.IntN(3), rng.IntN(3))
	}
	bm, err := ns.Build()
	if err != nil {
		return "", err.Error(), true
	}
	in := valueLit(rng, rsize)
	typ := pick(rng, []string{"unsigned", "hex", "bin"})
	got, err := bm.SinglePipelineSimulate(typ, []string{in}, nil)
	if err != nil {
		return "", err.Error(), true
	}
	// the rules SinglePipelineSimulate documents: set the inputs at tick 0, show every output on exit,
	// stop when the last output is valid; the last output is always shown as unsigned
	var act []spec
	act = append(act, spec{Kind: "absolute", Tick: 0, Act: "set", Obj: "i0", Extra: in})
	for o := 0; o < bm.Outputs; o++ {
		act = append(act, spec{Kind: "onexit", Act: "show", Obj: fmt.Sprintf("o%d", o)})
	}
	pr := predict(bm, act, 100000, bm.Outputs-1, altFlags{})
	if pr.Err != "" {
		return "", pr.Err, true
	}
	if len(pr.Shows) != 1 {
		return "", "reference produced no exit line", true
	}
	want := pr.Shows[0].Vals
	if len(got) != len(want) {
		return fmt.Sprintf("%s input %s: returned %v, expected values %v", ns.String(), in, got, want), "", false
	}
	for i, g := range got {
		t := typ
		if i == len(got)-1 {
			t = "unsigned"
		}
		v, ok := decode(g, t)
		if !ok || v != want[i] {
			return fmt.Sprintf("%s input %s: output %d returned %q, expected %d as %s", ns.String(), in, i, g, want[i], t), "", false
		}
	}
	return "", "", false
}

// ---------------------------------------------------------------- main

func buildTools(scratch string) (string, error) {
	bin := filepath.Join(scratch, "bin")
	os.MkdirAll(bin, 0o755)
	repo := os.Getenv("VERIF_REPO")
	if repo == "" {
		repo = "/repo"
	}
	for _, t := range []string{"bondmachine", "simbox"} {
		cmd := exec.Command("go", "build", "-tags", "verif", "-o", filepath.Join(bin, t), "./cmd/"+t)
		cmd.Dir = repo
		if out, err := cmd.CombinedOutput(); err != nil {
			return "", fmt.Errorf("go build %s: %v\n%s", t, err, out)
		}
	}
	return bin, nil
}

func main() {
	tier, replay := hx.Args()
	run := evid.New("C15", tier, "exploration")
	run.Rule = "a case = one rule text (A), one list history (A), one (machine, rule list) pair compiled by Sim*.Init (B1), run by cmd/bondmachine -sim (B2) or SinglePipelineSimulate (B3); non-trivial = the oracle compared a complete observation; distinct by rule form and fields (A), history / machine+rules digest (B)"
	run.Assume = []string{
		"B2/B3 trust bondmachine.VM.Step as the machine's trace (C02/C09 are about it); the interpreter in cmd/c15 decides which element is written or sampled at which tick, by direct field access",
		"tick t = loop index: set rules act before the step of tick t, get/show rules sample after it; periodic rules act at every t with t mod period = 0, including 0; onvalid = rising edge of the object's valid flag between consecutive ticks",
		"show lines carry no object names: values are attributed by the order of first mention among active show rules; cases use one display type per action",
		"not judged (tallied): onrecv rules, show_all/show_all_internal (no code prints them), 'signed' and 'binary' formats (unimplemented / unknown to bmnumbers), period 0, objects without a valid flag under onvalid",
	}
	run.Floor = 50
	scratch, clean := hx.Scratch("c15")
	defer clean()
	bin, err := buildTools(scratch)
	if err != nil {
		fmt.Fprintln(os.Stderr, err)
		os.Exit(2)
	}
	hx.SilenceStdout(filepath.Join(scratch, "lib.log"))
	seed := evid.Seed()

	if replay != "" {
		os.Exit(doReplay(run, bin, scratch, replay))
	}

	nText, nHist, nHistCLI, nCases, nPipe := 4000, 300, 10, 120, 60
	if tier == "thorough" {
		nText, nHist, nHistCLI, nCases, nPipe = 60000, 5000, 60, 2500, 600
	}
	// A
	partARoundTrip(run, hx.RNG(seed, "c15-text"), nText)
	rngH := hx.RNG(seed, "c15-hist")
	for h := 0; h < nHist; h++ {
		ops := genHistory(rngH, 4+rngH.IntN(30))
		run.Eval(1)
		d, at := runHistoryLib(ops)
		if at == -2 {
			run.Tally("history", "text-outside-grammar-accepted")
			continue
		}
		if d != "" {
			run.Violation("list-history:"+ops[at].Op, map[string]any{"kind": "history", "ops": ops, "difference": d})
			continue
		}
		run.Nontrivial(fmt.Sprintf("hist|%d|%d", h, len(ops)))
	}
	cliH := make([][]histOp, nHistCLI)
	for h := range cliH {
		cliH[h] = genHistory(rngH, 6+rngH.IntN(10))
	}
	hx.Par(len(cliH), func(h int) {
		run.Eval(1)
		d, at := runHistoryCLI(bin, filepath.Join(scratch, fmt.Sprintf("h%d", h)), cliH[h])
		if at == -2 {
			run.Tally("history", "text-outside-grammar-accepted")
			return
		}
		if d != "" {
			run.Violation("cli-list-history:"+cliH[h][at].Op, map[string]any{"kind": "cli-history", "ops": cliH[h], "difference": d})
			return
		}
		run.Nontrivial(fmt.Sprintf("clihist|%d", h))
	})

	// B
	type bcase struct {
		c  cliCase
		bm *bondmachine.Bondmachine
		js []byte
	}
	rngC := hx.RNG(seed, "c15-cases")
	var cases []bcase
	for len(cases) < nCases {
		c, bm, err := genCase(rngC)
		if err != nil {
			run.Inconclusive("machine-does-not-build")
			continue
		}
		js, err := json.Marshal(bm.Jsoner())
		if err != nil {
			run.Inconclusive("machine-does-not-save")
			continue
		}
		cases = append(cases, bcase{c, bm, js})
	}
	for i := range cases {
		run.Eval(1)
		if d := compileMonitor(cases[i].c, cases[i].bm); d != "" {
			cls := regexp.MustCompile(`\[\d+\]|:$`).ReplaceAllString(strings.SplitN(d, " ", 2)[0], "")
			run.Violation("compiled-tables:"+cls, map[string]any{"kind": "compile", "case": cases[i].c, "difference": d})
		} else {
			run.Nontrivial(fmt.Sprintf("compile|%d", i))
		}
	}
	shownLines, rowsSeen := int64(0), int64(0)
	hx.Par(len(cases), func(i int) {
		bc := cases[i]
		dir := filepath.Join(scratch, fmt.Sprintf("c%d", i))
		defer os.RemoveAll(dir)
		run.Eval(1)
		key, why, inc := judge(bin, dir, bc.c, bc.bm, bc.js)
		if inc {
			run.Inconclusive("cli:" + strings.SplitN(why, ":", 2)[0])
			return
		}
		if key == "" {
			pr := predict(bc.bm, activeSpecs(bc.c.Rules), bc.c.Ticks, bc.c.StopOn, altFlags{})
			run.Count("show_lines_compared", int64(len(pr.Shows)))
			run.Count("report_rows_compared", int64(len(pr.Rows)))
			_ = shownLines
			_ = rowsSeen
			for _, r := range bc.c.Rules {
				if s, ok := specParse(r.Text); ok {
					st := "active"
					if r.Susp {
						st = "suspended"
					}
					run.Tally("rule_forms_run", s.Kind+":"+s.Act+":"+st)
				}
			}
			run.Nontrivial(fmt.Sprintf("cli|%s|%d", bc.c.Net.Family, i))
			if i < 3 {
				run.Sample(map[string]any{"machine": bc.c.Net.String(), "rules": bc.c.Rules, "ticks": bc.c.Ticks, "stop_on_valid_of": bc.c.StopOn, "show_lines": pr.Shows, "report_rows": len(pr.Rows)})
			}
			return
		}
		small := shrink(bin, dir, bc.c, bc.bm, bc.js, key)
		_, why2, _ := judge(bin, dir, small, bc.bm, bc.js)
		if why2 != "" {
			why = why2
		}
		for _, k := range strings.Split(key, "+") {
			run.Violation(k, map[string]any{"kind": "cli", "case": small, "machine": small.Net.String(), "difference": why})
		}
	})
	rngP := hx.RNG(seed, "c15-pipe")
	for p := 0; p < nPipe; p++ {
		run.Eval(1)
		d, why, inc := pipelineCase(rngP)
		if inc {
			run.Inconclusive("pipeline:" + strings.SplitN(why, ":", 2)[0])
			continue
		}
		if d != "" {
			run.Violation("single-pipeline-simulate-differs", map[string]any{"kind": "pipeline", "difference": d})
			continue
		}
		run.Nontrivial(fmt.Sprintf("pipe|%d", p))
	}
	os.Exit(run.Finish())
}

func doReplay(run *evid.Run, bin, scratch, path string) int {
	w, err := evid.ReadWitness(path)
	if err != nil {
		fmt.Fprintln(os.Stderr, err)
		return 2
	}
	b, _ := json.Marshal(w)
	switch w["kind"] {
	case "text":
		var x struct{ Text string }
		json.Unmarshal(b, &x)
		sb := new(simbox.Simbox)
		err := sb.Add(x.Text)
		fmt.Fprintf(evid.Out, "text %q: Add error=%v rules=%+v\n", x.Text, err, sb.Rules)
		if len(sb.Rules) == 1 {
			sb2 := new(simbox.Simbox)
			err2 := sb2.Add(sb.Rules[0].String())
			fmt.Fprintf(evid.Out, "printed %q: Add error=%v rules=%+v\n", sb.Rules[0].String(), err2, sb2.Rules)
			sp, _ := specParse(x.Text)
			if err2 == nil && len(sb2.Rules) == 1 && sb2.Rules[0] == sb.Rules[0] && sb.Rules[0] == sp.rule() {
				return 0
			}
		}
		return 1
	case "history", "cli-history":
		var x struct{ Ops []histOp }
		json.Unmarshal(b, &x)
		var d string
		if w["kind"] == "history" {
			d, _ = runHistoryLib(x.Ops)
		} else {
			d, _ = runHistoryCLI(bin, filepath.Join(scratch, "h"), x.Ops)
		}
		fmt.Fprintln(evid.Out, "difference:", d)
		if d != "" {
			return 1
		}
		return 0
	case "cli", "compile":
		var x struct{ Case cliCase }
		json.Unmarshal(b, &x)
		bm, err := x.Case.Net.Build()
		if err != nil {
			fmt.Fprintln(os.Stderr, err)
			return 2
		}
		if w["kind"] == "compile" {
			d := compileMonitor(x.Case, bm)
			fmt.Fprintln(evid.Out, "difference:", d)
			if d != "" {
				return 1
			}
			return 0
		}
		js, _ := json.Marshal(bm.Jsoner())
		key, why, inc := judge(bin, filepath.Join(scratch, "r"), x.Case, bm, js)
		fmt.Fprintf(evid.Out, "key=%q inconclusive=%v\n%s\n", key, inc, why)
		if key != "" {
			return 1
		}
		return 0
	}
	fmt.Fprintln(os.Stderr, "replay of this witness kind is not supported; rerun the check with the same VERIF_SEED")
	return 2
}
