// c04: a bond delivers every value exactly once, in order, to every consumer.
//
// Producer/consumer machines (fan-out 1..3, systematic padding grids, back-to-back
// I/O instructions, random dataflow nets) run on both back ends (Go simulator and
// the generated Verilog under vsim). Probes on every processor's pc and registers
// turn each completed r2owa / i2rw into an event; an online checker compares, per
// bond, what each consumer captured with what the producer sent.
package main

import (
	"encoding/json"
	"fmt"
	"os"
	"path/filepath"
	"strings"

	"verif/internal/bmsim"
	"verif/internal/bondmon"
	"verif/internal/evid"
	"verif/internal/gen"
	"verif/internal/hx"
	"verif/internal/simdrv"
)

type caseT struct {
	Net  gen.NetSpec `json:"net"`
	Env  simdrv.Env  `json:"env"`
	Back string      `json:"backend"` // "sim" or "hdl"
	Tag  string      `json:"tag"`     // structural class of the case (used in violation keys)
}

func runCase(scratch string, c caseT, maxTicks, want int) (string, map[string]any, int, []bondmon.DupNote, error) {
	n := c.Net
	bm, err := n.Build()
	if err != nil {
		return "", nil, 0, nil, err
	}
	c.Net = n // Build filled in the programs
	var m bmsim.Machine
	if c.Back == "sim" {
		m, err = bmsim.NewGo(bm, c.Env)
	} else {
		var files map[string]string
		files, err = bmsim.Files(scratch, bm)
		if err == nil {
			m, err = bmsim.NewHDL(files, n.Inputs, n.Outputs, c.Env)
		}
	}
	if err != nil {
		return "", nil, 0, nil, err
	}
	defer m.Close()
	v, d, ev, dups := bondmon.Monitor(m, n, c.Env, maxTicks, want)
	if d != nil {
		d["case"] = c
		d["text"] = c.Back + ": " + n.String()
	}
	for i := range dups {
		dups[i].Detail["case"] = c
		dups[i].Detail["text"] = c.Back + ": " + n.String()
	}
	return v, d, ev, dups, nil
}

func counter(n int) []uint64 {
	s := make([]uint64, n)
	for i := range s {
		s[i] = uint64(i + 1)
	}
	return s
}

func main() {
	tier, replay := hx.Args()
	run := evid.New("C04", tier, "exploration")
	run.Rule = "cases = (machine, environment, back end): fan-out k=1..3 with the full producer/consumer padding grid, back-to-back i2rw on one input, back-to-back r2owa, chains, and random dataflow nets with random paddings, input gaps and ack delays; each on the Go simulator and on the generated Verilog (vsim); events = completed r2owa / i2rw observed through pc/register probes; non-trivial = ≥8 handshake events observed and every external output produced ≥1 value; distinct by (back end, machine text, environment)"
	run.Assume = []string{"vsim executes the generated top-level Verilog; probes read the processors' _pc and _rN registers",
		"the environment follows the four-phase valid/received protocol (DESIGN Appendix B)"}
	run.Floor = 40
	scratch, clean := hx.Scratch("c04")
	defer clean()
	hx.SilenceStdout(filepath.Join(scratch, "lib.log"))
	maxTicks, want := 1500, 12
	if tier == "thorough" {
		maxTicks, want = 6000, 60
	}

	if replay != "" {
		w, err := evid.ReadWitness(replay)
		if err != nil {
			fmt.Fprintln(os.Stderr, err)
			os.Exit(2)
		}
		run.Floor = 0
		var c caseT
		b, _ := json.Marshal(w["case"])
		json.Unmarshal(b, &c)
		run.Eval(1)
		v, d, _, dups, err := runCase(scratch, c, maxTicks, want)
		if err != nil {
			fmt.Fprintln(os.Stderr, err)
			os.Exit(2)
		}
		for _, dn := range dups {
			run.Violation(dn.Kind+":"+c.Back, dn.Detail)
		}
		if v != "" {
			run.Violation(v+":"+c.Back, d)
		}
		os.Exit(run.Finish())
	}

	var cs []caseT
	add := func(n gen.NetSpec, env simdrv.Env, tag string) {
		for _, b := range []string{"sim", "hdl"} {
			cs = append(cs, caseT{Net: n, Env: env, Back: b, Tag: tag})
		}
	}
	envFor := func(n gen.NetSpec, gap, ack int) simdrv.Env {
		var e simdrv.Env
		for i := 0; i < n.Inputs; i++ {
			e.In = append(e.In, counter(400))
			e.Gap = append(e.Gap, gap)
		}
		for i := 0; i < n.Outputs; i++ {
			e.AckDelay = append(e.AckDelay, ack)
		}
		return e
	}
	// 1: fan-out with the padding grid
	maxPad := 4
	if tier == "thorough" {
		maxPad = 6
	}
	for k := 1; k <= 3; k++ {
		for pp := 0; pp <= maxPad; pp++ {
			for pc := 0; pc <= maxPad; pc++ {
				if k > 1 && tier != "thorough" && (pp+pc)%2 == 1 {
					continue
				}
				pads := []int{pc, (pc + 1) % (maxPad + 1), (pc * 2) % (maxPad + 1)}
				n := gen.FanOut(k, 8, pp, pads, false)
				add(n, envFor(n, pp%3, 1+pc%3), fmt.Sprintf("fanout%d", k))
			}
		}
	}
	// 1b: the same families on the Go simulator with per-opcode delay assignments (VM.SimDelayMap)
	delaySets := []map[string]int{{"cpy": 2}, {"cpy": 3, "i2rw": 1}, {"r2owa": 2}, {"i2rw": 3}, {"cpy": 1, "r2owa": 1, "i2rw": 2}, {"j": 2, "cpy": 4}, {"i2rw": 6}, {"i2rw": 10}, {"inc": 6, "cpy": 6}, {"inc": 9}}
	for k := 1; k <= 3; k++ {
		for di, ds := range delaySets {
			for pp := 0; pp <= 2; pp++ {
				for pc := 0; pc <= 2; pc++ {
					if tier != "thorough" && (pp+pc+di)%2 == 1 {
						continue
					}
					n := gen.FanOut(k, 8, pp, []int{pc, (pc + 1) % 3, (pc * 2) % 3}, false)
					e := envFor(n, pp%3, 1+pc%3)
					e.Delays = ds
					cs = append(cs, caseT{Net: n, Env: e, Back: "sim", Tag: fmt.Sprintf("fanout%d-delays", k)})
				}
			}
		}
	}
	for k := 1; k <= 4; k++ {
		for _, ds := range delaySets {
			n := gen.Chain(k, 16, []string{"inc r0"}, 1, 1)
			e := envFor(n, 0, 1)
			e.Delays = ds
			cs = append(cs, caseT{Net: n, Env: e, Back: "sim", Tag: "chain-delays"})
		}
	}
	// 1c: a free-running source (no input handshake slows it down) feeding k consumers that stall
	// right after their i2rw
	for k := 1; k <= 3; k++ {
		for _, ds := range delaySets {
			for pp := 0; pp <= 2; pp++ {
				if tier != "thorough" && (pp+k)%2 == 1 {
					continue
				}
				n := gen.NetSpec{Rsize: 8, Inputs: 0, Outputs: k, Family: fmt.Sprintf("source-fanout%d", k)}
				n.Procs = append(n.Procs, gen.ProcSpec{R: 2, NIn: 0, NOut: 1, Body: []string{"inc r0"}, OutRegs: []int{0}, PadOut: pp})
				for c := 1; c <= k; c++ {
					n.Procs = append(n.Procs, gen.ProcSpec{R: 2, NIn: 1, NOut: 1, OutRegs: []int{0}, PadOut: 1 + (c+pp)%2})
					n.Bonds = append(n.Bonds, [2]string{fmt.Sprintf("p%di0", c), "p0o0"}, [2]string{fmt.Sprintf("o%d", c-1), fmt.Sprintf("p%do0", c)})
				}
				e := envFor(n, 0, 1)
				e.Delays = ds
				cs = append(cs, caseT{Net: n, Env: e, Back: "sim", Tag: fmt.Sprintf("source-fanout%d-delays", k)})
			}
		}
	}
	// 2: back-to-back i2rw on the same input (consumer re-arms while valid may still be high)
	for pp := 0; pp <= maxPad; pp++ {
		n := gen.FanOut(1, 8, pp, []int{0}, true)
		n.Family = "fanout1-double-i2rw"
		add(n, envFor(n, 0, 1), "double-i2rw")
	}
	// 3: chains
	for k := 1; k <= 5; k++ {
		for pad := 0; pad <= 2; pad++ {
			n := gen.Chain(k, 16, []string{"inc r0"}, pad, (pad+1)%3)
			add(n, envFor(n, pad, 1+pad), "chain")
		}
	}
	// 4: random nets
	nRand := 400
	if tier == "thorough" {
		nRand = 3000
	}
	rng := hx.RNG(run.Seed, "c04")
	for i := 0; i < nRand; i++ {
		n := gen.RandomNet(rng, 5, []string{"inc", "cpy", "add"})
		e := envFor(n, rng.IntN(4), 1+rng.IntN(3))
		for k := range e.In {
			for j := range e.In[k] {
				e.In[k][j] = rng.Uint64() & ((1 << n.Rsize) - 1)
				for j > 0 && e.In[k][j] == e.In[k][j-1] { // neighbours differ, so that a value read twice is recognisable
					e.In[k][j] = (e.In[k][j] + 1) & ((1 << n.Rsize) - 1)
				}
			}
		}
		add(n, e, "random-dag")
	}
	hx.Par(len(cs), func(i int) {
		c := cs[i]
		run.Eval(1)
		v, d, ev, dups, err := runCase(scratch, c, maxTicks, want)
		for _, dn := range dups {
			run.Violation(dn.Kind+":"+c.Back, dn.Detail)
		}
		if err != nil {
			if strings.Contains(err.Error(), "unsupported") {
				run.Inconclusive("vsim-unsupported")
			} else {
				run.Inconclusive("not-runnable:" + c.Back)
				run.Tally("not_runnable", err.Error())
			}
			return
		}
		run.Count("handshake_events_observed_"+c.Back, int64(ev))
		if v == "no-progress" {
			run.Inconclusive("net-deadlocks-by-construction")
			return
		}
		if v != "" {
			run.Violation(v+":"+c.Back, d)
			return
		}
		if ev >= 8 {
			run.Nontrivial(c.Back + "|" + c.Net.String() + fmt.Sprint(c.Env.Gap, c.Env.AckDelay, c.Env.Delays))
		}
		if i < 2 {
			run.Sample(map[string]any{"backend": c.Back, "machine": c.Net.String(), "events": ev})
		}
	})
	os.Exit(run.Finish())
}
