// c04: a bond delivers every value exactly once, in order, to every consumer.
//
// Producer/consumer machines (fan-out 1..3, systematic padding grids, back-to-back
// I/O instructions, random dataflow nets) run on both back ends (Go simulator and
// the generated Verilog under vsim). Probes on every processor's pc and registers
// turn each completed r2owa / i2rw into an event; an online checker compares, per
// bond, what each consumer captured with what the producer sent.
package main

import (
	"encoding/json"
	"fmt"
	"os"
	"path/filepath"
	"strconv"
	"strings"

	"verif/internal/bmsim"
	"verif/internal/evid"
	"verif/internal/gen"
	"verif/internal/hx"
	"verif/internal/simdrv"
)

type caseT struct {
	Net  gen.NetSpec `json:"net"`
	Env  simdrv.Env  `json:"env"`
	Back string      `json:"backend"` // "sim" or "hdl"
	Tag  string      `json:"tag"`     // structural class of the case (used in violation keys)
}

type endpoint struct {
	kind       string
	proc, port int
} // kind: "ext" or "proc"

// source of processor p's input k, and consumers of processor p's output j
func wiring(n gen.NetSpec) (srcOf map[[2]int]endpoint, extOutSrc map[int][2]int) {
	srcOf = map[[2]int]endpoint{}
	extOutSrc = map[int][2]int{}
	parse := func(s string) endpoint {
		if s[0] == 'p' {
			i := strings.IndexAny(s[1:], "io") + 1
			p, _ := strconv.Atoi(s[1:i])
			k, _ := strconv.Atoi(s[i+1:])
			return endpoint{"proc", p, k}
		}
		k, _ := strconv.Atoi(s[1:])
		return endpoint{"ext", -1, k}
	}
	for _, b := range n.Bonds {
		in, out := parse(b[0]), parse(b[1])
		if in.kind == "proc" {
			srcOf[[2]int{in.proc, in.port}] = out
		} else if out.kind == "proc" {
			extOutSrc[in.port] = [2]int{out.proc, out.port}
		}
	}
	return
}

// monitor runs the machine and checks the per-bond invariants online.
// dupNote is a duplicate read that was recorded and removed from the consumer's log so that
// monitoring of the rest of the run stays meaningful (loss, reordering, early producer).
type dupNote struct {
	kind   string
	detail map[string]any
}

func monitor(m bmsim.Machine, c caseT, maxTicks, wantTransfers int) (viol string, detail map[string]any, events int, dups []dupNote) {
	n := c.Net
	srcOf, extOutSrc := wiring(n)
	np := len(n.Procs)
	prev := make([]uint64, np)
	sent := map[[2]int][]uint64{}      // producer (p, out j) -> values whose r2owa retired
	recv := map[[2]int][]uint64{}      // consumer (p, in k) -> values captured by completed i2rw
	consumers := map[[2]int][][2]int{} // producer output -> consumer inputs
	for cin, src := range srcOf {
		if src.kind == "proc" {
			k := [2]int{src.proc, src.port}
			consumers[k] = append(consumers[k], cin)
		}
	}
	// structural class of a consumer input: how many inputs share its source, and whether the
	// consumer reads it in two consecutive instructions
	classOf := func(cin [2]int) string {
		src := srcOf[cin]
		share := 0
		for _, s2 := range srcOf {
			if s2 == src {
				share++
			}
		}
		prog := n.Procs[cin[0]].Prog
		double := false
		for i := 0; i+1 < len(prog); i++ {
			a, b := strings.Fields(prog[i]), strings.Fields(prog[i+1])
			if a[0] == "i2rw" && b[0] == "i2rw" && a[2] == b[2] && a[2] == "i"+strconv.Itoa(cin[1]) {
				double = true
			}
		}
		switch {
		case double:
			return "consecutive-i2rw-on-one-input"
		case share >= 2:
			return "source-fans-out-to-several-consumers"
		}
		return "single-consumer"
	}
	mkDetail := func(what string, extra map[string]any) map[string]any {
		d := map[string]any{"what": what, "tick": m.Ticks(), "sent": fmt.Sprint(sent), "received": fmt.Sprint(recv), "external_outputs": m.Out()}
		for k, v := range extra {
			d[k] = v
		}
		return d
	}
	fail := func(what string, extra map[string]any) (string, map[string]any, int, []dupNote) {
		return what, mkDetail(what, extra), events, dups
	}
	seenDup := map[string]bool{}
	noteDupAt := func(key [2]int, pos int, extra map[string]any) {
		k := "duplicate-read:" + classOf(key)
		if !seenDup[k] {
			seenDup[k] = true
			dups = append(dups, dupNote{k, mkDetail(k, extra)})
		}
		// resynchronise: forget the second read of the same transfer
		recv[key] = append(recv[key][:pos], recv[key][pos+1:]...)
	}
	noteDup := func(key [2]int, extra map[string]any) { noteDupAt(key, len(recv[key])-1, extra) }
	for t := 0; t < maxTicks; t++ {
		if err := m.Step(); err != nil {
			return fail("execution-error", map[string]any{"err": err.Error()})
		}
		for p := 0; p < np; p++ {
			pc := m.Pc(p)
			if pc == prev[p] {
				continue
			}
			old := prev[p]
			prev[p] = pc
			if int(old) >= len(n.Procs[p].Prog) {
				continue
			}
			f := strings.Fields(n.Procs[p].Prog[old])
			switch f[0] {
			case "i2rw":
				r, _ := strconv.Atoi(f[1][1:])
				k, _ := strconv.Atoi(f[2][1:])
				key := [2]int{p, k}
				v := m.Reg(p, r)
				recv[key] = append(recv[key], v)
				events++
				src := srcOf[key]
				idx := len(recv[key]) - 1
				if src.kind == "ext" {
					st := c.Env.In[src.port]
					if idx >= len(st) {
						return fail("consumer-read-more-than-offered", map[string]any{"consumer": fmt.Sprintf("p%di%d", p, k)})
					}
					if st[idx] != v {
						if idx > 0 && st[idx-1] == v {
							noteDup(key, map[string]any{"consumer": fmt.Sprintf("p%di%d", p, k), "index": idx, "value_read_twice": v})
							continue
						}
						return fail("consumer-sequence-differs-from-offered:"+classOf(key), map[string]any{"consumer": fmt.Sprintf("p%di%d", p, k), "index": idx, "got": v, "want": st[idx]})
					}
				} else {
					pk := [2]int{src.proc, src.port}
					s := sent[pk]
					who := fmt.Sprintf("p%di%d", p, k)
					if idx < len(s) && s[idx] != v {
						if idx > 0 && recv[key][idx-1] == v {
							noteDup(key, map[string]any{"consumer": who, "index": idx, "value_read_twice": v})
							continue
						}
						return fail("consumer-sequence-differs-from-sent:"+classOf(key), map[string]any{"consumer": who, "index": idx, "got": v, "want": s[idx]})
					}
					if idx > len(s) {
						// two captures the producer has not completed yet: one of them reads a transfer twice
						first := len(s)
						switch {
						case first > 0 && recv[key][first] == recv[key][first-1]:
							noteDupAt(key, first, map[string]any{"consumer": who, "index": first, "value_read_twice": recv[key][first]})
						case recv[key][idx-1] == v:
							noteDup(key, map[string]any{"consumer": who, "index": idx, "value_read_twice": v})
						default:
							return fail("consumer-ahead-of-producer-by-more-than-one:"+classOf(key), map[string]any{"consumer": who, "captured": len(recv[key]), "producer_completed": len(s)})
						}
						if len(recv[key]) > len(s)+1 {
							return fail("consumer-ahead-of-producer-by-more-than-one:"+classOf(key), map[string]any{"consumer": who, "captured": len(recv[key]), "producer_completed": len(s)})
						}
					}
				}
			case "r2owa":
				r, _ := strconv.Atoi(f[1][1:])
				j, _ := strconv.Atoi(f[2][1:])
				key := [2]int{p, j}
				v := m.Reg(p, r)
				sent[key] = append(sent[key], v)
				events++
				idx := len(sent[key]) - 1
				for _, cin := range consumers[key] {
					for len(recv[cin]) > idx && recv[cin][idx] != v && idx > 0 && recv[cin][idx] == recv[cin][idx-1] {
						noteDupAt(cin, idx, map[string]any{"consumer": fmt.Sprintf("p%di%d", cin[0], cin[1]), "index": idx, "value_read_twice": recv[cin][idx]})
					}
					rc := recv[cin]
					if len(rc) <= idx {
						return fail("producer-proceeded-before-consumer-took-the-value", map[string]any{"producer": fmt.Sprintf("p%do%d", p, j), "value": v, "consumer": fmt.Sprintf("p%di%d", cin[0], cin[1]), "consumer_captured": len(rc)})
					}
					if rc[idx] != v {
						return fail("consumer-captured-a-different-value", map[string]any{"producer": fmt.Sprintf("p%do%d", p, j), "index": idx, "sent": v, "captured": rc[idx]})
					}
				}
			}
		}
		// external outputs against their producers
		outs := m.Out()
		done := len(outs) > 0
		for o, src := range extOutSrc {
			s := sent[src]
			got := outs[o]
			if len(got) > len(s)+1 {
				return fail("external-output-ahead-of-producer-by-more-than-one", map[string]any{"output": o})
			}
			for i := 0; i < len(got) && i < len(s); i++ {
				if got[i] != s[i] {
					return fail("external-output-sequence-differs-from-sent", map[string]any{"output": o, "index": i, "got": got[i], "want": s[i]})
				}
			}
			if len(got) < wantTransfers {
				done = false
			}
		}
		// the environment's view of the external inputs: nothing taken twice
		for i, taken := range m.InTaken() {
			for cin, src := range srcOf {
				if src.kind == "ext" && src.port == i && len(recv[cin]) > taken+1 {
					return fail("consumer-read-more-than-environment-handed-over:"+classOf(cin), map[string]any{"input": i, "consumer": fmt.Sprintf("p%di%d", cin[0], cin[1]), "environment_handed_over": taken, "consumer_completed_reads": len(recv[cin])})
				}
			}
		}
		if done {
			break
		}
	}
	for o := range extOutSrc {
		if len(m.Out()[o]) == 0 {
			// a dataflow net whose processors wait for each other in a cycle (program order) never
			// produces anything: that is a property of the generated net, not of the bonds
			return "no-progress", nil, events, dups
		}
	}
	return "", nil, events, dups
}

func runCase(scratch string, c caseT, maxTicks, want int) (string, map[string]any, int, []dupNote, error) {
	n := c.Net
	bm, err := n.Build()
	if err != nil {
		return "", nil, 0, nil, err
	}
	c.Net = n // Build filled in the programs
	var m bmsim.Machine
	if c.Back == "sim" {
		m, err = bmsim.NewGo(bm, c.Env)
	} else {
		var files map[string]string
		files, err = bmsim.Files(scratch, bm)
		if err == nil {
			m, err = bmsim.NewHDL(files, n.Inputs, n.Outputs, c.Env)
		}
	}
	if err != nil {
		return "", nil, 0, nil, err
	}
	defer m.Close()
	v, d, ev, dups := monitor(m, c, maxTicks, want)
	if d != nil {
		d["case"] = c
		d["text"] = c.Back + ": " + n.String()
	}
	for i := range dups {
		dups[i].detail["case"] = c
		dups[i].detail["text"] = c.Back + ": " + n.String()
	}
	return v, d, ev, dups, nil
}

func counter(n int) []uint64 {
	s := make([]uint64, n)
	for i := range s {
		s[i] = uint64(i + 1)
	}
	return s
}

func main() {
	tier, replay := hx.Args()
	run := evid.New("C04", tier, "exploration")
	run.Rule = "cases = (machine, environment, back end): fan-out k=1..3 with the full producer/consumer padding grid, back-to-back i2rw on one input, back-to-back r2owa, chains, and random dataflow nets with random paddings, input gaps and ack delays; each on the Go simulator and on the generated Verilog (vsim); events = completed r2owa / i2rw observed through pc/register probes; non-trivial = ≥8 handshake events observed and every external output produced ≥1 value; distinct by (back end, machine text, environment)"
	run.Assume = []string{"vsim executes the generated top-level Verilog; probes read the processors' _pc and _rN registers",
		"the environment follows the four-phase valid/received protocol (DESIGN Appendix B)"}
	run.Floor = 40
	scratch, clean := hx.Scratch("c04")
	defer clean()
	hx.SilenceStdout(filepath.Join(scratch, "lib.log"))
	maxTicks, want := 1500, 12
	if tier == "thorough" {
		maxTicks, want = 6000, 60
	}

	if replay != "" {
		w, err := evid.ReadWitness(replay)
		if err != nil {
			fmt.Fprintln(os.Stderr, err)
			os.Exit(2)
		}
		run.Floor = 0
		var c caseT
		b, _ := json.Marshal(w["case"])
		json.Unmarshal(b, &c)
		run.Eval(1)
		v, d, _, dups, err := runCase(scratch, c, maxTicks, want)
		if err != nil {
			fmt.Fprintln(os.Stderr, err)
			os.Exit(2)
		}
		for _, dn := range dups {
			run.Violation(dn.kind+":"+c.Back, dn.detail)
		}
		if v != "" {
			run.Violation(v+":"+c.Back, d)
		}
		os.Exit(run.Finish())
	}

	var cs []caseT
	add := func(n gen.NetSpec, env simdrv.Env, tag string) {
		for _, b := range []string{"sim", "hdl"} {
			cs = append(cs, caseT{Net: n, Env: env, Back: b, Tag: tag})
		}
	}
	envFor := func(n gen.NetSpec, gap, ack int) simdrv.Env {
		var e simdrv.Env
		for i := 0; i < n.Inputs; i++ {
			e.In = append(e.In, counter(400))
			e.Gap = append(e.Gap, gap)
		}
		for i := 0; i < n.Outputs; i++ {
			e.AckDelay = append(e.AckDelay, ack)
		}
		return e
	}
	// 1: fan-out with the padding grid
	maxPad := 4
	if tier == "thorough" {
		maxPad = 6
	}
	for k := 1; k <= 3; k++ {
		for pp := 0; pp <= maxPad; pp++ {
			for pc := 0; pc <= maxPad; pc++ {
				if k > 1 && tier != "thorough" && (pp+pc)%2 == 1 {
					continue
				}
				pads := []int{pc, (pc + 1) % (maxPad + 1), (pc * 2) % (maxPad + 1)}
				n := gen.FanOut(k, 8, pp, pads, false)
				add(n, envFor(n, pp%3, 1+pc%3), fmt.Sprintf("fanout%d", k))
			}
		}
	}
	// 2: back-to-back i2rw on the same input (consumer re-arms while valid may still be high)
	for pp := 0; pp <= maxPad; pp++ {
		n := gen.FanOut(1, 8, pp, []int{0}, true)
		n.Family = "fanout1-double-i2rw"
		add(n, envFor(n, 0, 1), "double-i2rw")
	}
	// 3: chains
	for k := 1; k <= 5; k++ {
		for pad := 0; pad <= 2; pad++ {
			n := gen.Chain(k, 16, []string{"inc r0"}, pad, (pad+1)%3)
			add(n, envFor(n, pad, 1+pad), "chain")
		}
	}
	// 4: random nets
	nRand := 40
	if tier == "thorough" {
		nRand = 600
	}
	rng := hx.RNG(run.Seed, "c04")
	for i := 0; i < nRand; i++ {
		n := gen.RandomNet(rng, 5, []string{"inc", "cpy", "add"})
		e := envFor(n, rng.IntN(4), 1+rng.IntN(3))
		for k := range e.In {
			for j := range e.In[k] {
				e.In[k][j] = rng.Uint64() & ((1 << n.Rsize) - 1)
				for j > 0 && e.In[k][j] == e.In[k][j-1] { // neighbours differ, so that a value read twice is recognisable
					e.In[k][j] = (e.In[k][j] + 1) & ((1 << n.Rsize) - 1)
				}
			}
		}
		add(n, e, "random-dag")
	}
	hx.Par(len(cs), func(i int) {
		c := cs[i]
		run.Eval(1)
		v, d, ev, dups, err := runCase(scratch, c, maxTicks, want)
		for _, dn := range dups {
			run.Violation(dn.kind+":"+c.Back, dn.detail)
		}
		if err != nil {
			if strings.Contains(err.Error(), "unsupported") {
				run.Inconclusive("vsim-unsupported")
			} else {
				run.Inconclusive("not-runnable:" + c.Back)
				run.Tally("not_runnable", err.Error())
			}
			return
		}
		run.Count("handshake_events_observed_"+c.Back, int64(ev))
		if v == "no-progress" {
			run.Inconclusive("net-deadlocks-by-construction")
			return
		}
		if v != "" {
			run.Violation(v+":"+c.Back, d)
			return
		}
		if ev >= 8 {
			run.Nontrivial(c.Back + "|" + c.Net.String() + fmt.Sprint(c.Env.Gap, c.Env.AckDelay))
		}
		if i < 2 {
			run.Sample(map[string]any{"backend": c.Back, "machine": c.Net.String(), "events": ev})
		}
	})
	os.Exit(run.Finish())
}
