// c05: an assembled BASM program means what its source says.
//
// Generated sources (pipelines of 1..3 CPs with labels, forward/backward jumps,
// counted loops, argument-less macros, mov in its pseudo forms, ROM data tables,
// every literal notation, register sizes 8/16/32) are assembled with pkg/basm in a
// fresh instance and the resulting BondMachine is simulated; the output streams
// (sync) or final output values (async) are compared with an independent
// interpretation of the source.
package main

import (
	"encoding/json"
	"fmt"
	"os"
	"path/filepath"
	"strings"

	"verif/internal/basmgen"
	"verif/internal/basmrun"
	"verif/internal/evid"
	"verif/internal/hx"
	"verif/internal/simdrv"
)

type caseT struct {
	Prog *basmgen.Program `json:"program"`
	In   [][]uint64       `json:"inputs"`
	Opt  string           `json:"options"` // "nodyn" or "minword"
	// directed sources written by hand (features the generator's AST does not have): the final
	// value of every external output is given with the source
	Raw      string   `json:"raw_source,omitempty"`
	RawName  string   `json:"raw_name,omitempty"`
	RawFinal []uint64 `json:"raw_final,omitempty"`
	// RawLines: per processor, an instruction its disassembly must contain (for features the Go
	// simulator cannot execute, e.g. call/ret)
	RawLines []string `json:"raw_lines,omitempty"`
}

func opts(o string) basmrun.Options {
	if o == "minword" {
		return basmrun.Options{ChooserMinWordSize: true}
	}
	return basmrun.Options{DisableDynamicalMatching: true}
}

func verdictRaw(c caseT) (kind string, w map[string]any, produced int) {
	w = map[string]any{"name": c.RawName, "source": c.Raw, "options": c.Opt, "expected_final": c.RawFinal}
	res, err := basmrun.Assemble(c.Raw, opts(c.Opt))
	if err != nil {
		w["err"] = err.Error()
		if strings.HasPrefix(err.Error(), "panic:") {
			return "assembler-panics", w, 0
		}
		return "rejected", w, 0
	}
	if len(c.RawLines) > 0 {
		var dis []string
		for pi, dom := range res.BM.Processors {
			d, err := res.BM.Domains[dom].Disassembler()
			if err != nil {
				w["err"] = err.Error()
				return "disassembly-fails", w, 0
			}
			dis = append(dis, strings.Join(strings.Fields(strings.ReplaceAll(d, "\n", " ; ")), " "))
			if pi < len(c.RawLines) && !strings.Contains(" ; "+dis[pi]+" ; ", " ; "+c.RawLines[pi]+" ; ") {
				w["disassembly"] = dis
				w["expected_line"] = fmt.Sprintf("processor %d: %s", pi, c.RawLines[pi])
				return "program-differs-from-source", w, pi
			}
		}
		return "", nil, len(dis) + 3
	}
	r, err := simdrv.Start(res.BM, simdrv.Env{})
	if err != nil {
		return "simulation-error", w, 0
	}
	defer r.Stop()
	for t := 0; t < 2000; t++ {
		if err := r.Tick(false); err != nil {
			return "simulation-error", w, 0
		}
	}
	var got []uint64
	for k := range r.VM.Outputs_regs {
		got = append(got, u64(r.VM.Outputs_regs[k]))
	}
	w["machine_final"] = got
	if fmt.Sprint(got) != fmt.Sprint(c.RawFinal) {
		return "final-values-differ", w, len(got)
	}
	return "", nil, len(got)
}

func verdictLocal(c caseT, want int) (kind string, w map[string]any, produced int) {
	if c.Raw != "" {
		return verdictRaw(c)
	}
	src := c.Prog.Text()
	w = map[string]any{"case": c, "source": src, "options": c.Opt}
	res, err := basmrun.Assemble(src, opts(c.Opt))
	if err != nil {
		w["err"] = err.Error()
		if strings.HasPrefix(err.Error(), "panic:") {
			return "assembler-panics", w, 0
		}
		return "rejected", w, 0
	}
	p := c.Prog
	if p.Sync {
		ref := p.Interpret(c.In, want, 200000, false)
		if ref.Invalid {
			return "rejected", map[string]any{"err": "generator: table read out of range"}, 0
		}
		env := simdrv.Env{In: c.In}
		r, err := simdrv.Run(res.BM, env, want, 6000, false)
		if err != nil {
			w["err"] = err.Error()
			return "simulation-error", w, 0
		}
		w["reference_streams"] = ref.Out
		w["machine_streams"] = r.Out
		bad := false
		for o := range ref.Out {
			n := len(ref.Out[o])
			if n > want {
				n = want
			}
			if o >= len(r.Out) || len(r.Out[o]) < n {
				bad = true
				continue
			}
			for i := 0; i < n; i++ {
				produced++
				if r.Out[o][i] != ref.Out[o][i] {
					bad = true
				}
			}
		}
		if len(r.Out) != len(ref.Out) {
			bad = true
		}
		if bad {
			// does the machine behave as if execution started at the first instruction?
			alt := p.Interpret(c.In, want, 200000, true)
			same := len(alt.Out) == len(r.Out)
			for o := range alt.Out {
				n := len(alt.Out[o])
				if n > want {
					n = want
				}
				if !same || len(r.Out[o]) < n {
					same = false
					break
				}
				for i := 0; i < n; i++ {
					if r.Out[o][i] != alt.Out[o][i] {
						same = false
					}
				}
			}
			if same && entryNotFirst(p) {
				return "entry-directive-ignored", w, produced
			}
			return "streams-differ", w, produced
		}
		return "", nil, produced
	}
	// async: final values at quiescence
	ref := p.Interpret(nil, 0, 200000, false)
	if ref.Invalid {
		return "rejected", map[string]any{"err": "generator: table read out of range"}, 0
	}
	r, err := simdrv.Start(res.BM, simdrv.Env{})
	if err != nil {
		return "simulation-error", w, 0
	}
	defer r.Stop()
	for t := 0; t < 3000; t++ {
		if err := r.Tick(false); err != nil {
			return "simulation-error", w, 0
		}
	}
	var got []uint64
	for k := range ref.Final {
		if k < len(r.VM.Outputs_regs) {
			got = append(got, u64(r.VM.Outputs_regs[k]))
		}
	}
	w["reference_final"] = ref.Final
	w["machine_final"] = got
	if fmt.Sprint(got) != fmt.Sprint(ref.Final) {
		alt := p.Interpret(nil, 0, 200000, true)
		if fmt.Sprint(got) == fmt.Sprint(alt.Final) && entryNotFirst(p) {
			return "entry-directive-ignored", w, len(got)
		}
		return "final-values-differ", w, len(got)
	}
	return "", nil, len(got)
}

// rawCases: hand-written sources with their expected final outputs.
func rawCases() []caseT {
	var cs []caseT
	// one template fragment called from five sections with different parameters
	{
		var sb strings.Builder
		sb.WriteString("%meta bmdef global registersize:8\n%fragment setk default_k:1\n\trset r1, {{ .Params.k }}\n\tinc r1\n%endfragment\n")
		ks := []int{5, 9, 3, 6, 12}
		var fin []string
		for c, k := range ks {
			fmt.Fprintf(&sb, "%%section t%d .romtext iomode:async k:%d\n\tentry _start\n_start:\n\tclr r0\n\tcall8s setk\n\tr2o r1, o0\n\tj _start\n%%endsection\n", c, k)
			fin = append(fin, fmt.Sprintf("rset r1 %d", k))
		}
		for c := range ks {
			fmt.Fprintf(&sb, "%%meta cpdef tcp%d romcode: t%d, execmode:ha\n%%meta ioatt to%d cp:tcp%d, index:0, type:output\n%%meta ioatt to%d cp:bm, index:%d, type:output\n", c, c, c, c, c, c)
		}
		cs = append(cs, caseT{Raw: sb.String(), RawName: "template-fragment-5-callers", RawLines: fin, Opt: "nodyn"})
		// a caller without the parameter takes the fragment's default
		src := "%meta bmdef global registersize:8\n%fragment setk default_k:7\n\trset r1, {{ .Params.k }}\n\tinc r1\n%endfragment\n" +
			"%section a .romtext iomode:async\n\tentry _start\n_start:\n\tclr r0\n\tcall8s setk\n\tr2o r1, o0\n\tj _start\n%endsection\n" +
			"%section b .romtext iomode:async k:2\n\tentry _start\n_start:\n\tclr r0\n\tcall8s setk\n\tr2o r1, o0\n\tj _start\n%endsection\n" +
			"%meta cpdef ca romcode: a, execmode:ha\n%meta cpdef cb romcode: b, execmode:ha\n" +
			"%meta ioatt oa cp:ca, index:0, type:output\n%meta ioatt oa cp:bm, index:0, type:output\n%meta ioatt ob cp:cb, index:0, type:output\n%meta ioatt ob cp:bm, index:1, type:output\n"
		cs = append(cs, caseT{Raw: src, RawName: "template-fragment-default-parameter", RawLines: []string{"rset r1 7", "rset r1 2"}, Opt: "nodyn"})
	}
	// fan-in written output-first with differing indices (a.o0 -> c.i0, b.o0 -> c.i1)
	{
		src := "%meta bmdef global registersize:8\n" +
			"%section sa .romtext iomode:async\n\tentry s\ns:\n\trset r0, 3\n\tr2o r0, o0\n\tj s\n%endsection\n" +
			"%section sb .romtext iomode:async\n\tentry s\ns:\n\trset r0, 5\n\tr2o r0, o0\n\tj s\n%endsection\n" +
			"%section sc .romtext iomode:async\n\tentry s\ns:\n\ti2r r0, i0\n\ti2r r1, i1\n\tadd r0, r1\n\tadd r0, r1\n\tr2o r0, o0\n\tj s\n%endsection\n" +
			"%meta cpdef cpua romcode: sa\n%meta cpdef cpub romcode: sb\n%meta cpdef cpuc romcode: sc\n" +
			"%meta ioatt la cp:cpua, index:0, type:output\n%meta ioatt la cp:cpuc, index:0, type:input\n" +
			"%meta ioatt lb cp:cpub, index:0, type:output\n%meta ioatt lb cp:cpuc, index:1, type:input\n" +
			"%meta ioatt lo cp:cpuc, index:0, type:output\n%meta ioatt lo cp:bm, index:0, type:output\n"
		cs = append(cs, caseT{Raw: src, RawName: "fan-in-output-first-different-indices", RawFinal: []uint64{13}, Opt: "nodyn"})
		// the same wiring written input-first
		src2 := strings.Replace(src, "%meta ioatt la cp:cpua, index:0, type:output\n%meta ioatt la cp:cpuc, index:0, type:input\n", "%meta ioatt la cp:cpuc, index:0, type:input\n%meta ioatt la cp:cpua, index:0, type:output\n", 1)
		src2 = strings.Replace(src2, "%meta ioatt lb cp:cpub, index:0, type:output\n%meta ioatt lb cp:cpuc, index:1, type:input\n", "%meta ioatt lb cp:cpuc, index:1, type:input\n%meta ioatt lb cp:cpub, index:0, type:output\n", 1)
		cs = append(cs, caseT{Raw: src2, RawName: "fan-in-input-first-different-indices", RawFinal: []uint64{13}, Opt: "nodyn"})
	}
	return cs
}

func u64(v interface{}) uint64 {
	switch x := v.(type) {
	case uint8:
		return uint64(x)
	case uint16:
		return uint64(x)
	case uint32:
		return uint64(x)
	case uint64:
		return x
	}
	return 0
}

func entryNotFirst(p *basmgen.Program) bool {
	for _, c := range p.CPs {
		if len(c.Items) > 0 && c.Items[0].Label != c.Entry {
			return true
		}
	}
	return false
}

func features(p *basmgen.Program) []string {
	f := map[string]bool{}
	for _, c := range p.CPs {
		if len(c.Data) > 0 {
			f["romdata"] = true
		}
		if len(c.More) > 0 {
			f["romdata-several-variables"] = true
		}
		if c.SharesCodeOf > 0 {
			f["shared-code-section"] = true
		}
		for _, it := range c.Items {
			if it.Macro {
				f["macro"] = true
			}
			if it.Op == "jz" {
				f["jz"] = true
			}
		}
	}
	if len(p.CPs) > 1 {
		f["multi-cp"] = true
		if p.SameLabelNames {
			f["label-names-reused-across-sections"] = true
		}
	}
	if p.GlobalIOMode != "" {
		if (p.GlobalIOMode == "sync") == p.Sync {
			f["global-iomode-agrees"] = true
		} else {
			f["global-iomode-differs-from-the-sections"] = true
		}
	}
	if entryNotFirst(p) {
		f["entry-not-first"] = true
	}
	var o []string
	for k := range f {
		o = append(o, k)
	}
	return o
}

type reply struct {
	Kind     string         `json:"kind"`
	W        map[string]any `json:"w"`
	Produced int            `json:"produced"`
}

// one pool per option set: assembling with dynamical matching registers rsetsN opcodes (and their
// "mov reg, number" matchers) in process-wide tables, which changes later assemblies in the same
// process; the command line tool is a fresh process per run, and so is each pool's history
var pools = map[string]*hx.Pool{}

// verdict evaluates one case in a worker process: the simulator's own goroutines may panic on a
// mis-assembled program (ROM read out of range) and that must not end the monitor.
func verdict(c caseT, want int) (string, map[string]any, int) {
	pool := pools[c.Opt]
	w := pool.Get()
	defer pool.Put(w)
	var r reply
	if err := w.Call(c, &r); err != nil {
		src := c.Raw
		if c.Prog != nil {
			src = c.Prog.Text()
		}
		return "simulation-crashed", map[string]any{"case": c, "source": src, "options": c.Opt, "err": err.Error()}, 0
	}
	return r.Kind, r.W, r.Produced
}

func main() {
	if os.Getenv("VERIF_WORKER") == "1" {
		hx.Serve(func(req []byte) any {
			var c caseT
			if err := json.Unmarshal(req, &c); err != nil {
				return reply{Kind: "bad-request"}
			}
			k, w, n := verdictLocal(c, 10)
			return reply{k, w, n}
		})
		return
	}
	tier, replay := hx.Args()
	run := evid.New("C05", tier, "exploration")
	run.Rule = "generated sources: pipelines of 1..3 CPs wired by ioatt, per CP an optional non-entry prelude, an entry label, labels, counted loops (dec/jz/j), conditional skips, macro calls, ROM table reads (mov r, rom:sym + ro2rri; one or several variables per data section), in one case out of six CPs declared with the code section of an earlier CP and their own data section (the same symbols at other offsets), mov in the forms reg←number/reg/input and output←reg (sync → i2rw/r2owa, async → r2o), literals in decimal/0x/0b/0d/0u, register sizes 8/16/32, each assembled with -disable-dynamical-matching and with -chooser-min-word-size; a source the assembler rejects is not a case; non-trivial = the machine produced ≥4 compared values; distinct by source text+options"
	run.Assume = []string{"the reference interpreter (internal/basmgen) works on the generator's AST: labels denote the next instruction, execution starts at the entry label, mov is the pseudo-instruction of docinstructions.md, sync I/O has Kahn-network semantics, arithmetic wraps at the register size",
		"topologies are pipelines without fan-out (fan-out duplicates are C04's recorded findings)"}
	run.Floor = 50
	scratch, clean := hx.Scratch("c05")
	defer clean()
	hx.SilenceStdout(filepath.Join(scratch, "lib.log"))
	for _, o := range []string{"nodyn", "minword"} {
		o := o
		pools[o] = hx.NewPool(func(i int) *hx.Worker {
			return hx.NewWorker(filepath.Join(scratch, fmt.Sprintf("worker-%s-%d.log", o, i)), "worker")
		})
		defer pools[o].Close()
	}
	want := 10
	for _, rc := range rawCases() {
		run.Eval(1)
		kind, w, _ := verdict(rc, want)
		switch kind {
		case "":
			run.Nontrivial("raw|" + rc.RawName)
		case "rejected":
			run.Inconclusive("directed-source-rejected:" + rc.RawName)
		default:
			run.Violation(kind+":directed:"+rc.RawName, w)
		}
	}
	one := func(c caseT) {
		run.Eval(1)
		kind, w, produced := verdict(c, want)
		switch kind {
		case "":
			if produced >= 4 {
				run.Nontrivial(c.Opt + "|" + c.Prog.Text())
			}
			for _, f := range features(c.Prog) {
				run.Tally("agreeing_cases_with_feature", f)
			}
		case "rejected":
			run.Inconclusive("source-rejected-by-assembler")
			run.Tally("rejection_reasons", c.Opt+": "+fmt.Sprint(w["err"]))
		default:
			// shrink: drop items while the same kind persists (the entry finding is already classified exactly)
			p := c.Prog
			for changed := kind != "entry-directive-ignored"; changed; {
				changed = false
				for ci := range p.CPs {
					if p.CPs[ci].SharesCodeOf > 0 {
						continue // its code is the code of an earlier CP, shrunk there
					}
					for ii := range p.CPs[ci].Items {
						it := p.CPs[ci].Items[ii]
						if it.Label != "" || it.Op == "j" || it.Op == "jz" {
							continue
						}
						if it.Op == "mov" && (it.Args[0][0] == 'o' || it.Args[1][0] == 'i') {
							continue
						}
						q := *p
						q.CPs = append([]basmgen.CP(nil), p.CPs...)
						q.CPs[ci].Items = append(append([]basmgen.Item(nil), p.CPs[ci].Items[:ii]...), p.CPs[ci].Items[ii+1:]...)
						for cj := range q.CPs {
							if q.CPs[cj].SharesCodeOf == ci+1 {
								q.CPs[cj].Items = q.CPs[ci].Items
							}
						}
						c2 := caseT{Prog: &q, In: c.In, Opt: c.Opt}
						if k2, w2, _ := verdict(c2, want); k2 == kind {
							p, w, c = &q, w2, c2
							changed = true
							break
						}
					}
					if changed {
						break
					}
				}
			}
			fs := features(c.Prog)
			sortS(fs)
			if kind == "entry-directive-ignored" {
				run.Violation(kind, w)
			} else {
				run.Violation(kind+":"+strings.Join(fs, "+"), w)
			}
		}
	}
	if replay != "" {
		w, err := evid.ReadWitness(replay)
		if err != nil {
			fmt.Fprintln(os.Stderr, err)
			os.Exit(2)
		}
		run.Floor = 0
		var c caseT
		b, _ := json.Marshal(w["case"])
		json.Unmarshal(b, &c)
		one(c)
		os.Exit(run.Finish())
	}
	n := 300
	if tier == "thorough" {
		n = 6000
	}
	rng := hx.RNG(run.Seed, "c05")
	var cs []caseT
	for i := 0; i < n; i++ {
		maxLit := uint64(0)
		if i%2 == 1 {
			maxLit = 31
		}
		p := basmgen.Generate(rng, i%5 != 0, maxLit)
		if i%6 == 4 {
			p = basmgen.GenerateWide(rng, i%5 != 0, maxLit)
		}
		if i%6 == 2 {
			// CPs declared with one shared code section and their own data sections
			p = basmgen.GenerateShared(rng, maxLit)
		}
		var in [][]uint64
		for k := 0; k < p.ExtIn; k++ {
			var s []uint64
			for j := 0; j < 40; j++ {
				s = append(s, rng.Uint64()&(uint64(1)<<uint(p.Rsize)-1))
			}
			in = append(in, s)
		}
		o := "nodyn"
		if i%2 == 1 {
			o = "minword"
		}
		cs = append(cs, caseT{Prog: p, In: in, Opt: o})
	}
	hx.Par(len(cs), func(i int) {
		one(cs[i])
		if i < 2 {
			run.Sample(map[string]any{"source": cs[i].Prog.Text(), "options": cs[i].Opt})
		}
	})
	os.Exit(run.Finish())
}

func sortS(s []string) {
	for i := 1; i < len(s); i++ {
		for j := i; j > 0 && s[j] < s[j-1]; j-- {
			s[j], s[j-1] = s[j-1], s[j]
		}
	}
}
