// c03: instruction encoding is a lossless, fixed-width, range-checked code.
//
// For sampled architectures and every opcode in them, instruction lines are
// generated from the operand-signature table (internal/gen/opsig.go): in-range
// tuples (exhaustive when the field product is small) and tuples with exactly
// one operand out of range. The monitor observes Arch.Assembler,
// Conproc.Decode_opcode and Machine.Disassembler of the real code.
package main

import (
	"encoding/json"
	"fmt"
	"math"
	"os"
	"path/filepath"
	"sort"
	"strconv"
	"strings"

	"github.com/BondMachineHQ/BondMachine/pkg/bmnumbers"
	"github.com/BondMachineHQ/BondMachine/pkg/procbuilder"
	"verif/internal/evid"
	"verif/internal/gen"
	"verif/internal/hx"
)

type archSpec struct {
	Rsize, R, N, M, L, O uint8
	Mode                 string
	Ops                  []string
	SOCount              int
	WordDelta            int // 0: automatic; >0: WordSize = natural+delta; <0: natural+delta (too small)
}

func (s archSpec) String() string {
	return fmt.Sprintf("rsize=%d R=%d N=%d M=%d L=%d O=%d mode=%s so=%d wd=%d ops=%s", s.Rsize, s.R, s.N, s.M, s.L, s.O, s.Mode, s.SOCount, s.WordDelta, strings.Join(s.Ops, ","))
}

func build(s archSpec) (*procbuilder.Machine, error) {
	m, err := gen.NewMachine(s.Rsize, s.R, s.N, s.M, s.L, s.O, s.Mode, s.Ops)
	if err != nil {
		return nil, err
	}
	m.Shared_constraints = gen.SharedConstraintsFor(s.Ops, s.SOCount)
	if s.WordDelta != 0 {
		nat := m.Max_word()
		ws := nat + s.WordDelta
		if ws < 1 || ws > 255 {
			return nil, fmt.Errorf("wordsize out of uint8")
		}
		m.WordSize = uint8(ws)
	}
	return m, nil
}

var dynOps = []string{"rsets3", "rsets8", "rsets13", "addfps16f8", "multfps16f8", "divfps16f8", "addfps8f4", "multfxps16f8", "addfxps16f8", "divfxps16f8",
	"callo8s", "calla8s", "ret8s", "callo4st", "ret4st", "push4t", "pull4t", "push16uu", "pull16uu", "addlqs8t1", "multlqs16t1", "divlqs8t1"}

func allOpNames() []string {
	var n []string
	for _, op := range procbuilder.Allopcodes {
		n = append(n, op.Op_get_name())
	}
	sort.Strings(n)
	return n
}

func normNum(tok string) (string, bool) {
	n, err := bmnumbers.ImportString(tok)
	if err != nil || n == nil {
		return "", false
	}
	b, _ := n.ExportBinary(false)
	v, err := strconv.ParseUint(b, 2, 64)
	if err != nil {
		return "", false
	}
	return strconv.FormatUint(v, 10), true
}

func asmLine(m *procbuilder.Machine, line string) (word string, err error, pan any) {
	defer func() {
		if r := recover(); r != nil {
			pan = r
		}
	}()
	p, e := m.Arch.Assembler([]byte(line + "\n"))
	if e != nil {
		return "", e, nil
	}
	if len(p.Slocs) != 1 {
		return "", fmt.Errorf("assembler returned %d words for one line", len(p.Slocs)), nil
	}
	return p.Slocs[0], nil, nil
}

func disasm(m *procbuilder.Machine, word string) (line string, err error, pan any) {
	defer func() {
		if r := recover(); r != nil {
			pan = r
		}
	}()
	mm := *m
	mm.Program = procbuilder.Program{Slocs: []string{word}}
	s, e := mm.Disassembler()
	return strings.TrimSpace(s), e, nil
}

type ctx struct {
	run  *evid.Run
	spec archSpec
	m    *procbuilder.Machine
}

func (c *ctx) viol(kind, op string, w map[string]any) {
	w["arch"] = c.spec
	w["arch_text"] = c.spec.String()
	w["max_word"] = c.m.Max_word()
	c.run.Violation(kind+":"+op, w)
}

// checkInRange: a fully in-range line.
func (c *ctx) checkInRange(opname string, opidx int, sig []gen.Field, vals []uint64, texts []string) {
	run := c.run
	m := c.m
	line := strings.TrimSpace(opname + " " + strings.Join(texts, " "))
	run.Eval(1)
	word, err, pan := asmLine(m, line)
	if pan != nil {
		c.viol("panic-asm", opname, map[string]any{"line": line, "panic": fmt.Sprint(pan)})
		return
	}
	if err != nil {
		run.Tally("inrange_rejected_by_opcode", opname)
		return
	}
	run.Tally("assembled_by_opcode", opname)
	run.Nontrivial(c.spec.String() + "|" + line)
	mw := m.Max_word()
	if len(word) != mw || strings.Trim(word, "01") != "" {
		kind := "width-long"
		if len(word) < mw {
			kind = "width-short"
		}
		c.viol(kind, opname, map[string]any{"line": line, "word": word, "len": len(word)})
		return
	}
	if id, _ := m.Conproc.Decode_opcode(word); id != opidx {
		c.viol("decode-opcode", opname, map[string]any{"line": line, "word": word, "decoded": id, "want": opidx})
		return
	}
	dis, derr, pan := disasm(m, word)
	if pan != nil {
		c.viol("panic-disasm", opname, map[string]any{"line": line, "word": word, "panic": fmt.Sprint(pan)})
		return
	}
	if derr != nil {
		c.viol("disasm-error", opname, map[string]any{"line": line, "word": word, "err": derr.Error()})
		return
	}
	// token-wise comparison after numeric normalisation
	want := []string{opname}
	for i, f := range sig {
		if f.IsNumeric() {
			want = append(want, strconv.FormatUint(vals[i], 10))
		} else {
			want = append(want, texts[i])
		}
	}
	got := strings.Fields(dis)
	for i, f := range sig {
		if i+1 < len(got) && f.IsNumeric() {
			if n, ok := normNum(got[i+1]); ok {
				got[i+1] = n
			}
		}
	}
	if strings.Join(got, " ") != strings.Join(want, " ") {
		kind := "disasm-differs"
		for i, f := range sig {
			if f.K == gen.KImm && vals[i] >= 1<<63 {
				kind = "disasm-differs-imm-bit63"
			}
		}
		c.viol(kind, opname, map[string]any{"line": line, "word": word, "disasm": dis, "want": strings.Join(want, " ")})
		return
	}
	// asm(disasm(w)) == w
	w2, err2, pan := asmLine(m, dis)
	if pan != nil || err2 != nil || w2 != word {
		c.viol("reasm-differs", opname, map[string]any{"line": line, "word": word, "disasm": dis, "reassembled": w2, "err": fmt.Sprint(err2), "panic": fmt.Sprint(pan)})
	}
}

// checkRejected: the line has one operand that does not fit / wrong arity.
func (c *ctx) checkRejected(opname, why, line string) {
	c.run.Eval(1)
	word, err, pan := asmLine(c.m, line)
	if pan != nil {
		c.viol("panic-asm", opname, map[string]any{"line": line, "panic": fmt.Sprint(pan), "why": why})
		return
	}
	c.run.Nontrivial(c.spec.String() + "|bad|" + line)
	if err == nil {
		kind := "accepted-out-of-range"
		if len(word) > c.m.Max_word() {
			kind = "accepted-out-of-range-overlong-word"
		}
		c.viol(kind+":"+why, opname, map[string]any{"line": line, "word": word, "len": len(word), "why": why})
	} else {
		c.run.Tally("rejections", why)
	}
}

func literalForms(v uint64, rng interface{ IntN(int) int }) string {
	switch rng.IntN(9) {
	case 0:
		return "0x" + strconv.FormatUint(v, 16)
	case 1:
		return "0b" + strconv.FormatUint(v, 2)
	case 2:
		return "0d" + strconv.FormatUint(v, 10)
	case 3:
		// a decimal literal with leading zeros is still decimal (017 is seventeen)
		return "0" + strconv.FormatUint(v, 10)
	case 4:
		return "00" + strconv.FormatUint(v, 10)
	case 5:
		return "0x" + strings.ToUpper(strconv.FormatUint(v, 16))
	case 6:
		return "0b0" + strconv.FormatUint(v, 2)
	}
	return strconv.FormatUint(v, 10)
}

func (c *ctx) doArch(seedName string, perOp int) {
	m := c.m
	rng := hx.RNG(c.run.Seed, seedName)
	for opidx, op := range m.Op {
		name := op.Op_get_name()
		sig, ok := gen.Sig(name)
		if !ok {
			c.run.Inconclusive("no-signature:" + name)
			continue
		}
		widths := make([]int, len(sig))
		counts := make([]uint64, len(sig))
		product := uint64(1)
		usable := true
		for i, f := range sig {
			b, cnt := gen.FieldWidth(&m.Arch, name, f)
			widths[i] = b
			if cnt == 0 {
				if b >= 64 {
					cnt = math.MaxUint64
				} else {
					cnt = 1 << uint(b)
				}
			}
			counts[i] = cnt
			if f.K == gen.KIn || f.K == gen.KOut || f.K == gen.KSO {
				if _, n := gen.FieldWidth(&m.Arch, name, f); n == 0 {
					usable = false // no input/output/SO to name: no in-range line exists
				}
			}
			if f.IsNumeric() && b == 0 {
				usable = false // e.g. a RAM address on a machine without RAM: the field has no values
			}
			if product < 1<<40 {
				if cnt > 1<<20 {
					product = 1 << 40
				} else {
					product *= cnt
				}
			}
		}
		if c.spec.WordDelta < 0 {
			// WordSize smaller than the widest opcode: an opcode that does not fit must be rejected
			// (the width an instruction needs is counted from /verif's own field table: some opcodes'
			// Op_get_instruction_len overstates what their assembler emits, e.g. m2rri counts a ROM address
			// it does not encode, and an instruction that does fit the overridden word is an ordinary line)
			need := m.Opcodes_bits()
			for _, f := range sig {
				b, _ := gen.FieldWidth(&m.Arch, name, f)
				need += b
			}
			if need > m.Max_word() && usable {
				vals := make([]uint64, len(sig))
				texts := make([]string, len(sig))
				for i, f := range sig {
					texts[i] = gen.Operand(f, 0)
					_ = vals
				}
				c.checkRejected(name, "wordsize-too-small", strings.TrimSpace(name+" "+strings.Join(texts, " ")))
				continue
			}
		}
		if usable {
			emit := func(vals []uint64, vary bool) {
				texts := make([]string, len(sig))
				for i, f := range sig {
					if f.IsNumeric() && vary {
						texts[i] = literalForms(vals[i], rng)
					} else {
						texts[i] = gen.Operand(f, vals[i])
					}
				}
				c.checkInRange(name, opidx, sig, vals, texts)
			}
			if product <= uint64(perOp) {
				vals := make([]uint64, len(sig))
				var rec func(i int)
				rec = func(i int) {
					if i == len(sig) {
						emit(append([]uint64(nil), vals...), false)
						return
					}
					for v := uint64(0); v < counts[i]; v++ {
						vals[i] = v
						rec(i + 1)
					}
				}
				rec(0)
				c.run.Tally("exhaustive_opcode_spaces", name)
			} else {
				for k := 0; k < perOp; k++ {
					vals := make([]uint64, len(sig))
					for i := range sig {
						cnt := counts[i]
						switch rng.IntN(6) {
						case 0:
							vals[i] = 0
						case 1:
							vals[i] = cnt - 1
						case 2:
							if widths[i] > 0 {
								vals[i] = (uint64(1) << uint(widths[i]-1)) % cnt
							}
						case 3:
							vals[i] = 1 % cnt
						default:
							if cnt == math.MaxUint64 {
								vals[i] = rng.Uint64()
							} else {
								vals[i] = rng.Uint64N(cnt)
							}
						}
					}
					emit(vals, true)
				}
			}
		}
		// --- one operand out of range ---
		base := make([]string, len(sig))
		for i, f := range sig {
			base[i] = gen.Operand(f, 0)
		}
		for i, f := range sig {
			if !usable {
				break
			}
			var bad []uint64
			cnt := counts[i]
			if cnt != math.MaxUint64 {
				bad = append(bad, cnt, cnt+1)
				if widths[i] < 63 && uint64(1)<<uint(widths[i]) != cnt {
					bad = append(bad, uint64(1)<<uint(widths[i]))
				}
				if f.IsNumeric() {
					bad = append(bad, cnt*2+1, math.MaxUint64)
				}
			}
			for _, v := range bad {
				t := append([]string(nil), base...)
				t[i] = gen.Operand(f, v)
				why := "reg"
				switch f.K {
				case gen.KIn:
					why = "input-index"
				case gen.KOut:
					why = "output-index"
				case gen.KImm, gen.KImmS:
					why = "immediate"
				case gen.KRomAddr, gen.KRamAddr, gen.KLoc:
					why = "address"
				case gen.KSO:
					why = "so-index"
				case gen.KU8, gen.KVmem:
					why = "number"
				}
				c.checkRejected(name, why, strings.TrimSpace(name+" "+strings.Join(t, " ")))
			}
			if f.IsNumeric() && f.K == gen.KImm && m.Rsize < 32 {
				t := append([]string(nil), base...)
				t[i] = "0f1.5" // a 32-bit pattern in a narrower register
				c.checkRejected(name, "immediate", strings.TrimSpace(name+" "+strings.Join(t, " ")))
			}
		}
		// wrong arity, unknown names
		if usable {
			if len(sig) > 0 {
				c.checkRejected(name, "arity", strings.TrimSpace(name+" "+strings.Join(base[:len(base)-1], " ")))
			}
			if len(sig) > 0 {
				c.checkRejected(name, "arity", strings.TrimSpace(name+" "+strings.Join(append(append([]string(nil), base...), "r0"), " ")))
			} else {
				// a surplus word after an operand-less mnemonic is outside the statement (no operand that "does not fit"): tallied only
				if _, err, _ := asmLine(c.m, name+" r0"); err == nil {
					c.run.Tally("surplus_operand_ignored_by_operandless_opcode", name)
				}
			}
			for i, f := range sig {
				if !f.IsNumeric() {
					t := append([]string(nil), base...)
					t[i] = "zz9"
					c.checkRejected(name, "unknown-name", strings.TrimSpace(name+" "+strings.Join(t, " ")))
					// names with a malformed index: negative, signed, padded, empty
					zero := gen.Operand(f, 0)
					prefix := strings.TrimSuffix(zero, "0")
					for _, bad := range []string{prefix + "-1", prefix + "+1", prefix + "-2", prefix, prefix + "0x1", prefix + "1.0"} {
						t := append([]string(nil), base...)
						t[i] = bad
						c.checkRejected(name, "malformed-index", strings.TrimSpace(name+" "+strings.Join(t, " ")))
					}
				}
			}
		}
	}
	c.checkRejected("nosuchop", "unknown-opcode", "nosuchop r0")
}

func sampleSpec(rng interface {
	IntN(int) int
}, pool []string, force []string) archSpec {
	s := archSpec{}
	s.Rsize = []uint8{8, 16, 32, 64}[rng.IntN(4)]
	s.R = uint8(1 + rng.IntN(4))
	s.N = uint8(rng.IntN(6))
	s.M = uint8(rng.IntN(6))
	s.L = uint8(rng.IntN(6))
	s.O = uint8(1 + rng.IntN(7))
	s.Mode = []string{"ha", "ha", "vn", "hy"}[rng.IntN(4)]
	if s.Mode != "ha" && s.L == 0 {
		s.L = 3
	}
	s.SOCount = 1 + rng.IntN(3)
	n := 1 + rng.IntN(len(pool))
	if rng.IntN(3) == 0 {
		n = 1 + rng.IntN(6)
	}
	perm := make([]int, len(pool))
	for i := range perm {
		perm[i] = i
	}
	for i := len(perm) - 1; i > 0; i-- {
		j := rng.IntN(i + 1)
		perm[i], perm[j] = perm[j], perm[i]
	}
	set := map[string]bool{}
	for _, f := range force {
		set[f] = true
	}
	for i := 0; i < n; i++ {
		set[pool[perm[i]]] = true
	}
	for k := range set {
		s.Ops = append(s.Ops, k)
	}
	sort.Strings(s.Ops)
	switch rng.IntN(6) {
	case 0:
		s.WordDelta = 3
	case 1:
		s.WordDelta = -1 - rng.IntN(3)
	}
	return s
}

func main() {
	tier, replay := hx.Args()
	run := evid.New("C03", tier, "exploration")
	run.Rule = "architectures sampled over Rsize×R×N×M×L×O×mode×opcode subset×shared-object counts×WordSize override; per opcode every in-range operand tuple when the field product ≤ bound, else boundary+random tuples in several literal notations, plus lines with exactly one operand out of range / wrong arity / unknown names; non-trivial = a line the assembler was asked to encode (distinct by architecture+line)"
	run.Assume = []string{"operand signatures (internal/gen/opsig.go) are /verif's transcription of the assembler syntax; field widths are the architecture's own",
		"an in-range line that the assembler rejects is allowed by the statement and only tallied (inrange_rejected_by_opcode)"}
	run.Floor = 500
	logdir, clean := hx.Scratch("c03")
	defer clean()
	hx.SilenceStdout(filepath.Join(logdir, "lib.log"))
	if err := gen.EnableLinearQuantizer(logdir); err != nil {
		fmt.Fprintln(os.Stderr, "lq ranges:", err)
	}
	for _, d := range dynOps {
		if gen.OpByName(d) == nil {
			run.Inconclusive("dynamic-op-not-created:" + d)
		}
	}
	pool := allOpNames()

	if replay != "" {
		w, err := evid.ReadWitness(replay)
		if err != nil {
			fmt.Fprintln(os.Stderr, err)
			os.Exit(2)
		}
		run.Floor = 0
		var spec archSpec
		remarshal(w["arch"], &spec)
		m, err := build(spec)
		if err != nil {
			fmt.Fprintln(os.Stderr, err)
			os.Exit(2)
		}
		c := &ctx{run, spec, m}
		c.doArch("replay", 200)
		os.Exit(run.Finish())
	}

	nArch, perOp := 150, 256
	if tier == "thorough" {
		nArch, perOp = 3000, 4096
	}
	specs := make([]archSpec, 0, nArch)
	rng := hx.RNG(run.Seed, "c03specs")
	for i := 0; i < nArch; i++ {
		var force []string
		if i < len(pool) {
			force = []string{pool[i]} // every opcode appears at least once
		}
		specs = append(specs, sampleSpec(rng, pool, force))
	}
	// directed: the widest configurations and R=1 special cases
	specs = append(specs,
		archSpec{Rsize: 64, R: 1, N: 1, M: 1, L: 1, O: 1, Mode: "ha", Ops: []string{"rset", "add", "j", "jz", "i2r", "r2o"}, SOCount: 1},
		archSpec{Rsize: 64, R: 4, N: 5, M: 5, L: 5, O: 7, Mode: "hy", Ops: pool, SOCount: 3},
		archSpec{Rsize: 8, R: 1, N: 1, M: 1, L: 0, O: 1, Mode: "ha", Ops: []string{"nop"}, SOCount: 1},
		archSpec{Rsize: 8, R: 2, N: 2, M: 2, L: 0, O: 3, Mode: "ha", Ops: []string{"rset", "tsp", "nop", "j"}, SOCount: 1},
		archSpec{Rsize: 8, R: 3, N: 3, M: 3, L: 4, O: 4, Mode: "vn", Ops: pool, SOCount: 2},
	)
	hx.Par(len(specs), func(i int) {
		s := specs[i]
		m, err := build(s)
		if err != nil {
			run.Inconclusive("arch-not-buildable")
			return
		}
		c := &ctx{run, s, m}
		c.doArch("c03arch"+strconv.Itoa(i), perOp)
		if i < 3 {
			run.Sample(map[string]any{"arch": s.String(), "max_word": m.Max_word(), "opcode_bits": m.Opcodes_bits()})
		}
	})
	run.Set("architectures", len(specs))
	os.Exit(run.Finish())
}

func remarshal(in any, out any) {
	b, _ := json.Marshal(in)
	json.Unmarshal(b, out)
}
