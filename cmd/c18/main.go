// c18: every generated HDL file set is self-consistent Verilog.
//
// A configuration matrix of machines (opcode sets, register sizes, execution
// modes, threading, shared objects × attached processors, commented output) is
// rendered with the repository's own Bondmachine.Write_verilog into a scratch
// directory; the monitor is vsim's lint over the whole file set, restricted to
// the error classes the property names.
package main

import (
	"encoding/json"
	"fmt"
	"os"
	"path/filepath"
	"regexp"
	"sort"
	"strconv"
	"strings"

	"github.com/BondMachineHQ/BondMachine/pkg/bondmachine"
	"github.com/BondMachineHQ/BondMachine/pkg/procbuilder"
	"verif/internal/evid"
	"verif/internal/gen"
	"verif/internal/hdl"
	"verif/internal/hx"
	"verif/internal/vsim"
)

type cfg struct {
	Name      string     `json:"name"`
	Rsize     uint8      `json:"rsize"`
	R         uint8      `json:"r"`
	N         uint8      `json:"n"`
	M         uint8      `json:"m"`
	L         uint8      `json:"l"`
	O         uint8      `json:"o"`
	Mode      string     `json:"mode"`
	Ops       []string   `json:"ops"`
	Threaded  int        `json:"threaded"`
	SO        []string   `json:"so"`
	Procs     int        `json:"procs"`
	ProcOps   [][]string `json:"proc_ops,omitempty"` // per-processor opcode sets (default: Ops for all)
	Commented bool       `json:"commented"`
	// ProcDomains: the domain every processor is an instance of (default: processor p = domain p); with
	// it, machines are built per domain (ProcOps indexes domains) and SOAttach says which shared
	// objects each processor is attached to (default: all)
	ProcDomains []int   `json:"proc_domains,omitempty"`
	SOAttach    [][]int `json:"so_attach,omitempty"`
	// ProcNM: inputs/outputs of every domain (default: N, M for all); Unbonded: every third port is
	// left without a bond and without an external port of its own
	ProcNM   [][2]int `json:"proc_n_m,omitempty"`
	Unbonded bool     `json:"unbonded,omitempty"`
}

func (c cfg) opsOf(p int) []string {
	if p < len(c.ProcOps) && len(c.ProcOps[p]) > 0 {
		return c.ProcOps[p]
	}
	return c.Ops
}

func (c cfg) String() string {
	s := fmt.Sprintf("%s rsize=%d R=%d N=%d M=%d L=%d O=%d mode=%s thr=%d procs=%d so=%v ops=%s", c.Name, c.Rsize, c.R, c.N, c.M, c.L, c.O, c.Mode, c.Threaded, c.Procs, c.SO, strings.Join(c.Ops, ","))
	for i, po := range c.ProcOps {
		s += fmt.Sprintf(" p%d=%s", i, strings.Join(po, ","))
	}
	return s
}

// program: one line per opcode that has an assemblable all-zero form
func program(m *procbuilder.Machine) []string {
	var prog []string
	for _, op := range m.Op {
		name := op.Op_get_name()
		sig, ok := gen.Sig(name)
		if !ok {
			continue
		}
		ops := []string{}
		usable := true
		for _, f := range sig {
			b, cnt := gen.FieldWidth(&m.Arch, name, f)
			if (f.K == gen.KIn || f.K == gen.KOut || f.K == gen.KSO) && cnt == 0 {
				usable = false
			}
			if f.IsNumeric() && b == 0 {
				usable = false
			}
			ops = append(ops, gen.Operand(f, 0))
		}
		// the program memory is the ROM (ha), the RAM (vn) or the larger of the two (hy)
		room := 1 << m.O
		switch {
		case m.Modes[0] == "vn", m.Modes[0] == "hy" && m.L > m.O:
			room = 1 << m.L
		}
		if usable && len(prog) < room-1 {
			prog = append(prog, strings.TrimSpace(name+" "+strings.Join(ops, " ")))
		}
	}
	return prog
}

func build(c cfg) (*bondmachine.Bondmachine, error) {
	var machs []*procbuilder.Machine
	nDom := c.Procs
	if len(c.ProcDomains) > 0 {
		nDom = 0
		for _, d := range c.ProcDomains {
			if d+1 > nDom {
				nDom = d + 1
			}
		}
	}
	for p := 0; p < nDom; p++ {
		pn, pm := c.N, c.M
		if p < len(c.ProcNM) {
			pn, pm = uint8(c.ProcNM[p][0]), uint8(c.ProcNM[p][1])
		}
		m, err := gen.NewMachine(c.Rsize, c.R, pn, pm, c.L, c.O, c.Mode, c.opsOf(p))
		if err != nil {
			return nil, err
		}
		m.Threaded = c.Threaded
		m.Shared_constraints = strings.Join(c.SO, ",")
		prog := program(m)
		if len(prog) == 0 {
			return nil, fmt.Errorf("no assemblable instruction")
		}
		if err := gen.Assemble(m, prog); err != nil {
			return nil, err
		}
		machs = append(machs, m)
	}
	var bonds [][2]string
	ins, outs := 0, 0
	port := 0
	for p := 0; p < c.Procs; p++ {
		pn, pm := int(c.N), int(c.M)
		d := p
		if p < len(c.ProcDomains) {
			d = c.ProcDomains[p]
		}
		if d < len(c.ProcNM) {
			pn, pm = c.ProcNM[d][0], c.ProcNM[d][1]
		}
		for i := 0; i < pn; i++ {
			port++
			if c.Unbonded && port%3 == 0 {
				continue
			}
			bonds = append(bonds, [2]string{fmt.Sprintf("p%di%d", p, i), fmt.Sprintf("i%d", ins)})
			ins++
		}
		for i := 0; i < pm; i++ {
			port++
			if c.Unbonded && port%3 == 0 {
				continue
			}
			bonds = append(bonds, [2]string{fmt.Sprintf("o%d", outs), fmt.Sprintf("p%do%d", p, i)})
			outs++
		}
	}
	var bm *bondmachine.Bondmachine
	if len(c.ProcDomains) > 0 {
		bm = new(bondmachine.Bondmachine)
		bm.Rsize = c.Rsize
		bm.Init()
		for i := 0; i < ins; i++ {
			bm.Add_input()
		}
		for i := 0; i < outs; i++ {
			bm.Add_output()
		}
		for _, m := range machs {
			bm.Domains = append(bm.Domains, m)
		}
		for _, d := range c.ProcDomains {
			bm.Add_processor(d)
		}
		for _, b := range bonds {
			bm.Add_bond([]string{b[0], b[1]})
		}
	} else {
		bm = gen.NewBM(c.Rsize, machs, ins, outs, bonds)
	}
	if len(c.SO) > 0 && len(c.SOAttach) > 0 {
		before := len(bm.Shared_objects)
		bm.Add_shared_objects(c.SO)
		if len(bm.Shared_objects) != before+len(c.SO) {
			return nil, fmt.Errorf("shared object not instantiated: %v", c.SO)
		}
		for p, list := range c.SOAttach {
			for _, so := range list {
				bm.Connect_processor_shared_object([]string{fmt.Sprint(p), fmt.Sprint(so)})
			}
		}
		return bm, nil
	}
	if len(c.SO) > 0 {
		before := len(bm.Shared_objects)
		bm.Add_shared_objects(c.SO)
		if len(bm.Shared_objects) != before+len(c.SO) {
			return nil, fmt.Errorf("shared object not instantiated: %v", c.SO)
		}
		for p := 0; p < c.Procs; p++ {
			for s := range c.SO {
				bm.Connect_processor_shared_object([]string{fmt.Sprint(p), fmt.Sprint(s)})
			}
		}
	}
	return bm, nil
}

var digits = regexp.MustCompile(`[0-9]+`)

func fileKind(f string) string {
	f = filepath.Base(f)
	return digits.ReplaceAllString(f, "#")
}

func normIdent(s string) string { return digits.ReplaceAllString(s, "#") }

// classes the statement names
var named = map[string]string{
	vsim.ClassSyntax:      "syntax",
	vsim.ClassNonV2001:    "syntax-not-verilog2001",
	vsim.ClassUndeclared:  "undeclared-identifier",
	vsim.ClassUndefModule: "undefined-module",
	vsim.ClassPortCount:   "port-count",
	vsim.ClassAssignKind:  "assignment-kind",
	vsim.ClassMultiDriver: "multiple-drivers",
}

var soOps = map[string][]string{
	"stack:4": {"r2t", "t2r"}, "queue:4": {"r2q", "q2r"}, "channel:": {"wrd", "wwr", "chc", "chw"}, "barrier:10": {"hit"}, "lfsr8:1": {"lfsr82r"},
	"sharedmem:4": {"r2s", "s2r"}, "uart:9600:4": {"r2u", "u2r"}, "kbd:k0": {"k2r"}, "vtextmem:0:3:3:16:16:1:20:3:16:16:2:40:3:16:16": {"r2v", "r2vri"},
}

func configs(tier string, seed int64) []cfg {
	var cs []cfg
	base := func(name string, rs uint8, ops []string) cfg {
		return cfg{Name: name, Rsize: rs, R: 2, N: 2, M: 2, L: 0, O: 4, Mode: "ha", Ops: ops, Procs: 1}
	}
	soOf := map[string]string{}
	for so, ops := range soOps {
		for _, o := range ops {
			soOf[o] = so
		}
	}
	var all []string
	for _, op := range procbuilder.Allopcodes {
		all = append(all, op.Op_get_name())
	}
	dyn := []string{"rsets5", "addfps16f8", "multfps16f8", "divfps16f8", "callo8s", "calla8s", "ret8s", "push4t", "pull4t"}
	for _, d := range dyn {
		if gen.OpByName(d) != nil {
			all = append(all, d)
		}
	}
	sort.Strings(all)
	// 1: one opcode at a time (+ j so that the program loops), three register sizes
	sizes := []uint8{8, 16, 32}
	if tier == "thorough" {
		sizes = []uint8{8, 16, 32, 64}
	}
	for _, op := range all {
		if strings.Contains(op, "fxps") || strings.Contains(op, "flpe") {
			continue // need files from /tmp/fxpcode or the external FloPoCo tool
		}
		if _, isSO := soOf[op]; isSO {
			continue // shared-object opcodes are rendered with their object, see 5
		}
		for _, rs := range sizes {
			if strings.HasSuffix(op, "f") && rs != 32 && (op == "addf" || op == "multf" || op == "divf" || op == "jgt0f" || op == "expf") {
				continue
			}
			if strings.HasSuffix(op, "f16") && rs != 16 {
				continue
			}
			if strings.Contains(op, "fps16") && rs != 16 {
				continue
			}
			c := base("single:"+op, rs, []string{op, "j"})
			switch op {
			case "m2r", "r2m", "r2mri", "m2rri", "calla8s":
				c.L = 3
			case "tsp":
				c.Threaded = 1
			}
			cs = append(cs, c)
		}
	}
	// 1b: one opcode at a time in the RAM-resident execution modes (the per-opcode templates guard
	// their side processes with the execute phase only there)
	for _, op := range all {
		if _, isSO := soOf[op]; isSO || strings.Contains(op, "fxps") || strings.Contains(op, "flpe") {
			continue
		}
		rs := uint8(8)
		switch {
		case op == "addf" || op == "multf" || op == "divf" || op == "jgt0f" || op == "expf":
			rs = 32
		case strings.HasSuffix(op, "f16") || strings.Contains(op, "fps16"):
			rs = 16
		}
		for _, mode := range []string{"vn", "hy"} {
			c := base("single-"+mode+":"+op, rs, []string{op, "j"})
			c.Mode, c.L = mode, 4
			if op == "tsp" {
				c.Threaded = 1
			}
			cs = append(cs, c)
		}
	}
	// 2: opcodes sharing helper registers
	pairs := [][]string{{"cmpr", "jcmpl"}, {"cmpr", "cmprlt", "cmpv", "jcmpl", "jcmpo", "jcmprio"}, {"i2r", "i2rw", "sicv3"}, {"i2r", "sic", "sicv2"}, {"r2o", "r2owa"}, {"r2o", "r2owa", "r2owaa"},
		{"i2rw", "r2owa", "add", "rset", "j"}, {"adc", "sbc", "clc", "cset", "incc", "cilc", "rsc", "mulc"}, {"addp", "multp", "divp"}, {"addf", "multf", "divf"}, {"addf16", "multf16", "divf16"},
		{"ro2r", "ro2rri", "rset"}, {"jz", "jc", "je", "jo", "ja"}, {"jri", "jria", "jrio"}, {"hlt", "dpc", "nop"}}
	for i, p := range pairs {
		rs := uint8(8)
		if strings.HasPrefix(p[0], "addf16") {
			rs = 16
		}
		if p[0] == "addf" {
			rs = 32
		}
		c := base(fmt.Sprintf("group%d:%s", i, strings.Join(p, "+")), rs, append(append([]string{}, p...), "j"))
		cs = append(cs, c)
		c.R, c.N, c.M = 1, 1, 1
		c.Name += ":R1"
		cs = append(cs, c)
		c.R, c.N, c.M = 3, 3, 3
		c.Name += "→R3"
		cs = append(cs, c)
		for _, mode := range []string{"vn", "hy"} {
			c := base(fmt.Sprintf("group%d-%s:%s", i, mode, strings.Join(p, "+")), rs, append(append([]string{}, p...), "j"))
			c.Mode, c.L = mode, 4
			cs = append(cs, c)
		}
	}
	// 3: execution modes
	for _, mode := range []string{"vn", "hy"} {
		for _, ops := range [][]string{{"add", "rset", "j", "nop"}, {"add", "rset", "j", "r2m", "m2r", "ja", "jo"}, {"i2rw", "r2owa", "j", "ro2rri", "m2rri", "inc"}} {
			c := base("mode:"+mode, 8, ops)
			c.Mode, c.L = mode, 4
			cs = append(cs, c)
		}
	}
	// 4: threading
	for thr := 1; thr <= 3; thr++ {
		c := base(fmt.Sprintf("threaded%d", thr), 8, []string{"add", "rset", "j", "nop", "i2rw", "r2owa", "tsp"})
		c.Threaded = thr
		cs = append(cs, c)
	}
	// 5: shared objects × attached processors
	var sos []string
	for so := range soOps {
		sos = append(sos, so)
	}
	sort.Strings(sos)
	for _, so := range sos {
		for procs := 1; procs <= 3; procs++ {
			c := base(fmt.Sprintf("so:%s×%d", so, procs), 8, append(append([]string{}, soOps[so]...), "j", "nop", "rset"))
			c.SO = []string{so}
			c.Procs = procs
			cs = append(cs, c)
		}
		// producer on p0, consumer(s) on the others
		if ops := soOps[so]; len(ops) >= 2 {
			for procs := 2; procs <= 3; procs++ {
				c := base(fmt.Sprintf("so-split:%s×%d", so, procs), 8, nil)
				c.SO = []string{so}
				c.Procs = procs
				c.ProcOps = append(c.ProcOps, []string{ops[0], "j", "rset"})
				for p := 1; p < procs; p++ {
					c.ProcOps = append(c.ProcOps, append(append([]string{}, ops[1:]...), "j", "rset"))
				}
				c.Ops = c.ProcOps[0]
				cs = append(cs, c)
			}
		}
	}
	// processors that are not "processor p = domain p": one domain instantiated twice with different
	// attachments, and two domains listed in reverse order
	// (senders only: two processors that both send to and receive from one stack/queue are the recorded
	// port-order finding)
	for _, so := range []string{"stack:4", "queue:4"} {
		ops := soOps[so][:1]
		c := base("so-shared-domain:"+so, 8, append(append([]string{}, ops...), "j", "nop", "rset"))
		c.SO = []string{so, strings.Replace(so, ":4", ":8", 1)}
		c.Procs, c.ProcDomains = 2, []int{0, 0}
		c.SOAttach = [][]int{{0, 1}, {1}}
		cs = append(cs, c)
		c2 := base("so-reversed-domains:"+so+"+lfsr8", 8, nil)
		c2.SO = []string{so, "lfsr8:1"}
		c2.Procs, c2.ProcDomains = 2, []int{1, 0}
		c2.ProcOps = [][]string{append(append([]string{}, ops...), "lfsr82r", "j", "rset"), append(append([]string{}, ops...), "j", "rset")}
		c2.Ops = c2.ProcOps[0]
		c2.SOAttach = [][]int{{0}, {0, 1}}
		cs = append(cs, c2)
	}
	// unusual port counts: processors without inputs or without outputs next to ordinary ones, many
	// external ports (two-digit names), ports left unbonded, 64 bit data
	for vi, nm := range [][][2]int{{{0, 2}, {2, 0}}, {{0, 1}, {1, 1}, {3, 0}}, {{6, 6}, {6, 6}}, {{0, 12}}, {{11, 0}}, {{1, 1}, {0, 0}}, {{3, 3}, {2, 2}, {1, 3}}} {
		for _, unb := range []bool{false, true} {
			for _, rs := range []uint8{8, 64} {
				c := base(fmt.Sprintf("ports%d-unbonded-%v", vi, unb), rs, []string{"rset", "j", "nop", "add"})
				c.Procs, c.ProcNM, c.Unbonded = len(nm), nm, unb
				cs = append(cs, c)
			}
		}
	}
	for _, np := range []int{10, 12} {
		c := base(fmt.Sprintf("procs%d", np), 8, []string{"rset", "j", "i2rw", "r2owa"})
		c.Procs, c.N, c.M = np, 1, 1
		cs = append(cs, c)
	}
	// two kinds at once
	cs = append(cs, func() cfg {
		c := base("so:stack+queue×2", 8, []string{"r2t", "t2r", "r2q", "q2r", "j", "nop"})
		c.SO = []string{"stack:4", "queue:4"}
		c.Procs = 2
		return c
	}())
	// 5b: helper declarations shared between opcodes (declared by whichever opcode of a family comes
	// first): every pair and every triple inside the families
	fams := [][]string{{"cmpr", "cmprlt", "cmpv", "jcmpl", "jcmpo", "jcmpa", "jcmpria", "jcmprio"}, {"adc", "sbc", "clc", "cset", "incc", "cilc", "rsc", "jc"},
		{"ro2r", "ro2rri"}, {"i2r", "i2rw", "sic", "sicv2", "sicv3"}, {"r2o", "r2owa", "r2owaa"}, {"m2r", "r2m", "m2rri", "r2mri"}}
	for fi, fam := range fams {
		var present []string
		for _, o := range fam {
			if gen.OpByName(o) != nil {
				present = append(present, o)
			}
		}
		add := func(sub []string) {
			c := base(fmt.Sprintf("family%d:%s", fi, strings.Join(sub, "+")), 8, append(append([]string{}, sub...), "j"))
			c.L = 3
			cs = append(cs, c)
		}
		for a := 0; a < len(present); a++ {
			for b := a + 1; b < len(present); b++ {
				add([]string{present[a], present[b]})
				if tier == "thorough" || (a+b)%3 == 0 {
					for d := b + 1; d < len(present); d++ {
						add([]string{present[a], present[b], present[d]})
					}
				}
			}
		}
	}
	// 5c: opcodes that bring helper modules, stacks or per-family declarations — two of them in one
	// processor, one of them in two processors, two parameterisations of one family
	helperSets := [][]string{{"rsets3", "rsets13"}, {"rsets5", "rsets8", "rsets13"}, {"addfps16f8", "multfps16f8"}, {"addfps16f8", "addfps8f4"}, {"multfps16f8", "divfps16f8", "addfps16f8"},
		{"push4t", "pull4t", "push16uu", "pull16uu"}, {"push4t", "push16uu"}, {"callo8s", "ret8s", "callo4st", "ret4st"}, {"callo8s", "calla8s", "ret8s", "push4t", "pull4t"},
		{"addf", "multf"}, {"addf", "divf"}, {"multf", "divf"}, {"addf", "multf", "divf", "jgt0f"}, {"addf16", "multf16", "divf16"}, {"addp", "multp"}, {"addp", "divp"}, {"multp", "divp", "addp"},
		{"addlqs8t1", "multlqs8t1"}, {"addfps16f8", "addp", "rsets5"},
		// a call stack and a register stack of the same depth and name in one processor: two different
		// hardware stacks (restack…/regstack…) whose opcode names share the suffix
		{"callo4s", "ret4s", "push4s", "pull4s"}, {"ret4s", "push4s", "pull4s"}, {"calla8t", "ret8t", "pull8t"}, {"callo4s", "calla4s", "ret4s", "push4s", "pull4s", "push8s", "pull8s"}}
	for hi, hs := range helperSets {
		ok := true
		for _, o := range hs {
			if gen.OpByName(o) == nil {
				ok = false
			}
		}
		if !ok {
			continue
		}
		rs := uint8(8)
		switch {
		case strings.HasPrefix(hs[0], "addf") && !strings.HasPrefix(hs[0], "addf16") && !strings.HasPrefix(hs[0], "addfps") || hs[0] == "multf":
			rs = 32
		case strings.Contains(hs[0], "f16") || strings.Contains(hs[0], "fps16"):
			rs = 16
		}
		for procs := 1; procs <= 2; procs++ {
			c := base(fmt.Sprintf("helpers%d×%d:%s", hi, procs, strings.Join(hs, "+")), rs, append(append([]string{}, hs...), "j", "rset"))
			c.Procs, c.L = procs, 3
			cs = append(cs, c)
		}
	}
	// 6: commented output
	cc := base("commented", 8, []string{"add", "rset", "j", "i2rw", "r2owa"})
	cc.Commented = true
	cs = append(cs, cc)
	// every opcode alone with comments on (a comment in the wrong place breaks one template only)
	for _, op := range all {
		if _, isSO := soOf[op]; isSO || strings.Contains(op, "fxps") || strings.Contains(op, "flpe") {
			continue
		}
		rs := uint8(8)
		switch {
		case op == "addf" || op == "multf" || op == "divf" || op == "jgt0f" || op == "expf":
			rs = 32
		case strings.HasSuffix(op, "f16") || strings.Contains(op, "fps16"):
			rs = 16
		}
		c := base("single-commented:"+op, rs, []string{op, "j"})
		c.Commented = true
		switch op {
		case "m2r", "r2m", "r2mri", "m2rri", "calla8s":
			c.L = 3
		case "tsp":
			c.Threaded = 1
		}
		cs = append(cs, c)
	}
	// threading depth x execution mode x RAM
	for thr := 1; thr <= 3; thr++ {
		for _, mode := range []string{"ha", "vn", "hy"} {
			c := base(fmt.Sprintf("threaded%d-%s", thr, mode), 8, []string{"add", "rset", "j", "i2rw", "r2owa", "tsp", "r2m", "m2r"})
			c.Threaded, c.Mode, c.L = thr, mode, 3
			cs = append(cs, c)
		}
	}
	// ROM/RAM sizes at the small end and word widths over a wide range
	for _, o := range []uint8{1, 2, 6} {
		for _, l := range []uint8{1, 2, 5} {
			for _, rs := range []uint8{8, 32, 64} {
				c := base(fmt.Sprintf("mem:O%d-L%d", o, l), rs, []string{"rset", "j", "r2m", "m2r", "inc"})
				c.O, c.L = o, l
				cs = append(cs, c)
			}
		}
	}
	// 7: random opcode subsets
	nRand := 60
	if tier == "thorough" {
		nRand = 1500
	}
	rng := hx.RNG(seed, "c18rand")
	plain := []string{}
	for _, op := range all {
		if _, isSO := soOf[op]; isSO || strings.Contains(op, "fxps") || strings.Contains(op, "flpe") {
			continue
		}
		plain = append(plain, op)
	}
	for i := 0; i < nRand; i++ {
		k := 2 + rng.IntN(10)
		set := map[string]bool{"j": true}
		for len(set) < k {
			set[plain[rng.IntN(len(plain))]] = true
		}
		var ops []string
		for o := range set {
			ops = append(ops, o)
		}
		sort.Strings(ops)
		c := base(fmt.Sprintf("random%d", i), []uint8{8, 16, 32}[rng.IntN(3)], ops)
		c.R = uint8(1 + rng.IntN(3))
		c.N = uint8(rng.IntN(4))
		c.M = uint8(rng.IntN(4))
		c.L = uint8(1 + rng.IntN(4))
		c.O = uint8(2 + rng.IntN(4))
		c.Procs = 1 + rng.IntN(2)
		c.Mode = []string{"ha", "ha", "vn", "hy"}[rng.IntN(4)]
		if rng.IntN(5) == 0 {
			c.Threaded = 1 + rng.IntN(3)
		}
		for _, o := range ops {
			if o == "tsp" && c.Threaded == 0 {
				c.Threaded = 1
			}
		}
		cs = append(cs, c)
	}
	return cs
}

type finding struct {
	key3    string // class:ident:filekind
	dg      vsim.Diag
	snippet string
}

// render builds, renders and lints one configuration.
var (
	instLineRe = regexp.MustCompile(`(?m)^\s*(\w+)\s+\w+\s*\(([^;]*)\);`)
	modHeadRe  = regexp.MustCompile(`(?s)module\s+(\w+)\s*\(([^)]*)\)`)
)

// implicitOnWidePort returns the width of the widest port that the (undeclared) identifier is
// connected to by position in any instance of the file set, 0 when none is found.
func implicitOnWidePort(files map[string]string, ident string) int {
	heads := map[string][]string{}
	bodies := map[string]string{}
	for _, txt := range files {
		for _, m := range modHeadRe.FindAllStringSubmatch(txt, -1) {
			var ports []string
			for _, p := range strings.Split(m[2], ",") {
				f := strings.Fields(p)
				if len(f) > 0 {
					ports = append(ports, f[len(f)-1])
				}
			}
			heads[m[1]] = ports
			bodies[m[1]] = txt
		}
	}
	widest := 0
	for _, txt := range files {
		for _, m := range instLineRe.FindAllStringSubmatch(txt, -1) {
			ports, ok := heads[m[1]]
			if !ok {
				continue
			}
			for k, a := range strings.Split(m[2], ",") {
				if strings.TrimSpace(a) != ident || k >= len(ports) {
					continue
				}
				re := regexp.MustCompile(`(?m)^\s*(?:input|output|inout)\s*(?:reg|wire)?\s*\[\s*(\d+)\s*:\s*(\d+)\s*\]\s*` + regexp.QuoteMeta(ports[k]) + `\s*;`)
				if w := re.FindStringSubmatch(bodies[m[1]]); w != nil {
					hi, _ := strconv.Atoi(w[1])
					lo, _ := strconv.Atoi(w[2])
					if hi-lo+1 > widest {
						widest = hi - lo + 1
					}
				}
			}
		}
	}
	return widest
}

func render(scratch string, c cfg) (fs []finding, other []string, files map[string]string, err error, genErr error) {
	bm, err := build(c)
	if err != nil {
		return nil, nil, nil, err, nil
	}
	conf := new(bondmachine.Config)
	conf.CommentedVerilog = c.Commented
	files, gerr := hdl.FileSet(scratch, bm, conf, "iverilog")
	if gerr != nil {
		return nil, nil, nil, nil, gerr
	}
	if dump := os.Getenv("VERIF_C18_DUMP"); dump != "" && strings.Contains(c.Name, os.Getenv("VERIF_C18_DUMP_NAME")) {
		os.MkdirAll(dump, 0o755)
		for n, t := range files {
			os.WriteFile(filepath.Join(dump, filepath.Base(n)), []byte(t), 0o644)
		}
	}
	d, diags := vsim.ParseFiles(files)
	diags = append(diags, d.Lint("", nil)...)
	// an identifier that only appears in a port connection is used without a declaration in scope; the
	// language then makes it an implicit 1-bit net, which is harmless for a 1-bit port (the unchanged
	// generator does that for the valid/received lines of unbonded inputs) and cannot be what was meant
	// for a wider port: only the latter is reported, with the undeclared identifiers
	for _, dg := range d.ImplicitNets() {
		if w := implicitOnWidePort(files, dg.Ident); w > 1 {
			dg.Class = vsim.ClassUndeclared
			dg.Msg = fmt.Sprintf("identifier %s is not declared: it only appears in a port connection, where the language makes it an implicit 1-bit net, but the port is %d bits wide", dg.Ident, w)
			diags = append(diags, dg)
		}
	}
	seen := map[string]bool{}
	for _, dg := range diags {
		cls, ok := named[dg.Class]
		if !ok {
			o := dg.Class
			if dg.Class == vsim.ClassUnsupported {
				o += ": " + fileKind(dg.File) + ": " + dg.Msg
			}
			other = append(other, o)
			continue
		}
		k := cls + ":" + normIdent(dg.Ident) + ":" + fileKind(dg.File)
		if seen[k] {
			continue
		}
		seen[k] = true
		snippet := ""
		if src, ok := files[dg.File]; ok {
			ls := strings.Split(src, "\n")
			if dg.Line >= 1 && dg.Line <= len(ls) {
				snippet = strings.TrimSpace(ls[dg.Line-1])
			}
		}
		fs = append(fs, finding{k, dg, snippet})
	}
	return
}

func has(scratch string, c cfg, key3 string) bool {
	fs, _, _, err, gerr := render(scratch, c)
	if err != nil || gerr != nil {
		return false
	}
	for _, f := range fs {
		if f.key3 == key3 {
			return true
		}
	}
	return false
}

func without(l []string, i int) []string {
	return append(append([]string{}, l[:i]...), l[i+1:]...)
}

// shrink reduces the configuration while the finding persists, so that the key names its cause.
func shrink(scratch string, c cfg, key3 string) cfg {
	try := func(c2 cfg) bool {
		if has(scratch, c2, key3) {
			c = c2
			return true
		}
		return false
	}
	for changed := true; changed; {
		changed = false
		if c.Procs > 1 {
			c2 := c
			c2.Procs = c.Procs - 1
			if len(c2.ProcOps) > c2.Procs {
				c2.ProcOps = c2.ProcOps[:c2.Procs]
			}
			if try(c2) {
				changed = true
				continue
			}
		}
		if len(c.ProcOps) > 0 {
			for p := range c.ProcOps {
				for i := range c.ProcOps[p] {
					if len(c.ProcOps[p]) <= 1 {
						break
					}
					c2 := c
					c2.ProcOps = append([][]string{}, c.ProcOps...)
					c2.ProcOps[p] = without(c.ProcOps[p], i)
					c2.Ops = c2.ProcOps[0]
					if try(c2) {
						changed = true
						break
					}
				}
			}
		} else {
			for i := range c.Ops {
				if len(c.Ops) <= 1 {
					break
				}
				c2 := c
				c2.Ops = without(c.Ops, i)
				if try(c2) {
					changed = true
					break
				}
			}
		}
		if c.Threaded > 0 {
			c2 := c
			c2.Threaded = 0
			if try(c2) {
				changed = true
			}
		}
		if len(c.SO) > 0 {
			c2 := c
			c2.SO = without(c.SO, len(c.SO)-1)
			if try(c2) {
				changed = true
			}
		}
		if c.Mode != "ha" {
			c2 := c
			c2.Mode = "ha"
			if try(c2) {
				changed = true
			}
		}
	}
	// neutralisation: an opcode that can be replaced by the neutral "rset" is not part of the cause
	neutral := func(l []string) [][]string {
		var out [][]string
		for i, o := range l {
			if o == "rset" {
				continue
			}
			n := append([]string{}, l...)
			n[i] = "rset"
			// de-duplicate
			seen := map[string]bool{}
			var d []string
			for _, x := range n {
				if !seen[x] {
					seen[x] = true
					d = append(d, x)
				}
			}
			out = append(out, d)
		}
		return out
	}
	for changed := true; changed; {
		changed = false
		if len(c.ProcOps) > 0 {
			for p := range c.ProcOps {
				for _, n := range neutral(c.ProcOps[p]) {
					c2 := c
					c2.ProcOps = append([][]string{}, c.ProcOps...)
					c2.ProcOps[p] = n
					c2.Ops = c2.ProcOps[0]
					if try(c2) {
						changed = true
						break
					}
				}
			}
		} else {
			for _, n := range neutral(c.Ops) {
				c2 := c
				c2.Ops = n
				if try(c2) {
					changed = true
					break
				}
			}
		}
	}
	return c
}

func nonNeutral(l []string) []string {
	var o []string
	for _, x := range l {
		if x != "rset" {
			o = append(o, x)
		}
	}
	sort.Strings(o)
	if len(o) == 0 {
		return []string{"any"}
	}
	return o
}

func ctxOf(c cfg) string {
	var parts []string
	uniform := true
	for _, po := range c.ProcOps {
		if strings.Join(nonNeutral(po), "+") != strings.Join(nonNeutral(c.ProcOps[0]), "+") {
			uniform = false
		}
	}
	if len(c.ProcOps) > 0 && uniform {
		c.Ops = c.ProcOps[0]
		c.ProcOps = nil
	}
	if len(c.ProcOps) > 0 {
		for p, po := range c.ProcOps {
			o := nonNeutral(po)
			parts = append(parts, fmt.Sprintf("p%d=%s", p, strings.Join(o, "+")))
		}
	} else {
		parts = append(parts, "ops="+strings.Join(nonNeutral(c.Ops), "+"))
	}
	if c.Procs > 1 {
		parts = append(parts, fmt.Sprintf("procs=%d", c.Procs))
	}
	if c.Mode != "ha" {
		parts = append(parts, "mode="+c.Mode)
	}
	if c.Threaded > 0 {
		parts = append(parts, "threaded")
	}
	for _, so := range c.SO {
		parts = append(parts, "so="+strings.Split(so, ":")[0])
	}
	return strings.Join(parts, ",")
}

func lintOne(run *evid.Run, scratch string, c cfg) {
	run.Eval(1)
	fs, other, files, err, gerr := render(scratch, c)
	if err != nil {
		run.Inconclusive("not-buildable")
		run.Tally("not_buildable", c.Name+": "+err.Error())
		return
	}
	if gerr != nil {
		run.Violation("generator-failed:"+ctxOf(c), map[string]any{"config": c, "text": c.String(), "err": gerr.Error()})
		return
	}
	run.Nontrivial(c.String())
	run.Count("files_linted", int64(len(files)))
	lines := 0
	for _, t := range files {
		lines += strings.Count(t, "\n")
	}
	run.Count("lines_linted", int64(lines))
	for _, o := range other {
		run.Tally("other_diagnostics_not_in_statement", o)
	}
	for _, f := range fs {
		small := shrink(scratch, c, f.key3)
		run.Violation(f.key3+":"+ctxOf(small), map[string]any{"config": small, "text": small.String(), "found_in": c.String(), "file": f.dg.File, "line": f.dg.Line, "class": f.dg.Class, "ident": f.dg.Ident, "msg": f.dg.Msg, "source_line": f.snippet})
	}
}

func main() {
	tier, replay := hx.Args()
	run := evid.New("C18", tier, "exploration")
	run.Rule = "configuration matrix: every opcode alone (× register sizes), groups of opcodes sharing helper registers (× R=1,2,3), modes vn/hy, Threaded 1..3, every shared-object kind × 1..3 attached processors, commented output, seeded random opcode subsets; each rendered by Bondmachine.Write_verilog (flavor iverilog) and linted as a whole file set; non-trivial = a file set that was produced and linted, distinct by configuration"
	run.Assume = []string{"vsim's lint (internal/vsim, validated by its own positive/negative corpus) stands in for a standard Verilog front end",
		"only the classes named by the statement are violations (syntax incl. non-Verilog-2001 constructs, undeclared identifier, undefined module, port count, assignment kind, multiple drivers); duplicate declarations, over-wide sized literals and combinational loops are tallied, not judged",
		"fxps/flpe opcodes need files from /tmp/fxpcode or the external FloPoCo tool and are not rendered"}
	run.Floor = 50
	scratch, clean := hx.Scratch("c18")
	defer clean()
	hx.SilenceStdout(filepath.Join(scratch, "lib.log"))
	if replay != "" {
		w, err := evid.ReadWitness(replay)
		if err != nil {
			fmt.Fprintln(os.Stderr, err)
			os.Exit(2)
		}
		run.Floor = 0
		var c cfg
		b, _ := json.Marshal(w["config"])
		json.Unmarshal(b, &c)
		lintOne(run, scratch, c)
		os.Exit(run.Finish())
	}
	cs := configs(tier, run.Seed)
	hx.Par(len(cs), func(i int) {
		lintOne(run, scratch, cs[i])
		if i == 3 || i == len(cs)-1 {
			run.Sample(cs[i].String())
		}
	})
	run.Set("configurations", len(cs))
	os.Exit(run.Finish())
}
