// c07: every build step is a function of its inputs.
//
// The command line tools are built from the working tree and run as fresh child
// processes n times on the same inputs with GOMAXPROCS ∈ {1,2,4,16}; the monitor
// compares the SHA-256 of every produced artefact. The assembler is additionally
// run several times inside one process through its library API.
package main

import (
	"bytes"
	"context"
	"crypto/sha256"
	"encoding/hex"
	"fmt"
	"os"
	"os/exec"
	"path/filepath"
	"sort"
	"strings"
	"time"

	"verif/internal/asmw"
	"verif/internal/basmgen"
	"verif/internal/evid"
	"verif/internal/hx"
)

type job struct {
	Name    string
	Tool    string
	Files   map[string]string // inputs written into the run directory
	Args    []string
	Outputs []string // relative paths; "DIR" = every file in the run directory that is not an input
	Class   string   // input class for violation keys
}

var tools = []string{"basm", "neuralbond", "bmqsim", "bondmachine", "bondgo"}

func buildTools(scratch string) (string, error) {
	bin := filepath.Join(scratch, "bin")
	os.MkdirAll(bin, 0o755)
	repo := os.Getenv("VERIF_REPO")
	if repo == "" {
		repo = "/repo"
	}
	for _, t := range tools {
		cmd := exec.Command("go", "build", "-tags", "verif", "-o", filepath.Join(bin, t), "./cmd/"+t)
		cmd.Dir = repo
		if out, err := cmd.CombinedOutput(); err != nil {
			return "", fmt.Errorf("go build %s: %v\n%s", t, err, out)
		}
	}
	return bin, nil
}

type outcome struct {
	digest string
	files  map[string]string
	failed string
}

func runOnce(bin, dir string, j job, gmp int, timeout time.Duration) outcome {
	os.MkdirAll(dir, 0o755)
	for n, c := range j.Files {
		os.WriteFile(filepath.Join(dir, n), []byte(c), 0o644)
	}
	ctx, cancel := context.WithTimeout(context.Background(), timeout)
	defer cancel()
	cmd := exec.CommandContext(ctx, filepath.Join(bin, j.Tool), j.Args...)
	cmd.Dir = dir
	cmd.Env = append(os.Environ(), fmt.Sprintf("GOMAXPROCS=%d", gmp))
	var ob bytes.Buffer
	cmd.Stdout = &ob
	cmd.Stderr = &ob
	err := cmd.Run()
	if ctx.Err() != nil {
		return outcome{failed: "timeout"}
	}
	var names []string
	for _, o := range j.Outputs {
		if o == "STDOUT" { // what the tool printed is an artefact of this job
			os.WriteFile(filepath.Join(dir, "STDOUT"), ob.Bytes(), 0o644)
		}
		if o == "DIR" {
			ents, _ := os.ReadDir(dir)
			for _, e := range ents {
				if _, isIn := j.Files[e.Name()]; !isIn && !e.IsDir() {
					names = append(names, e.Name())
				}
			}
		} else {
			names = append(names, o)
		}
	}
	sort.Strings(names)
	h := sha256.New()
	files := map[string]string{}
	for _, n := range names {
		b, rerr := os.ReadFile(filepath.Join(dir, n))
		if rerr != nil {
			msg := "missing output " + n
			if err != nil {
				msg += " (exit: " + err.Error() + ")"
			}
			tail := ob.String()
			if len(tail) > 300 {
				tail = tail[len(tail)-300:]
			}
			return outcome{failed: msg + " | " + strings.ReplaceAll(tail, "\n", " / ")}
		}
		h.Write([]byte(n))
		h.Write([]byte{0})
		h.Write(b)
		files[n] = string(b)
	}
	if len(names) == 0 {
		return outcome{failed: "no outputs"}
	}
	return outcome{digest: hex.EncodeToString(h.Sum(nil)), files: files}
}

func firstDiff(a, b map[string]string) (string, string) {
	var names []string
	for n := range a {
		names = append(names, n)
	}
	sort.Strings(names)
	for _, n := range names {
		if a[n] != b[n] {
			la, lb := strings.Split(a[n], "\n"), strings.Split(b[n], "\n")
			for i := 0; i < len(la) && i < len(lb); i++ {
				if la[i] != lb[i] {
					x, y := la[i], lb[i]
					if len(x) > 200 {
						x = x[:200]
					}
					if len(y) > 200 {
						y = y[:200]
					}
					return n, fmt.Sprintf("line %d: %q vs %q", i+1, x, y)
				}
			}
			return n, "lengths differ"
		}
	}
	return "", ""
}

func kindOfFile(n string) string {
	ext := filepath.Ext(n)
	if ext == "" {
		return n
	}
	return ext[1:]
}

func main() {
	asmw.ServeIfWorker()
	tier, _ := hx.Args()
	run := evid.New("C07", tier, "exploration")
	run.Rule = "a case = (tool, input); each case is run n times (quick 6, thorough 24) as a fresh process with GOMAXPROCS cycling through 1,2,4,16 and the digests of all artefacts are compared; tools: basm (machine JSON + requirements dump) on generated BASM programs, fragment graphs, neuralbond and bmqsim outputs and a directed literal-notation source; neuralbond (romcode/fragment × sync/async) on the repository's nets; bmqsim on the repository's circuits and generated ones; bondmachine -create-verilog on the machines produced; bondgo on small Go programs; plus the assembler library run 3 times in one process and again after other sources; non-trivial = a case with ≥2 successful runs; distinct by tool+input"
	run.Assume = []string{"a run that times out or fails is inconclusive here (termination of bondgo is C12's subject); a case needs ≥2 successful runs to be judged",
		"map-order dependence on a k-element map is missed with probability ≤ (1/k!)^(n-1) per case"}
	run.Floor = 10
	scratch, clean := hx.Scratch("c07")
	defer clean()
	hx.SilenceStdout(filepath.Join(scratch, "lib.log"))
	bin, err := buildTools(scratch)
	if err != nil {
		fmt.Fprintln(os.Stderr, err)
		os.Exit(2)
	}
	n := 6
	nGen := 6
	if tier == "thorough" {
		n = 24
		nGen = 30
	}
	rng := hx.RNG(run.Seed, "c07")
	var jobs []job
	// ---- basm on generated programs ----
	for i := 0; i < nGen; i++ {
		maxLit := uint64(0)
		flags := []string{"-disable-dynamical-matching"}
		if i%3 == 2 {
			maxLit = 31
			flags = []string{"-chooser-min-word-size"}
		}
		p := basmgen.Generate(rng, true, maxLit)
		jobs = append(jobs, job{Name: fmt.Sprintf("basm-gen%d", i), Tool: "basm", Class: "generated-program", Files: map[string]string{"in.basm": p.Text()},
			Args: append(append([]string{}, flags...), "-o", "out.json", "-dump-requirements", "req.json", "in.basm"), Outputs: []string{"out.json", "req.json"}})
	}
	// directed: every literal notation, several sections and macros, 6 CPs
	var sb strings.Builder
	sb.WriteString("%macro m0 0\n\tinc r0\n%endmacro\n%macro m1 0\n\tdec r1\n\tinc r0\n%endmacro\n")
	lits := []string{"100", "0u100", "0d100", "0x64", "0b1100100", "0u7", "0x0", "0b1"}
	for c := 0; c < 6; c++ {
		fmt.Fprintf(&sb, "%%section s%d .romtext iomode:sync\n\tentry e%d\ne%d:\n", c, c, c)
		for k, l := range lits {
			fmt.Fprintf(&sb, "\tmov r%d, %s\n", k%3, l)
		}
		sb.WriteString("\tm0\n\tadd r0, r1\n\tm1\n")
		if c > 0 {
			sb.WriteString("\tmov r2, i0\n\tadd r0, r2\n")
		}
		fmt.Fprintf(&sb, "\tmov o0, r0\n\tj e%d\n%%endsection\n", c)
	}
	for c := 0; c < 6; c++ {
		fmt.Fprintf(&sb, "%%meta cpdef cpu%d romcode: s%d, ramsize:8\n", c, c)
	}
	for c := 1; c < 6; c++ {
		fmt.Fprintf(&sb, "%%meta ioatt l%d cp: cpu%d, index:0, type:output\n%%meta ioatt l%d cp: cpu%d, index:0, type:input\n", c, c-1, c, c)
	}
	sb.WriteString("%meta ioatt xo cp: cpu5, index:0, type:output\n%meta ioatt xo cp: bm, index:0, type:output\n%meta bmdef global registersize:8\n")
	jobs = append(jobs, job{Name: "basm-directed-literals-6cps", Tool: "basm", Class: "directed", Files: map[string]string{"in.basm": sb.String()},
		Args: []string{"-disable-dynamical-matching", "-o", "out.json", "-dump-requirements", "req.json", "in.basm"}, Outputs: []string{"out.json", "req.json"}})
	// directed: five CPs sharing dynamically created opcodes (fixed point add/mult, rsets) in different
	// subsets: the order in which the sections register them must not reach the output
	{
		var sb strings.Builder
		uses := [][]string{{"multfps16f8", "addfps16f8"}, {"addfps16f8"}, {"addfps16f8", "multfps16f8"}, {"multfps16f8"}, {"addfps16f8"}}
		for c, u := range uses {
			fmt.Fprintf(&sb, "%%section d%d .romtext\n\tentry _start\n_start:\n\ti2r r0, i0\n\ti2r r1, i1\n", c)
			for _, op := range u {
				fmt.Fprintf(&sb, "\t%s r0, r1\n", op)
			}
			sb.WriteString("\tr2o r0, o0\n\tj _start\n%endsection\n")
		}
		for c := range uses {
			fmt.Fprintf(&sb, "%%meta cpdef dcp%d romcode: d%d\n", c, c)
			fmt.Fprintf(&sb, "%%meta ioatt di%da cp: dcp%d, index:0, type:input\n%%meta ioatt di%da cp: bm, index:%d, type:input\n", c, c, c, 2*c)
			fmt.Fprintf(&sb, "%%meta ioatt di%db cp: dcp%d, index:1, type:input\n%%meta ioatt di%db cp: bm, index:%d, type:input\n", c, c, c, 2*c+1)
			fmt.Fprintf(&sb, "%%meta ioatt do%d cp: dcp%d, index:0, type:output\n%%meta ioatt do%d cp: bm, index:%d, type:output\n", c, c, c, c)
		}
		sb.WriteString("%meta bmdef global registersize:16\n")
		jobs = append(jobs, job{Name: "basm-directed-dynamic-opcodes-5cps", Tool: "basm", Class: "directed", Files: map[string]string{"in.basm": sb.String()},
			Args: []string{"-o", "out.json", "-dump-requirements", "req.json", "in.basm"}, Outputs: []string{"out.json", "req.json"}})
	}
	// directed: one template fragment called from five sections with different parameters (the
	// expansion of one caller must not leak into another, whatever order the sections are visited in)
	{
		var sb strings.Builder
		sb.WriteString("%meta bmdef global registersize:8\n%fragment setk default_k:1\n\trset r1, {{ .Params.k }}\n\tinc r1\n%endfragment\n")
		for c, k := range []int{5, 9, 3, 6, 12} {
			fmt.Fprintf(&sb, "%%section t%d .romtext iomode:async k:%d\n\tentry _start\n_start:\n\tclr r0\n\tcall8s setk\n\tr2o r1, o0\n\tj _start\n%%endsection\n", c, k)
		}
		for c := 0; c < 5; c++ {
			fmt.Fprintf(&sb, "%%meta cpdef tcp%d romcode: t%d, execmode:ha\n%%meta ioatt to%d cp:tcp%d, index:0, type:output\n%%meta ioatt to%d cp:bm, index:%d, type:output\n", c, c, c, c, c, c)
		}
		jobs = append(jobs, job{Name: "basm-directed-template-fragment-5callers", Tool: "basm", Class: "directed", Files: map[string]string{"in.basm": sb.String()},
			Args: []string{"-o", "out.json", "-dump-requirements", "req.json", "in.basm"}, Outputs: []string{"out.json", "req.json"}})
	}
	// several shared objects of differing kind and depth attached to several CPs in crossing order
	{
		var sb strings.Builder
		sb.WriteString("%meta bmdef global registersize:8\n")
		code := map[string]string{
			"sa": "\ti2r\tr0, i0\n\tr2q\tr0, q0\n\tr2t\tr0, st0\n\tr2q\tr0, q1\n\tj\t_start\n",
			"sb": "\tq2r\tr0, q0\n\tinc\tr0\n\tr2q\tr0, q1\n\tj\t_start\n",
			"sc": "\tq2r\tr0, q0\n\tt2r\tr1, st0\n\tadd\tr0, r1\n\tr2t\tr0, st1\n\tj\t_start\n",
			"sd": "\tq2r\tr0, q0\n\tt2r\tr1, st0\n\tadd\tr0, r1\n\tr2o\tr0, o0\n\tj\t_start\n",
		}
		for _, n := range []string{"sa", "sb", "sc", "sd"} {
			fmt.Fprintf(&sb, "%%section %s .romtext iomode:sync\n\tentry _start\n_start:\n%s%%endsection\n", n, code[n])
		}
		sb.WriteString("%meta cpdef ca romcode: sa, ramsize:8\n%meta cpdef cb romcode: sb, ramsize:8\n%meta cpdef cc romcode: sc, ramsize:8\n%meta cpdef cd romcode: sd, ramsize:8\n")
		sb.WriteString("%meta sodef qa constraint:queue:4\n%meta sodef qb constraint:queue:16\n%meta sodef qc constraint:queue:8\n%meta sodef ska constraint:stack:8\n%meta sodef skb constraint:stack:4\n")
		sb.WriteString("%meta soatt qa cp: ca, index:0\n%meta soatt ska cp: ca, index:1\n%meta soatt qc cp: ca, index:2\n")
		sb.WriteString("%meta soatt qa cp: cb, index:0\n%meta soatt qb cp: cb, index:1\n")
		sb.WriteString("%meta soatt qb cp: cc, index:0\n%meta soatt ska cp: cc, index:1\n%meta soatt skb cp: cc, index:2\n")
		sb.WriteString("%meta soatt qc cp: cd, index:0\n%meta soatt skb cp: cd, index:1\n")
		sb.WriteString("%meta ioatt in0 cp: bm, index:0, type:input\n%meta ioatt in0 cp: ca, index:0, type:input\n%meta ioatt out0 cp: cd, index:0, type:output\n%meta ioatt out0 cp: bm, index:0, type:output\n")
		jobs = append(jobs, job{Name: "basm-directed-five-shared-objects", Tool: "basm", Class: "directed", Files: map[string]string{"in.basm": sb.String()},
			Args: []string{"-o", "out.json", "-dump-requirements", "req.json", "in.basm"}, Outputs: []string{"out.json", "req.json"}})
	}
	// ---- neuralbond ----
	neurons, _ := filepath.Glob("/repo/library/neurons/*.basm")
	if r := os.Getenv("VERIF_REPO"); r != "" && r != "/repo" {
		neurons, _ = filepath.Glob(filepath.Join(r, "library/neurons/*.basm"))
	}
	repo := "/repo"
	if r := os.Getenv("VERIF_REPO"); r != "" {
		repo = r
	}
	for _, net := range []string{"net-testsmall.json", "net-testnormal.json"} {
		nb, err := os.ReadFile(filepath.Join(repo, "cmd/neuralbond", net))
		if err != nil {
			continue
		}
		for _, mode := range []string{"romcode", "fragment"} {
			for _, io := range []string{"sync", "async"} {
				jobs = append(jobs, job{Name: "neuralbond-" + net + "-" + mode + "-" + io, Tool: "neuralbond", Class: "neuralbond-" + mode,
					Files:   map[string]string{"net.json": string(nb), "conf.json": `{"Params":{"expprec":"2"}}`},
					Args:    []string{"-net-file", "net.json", "-config-file", "conf.json", "-neuron-lib-path", filepath.Join(repo, "library/neurons"), "-save-basm", "out.basm", "-operating-mode", mode, "-io-mode", io},
					Outputs: []string{"out.basm"}})
			}
		}
	}
	// ---- bmqsim ----
	circuits := map[string]string{}
	if qb, err := os.ReadFile(filepath.Join(repo, "cmd/bmqsim", "program.bmq")); err == nil {
		circuits["program.bmq"] = string(qb)
	}
	circuits["ghz3"] = "%block code1 .sequential\n\tqbits\tq0, q1, q2\n\tzero\tq0, q1, q2\n\th\tq0\n\tcx\tq0, q1\n\tcx\tq1, q2\n\trz\tq2, 0.5\n\tswap\tq0, q2\n%endblock\n\n%meta bmdef global main:code1\n"
	circuits["mix4"] = "%block code1 .sequential\n\tqbits\tq0, q1, q2, q3\n\tzero\tq0, q1, q2, q3\n\th\tq3\n\tcx\tq3, q0\n\tiswap\tq1, q2\n\try\tq0, 1.25\n\tcz\tq2, q0\n%endblock\n\n%meta bmdef global main:code1\n"
	var cnames []string
	for k := range circuits {
		cnames = append(cnames, k)
	}
	sort.Strings(cnames)
	for _, q := range cnames {
		qb := circuits[q]
		for _, fl := range []string{"seq_hardcoded_real", "seq_hardcoded_complex"} {
			jobs = append(jobs, job{Name: "bmqsim-" + q + "-" + fl, Tool: "bmqsim", Class: "bmqsim", Files: map[string]string{"c.bmq": string(qb)},
				Args: []string{"-build-matrix-seq-hardcoded", "-hw-flavor", fl, "-save-basm", "q.basm", "c.bmq"}, Outputs: []string{"q.basm"}})
		}
	}
	// ---- bondgo ----
	goProgs := map[string]string{
		"loop":  "package main\n\nimport \"bondgo\"\n\nfunc main() {\n\tvar in0 bondgo.Input\n\tvar out0 bondgo.Output\n\tvar reg_a uint8\n\tvar reg_b uint8\n\tin0 = bondgo.Make(bondgo.Input, 3)\n\tout0 = bondgo.Make(bondgo.Output, 5)\n\treg_b = 2\n\tfor {\n\t\treg_a = bondgo.IORead(in0)\n\t\treg_a = reg_a + reg_b\n\t\tbondgo.IOWrite(out0, reg_a)\n\t}\n}\n",
		"vars":  "package main\n\nimport \"bondgo\"\n\nfunc main() {\n\tvar out0 bondgo.Output\n\tvar a uint8\n\tvar b uint8\n\tvar reg_c uint8\n\tout0 = bondgo.Make(bondgo.Output, 1)\n\ta = 3\n\tb = 4\n\treg_c = a + b\n\treg_c = reg_c * a\n\tbondgo.IOWrite(out0, reg_c)\n}\n",
		"chans": "package main\n\nimport \"bondgo\"\n\nfunc main() {\n\tvar out0 bondgo.Output\n\tvar reg_a uint8\n\tout0 = bondgo.Make(bondgo.Output, 1)\n\treg_a = 3\n\tbondgo.IOWrite(out0, reg_a)\n\tvar ch0 chan uint8\n\tvar ch1 chan uint8\n\tvar ch2 chan uint8\n}\n",
	}
	for name, src := range goProgs {
		jobs = append(jobs, job{Name: "bondgo-" + name, Tool: "bondgo", Class: "bondgo", Files: map[string]string{"p.go": src},
			Args: []string{"-input-file", "p.go", "-save-assembly", "out.asm", "-show-requirements", "-register-size", "8"}, Outputs: []string{"out.asm", "STDOUT"}})
	}
	// multi-processor mode: I/O ids shared between processors (an external input read by main and by a
	// goroutine; one processor writing an id that two goroutines read; two goroutines writing distinct
	// external outputs)
	mpmProgs := map[string]string{
		"mpm-shared-external-input": "package main\n\nimport \"bondgo\"\n\nfunc worker(cout chan uint8) {\n\tvar in0 bondgo.Input\n\tvar reg_x uint8\n\tin0 = bondgo.Make(bondgo.Input, 3)\n\tfor {\n\t\treg_x = bondgo.IORead(in0)\n\t\tcout <- reg_x\n\t}\n}\n\nfunc main() {\n\tvar in0 bondgo.Input\n\tvar out0 bondgo.Output\n\tvar c0 chan uint8\n\tvar reg_a uint8\n\tvar reg_b uint8\n\tin0 = bondgo.Make(bondgo.Input, 3)\n\tout0 = bondgo.Make(bondgo.Output, 5)\n\tgo worker(c0)\n\tfor {\n\t\treg_a = bondgo.IORead(in0)\n\t\treg_b = <-c0\n\t\treg_a = reg_a + reg_b\n\t\tbondgo.IOWrite(out0, reg_a)\n\t}\n}\n",
		"mpm-one-writer-two-readers": "package main\n\nimport \"bondgo\"\n\nfunc reader1() {\n\tvar lin bondgo.Input\n\tvar o1 bondgo.Output\n\tvar reg_x uint8\n\tlin = bondgo.Make(bondgo.Input, 7)\n\to1 = bondgo.Make(bondgo.Output, 11)\n\tfor {\n\t\treg_x = bondgo.IORead(lin)\n\t\treg_x++\n\t\tbondgo.IOWrite(o1, reg_x)\n\t}\n}\n\nfunc reader2() {\n\tvar lin bondgo.Input\n\tvar o2 bondgo.Output\n\tvar reg_y uint8\n\tlin = bondgo.Make(bondgo.Input, 7)\n\to2 = bondgo.Make(bondgo.Output, 12)\n\tfor {\n\t\treg_y = bondgo.IORead(lin)\n\t\treg_y = reg_y + 2\n\t\tbondgo.IOWrite(o2, reg_y)\n\t}\n}\n\nfunc main() {\n\tvar lout bondgo.Output\n\tvar in0 bondgo.Input\n\tvar reg_a uint8\n\tlout = bondgo.Make(bondgo.Output, 7)\n\tin0 = bondgo.Make(bondgo.Input, 1)\n\tgo reader1()\n\tgo reader2()\n\tfor {\n\t\treg_a = bondgo.IORead(in0)\n\t\tbondgo.IOWrite(lout, reg_a)\n\t}\n}\n",
	}
	for name, src := range mpmProgs {
		jobs = append(jobs, job{Name: "bondgo-" + name, Tool: "bondgo", Class: "bondgo-mpm", Files: map[string]string{"p.go": src},
			Args: []string{"-mpm", "-input-file", "p.go", "-save-assembly", "out.asm", "-save-bondmachine", "m.json", "-show-requirements", "-register-size", "8"}, Outputs: []string{"DIR", "STDOUT"}})
	}
	// ---- run the process-level jobs ----
	gmps := []int{1, 2, 4, 16}
	produced := map[string]map[string]string{} // job name -> files of the first good run (for the second stage)
	judge := func(j job) {
		n := n
		if j.Class == "bondgo-mpm" {
			n *= 3 // short runs; a two-element map order showed up in only one run out of seven here
		}
		if j.Class == "create-verilog" && strings.Contains(j.Name, "directed") {
			// Go starts the iteration of a small map at a random one of its 8 slots: a k-element map is
			// walked in its default order in (9-k)/8 of the runs. 24 runs leave a two-element order
			// dependence unseen with probability (7/8)^23 = 4.6%, 6 runs with 51%.
			n *= 4
		}
		run.Eval(int64(n))
		outs := make([]outcome, n)
		hx.Par(n, func(r int) {
			to := 60 * time.Second
			if j.Tool == "bondgo" {
				to = 10 * time.Second // it finishes in well under a second when it does not hang (C12)
			}
			outs[r] = runOnce(bin, filepath.Join(scratch, "runs", j.Name, fmt.Sprint(r)), j, gmps[r%len(gmps)], to)
		})
		var good []outcome
		for _, o := range outs {
			if o.failed != "" {
				run.Tally("failed_runs", j.Tool+": "+o.failed[:min(len(o.failed), 120)])
				continue
			}
			good = append(good, o)
		}
		os.RemoveAll(filepath.Join(scratch, "runs", j.Name))
		if len(good) < 2 {
			run.Inconclusive("fewer-than-2-successful-runs:" + j.Tool)
			return
		}
		run.Nontrivial(j.Name)
		run.Tally("cases_judged_by_tool", j.Tool)
		produced[j.Name] = good[0].files
		for _, o := range good[1:] {
			if o.digest != good[0].digest {
				f, d := firstDiff(good[0].files, o.files)
				run.Violation("nondeterministic-output:"+j.Tool+":"+kindOfFile(f)+":"+j.Class, map[string]any{"job": j.Name, "tool": j.Tool, "args": j.Args, "file": f, "first_difference": d, "inputs": j.Files, "runs": n})
				return
			}
		}
	}
	for _, j := range jobs {
		judge(j)
	}
	// ---- second stage: tools fed with the artefacts of the first ----
	var stage2 []job
	var names []string
	for k := range produced {
		names = append(names, k)
	}
	sort.Strings(names)
	nv := 0
	for _, k := range names {
		f := produced[k]
		switch {
		case strings.HasPrefix(k, "neuralbond-"):
			in := map[string]string{"in.basm": f["out.basm"]}
			args := []string{"-disable-dynamical-matching", "-o", "out.json", "-dump-requirements", "req.json", "in.basm"}
			pat := "rom-"
			if strings.Contains(k, "fragment") {
				pat = "frag-"
			}
			for _, nf := range neurons {
				if strings.HasPrefix(filepath.Base(nf), pat) {
					b, _ := os.ReadFile(nf)
					in[filepath.Base(nf)] = string(b)
					args = append(args, filepath.Base(nf))
				}
			}
			stage2 = append(stage2, job{Name: "basm-on-" + k, Tool: "basm", Class: "neuralbond-output", Files: in, Args: args, Outputs: []string{"out.json", "req.json"}})
		case strings.HasPrefix(k, "bmqsim-"):
			stage2 = append(stage2, job{Name: "basm-on-" + k, Tool: "basm", Class: "bmqsim-output", Files: map[string]string{"in.basm": f["q.basm"]},
				Args: []string{"-disable-dynamical-matching", "-o", "out.json", "in.basm"}, Outputs: []string{"out.json"}})
		case strings.HasPrefix(k, "basm-") && (nv < 6 || strings.HasPrefix(k, "basm-directed")):
			// (the directed machines always: the one with five shared objects of two kinds is the only
			// one whose top level instantiates several kinds of shared-object modules)
			if !strings.HasPrefix(k, "basm-directed") {
				nv++
			}
			stage2 = append(stage2, job{Name: "verilog-of-" + k, Tool: "bondmachine", Class: "create-verilog", Files: map[string]string{"bm.json": f["out.json"], "sb.json": `{"Rules":[]}`},
				Args: []string{"-bondmachine-file", "bm.json", "-create-verilog", "-verilog-flavor", "iverilog", "-verilog-simulation", "-simbox-file", "sb.json"}, Outputs: []string{"DIR"}})
		}
	}
	for _, j := range stage2 {
		judge(j)
	}
	// ---- the assembler library several times in one process ----
	pools := asmw.NewPools(scratch)
	defer pools.Close()
	for i := 0; i < nGen; i++ {
		p := basmgen.Generate(rng, true, 0)
		q := basmgen.Generate(rng, true, 0)
		run.Eval(4)
		// the same worker process serves consecutive calls of one goroutine: a, a, b, a
		var js []string
		failed := false
		for _, src := range []string{p.Text(), p.Text(), q.Text(), p.Text()} {
			r := pools.Call(asmw.Req{Src: src, Opt: "nodyn", NoSim: true, WantJSON: true})
			if r.Err != "" || r.Crash {
				failed = true
				break
			}
			js = append(js, r.JSON)
		}
		if failed {
			run.Inconclusive("in-process-assembly-failed")
			continue
		}
		run.Nontrivial(fmt.Sprintf("inproc%d", i))
		if js[0] != js[1] || js[0] != js[3] {
			run.Violation("nondeterministic-output:basm-library-in-one-process", map[string]any{"source": p.Text(), "other_source_in_between": q.Text(), "first": js[0][:min(300, len(js[0]))], "repeat": js[1][:min(300, len(js[1]))], "after_other": js[3][:min(300, len(js[3]))]})
		}
	}
	run.Set("process_runs_per_case", n)
	run.Sample(map[string]any{"job": jobs[0].Name, "tool": jobs[0].Tool, "args": jobs[0].Args, "input": jobs[0].Files["in.basm"]})
	run.Sample(map[string]any{"job": jobs[len(jobs)-1].Name, "args": jobs[len(jobs)-1].Args})
	os.Exit(run.Finish())
}
