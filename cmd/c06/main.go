// c06: mapping a fragment graph onto more or fewer processors keeps its result.
//
// Random DAGs of fragment instances (generated integer fragments with declared
// resin/resout, bodies that deliberately reuse low register names) are assembled
// for every partition of the instances into CPs (all set partitions for ≤5
// instances, sampled above; collapse lists in topological order) and simulated;
// every partition must produce the output of a direct evaluation of the dataflow
// graph, hence all partitions agree with each other.
package main

import (
	"encoding/json"
	"fmt"
	"os"
	"sort"
	"strings"

	"verif/internal/asmw"
	"verif/internal/evid"
	"verif/internal/hx"
)

type frag struct {
	Name   string   `json:"name"`
	NIn    int      `json:"nin"`
	NOut   int      `json:"nout"`
	Body   []string `json:"body"`
	OutReg []int    `json:"outreg"` // resout registers
}

type inst struct {
	Name string `json:"name"`
	Frag int    `json:"frag"`
	// source of each input: {-1, k} external input k, or {instance index, output index}
	Src [][2]int `json:"src"`
}

type graph struct {
	Rsize int    `json:"rsize"`
	Frags []frag `json:"frags"`
	Insts []inst `json:"insts"` // in topological order
	ExtIn int    `json:"ext_in"`
	// external outputs: {instance, output index}
	ExtOut [][2]int `json:"ext_out"`
}

type caseT struct {
	G     graph      `json:"graph"`
	Part  [][]int    `json:"partition"` // CPs as lists of instance indices (collapse order)
	In    [][]uint64 `json:"inputs"`
	Label string     `json:"label"`
}

func (g graph) text(part [][]int) string {
	var sb strings.Builder
	for _, f := range g.Frags {
		var rin, rout []string
		for i := 0; i < f.NIn; i++ {
			rin = append(rin, fmt.Sprintf("r%d", i))
		}
		for _, r := range f.OutReg {
			rout = append(rout, fmt.Sprintf("r%d", r))
		}
		fmt.Fprintf(&sb, "%%fragment %s resin:%s resout:%s\n", f.Name, strings.Join(rin, ":"), strings.Join(rout, ":"))
		for _, l := range f.Body {
			sb.WriteString("\t" + l + "\n")
		}
		sb.WriteString("%endfragment\n")
	}
	for _, in := range g.Insts {
		fmt.Fprintf(&sb, "%%meta fidef %s fragment:%s\n", in.Name, g.Frags[in.Frag].Name)
	}
	ln := 0
	for ii, in := range g.Insts {
		for k, s := range in.Src {
			ln++
			name := fmt.Sprintf("lk%d", ln)
			fmt.Fprintf(&sb, "%%meta filinkdef %s type:fl\n", name)
			if s[0] < 0 {
				fmt.Fprintf(&sb, "%%meta filinkatt %s fi:ext, type:input, index:%d\n", name, s[1])
			} else {
				fmt.Fprintf(&sb, "%%meta filinkatt %s fi:%s, type:output, index:%d\n", name, g.Insts[s[0]].Name, s[1])
			}
			fmt.Fprintf(&sb, "%%meta filinkatt %s fi:%s, type:input, index:%d\n", name, g.Insts[ii].Name, k)
		}
	}
	for o, s := range g.ExtOut {
		ln++
		name := fmt.Sprintf("lk%d", ln)
		fmt.Fprintf(&sb, "%%meta filinkdef %s type:fl\n", name)
		fmt.Fprintf(&sb, "%%meta filinkatt %s fi:%s, type:output, index:%d\n", name, g.Insts[s[0]].Name, s[1])
		fmt.Fprintf(&sb, "%%meta filinkatt %s fi:ext, type:output, index:%d\n", name, o)
	}
	for ci, cp := range part {
		var names []string
		for _, i := range cp {
			names = append(names, g.Insts[i].Name)
		}
		fmt.Fprintf(&sb, "%%meta cpdef cp%d fragcollapse:%s\n", ci, strings.Join(names, ":"))
	}
	fmt.Fprintf(&sb, "%%meta bmdef global registersize:%d, iomode:sync\n", g.Rsize)
	return sb.String()
}

// eval: direct evaluation of the dataflow graph on one input vector.
func (g graph) eval(in []uint64) []uint64 {
	mask := uint64(1)<<uint(g.Rsize) - 1
	outs := make([][]uint64, len(g.Insts))
	for ii, it := range g.Insts {
		f := g.Frags[it.Frag]
		regs := make([]uint64, 16)
		for k, s := range it.Src {
			if s[0] < 0 {
				regs[k] = in[s[1]] & mask
			} else {
				regs[k] = outs[s[0]][s[1]]
			}
		}
		for _, l := range f.Body {
			t := strings.Fields(strings.ReplaceAll(l, ",", " "))
			r := func(a string) *uint64 { var n int; fmt.Sscanf(a, "r%d", &n); return &regs[n] }
			switch t[0] {
			case "add":
				*r(t[1]) = (*r(t[1]) + *r(t[2])) & mask
			case "mult":
				*r(t[1]) = (*r(t[1]) * *r(t[2])) & mask
			case "inc":
				*r(t[1]) = (*r(t[1]) + 1) & mask
			case "dec":
				*r(t[1]) = (*r(t[1]) - 1) & mask
			case "cpy":
				*r(t[1]) = *r(t[2])
			case "rset":
				var v uint64
				fmt.Sscanf(t[2], "%d", &v)
				*r(t[1]) = v & mask
			case "clr":
				*r(t[1]) = 0
			}
		}
		o := make([]uint64, f.NOut)
		for j, rr := range f.OutReg {
			o[j] = regs[rr]
		}
		outs[ii] = o
	}
	res := make([]uint64, len(g.ExtOut))
	for o, s := range g.ExtOut {
		res[o] = outs[s[0]][s[1]]
	}
	return res
}

func genGraph(rng interface {
	IntN(int) int
	Uint64() uint64
}, maxInst int, taps bool, share bool) graph {
	g := graph{Rsize: []int{8, 16, 32}[rng.IntN(3)]}
	nf := 1 + rng.IntN(3)
	for f := 0; f < nf; f++ {
		fr := frag{Name: fmt.Sprintf("fr%d", f), NIn: 1 + rng.IntN(3), NOut: 1 + rng.IntN(2)}
		defined := map[int]bool{}
		for i := 0; i < fr.NIn; i++ {
			defined[i] = true
		}
		pick := func() int { // a defined register
			var d []int
			for k := range defined {
				d = append(d, k)
			}
			sort.Ints(d)
			return d[rng.IntN(len(d))]
		}
		n := 1 + rng.IntN(4)
		for b := 0; b < n; b++ {
			switch rng.IntN(7) {
			case 0:
				fr.Body = append(fr.Body, fmt.Sprintf("add r%d, r%d", pick(), pick()))
			case 1:
				fr.Body = append(fr.Body, fmt.Sprintf("mult r%d, r%d", pick(), pick()))
			case 2:
				fr.Body = append(fr.Body, fmt.Sprintf("inc r%d", pick()))
			case 3:
				fr.Body = append(fr.Body, fmt.Sprintf("dec r%d", pick()))
			case 4: // temporary in a low register name not yet used (holes in the register use are intended)
				t := rng.IntN(6)
				fr.Body = append(fr.Body, fmt.Sprintf("cpy r%d, r%d", t, pick()))
				defined[t] = true
			case 5:
				t := rng.IntN(6)
				fr.Body = append(fr.Body, fmt.Sprintf("rset r%d, %d", t, rng.IntN(200)))
				defined[t] = true
			case 6:
				fr.Body = append(fr.Body, fmt.Sprintf("add r%d, r%d", pick(), pick()))
			}
		}
		for j := 0; j < fr.NOut; j++ {
			fr.OutReg = append(fr.OutReg, pick())
		}
		// distinct resout registers
		seen := map[int]bool{}
		ok := true
		for _, r := range fr.OutReg {
			if seen[r] {
				ok = false
			}
			seen[r] = true
		}
		if !ok {
			fr.NOut = 1
			fr.OutReg = fr.OutReg[:1]
		}
		g.Frags = append(g.Frags, fr)
	}
	ni := 2 + rng.IntN(maxInst-1)
	g.ExtIn = 1 + rng.IntN(2)
	type port struct{ i, j int }
	var free []port // produced outputs not yet consumed
	extUsed := make([]bool, g.ExtIn)
	for i := 0; i < ni; i++ {
		it := inst{Name: fmt.Sprintf("n%d", i), Frag: rng.IntN(len(g.Frags))}
		f := g.Frags[it.Frag]
		for k := 0; k < f.NIn; k++ {
			if share && rng.IntN(3) == 0 {
				// a source that already has a consumer (an external input or an instance output read twice)
				var used [][2]int
				for _, e := range g.Insts {
					used = append(used, e.Src...)
				}
				used = append(used, it.Src...)
				if len(used) > 0 {
					it.Src = append(it.Src, used[rng.IntN(len(used))])
					continue
				}
			}
			if len(free) > 0 && rng.IntN(3) != 0 {
				x := rng.IntN(len(free))
				it.Src = append(it.Src, [2]int{free[x].i, free[x].j})
				free = append(free[:x], free[x+1:]...)
			} else {
				// an external input not used yet (every link has exactly one consumer)
				e := -1
				for q := range extUsed {
					if !extUsed[q] {
						e = q
						break
					}
				}
				if e < 0 {
					e = g.ExtIn
					g.ExtIn++
					extUsed = append(extUsed, false)
				}
				extUsed[e] = true
				it.Src = append(it.Src, [2]int{-1, e})
			}
		}
		for j := 0; j < f.NOut; j++ {
			free = append(free, port{i, j})
		}
		g.Insts = append(g.Insts, it)
	}
	for _, p := range free {
		g.ExtOut = append(g.ExtOut, [2]int{p.i, p.j})
	}
	// taps: an output that is consumed by another instance is also sent to the outside
	// (one output, two links)
	if taps {
		for i := range g.Insts {
			for _, s := range g.Insts[i].Src {
				if s[0] >= 0 && rng.IntN(2) == 0 && len(g.ExtOut) < 6 {
					dup := false
					for _, e := range g.ExtOut {
						dup = dup || e == s
					}
					if !dup {
						g.ExtOut = append(g.ExtOut, s)
					}
				}
			}
		}
	}
	// external inputs never used are dropped from the count
	used := 0
	for _, u := range extUsed {
		if u {
			used++
		}
	}
	// compact external input indices
	remap := map[int]int{}
	for q, u := range extUsed {
		if u {
			remap[q] = len(remap)
		}
	}
	for i := range g.Insts {
		for k := range g.Insts[i].Src {
			if g.Insts[i].Src[k][0] < 0 {
				g.Insts[i].Src[k][1] = remap[g.Insts[i].Src[k][1]]
			}
		}
	}
	g.ExtIn = used
	return g
}

// consumersTogether tells whether every source that is read by several instances has all its
// readers on one CP (readers on different CPs are a bond with fan-out across processors, which meets
// C04's recorded duplicate-read findings).
func (g graph) consumersTogether(part [][]int) bool {
	block := map[int]int{}
	for b, cp := range part {
		for _, i := range cp {
			block[i] = b
		}
	}
	readers := map[[2]int][]int{}
	for i, it := range g.Insts {
		for _, s := range it.Src {
			readers[s] = append(readers[s], i)
		}
	}
	for _, rs := range readers {
		for _, r := range rs[1:] {
			if block[r] != block[rs[0]] {
				return false
			}
		}
	}
	return true
}

// all set partitions of {0..n-1}, blocks kept in increasing (topological) order
func partitions(n int) [][][]int {
	var res [][][]int
	var rec func(i int, cur [][]int)
	rec = func(i int, cur [][]int) {
		if i == n {
			cp := make([][]int, len(cur))
			for k := range cur {
				cp[k] = append([]int(nil), cur[k]...)
			}
			res = append(res, cp)
			return
		}
		for k := range cur {
			cur[k] = append(cur[k], i)
			rec(i+1, cur)
			cur[k] = cur[k][:len(cur[k])-1]
		}
		rec(i+1, append(cur, []int{i}))
	}
	rec(0, nil)
	return res
}

func main() {
	asmw.ServeIfWorker()
	tier, replay := hx.Args()
	run := evid.New("C06", tier, "exploration")
	run.Rule = "graphs: random DAGs of 2..5 (thorough: ..7) instances of 1..3 generated fragments (1..3 resin, 1..2 resout, bodies over add/mult/inc/dec/cpy/rset reusing register names r0..r3, define-before-use), every link with exactly one consumer (in a quarter of the graphs some sources — external inputs or instance outputs — are read by two instance ports, and the partitions that keep all readers of a source on one CP are judged), external inputs/outputs at the loose ends; partitions: all set partitions for ≤5 instances, 40 sampled above, blocks in topological order; 4 input vectors per case; an evaluation = one (graph, partition); non-trivial = the machine delivered all output vectors; distinct by source text"
	run.Assume = []string{"reference = direct evaluation of the dataflow graph with wrap-around arithmetic (cmd/c06 eval)",
		"links have one consumer each (fan-out across CPs meets C04's recorded duplicate-read findings)",
		"a source the assembler rejects is inconclusive; a non-topological collapse order must be rejected or correct"}
	run.Floor = 30
	scratch, clean := hx.Scratch("c06")
	defer clean()
	hx.SilenceStdout(scratch + "/lib.log")
	pools := asmw.NewPools(scratch)
	defer pools.Close()
	nvec := 4

	one := func(c caseT) {
		run.Eval(1)
		src := c.G.text(c.Part)
		r := pools.Call(asmw.Req{Src: src, Opt: "nodyn", In: c.In, Want: nvec, MaxTicks: 4000})
		w := map[string]any{"case": c, "source": src}
		kindOf := func(k string) string {
			shape := "split"
			if len(c.Part) == 1 {
				shape = "one-cp"
			} else if len(c.Part) == len(c.G.Insts) {
				shape = "one-cp-per-instance"
			}
			return k + ":" + shape + ":" + c.Label
		}
		if r.Crash || r.Panic {
			w["err"] = r.Err
			run.Violation(kindOf("assembler-or-simulator-crashed"), w)
			return
		}
		if r.Err != "" {
			run.Inconclusive("source-rejected-by-assembler")
			run.Tally("rejection_reasons", strings.Split(r.Err, ",")[0])
			return
		}
		var want [][]uint64
		for v := 0; v < nvec; v++ {
			vec := make([]uint64, c.G.ExtIn)
			for k := range vec {
				vec[k] = c.In[k][v]
			}
			want = append(want, c.G.eval(vec))
		}
		w["machine_outputs"] = r.Out
		w["dataflow_evaluation"] = want
		if len(r.Out) != len(c.G.ExtOut) {
			run.Violation(kindOf("external-output-count"), w)
			return
		}
		for o := range c.G.ExtOut {
			if len(r.Out[o]) < nvec {
				if c.Label != "topological" {
					run.Tally("non_topological_collapse_order_outcomes", "stalls")
					return
				}
				if rendezvousDeadlock(r.IOSeq, r.Bonds) {
					w["io_order_per_processor"] = r.IOSeq
					w["bonds"] = r.Bonds
					run.Violation("partition-deadlocks-by-io-order", w)
				} else {
					run.Violation(kindOf("machine-stalls"), w)
				}
				return
			}
			for v := 0; v < nvec; v++ {
				if r.Out[o][v] != want[v][o] {
					if c.Label != "topological" {
						// outside the statement's quantifier (collapse lists are topologically ordered): tallied only
						run.Tally("non_topological_collapse_order_outcomes", "silently-wrong-result")
						return
					}
					w["output"], w["vector"] = o, v
					run.Violation(kindOf("result-differs-from-dataflow-evaluation"), w)
					return
				}
			}
		}
		if c.Label != "topological" {
			run.Tally("non_topological_collapse_order_outcomes", "correct")
			return
		}
		run.Nontrivial(src)
		run.Tally("agreeing_partitions_by_number_of_cps", fmt.Sprint(len(c.Part)))
	}

	if replay != "" {
		w, err := evid.ReadWitness(replay)
		if err != nil {
			fmt.Fprintln(os.Stderr, err)
			os.Exit(2)
		}
		run.Floor = 0
		var c caseT
		b, _ := json.Marshal(w["case"])
		json.Unmarshal(b, &c)
		one(c)
		os.Exit(run.Finish())
	}

	nGraphs, maxInst := 120, 5
	if tier == "thorough" {
		nGraphs, maxInst = 500, 7
	}
	rng := hx.RNG(run.Seed, "c06")
	var cs []caseT
	for gi := 0; gi < nGraphs; gi++ {
		g := genGraph(rng, maxInst, gi%2 == 1, gi%4 == 2)
		var in [][]uint64
		for k := 0; k < g.ExtIn; k++ {
			var s []uint64
			for v := 0; v < nvec+2; v++ {
				s = append(s, rng.Uint64()&(uint64(1)<<uint(g.Rsize)-1))
			}
			in = append(in, s)
		}
		parts := partitions(len(g.Insts))
		if len(parts) > 52 {
			// sample 40, always keeping the two extremes
			keep := [][][]int{parts[0], parts[len(parts)-1]}
			for len(keep) < 40 {
				keep = append(keep, parts[rng.IntN(len(parts))])
			}
			parts = keep
		} else if tier != "thorough" && len(parts) > 20 {
			keep := [][][]int{parts[0], parts[len(parts)-1]}
			for len(keep) < 20 {
				keep = append(keep, parts[rng.IntN(len(parts))])
			}
			parts = keep
		}
		for _, p := range parts {
			if !g.consumersTogether(p) {
				continue
			}
			cs = append(cs, caseT{G: g, Part: p, In: in, Label: "topological"})
		}
		// one non-topological collapse order: must be rejected or correct
		if len(g.Insts) >= 2 {
			rev := []int{}
			for i := len(g.Insts) - 1; i >= 0; i-- {
				rev = append(rev, i)
			}
			cs = append(cs, caseT{G: g, Part: [][]int{rev}, In: in, Label: "reverse-order"})
		}
	}
	hx.Par(len(cs), func(i int) {
		one(cs[i])
		if i == 0 || i == 7 {
			run.Sample(map[string]any{"source": cs[i].G.text(cs[i].Part), "inputs": cs[i].In})
		}
	})
	run.Set("graphs", nGraphs)
	os.Exit(run.Finish())
}

// rendezvousDeadlock executes the machine's I/O skeleton abstractly: every processor performs its
// handshake instructions in program order, a transfer needs producer and consumer at the matching
// instructions (unbuffered rendezvous; an external endpoint is always ready). It returns true when
// the skeleton cannot complete one round: the partition then deadlocks whatever the data.
func rendezvousDeadlock(seq [][]string, bonds []string) bool {
	peer := map[string]string{} // "p0o1" -> "p2i0", and back
	for _, b := range bonds {
		e := strings.Split(b, ",")
		if len(e) == 2 {
			peer[e[0]] = e[1]
			peer[e[1]] = e[0]
		}
	}
	pos := make([]int, len(seq))
	cur := func(p int) string {
		if pos[p] >= len(seq[p]) {
			return ""
		}
		return fmt.Sprintf("p%d%s", p, seq[p][pos[p]])
	}
	for {
		progress := false
		done := true
		for p := range seq {
			c := cur(p)
			if c == "" {
				continue
			}
			done = false
			q := peer[c]
			if q == "" || q[0] != 'p' { // external endpoint or unbonded
				pos[p]++
				progress = true
				continue
			}
			var qp int
			fmt.Sscanf(q, "p%d", &qp)
			if qp < len(seq) && cur(qp) == q {
				pos[p]++
				pos[qp]++
				progress = true
			}
		}
		if done {
			return false
		}
		if !progress {
			return true
		}
	}
}
