// c13: generated stacks and queues never lose, duplicate or reorder an element.
//
// The module text produced by bmstack.WriteHDL() is executed by vsim under
// protocol-abiding agents. (1) Exhaustive exploration: every reachable combined
// state (HDL state, agent states, abstract sequence, progress counters) of the
// bounded configurations is visited once, all agent choices are tried from it,
// and an online refinement monitor compares each clock edge with an abstract
// sequence. (2) Long seeded random walks with unique data values, monitored the
// same way, whose recorded operation histories are also checked for
// linearizability with porcupine.
package main

import (
	"crypto/sha1"
	"encoding/json"
	"fmt"
	"os"
	"path/filepath"
	"strings"
	"time"

	"github.com/BondMachineHQ/BondMachine/pkg/bmstack"
	"github.com/anishathalye/porcupine"
	"verif/internal/evid"
	"verif/internal/hx"
	"verif/internal/vsim"
)

type config struct {
	MemType   string `json:"memtype"`
	Depth     int    `json:"depth"`
	Senders   int    `json:"senders"`
	Receivers int    `json:"receivers"`
	DataSize  int    `json:"datasize"`
	NoProg    bool   `json:"progress_counters_off,omitempty"` // the largest exhaustive configurations leave the bounded-progress counters out of the state
	// MaxHold: an agent keeps its request up at most this many cycles after the ack (0 = 1). Longer holds
	// let the arbiter's rotation come back to an agent whose finished request is still high.
	MaxHold int `json:"max_hold,omitempty"`
}

func (c config) maxHold() int {
	if c.MaxHold > 0 {
		return c.MaxHold
	}
	return 1
}

func (c config) String() string {
	s := fmt.Sprintf("%s depth=%d senders=%d receivers=%d data=%d", c.MemType, c.Depth, c.Senders, c.Receivers, c.DataSize)
	if c.NoProg {
		s += " (no progress counters)"
	}
	if c.MaxHold > 1 {
		s += fmt.Sprintf(" hold<=%d", c.MaxHold)
	}
	return s
}

func hdl(c config) (string, error) {
	s := bmstack.CreateBasicStack()
	s.ModuleName = "stk"
	s.DataSize = c.DataSize
	s.Depth = c.Depth
	s.MemType = c.MemType
	for i := 0; i < c.Senders; i++ {
		s.Senders = append(s.Senders, fmt.Sprintf("s%d", i))
	}
	for i := 0; i < c.Receivers; i++ {
		s.Receivers = append(s.Receivers, fmt.Sprintf("r%d", i))
	}
	return s.WriteHDL()
}

// agent phases
const (
	idle    = iota // request low, ack expected low
	req            // request high, waiting for ack
	acked          // ack seen, request still high (agent may dawdle)
	waitlow        // request dropped, waiting for ack to fall
)

type agent struct {
	Phase int
	Data  uint64 // sender: value offered; receiver: unused
	Wait  int    // progress counter (saturating)
	Hold  int    // cycles the request was kept up after the ack (bounded by maxHold: agents complete their handshakes)
}


type world struct {
	sim  *vsim.Sim
	cfg  config
	snd  []agent
	rcv  []agent
	seq  []uint64
	B    int
	tick int
}

type event struct {
	Tick  int    `json:"tick"`
	Agent string `json:"agent"`
	What  string `json:"what"`
	Data  uint64 `json:"data"`
}

func newWorld(c config) (*world, error) {
	text, err := hdl(c)
	if err != nil {
		return nil, err
	}
	d, diags := vsim.ParseFiles(map[string]string{"stk.v": text})
	for _, dg := range diags {
		if dg.Class == vsim.ClassSyntax {
			return nil, fmt.Errorf("parse: %v", dg)
		}
	}
	sim, err := d.Elaborate("stk", nil)
	if err != nil {
		return nil, err
	}
	w := &world{sim: sim, cfg: c, snd: make([]agent, c.Senders), rcv: make([]agent, c.Receivers)}
	w.B = (c.Depth+1)*(c.Senders+c.Receivers+4)*c.maxHold() + 4
	// reset
	sim.Set("clk", 0)
	sim.Set("reset", 1)
	for i := 0; i < c.Senders; i++ {
		sim.Set(fmt.Sprintf("s%dWrite", i), 0)
		sim.Set(fmt.Sprintf("s%dData", i), 0)
	}
	for i := 0; i < c.Receivers; i++ {
		sim.Set(fmt.Sprintf("r%dRead", i), 0)
	}
	if err := sim.Settle(); err != nil {
		return nil, err
	}
	for k := 0; k < 2; k++ {
		if err := sim.Cycle("clk"); err != nil {
			return nil, err
		}
	}
	sim.Set("reset", 0)
	if err := sim.Settle(); err != nil {
		return nil, err
	}
	return w, nil
}

func (w *world) get(name string) uint64 {
	v, _, err := w.sim.Get(name)
	if err != nil {
		panic(err)
	}
	return v
}

// choice per agent: 0 = keep/stay, 1.. = act (idle: raise request with data choice-1; acked: drop)
// step applies the choices, clocks once and runs the monitor. Returns a violation description or "".
func (w *world) step(sChoice, rChoice []int, dataOf func(i, choice int) uint64, log *[]event) string {
	c := w.cfg
	// --- agents drive their requests (values seen by the coming edge) ---
	for i := range w.snd {
		a := &w.snd[i]
		switch a.Phase {
		case idle:
			if sChoice[i] > 0 {
				a.Data = dataOf(i, sChoice[i])
				a.Phase = req
				a.Wait = 0
				if log != nil {
					*log = append(*log, event{w.tick, fmt.Sprintf("s%d", i), "write-request", a.Data})
				}
			}
		case acked:
			if sChoice[i] > 0 || a.Hold >= c.maxHold() {
				a.Phase = waitlow
				a.Hold = 0
			} else {
				a.Hold++
			}
		}
		wr := uint64(0)
		if a.Phase == req || a.Phase == acked {
			wr = 1
		}
		w.sim.Set(fmt.Sprintf("s%dWrite", i), wr)
		w.sim.Set(fmt.Sprintf("s%dData", i), a.Data)
	}
	for i := range w.rcv {
		a := &w.rcv[i]
		switch a.Phase {
		case idle:
			if rChoice[i] > 0 {
				a.Phase = req
				a.Wait = 0
				if log != nil {
					*log = append(*log, event{w.tick, fmt.Sprintf("r%d", i), "read-request", 0})
				}
			}
		case acked:
			if rChoice[i] > 0 || a.Hold >= c.maxHold() {
				a.Phase = waitlow
				a.Hold = 0
			} else {
				a.Hold++
			}
		}
		rd := uint64(0)
		if a.Phase == req || a.Phase == acked {
			rd = 1
		}
		w.sim.Set(fmt.Sprintf("r%dRead", i), rd)
	}
	occBefore := len(w.seq)
	if err := w.sim.Cycle("clk"); err != nil {
		return "simulation error: " + err.Error()
	}
	w.tick++
	// --- observe acks after the edge ---
	var wAck, rAck []int
	for i := range w.snd {
		ack := w.get(fmt.Sprintf("s%dAck", i))
		a := &w.snd[i]
		switch a.Phase {
		case idle:
			if ack != 0 {
				return fmt.Sprintf("s%dAck high while s%d is idle", i, i)
			}
		case req:
			if ack != 0 {
				wAck = append(wAck, i)
			}
		case acked:
			if ack == 0 {
				return fmt.Sprintf("s%dAck dropped while the request is still held", i)
			}
		case waitlow:
			if ack == 0 {
				a.Phase = idle
			}
		}
	}
	for i := range w.rcv {
		ack := w.get(fmt.Sprintf("r%dAck", i))
		a := &w.rcv[i]
		switch a.Phase {
		case idle:
			if ack != 0 {
				return fmt.Sprintf("r%dAck high while r%d is idle", i, i)
			}
		case req:
			if ack != 0 {
				rAck = append(rAck, i)
			}
		case acked:
			if ack == 0 {
				return fmt.Sprintf("r%dAck dropped while the request is still held", i)
			}
		case waitlow:
			if ack == 0 {
				a.Phase = idle
			}
		}
	}
	if len(wAck)+len(rAck) > 1 {
		return fmt.Sprintf("more than one transfer acknowledged on one edge (writes %v reads %v): the order of effects is undefined", wAck, rAck)
	}
	for _, i := range rAck {
		if len(w.seq) == 0 {
			return fmt.Sprintf("read by r%d acknowledged while the model holds no element", i)
		}
		var want uint64
		if c.MemType == "LIFO" {
			want = w.seq[len(w.seq)-1]
			w.seq = w.seq[:len(w.seq)-1]
		} else {
			want = w.seq[0]
			w.seq = w.seq[1:]
		}
		got := w.get(fmt.Sprintf("r%dData", i))
		if log != nil {
			*log = append(*log, event{w.tick, fmt.Sprintf("r%d", i), "read-ack", got})
		}
		if got != want {
			return fmt.Sprintf("r%d read %d, the %s discipline prescribes %d", i, got, c.MemType, want)
		}
		w.rcv[i].Phase = acked
	}
	for _, i := range wAck {
		if len(w.seq) >= c.Depth {
			return fmt.Sprintf("write by s%d acknowledged while the model is full", i)
		}
		w.seq = append(w.seq, w.snd[i].Data)
		if log != nil {
			*log = append(*log, event{w.tick, fmt.Sprintf("s%d", i), "write-ack", w.snd[i].Data})
		}
		w.snd[i].Phase = acked
	}
	// flags and occupancy
	empty, full := w.get("empty"), w.get("full")
	if (empty != 0) != (len(w.seq) == 0) {
		return fmt.Sprintf("empty=%d but the model holds %d elements", empty, len(w.seq))
	}
	if (full != 0) != (len(w.seq) == c.Depth) {
		return fmt.Sprintf("full=%d but the model holds %d of %d elements", full, len(w.seq), c.Depth)
	}
	if sp := w.get("sp"); int(sp) != len(w.seq) {
		return fmt.Sprintf("sp=%d but the model holds %d elements", sp, len(w.seq))
	}
	// stored content (LIFO: memory[0..sp) ; FIFO: from readsp)
	for k := 0; k < len(w.seq); k++ {
		idx := k
		if c.MemType == "FIFO" {
			idx = (int(w.get("readsp")) + k) % c.Depth
		}
		v, _, err := w.sim.GetMem("memory", idx)
		if err == nil && v != w.seq[k] {
			return fmt.Sprintf("memory[%d]=%d, model element %d is %d", idx, v, k, w.seq[k])
		}
	}
	// bounded progress
	if c.NoProg {
		return ""
	}
	for i := range w.snd {
		a := &w.snd[i]
		if a.Phase == req && occBefore < c.Depth {
			a.Wait++
			if a.Wait > w.B {
				return fmt.Sprintf("s%d requested for more than %d cycles with space available", i, w.B)
			}
		} else if a.Phase != req {
			a.Wait = 0
		}
	}
	for i := range w.rcv {
		a := &w.rcv[i]
		if a.Phase == req && occBefore > 0 {
			a.Wait++
			if a.Wait > w.B {
				return fmt.Sprintf("r%d requested for more than %d cycles with data available", i, w.B)
			}
		} else if a.Phase != req {
			a.Wait = 0
		}
	}
	return ""
}

func (w *world) key() [20]byte {
	h := w.sim.Hash()
	var sb strings.Builder
	sb.Write(h[:])
	for _, a := range w.snd {
		fmt.Fprintf(&sb, "|%d.%d.%d.%d", a.Phase, a.Data, a.Wait, a.Hold)
	}
	for _, a := range w.rcv {
		fmt.Fprintf(&sb, "|%d.%d.%d", a.Phase, a.Wait, a.Hold)
	}
	fmt.Fprintf(&sb, "|%v", w.seq)
	return sha1.Sum([]byte(sb.String()))
}

// node is one edge of the exploration tree (kept for every state, small); the
// snapshot of a state lives only while the state waits in the queue.
type node struct {
	parent *node
	st     step
}

type saved struct {
	st   *vsim.State
	snd  []agent
	rcv  []agent
	seq  []uint64
	tick int
	n    *node
}

type step struct {
	S []int8 `json:"s"`
	R []int8 `json:"r"`
}

func pathOf(n *node) []step {
	var p []step
	for ; n != nil; n = n.parent {
		p = append(p, n.st)
	}
	for i, j := 0, len(p)-1; i < j; i, j = i+1, j-1 {
		p[i], p[j] = p[j], p[i]
	}
	return p
}

func (w *world) save(n *node) *saved {
	return &saved{w.sim.Snapshot(), append([]agent(nil), w.snd...), append([]agent(nil), w.rcv...), append([]uint64(nil), w.seq...), w.tick, n}
}

func (w *world) load(s *saved) {
	w.sim.Restore(s.st)
	w.snd = append(w.snd[:0], s.snd...)
	w.rcv = append(w.rcv[:0], s.rcv...)
	w.seq = append(w.seq[:0], s.seq...)
	w.tick = s.tick
}

func toI(a []int8) []int {
	o := make([]int, len(a))
	for i, x := range a {
		o[i] = int(x)
	}
	return o
}

// explore visits every reachable combined state. Returns states, transitions, violation.
func explore(c config, maxStates int) (states, transitions int, viol string, witness []step, complete bool, err error) {
	w, err := newWorld(c)
	if err != nil {
		return 0, 0, "", nil, false, err
	}
	nData := 1 << c.DataSize
	dataOf := func(i, choice int) uint64 { return uint64(choice - 1) }
	seen := map[[20]byte]struct{}{w.key(): {}}
	// depth-first: the frontier (and with it the number of live snapshots) stays small
	stack := []*saved{w.save(nil)}
	sC := make([]int, c.Senders)
	rC := make([]int, c.Receivers)
	nS := make([]int, c.Senders)
	nR := make([]int, c.Receivers)
	for len(stack) > 0 {
		cur := stack[len(stack)-1]
		stack = stack[:len(stack)-1]
		states++
		for i, a := range cur.snd {
			switch a.Phase {
			case idle:
				nS[i] = 1 + nData
			case acked:
				nS[i] = 2
				if a.Hold >= c.maxHold() {
					nS[i] = 1
				}
			default:
				nS[i] = 1
			}
			sC[i] = 0
		}
		for i, a := range cur.rcv {
			switch a.Phase {
			case idle:
				nR[i] = 2
			case acked:
				nR[i] = 2
				if a.Hold >= c.maxHold() {
					nR[i] = 1
				}
			default:
				nR[i] = 1
			}
			rC[i] = 0
		}
		for {
			w.load(cur)
			transitions++
			v := w.step(sC, rC, dataOf, nil)
			mk := func() *node {
				st := step{make([]int8, len(sC)), make([]int8, len(rC))}
				for i, x := range sC {
					st.S[i] = int8(x)
				}
				for i, x := range rC {
					st.R[i] = int8(x)
				}
				return &node{cur.n, st}
			}
			if v != "" {
				return states, transitions, v, pathOf(mk()), false, nil
			}
			k := w.key()
			if _, ok := seen[k]; !ok {
				seen[k] = struct{}{}
				stack = append(stack, w.save(mk()))
				if len(seen) > maxStates {
					return states, transitions, "", nil, false, nil
				}
			}
			// next joint choice
			i := 0
			for ; i < c.Senders+c.Receivers; i++ {
				if i < c.Senders {
					sC[i]++
					if sC[i] < nS[i] {
						break
					}
					sC[i] = 0
				} else {
					j := i - c.Senders
					rC[j]++
					if rC[j] < nR[j] {
						break
					}
					rC[j] = 0
				}
			}
			if i == c.Senders+c.Receivers {
				break
			}
		}
	}
	return states, transitions, "", nil, true, nil
}

// ---- random walk + porcupine ---------------------------------------------------

type qIn struct {
	Write bool
	V     uint64
}

func walk(run *evid.Run, c config, seed int64, cycles int) (string, []event) {
	w, err := newWorld(c)
	if err != nil {
		return "setup: " + err.Error(), nil
	}
	rng := hx.RNG(seed, "c13walk"+c.String())
	next := uint64(1)
	mask := uint64(1)<<uint(c.DataSize) - 1
	if c.DataSize >= 64 {
		mask = ^uint64(0)
	}
	dataOf := func(i, choice int) uint64 { v := next & mask; next++; return v }
	var log []event
	sC := make([]int, c.Senders)
	rC := make([]int, c.Receivers)
	// agents change their eagerness over time so that full, empty and mixed regimes all occur
	for t := 0; t < cycles; t++ {
		regime := (t / 500) % 4
		pw, pr := 50, 50
		switch regime {
		case 1:
			pw, pr = 80, 15
		case 2:
			pw, pr = 15, 80
		case 3:
			pw, pr = 95, 95
		}
		for i := range sC {
			sC[i] = 0
			if rng.IntN(100) < pw {
				sC[i] = 1
			}
		}
		for i := range rC {
			rC[i] = 0
			if rng.IntN(100) < pr {
				rC[i] = 1
			}
		}
		if v := w.step(sC, rC, dataOf, &log); v != "" {
			return v, log
		}
	}
	run.Count("random_walk_cycles", int64(cycles))
	return "", log
}

func linearizable(c config, log []event) (porcupine.CheckResult, int) {
	// operations: call = request event, return = ack event, per agent in order
	type open struct {
		call int64
		v    uint64
	}
	pend := map[string]*open{}
	var ops []porcupine.Operation
	clientID := map[string]int{}
	for _, e := range log {
		if _, ok := clientID[e.Agent]; !ok {
			clientID[e.Agent] = len(clientID)
		}
		switch e.What {
		case "write-request", "read-request":
			pend[e.Agent] = &open{int64(e.Tick) * 2, e.Data}
		case "write-ack":
			o := pend[e.Agent]
			ops = append(ops, porcupine.Operation{ClientId: clientID[e.Agent], Input: qIn{true, o.v}, Call: o.call, Output: uint64(0), Return: int64(e.Tick)*2 + 1})
			delete(pend, e.Agent)
		case "read-ack":
			o := pend[e.Agent]
			ops = append(ops, porcupine.Operation{ClientId: clientID[e.Agent], Input: qIn{false, 0}, Call: o.call, Output: e.Data, Return: int64(e.Tick)*2 + 1})
			delete(pend, e.Agent)
		}
	}
	lifo := c.MemType == "LIFO"
	depth := c.Depth
	model := porcupine.Model{
		Init: func() interface{} { return "" },
		Step: func(st, in, out interface{}) (bool, interface{}) {
			s := st.(string) // elements encoded as fixed-width hex
			i := in.(qIn)
			n := len(s) / 17
			if i.Write {
				if n >= depth {
					return false, st
				}
				return true, s + fmt.Sprintf("%016x,", i.V)
			}
			if n == 0 {
				return false, st
			}
			var el string
			var rest string
			if lifo {
				el, rest = s[len(s)-17:], s[:len(s)-17]
			} else {
				el, rest = s[:17], s[17:]
			}
			return el == fmt.Sprintf("%016x,", out.(uint64)), rest
		},
		Equal: func(a, b interface{}) bool { return a.(string) == b.(string) },
	}
	return porcupine.CheckOperationsTimeout(model, ops, 60*time.Second), len(ops)
}

func main() {
	tier, replay := hx.Args()
	run := evid.New("C13", tier, "model_checking")
	run.Rule = "exhaustive: breadth-first over all joint agent choices from every reachable combined state (vsim state hash, agent phases/data/progress counters, abstract sequence) of each bounded configuration; random: seeded walks with unique data values through write-heavy, read-heavy and saturated regimes, online refinement monitor + porcupine linearizability of the recorded history; non-trivial = a configuration in which ≥1 write and ≥1 read were acknowledged"
	run.Assume = []string{"vsim executes the generated Verilog (2-state, cycle based; see internal/vsim/NOTES.md)",
		"agents follow the write/ack, read/ack four-phase handshake and may dawdle before dropping a request",
		"agents complete their handshakes: a request is kept up at most 1 cycle after its ack (3 in the hold<=3 exhaustive configurations, 5 in the hold<=5 random walks)", "progress bound B = (Depth+1)·(agents+4)+4 cycles of continuous enabled requesting"}
	run.Floor = 2
	scratch, clean := hx.Scratch("c13")
	defer clean()
	hx.SilenceStdout(filepath.Join(scratch, "lib.log"))

	if replay != "" {
		wv, err := evid.ReadWitness(replay)
		if err != nil {
			fmt.Fprintln(os.Stderr, err)
			os.Exit(2)
		}
		run.Floor = 0
		var c config
		b, _ := json.Marshal(wv["config"])
		json.Unmarshal(b, &c)
		var path []step
		b, _ = json.Marshal(wv["choices"])
		json.Unmarshal(b, &path)
		w, err := newWorld(c)
		if err != nil {
			fmt.Fprintln(os.Stderr, err)
			os.Exit(2)
		}
		for _, st := range path {
			run.Eval(1)
			if v := w.step(toI(st.S), toI(st.R), func(i, ch int) uint64 { return uint64(ch - 1) }, nil); v != "" {
				run.Violation("refinement:"+c.MemType+":"+classOf(v), map[string]any{"config": c, "what": v, "choices": path})
				break
			}
		}
		os.Exit(run.Finish())
	}

	// ---------- exhaustive ----------
	var cfgs []config
	maxD, maxA, maxStates := 2, 2, 400000
	if tier == "thorough" {
		maxD, maxA, maxStates = 4, 3, 8000000
	}
	for _, mt := range []string{"LIFO", "FIFO"} {
		for d := 1; d <= maxD; d++ {
			for s := 1; s <= maxA; s++ {
				for r := 1; r <= maxA; r++ {
					ds := 1
					cfgs = append(cfgs, config{MemType: mt, Depth: d, Senders: s, Receivers: r, DataSize: ds, NoProg: s+r >= 5})
				}
			}
		}
		// agents that keep a finished request up for up to 3 cycles (the arbiter's rotation comes back
		// to them): two agents of one kind
		cfgs = append(cfgs, config{MemType: mt, Depth: 2, Senders: 2, Receivers: 1, DataSize: 1, MaxHold: 3, NoProg: true},
			config{MemType: mt, Depth: 2, Senders: 1, Receivers: 2, DataSize: 1, MaxHold: 3, NoProg: true})
		// two data bits on the smallest shapes
		cfgs = append(cfgs, config{MemType: mt, Depth: 2, Senders: 1, Receivers: 1, DataSize: 2}, config{MemType: mt, Depth: 3, Senders: 1, Receivers: 2, DataSize: 1}, config{MemType: mt, Depth: 3, Senders: 2, Receivers: 1, DataSize: 1})
	}
	type res struct {
		C           config `json:"config"`
		States      int    `json:"states"`
		Transitions int    `json:"transitions"`
		Exhaustive  bool   `json:"exhaustive"`
	}
	results := make([]res, len(cfgs))
	hx.Par(len(cfgs), func(i int) {
		c := cfgs[i]
		st, tr, v, path, complete, err := explore(c, maxStates)
		if err != nil {
			run.Inconclusive("cannot-elaborate:" + err.Error())
			return
		}
		results[i] = res{c, st, tr, complete}
		run.Eval(int64(tr))
		run.Count("states", int64(st))
		run.Count("transitions", int64(tr))
		if v != "" {
			run.Violation("refinement:"+c.MemType+":"+classOf(v), map[string]any{"config": c, "what": v, "choices": path, "note": "choices[i].s/.r: per-agent choice at cycle i (0 = stay, sender idle k>0 = request with data k-1, acked 1 = drop request)"})
			return
		}
		if !complete {
			run.Inconclusive("state-bound-reached:" + c.String())
		}
		run.Nontrivial("x|" + c.String())
	})
	allComplete := true
	for _, r := range results {
		if !r.Exhaustive {
			allComplete = false
		}
	}
	run.Set("exhaustive_configurations", results)
	run.Set("exhaustive", allComplete)
	run.Set("traces_validated_against_impl", len(cfgs))

	// ---------- random walks + porcupine ----------
	var rc []config
	for _, mt := range []string{"LIFO", "FIFO"} {
		for _, x := range [][4]int{{4, 3, 3, 16}, {3, 2, 3, 16}, {8, 1, 1, 40}, {1, 3, 3, 16}, {5, 3, 2, 8}, {16, 2, 2, 16}, {7, 3, 3, 16}} {
			rc = append(rc, config{MemType: mt, Depth: x[0], Senders: x[1], Receivers: x[2], DataSize: x[3]})
			if x[1]+x[2] >= 4 {
				rc = append(rc, config{MemType: mt, Depth: x[0], Senders: x[1], Receivers: x[2], DataSize: x[3], MaxHold: 5})
			}
		}
	}
	cycles := 20000
	if tier == "thorough" {
		cycles = 400000
	}
	hx.Par(len(rc), func(i int) {
		c := rc[i]
		v, log := walk(run, c, run.Seed, cycles)
		run.Eval(int64(cycles))
		if v != "" {
			tail := log
			if len(tail) > 60 {
				tail = tail[len(tail)-60:]
			}
			run.Violation("refinement:"+c.MemType+":"+classOf(v), map[string]any{"config": c, "what": v, "last_events": tail, "walk_seed": run.Seed})
			return
		}
		// porcupine on a prefix of bounded length (the checker is exponential in concurrency, not in length)
		cut := log
		if len(cut) > 6000 {
			cut = cut[:6000]
		}
		resu, nops := linearizable(c, cut)
		run.Count("porcupine_operations_checked", int64(nops))
		switch resu {
		case porcupine.Illegal:
			run.Violation("not-linearizable:"+c.MemType, map[string]any{"config": c, "events": cut[:min(len(cut), 200)]})
		case porcupine.Unknown:
			run.Inconclusive("porcupine-timeout:" + c.String())
		default:
			run.Nontrivial("w|" + c.String())
		}
		if i == 0 {
			run.Sample(map[string]any{"config": c.String(), "first_events_of_walk": log[:min(len(log), 12)]})
		}
	})
	run.Sample(map[string]any{"exhaustive_example": results[0]})
	os.Exit(run.Finish())
}

func classOf(v string) string {
	f := strings.Fields(v)
	if len(f) > 4 {
		f = f[:4]
	}
	s := strings.Join(f, "_")
	// strip agent indices / numbers so that the class is structural
	var b strings.Builder
	for _, ch := range s {
		if ch >= '0' && ch <= '9' {
			continue
		}
		b.WriteRune(ch)
	}
	return b.String()
}
