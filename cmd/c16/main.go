// c16: every machine a front-end emits is well formed.
//
// Machines produced by basm (generated programs, fragment graphs, directed
// boundary programs, neuralbond and bmqsim outputs) and by bondgo are checked by
// an independent validator: ROM word width and opcode decoding, operand ranges
// recovered with /verif's own signature table, ROM/register/IO capacity, sorted
// duplicate-free opcode list, register sizes, bond graph. Sources constructed so
// that they cannot fit must be rejected.
package main

import (
	"bytes"
	"context"
	"encoding/json"
	"fmt"
	"os"
	"os/exec"
	"path/filepath"
	"regexp"
	"sort"
	"strconv"
	"strings"
	"time"

	"github.com/BondMachineHQ/BondMachine/pkg/bondmachine"
	"github.com/BondMachineHQ/BondMachine/pkg/procbuilder"
	"verif/internal/asmw"
	"verif/internal/basmgen"
	"verif/internal/evid"
	"verif/internal/gen"
	"verif/internal/gogen"
	"verif/internal/hx"
)

func bitsFor(n int) int { // smallest b ≥ 1 with 2^b ≥ n
	for b := 1; b < 32; b++ {
		if 1<<uint(b) >= n {
			return b
		}
	}
	return 1
}

func id(bits string) uint64 {
	v, _ := strconv.ParseUint(bits, 2, 64)
	return v
}

// validate returns "" or a description "class|detail".
func validate(bm *bondmachine.Bondmachine) (string, string) {
	if len(bm.Links) != len(bm.Internal_inputs) {
		return "bonds", fmt.Sprintf("|Links|=%d |Internal_inputs|=%d", len(bm.Links), len(bm.Internal_inputs))
	}
	for i, l := range bm.Links {
		if l < -1 || l >= len(bm.Internal_outputs) {
			return "bonds", fmt.Sprintf("Links[%d]=%d", i, l)
		}
	}
	for p, d := range bm.Processors {
		if d < 0 || d >= len(bm.Domains) {
			return "bonds", fmt.Sprintf("processor %d in missing domain %d", p, d)
		}
		n, m := 0, 0
		for _, b := range bm.Internal_inputs {
			if b.Map_to == bondmachine.CPINPUT && b.Res_id == p {
				n++
			}
		}
		for _, b := range bm.Internal_outputs {
			if b.Map_to == bondmachine.CPOUTPUT && b.Res_id == p {
				m++
			}
		}
		if n != int(bm.Domains[d].N) || m != int(bm.Domains[d].M) {
			return "bonds", fmt.Sprintf("processor %d has %d/%d endpoints, its domain %d/%d ports", p, n, m, bm.Domains[d].N, bm.Domains[d].M)
		}
	}
	// shared objects: every link names an existing object, and a processor is linked to exactly as many
	// objects as its domain's constraint list declares (the k-th entry is the processor's k-th object)
	if len(bm.Shared_links) > len(bm.Processors) {
		return "shared-objects", fmt.Sprintf("%d shared-link lists for %d processors", len(bm.Shared_links), len(bm.Processors))
	}
	for p, links := range bm.Shared_links {
		for _, so := range links {
			if so < 0 || so >= len(bm.Shared_objects) {
				return "shared-objects", fmt.Sprintf("processor %d is linked to shared object %d, the machine has %d", p, so, len(bm.Shared_objects))
			}
		}
		declared := 0
		for _, c := range strings.Split(bm.Domains[bm.Processors[p]].Shared_constraints, ",") {
			if strings.TrimSpace(c) != "" {
				declared++
			}
		}
		if declared != len(links) {
			return "shared-objects", fmt.Sprintf("processor %d declares %d shared object(s) (%q) but the machine links %d to it %v", p, declared, bm.Domains[bm.Processors[p]].Shared_constraints, len(links), links)
		}
	}
	ein, eout := 0, 0
	for _, b := range bm.Internal_outputs {
		if b.Map_to == bondmachine.BMINPUT {
			ein++
		}
	}
	for _, b := range bm.Internal_inputs {
		if b.Map_to == bondmachine.BMOUTPUT {
			eout++
		}
	}
	if ein != bm.Inputs || eout != bm.Outputs {
		return "bonds", fmt.Sprintf("external endpoints %d/%d, counters %d/%d", ein, eout, bm.Inputs, bm.Outputs)
	}
	for di, d := range bm.Domains {
		if d.Rsize != bm.Rsize {
			return "register-size", fmt.Sprintf("domain %d Rsize %d, machine %d", di, d.Rsize, bm.Rsize)
		}
		if d.R == 0 {
			return "registers", fmt.Sprintf("domain %d has no register field", di)
		}
		for i := range d.Op {
			if d.Op[i] == nil {
				return "opcode-list", fmt.Sprintf("domain %d: nil opcode at %d", di, i)
			}
			if i > 0 && d.Op[i-1].Op_get_name() >= d.Op[i].Op_get_name() {
				return "opcode-list", fmt.Sprintf("domain %d: %s before %s", di, d.Op[i-1].Op_get_name(), d.Op[i].Op_get_name())
			}
		}
		if len(d.Op) == 0 {
			return "opcode-list", fmt.Sprintf("domain %d has no opcodes", di)
		}
		if ok := len(d.Modes) == 1; !ok {
			return "modes", fmt.Sprintf("domain %d modes %v", di, d.Modes)
		}
		if _, ok := d.ConstraintCheck(); !ok {
			return "constraint-check", fmt.Sprintf("domain %d", di)
		}
		opbits := bitsFor(len(d.Op))
		// our own instruction widths
		word := 0
		widths := map[string][]int{}
		for _, op := range d.Op {
			sig, ok := gen.Sig(op.Op_get_name())
			if !ok {
				return "", "" // opcode outside the signature table: cannot judge
			}
			w := opbits
			var fw []int
			for _, f := range sig {
				b, _ := gen.FieldWidth(&d.Arch, op.Op_get_name(), f)
				fw = append(fw, b)
				w += b
			}
			widths[op.Op_get_name()] = fw
			if w > word {
				word = w
			}
		}
		if d.WordSize != 0 {
			if int(d.WordSize) < word {
				return "word-size", fmt.Sprintf("domain %d: WordSize %d smaller than the widest opcode (%d)", di, d.WordSize, word)
			}
			word = int(d.WordSize)
		}
		cells := len(d.Slocs) + len(d.Vars)
		if cells > 1<<d.O {
			return "rom-capacity", fmt.Sprintf("domain %d: %d ROM cells in 2^%d", di, cells, d.O)
		}
		if len(d.Slocs) == 0 && d.Modes[0] != "vn" {
			// (a von Neumann processor runs from RAM: its ROM is legitimately empty)
			return "rom-capacity", fmt.Sprintf("domain %d has no program", di)
		}
		for li, wv := range append(append([]string{}, d.Slocs...), d.Vars...) {
			if len(wv) != word || strings.Trim(wv, "01") != "" {
				return "rom-word-width", fmt.Sprintf("domain %d word %d: %q has %d bits, the instruction word has %d", di, li, wv, len(wv), word)
			}
		}
		for li, wv := range d.Slocs {
			oi := int(id(wv[:opbits]))
			if oi >= len(d.Op) {
				return "opcode-index", fmt.Sprintf("domain %d line %d: opcode index %d of %d", di, li, oi, len(d.Op))
			}
			name := d.Op[oi].Op_get_name()
			sig, _ := gen.Sig(name)
			pos := opbits
			for fi, f := range sig {
				b := widths[name][fi]
				v := id(wv[pos : pos+b])
				pos += b
				_, cnt := gen.FieldWidth(&d.Arch, name, f)
				switch f.K {
				case gen.KIn, gen.KOut, gen.KSO:
					if v >= cnt {
						return "operand-range", fmt.Sprintf("domain %d line %d (%s): operand %d = %d, only %d exist", di, li, name, fi, v, cnt)
					}
				case gen.KRomAddr:
					if int(v) >= cells {
						return "jump-target", fmt.Sprintf("domain %d line %d (%s): ROM address %d, %d cells used", di, li, name, v, cells)
					}
				case gen.KLoc:
					if d.Modes[0] == "ha" && int(v) >= len(d.Slocs) {
						return "jump-target", fmt.Sprintf("domain %d line %d (%s): target %d, program has %d lines", di, li, name, v, len(d.Slocs))
					}
				}
			}
			for _, c := range wv[pos:] {
				if c != '0' {
					return "padding", fmt.Sprintf("domain %d line %d (%s): non-zero padding", di, li, name)
				}
			}
		}
	}
	return "", ""
}

var ioattRe = regexp.MustCompile(`(?m)^%meta\s+ioatt\s+(\S+)\s+(.*)$`)

// ioAdequacy checks the emitted machine against the I/O metadata of a plain (fragment-free) source:
// every external port the source attaches must exist and be bonded, and every two-ended ioatt name
// must have become one bond. CP endpoints are counted, not named (the numbering of processors is the
// assembler's business).
func ioAdequacy(src string, bm *bondmachine.Bondmachine, assumeUsed bool) (string, string) {
	type end struct {
		cp, typ string
		idx     int
	}
	names := map[string][]end{}
	for _, m := range ioattRe.FindAllStringSubmatch(src, -1) {
		e := end{idx: -1}
		for _, kv := range strings.Split(m[2], ",") {
			k, v, ok := strings.Cut(kv, ":")
			if !ok {
				continue
			}
			k, v = strings.TrimSpace(k), strings.TrimSpace(v)
			switch k {
			case "cp":
				e.cp = v
			case "type":
				e.typ = v
			case "index":
				e.idx, _ = strconv.Atoi(v)
			}
		}
		if e.cp == "" || e.idx < 0 || (e.typ != "input" && e.typ != "output") {
			return "", "" // a form this parser does not know: not judged
		}
		names[m[1]] = append(names[m[1]], e)
	}
	bonded := map[string]bool{}
	nb := 0
	for _, b := range bm.List_bonds() {
		nb++
		for _, ep := range strings.Split(b, ",") {
			bonded[ep] = true
		}
	}
	// the instruction lines of the source (a CP port that no instruction uses is not created by the
	// assembler; attaching it is the source's inconsistency, not judged here)
	var code []string
	for _, l := range strings.Split(src, "\n") {
		if !strings.HasPrefix(strings.TrimSpace(l), "%") {
			code = append(code, l)
		}
	}
	portUsed := func(tok string) bool {
		re := regexp.MustCompile(`(^|[\s,])` + tok + `($|[\s,])`)
		for _, l := range code {
			if re.MatchString(l) {
				return true
			}
		}
		return false
	}
	pairs := 0
	for n, es := range names {
		if len(es) != 2 {
			return "", "" // not a plain two-ended attachment: not judged
		}
		judged := true
		for _, e := range es {
			if e.cp != "bm" && !assumeUsed && !portUsed(fmt.Sprintf("%c%d", e.typ[0], e.idx)) {
				judged = false
			}
		}
		if !judged {
			continue
		}
		pairs++
		for _, e := range es {
			if e.cp != "bm" {
				continue
			}
			ep := fmt.Sprintf("%c%d", e.typ[0], e.idx)
			if e.typ == "input" && e.idx >= bm.Inputs || e.typ == "output" && e.idx >= bm.Outputs {
				return "external-port-missing", fmt.Sprintf("the source attaches %s (ioatt %s) but the machine has %d inputs and %d outputs", ep, n, bm.Inputs, bm.Outputs)
			}
			if !bonded[ep] {
				return "external-port-not-bonded", fmt.Sprintf("the source attaches %s (ioatt %s) but no bond of the machine ends there: %v", ep, n, bm.List_bonds())
			}
		}
	}
	if nb < pairs {
		return "bond-count", fmt.Sprintf("the source has %d two-ended ioatt names whose CP ports are used by the code, the machine has %d bonds: %v", pairs, nb, bm.List_bonds())
	}
	return "", ""
}

func runTool(bin string, dir string, tool string, args []string, files map[string]string, timeout time.Duration) (string, error) {
	os.MkdirAll(dir, 0o755)
	for n, c := range files {
		os.WriteFile(filepath.Join(dir, n), []byte(c), 0o644)
	}
	ctx, cancel := context.WithTimeout(context.Background(), timeout)
	defer cancel()
	cmd := exec.CommandContext(ctx, filepath.Join(bin, tool), args...)
	cmd.Dir = dir
	var ob bytes.Buffer
	cmd.Stdout, cmd.Stderr = &ob, &ob
	err := cmd.Run()
	if ctx.Err() != nil {
		return ob.String(), fmt.Errorf("timeout")
	}
	return ob.String(), err
}

func load(js string) (*bondmachine.Bondmachine, error) {
	bj := new(bondmachine.Bondmachine_json)
	if err := json.Unmarshal([]byte(js), bj); err != nil {
		return nil, err
	}
	return bj.Dejsoner(), nil
}

type srcCase struct {
	Name, Src, Opt, Class string
	MustReject            bool
}

func main() {
	asmw.ServeIfWorker()
	tier, _ := hx.Args()
	run := evid.New("C16", tier, "exploration")
	run.Rule = "machines: basm on generated pipelines (C05 generator, both option sets), on fragment-style sources, on directed boundary programs (highest register r(2^k-1) and r(2^k), ROMs of exactly 2^k and 2^k+1 lines, input/output indices at powers of two, largest immediates) and on the outputs of neuralbond and bmqsim; bondgo on small Go programs (single and -mpm); each validated independently; plus sources that cannot fit (immediate wider than the register, undefined label, unknown opcode, register size 0/300), which must be rejected; non-trivial = a produced machine that was validated or a must-reject source that was judged; distinct by source"
	run.Assume = []string{"the validator computes word widths and decodes operands with /verif's signature table (internal/gen/opsig.go) and its own bit counting, not with the repository's sizing helpers",
		"machines using opcodes outside the signature table are not judged"}
	run.Floor = 40
	scratch, clean := hx.Scratch("c16")
	defer clean()
	hx.SilenceStdout(filepath.Join(scratch, "lib.log"))
	pools := asmw.NewPools(scratch)
	defer pools.Close()

	var cs []srcCase
	rng := hx.RNG(run.Seed, "c16")
	nGen := 120
	if tier == "thorough" {
		nGen = 3000
	}
	for i := 0; i < nGen; i++ {
		opt, maxLit := "nodyn", uint64(0)
		if i%2 == 1 {
			opt, maxLit = "minword", 31
		}
		p := basmgen.Generate(rng, i%4 != 0, maxLit)
		cs = append(cs, srcCase{Name: fmt.Sprintf("gen%d", i), Src: p.Text(), Opt: opt, Class: "generated"})
	}
	// directed boundary programs
	prog := func(rs int, body []string, nin, nout int) string {
		var sb strings.Builder
		sb.WriteString("%section code .romtext iomode:sync\n\tentry s\ns:\n")
		for _, l := range body {
			sb.WriteString("\t" + l + "\n")
		}
		sb.WriteString("\tj s\n%endsection\n%meta cpdef cpu romcode: code, ramsize:8\n")
		for k := 0; k < nin; k++ {
			fmt.Fprintf(&sb, "%%meta ioatt xi%d cp: bm, index:%d, type:input\n%%meta ioatt xi%d cp: cpu, index:%d, type:input\n", k, k, k, k)
		}
		for k := 0; k < nout; k++ {
			fmt.Fprintf(&sb, "%%meta ioatt xo%d cp: cpu, index:%d, type:output\n%%meta ioatt xo%d cp: bm, index:%d, type:output\n", k, k, k, k)
		}
		fmt.Fprintf(&sb, "%%meta bmdef global registersize:%d\n", rs)
		return sb.String()
	}
	for _, hi := range []int{0, 1, 2, 3, 4, 7, 8, 15, 16, 17} {
		cs = append(cs, srcCase{Name: fmt.Sprintf("highreg-r%d", hi), Opt: "nodyn", Class: "boundary-register",
			Src: prog(8, []string{fmt.Sprintf("mov r%d, 5", hi), fmt.Sprintf("inc r%d", hi), fmt.Sprintf("mov o0, r%d", hi)}, 0, 1)})
	}
	// the highest register / port mentioned in only one way: as the second operand of a two-register
	// instruction, inside a macro body only, through plain i2r / r2o (not the mov pseudo-instruction)
	for _, hi := range []int{1, 2, 3, 4, 7, 8, 15, 16} {
		cs = append(cs, srcCase{Name: fmt.Sprintf("highreg-second-operand-r%d", hi), Opt: "nodyn", Class: "boundary-register",
			Src: prog(8, []string{"mov r0, 5", fmt.Sprintf("add r0, r%d", hi), "mov o0, r0"}, 0, 1)})
		cs = append(cs, srcCase{Name: fmt.Sprintf("highreg-cpy-source-r%d", hi), Opt: "nodyn", Class: "boundary-register",
			Src: prog(8, []string{fmt.Sprintf("cpy r0, r%d", hi), "mov o0, r0"}, 0, 1)})
		cs = append(cs, srcCase{Name: fmt.Sprintf("highreg-in-macro-r%d", hi), Opt: "nodyn", Class: "boundary-register",
			Src: fmt.Sprintf("%%macro bump 0\n\tinc\tr%d\n\tinc\tr%d\n%%endmacro\n", hi, hi) + prog(8, []string{"mov r0, 5", "bump", "inc r0", "mov o0, r0"}, 0, 1)})
	}
	for _, k := range []int{1, 2, 3, 4, 5, 8, 9} {
		cs = append(cs, srcCase{Name: fmt.Sprintf("highport-plain-i2r-r2o-%d", k), Opt: "nodyn", Class: "boundary-ports",
			Src: prog(16, []string{fmt.Sprintf("i2r r0, i%d", k-1), "inc r0", fmt.Sprintf("r2o r0, o%d", k-1)}, k, k)})
	}
	for _, n := range []int{1, 2, 3, 4, 5, 7, 8, 9, 15, 16, 17, 31, 32, 33} {
		var body []string
		for i := 0; i < n-1; i++ { // + the closing jump = n lines
			body = append(body, "inc r0")
		}
		if len(body) == 0 {
			body = nil
		} else {
			body[len(body)-1] = "mov o0, r0"
		}
		cs = append(cs, srcCase{Name: fmt.Sprintf("romlines-%d", n), Opt: "nodyn", Class: "boundary-rom", Src: prog(8, body, 0, 1)})
	}
	// execution modes: code in ROM and in RAM of the same CP (hy), RAM only (vn); the two sections share opcodes
	for _, mode := range []string{"hy", "vn", "ha"} {
		for _, share := range []bool{true, false} {
			rom := "\ti2r r0, i0\n\tinc r0\n\tr2o r0, o0\n\tj _start\n"
			ram := "\tinc r1\n\tr2o r1, o0\n\tj _rstart\n"
			if !share {
				ram = "\tdec r1\n\tcpy r2, r1\n\tj _rstart\n"
			}
			src := "%section prog .romtext iomode:sync\n\tentry _start\n_start:\n" + rom + "%endsection\n" +
				"%section rprog .ramtext iomode:sync\n\tentry _rstart\n_rstart:\n" + ram + "%endsection\n"
			switch mode {
			case "hy":
				src += "%meta cpdef cpu romcode: prog, ramcode: rprog, execmode: hy\n"
			case "vn":
				src += "%meta cpdef cpu ramcode: rprog, execmode: vn\n"
			default:
				src += "%meta cpdef cpu romcode: prog\n"
			}
			// only ports that the CP's own code uses are attached (a vn CP runs the RAM section only)
			used := rom + ram
			if mode == "vn" {
				used = ram
			}
			if strings.Contains(used, "i0") {
				src += "%meta ioatt tin cp: cpu, index:0, type:input\n%meta ioatt tin cp: bm, index:0, type:input\n"
			}
			if strings.Contains(used, "o0") {
				src += "%meta ioatt tout cp: cpu, index:0, type:output\n%meta ioatt tout cp: bm, index:0, type:output\n"
			}
			src += "%meta bmdef global registersize:8\n"
			cs = append(cs, srcCase{Name: fmt.Sprintf("execmode-%s-shared-opcodes-%v", mode, share), Opt: "nodyn", Class: "execmode", Src: src})
		}
	}
	// code in RAM (execmode vn and hy): programs of exactly 2^k-1, 2^k and 2^k+1 lines, alone and next to
	// RAM data, so that the RAM address width is decided at a boundary
	for _, mode := range []string{"vn", "hy"} {
		for _, n := range []int{2, 3, 4, 5, 7, 8, 9, 15, 16, 17} {
			for _, data := range []int{0, 3} {
				var sb strings.Builder
				sb.WriteString("%section rprog .ramtext iomode:sync\n\tentry _rstart\n_rstart:\n")
				for i := 0; i < n-2; i++ {
					sb.WriteString("\tinc r0\n")
				}
				sb.WriteString("\tr2o r0, o0\n\tj _rstart\n%endsection\n")
				cp := "%meta cpdef cpu ramcode: rprog, execmode: " + mode
				if mode == "hy" {
					sb.WriteString("%section prog .romtext iomode:sync\n\tentry _start\n_start:\n\tinc r1\n\tj _start\n%endsection\n")
					cp = "%meta cpdef cpu romcode: prog, ramcode: rprog, execmode: hy"
				}
				if data > 0 {
					sb.WriteString("%section rdat .ramdata\n\tvar db 0x01, 0x02, 0x03\n%endsection\n")
					cp += ", ramdata: rdat"
				}
				sb.WriteString(cp + "\n%meta ioatt tout cp: cpu, index:0, type:output\n%meta ioatt tout cp: bm, index:0, type:output\n%meta bmdef global registersize:8\n")
				cs = append(cs, srcCase{Name: fmt.Sprintf("ramlines-%s-%d-data%d", mode, n, data), Opt: "nodyn", Class: "boundary-ram", Src: sb.String()})
			}
		}
	}
	for _, k := range []int{1, 2, 3, 4, 5, 8, 9} {
		var body []string
		for i := 0; i < k; i++ {
			body = append(body, fmt.Sprintf("mov r0, i%d", i))
		}
		for i := 0; i < k; i++ {
			body = append(body, fmt.Sprintf("mov o%d, r0", i))
		}
		cs = append(cs, srcCase{Name: fmt.Sprintf("ports-%d", k), Opt: "nodyn", Class: "boundary-ports", Src: prog(16, body, k, k)})
		// only the highest port is used
		cs = append(cs, srcCase{Name: fmt.Sprintf("highport-%d", k), Opt: "nodyn", Class: "boundary-ports",
			Src: prog(16, []string{fmt.Sprintf("mov r0, i%d", k-1), fmt.Sprintf("mov o%d, r0", k-1)}, k, k)})
	}
	// external ports that only the I/O metadata mentions: a BM input wired straight to a BM output next
	// to a CP using i0/o0, the pair listed input-first and output-first, at several indices; an
	// external input feeding two CPs
	for _, k := range []int{1, 2, 3, 4} {
		for _, inFirst := range []bool{true, false} {
			a := fmt.Sprintf("%%meta ioatt thru cp:bm, type:input, index:%d\n", k)
			b := fmt.Sprintf("%%meta ioatt thru cp:bm, type:output, index:%d\n", k)
			if !inFirst {
				a, b = b, a
			}
			body := []string{"mov r0, i0", "inc r0", "mov o0, r0"}
			for j := 1; j < k; j++ {
				body = append(body, fmt.Sprintf("mov r1, i%d", j), fmt.Sprintf("mov o%d, r1", j))
			}
			cs = append(cs, srcCase{Name: fmt.Sprintf("passthrough-%d-inputfirst-%v", k, inFirst), Opt: "nodyn", Class: "io-metadata", Src: prog(8, body, k, k) + a + b})
		}
	}
	for _, rs := range []int{8, 16, 32} {
		max := uint64(1)<<uint(rs) - 1
		cs = append(cs, srcCase{Name: fmt.Sprintf("maximm-%d", rs), Opt: "nodyn", Class: "boundary-immediate", Src: prog(rs, []string{fmt.Sprintf("mov r0, %d", max), "mov o0, r0"}, 0, 1)})
		cs = append(cs, srcCase{Name: fmt.Sprintf("overimm-%d", rs), Opt: "nodyn", Class: "immediate-too-wide", MustReject: true, Src: prog(rs, []string{fmt.Sprintf("mov r0, %d", max+1), "mov o0, r0"}, 0, 1)})
		cs = append(cs, srcCase{Name: fmt.Sprintf("overimm-hex-%d", rs), Opt: "nodyn", Class: "immediate-too-wide", MustReject: true, Src: prog(rs, []string{fmt.Sprintf("rset r0, 0x1%x", max), "mov o0, r0"}, 0, 1)})
	}
	// numeric RAM addresses next to a wider instruction (rset): the last cell is fine, the first cell beyond
	// the RAM (3 data words -> 4 cells) and further ones cannot fit
	for _, a := range []int{0, 3, 4, 5, 6, 9} {
		for _, store := range []bool{false, true} {
			acc := fmt.Sprintf("mov r0, ram:%d", a)
			if store {
				acc = fmt.Sprintf("mov ram:%d, r0", a)
			}
			src := "%section code .romtext iomode:sync\n\tentry _start\n_start:\n\trset r1, 7\n\t" + acc + "\n\tr2o r0, o0\n\tj _start\n%endsection\n" +
				"%section dat .ramdata\n\tv db 0x01, 0x02, 0x03\n%endsection\n%meta cpdef cpu romcode: code, ramdata: dat\n" +
				"%meta ioatt tout cp: cpu, index:0, type:output\n%meta ioatt tout cp: bm, index:0, type:output\n%meta bmdef global registersize:8\n"
			cs = append(cs, srcCase{Name: fmt.Sprintf("ramaddr-%d-store-%v", a, store), Opt: "nodyn", Class: "ram-address", MustReject: a >= 4, Src: src})
		}
	}
	// numeric jump targets in a program of exactly 8 lines (3 address bits) next to a wider instruction
	// (rset): the last line is fine, line 8 and beyond cannot be named
	for _, a := range []int{0, 7, 8, 9, 15, 16, 64} {
		for _, jop := range []string{"j %d", "jz r1, %d"} {
			body := []string{"mov r1, 3", "inc r0", "mov o0, r0", "dec r1", "jz r1, s", "inc r0", fmt.Sprintf(jop, a)}
			cs = append(cs, srcCase{Name: fmt.Sprintf("romaddr-%s-%d", strings.Fields(jop)[0], a), Opt: "nodyn", Class: "rom-address", MustReject: a >= 8, Src: prog(8, body, 0, 1)})
		}
	}
	cs = append(cs, srcCase{Name: "undefined-label", Opt: "nodyn", Class: "undefined-label", MustReject: true, Src: prog(8, []string{"inc r0", "jz r0, nowhere", "mov o0, r0"}, 0, 1)})
	cs = append(cs, srcCase{Name: "unknown-opcode", Opt: "nodyn", Class: "unknown-opcode", MustReject: true, Src: prog(8, []string{"frobnicate r0", "mov o0, r0"}, 0, 1)})
	cs = append(cs, srcCase{Name: "regsize-0", Opt: "nodyn", Class: "register-size", MustReject: true, Src: prog(0, []string{"inc r0", "mov o0, r0"}, 0, 1)})
	cs = append(cs, srcCase{Name: "regsize-300", Opt: "nodyn", Class: "register-size", MustReject: true, Src: prog(300, []string{"inc r0", "mov o0, r0"}, 0, 1)})

	judge := func(name, class string, bm *bondmachine.Bondmachine, w map[string]any) {
		if src, _ := w["source"].(string); src != "" && strings.Contains(src, "%meta ioatt") && !strings.Contains(src, "%fragment") && !strings.Contains(src, "filinkatt") {
			_, generated := w["generated_basm"]
			if cls, detail := ioAdequacy(src, bm, generated); cls != "" {
				w["what"] = detail
				run.Violation("malformed-machine:"+cls+":"+class, w)
				return
			}
			run.Tally("io_metadata_checked_by_source", class)
		}
		cls, detail := func() (c, d string) {
			defer func() {
				if r := recover(); r != nil {
					c, d = "validator-panic", fmt.Sprint(r)
				}
			}()
			return validate(bm)
		}()
		if cls != "" {
			w["what"] = detail
			run.Violation("malformed-machine:"+cls+":"+class, w)
			return
		}
		run.Tally("validated_machines_by_source", class)
		ops := map[string]bool{}
		for _, d := range bm.Domains {
			for _, o := range d.Op {
				ops[o.Op_get_name()] = true
			}
		}
		for o := range ops {
			run.Tally("opcodes_seen_in_validated_machines", o)
		}
	}
	hx.Par(len(cs), func(i int) {
		c := cs[i]
		run.Eval(1)
		r := pools.Call(asmw.Req{Src: c.Src, Opt: c.Opt, NoSim: true, WantJSON: true})
		w := map[string]any{"name": c.Name, "source": c.Src, "options": c.Opt}
		if r.Crash || r.Panic {
			w["err"] = r.Err
			run.Violation("assembler-crashes:"+c.Class, w)
			return
		}
		if c.MustReject {
			run.Nontrivial(c.Name)
			if r.Err == "" {
				w["machine"] = r.JSON[:min(len(r.JSON), 500)]
				run.Violation("unfittable-source-accepted:"+c.Class, w)
			} else {
				run.Tally("must_reject_sources_rejected", c.Class)
			}
			return
		}
		if r.Err != "" {
			run.Inconclusive("source-rejected:" + c.Class)
			run.Tally("rejection_reasons", c.Class+": "+r.Err[:min(len(r.Err), 100)])
			return
		}
		bm, err := load(r.JSON)
		if err != nil {
			w["err"] = err.Error()
			run.Violation("machine-json-unreadable:"+c.Class, w)
			return
		}
		run.Nontrivial(c.Name + c.Src)
		judge(c.Name, c.Class, bm, w)
		if i < 2 {
			run.Sample(map[string]any{"source": c.Src, "machine_json_prefix": r.JSON[:min(len(r.JSON), 300)]})
		}
	})

	// ---- other front ends through their command line tools ----
	repo := os.Getenv("VERIF_REPO")
	if repo == "" {
		repo = "/repo"
	}
	bin := filepath.Join(scratch, "bin")
	os.MkdirAll(bin, 0o755)
	for _, t := range []string{"basm", "neuralbond", "bmqsim", "bondgo"} {
		cmd := exec.Command("go", "build", "-tags", "verif", "-o", filepath.Join(bin, t), "./cmd/"+t)
		cmd.Dir = repo
		if out, err := cmd.CombinedOutput(); err != nil {
			fmt.Fprintf(os.Stderr, "go build %s: %v\n%s", t, err, out)
			os.Exit(2)
		}
	}
	cli := func(name, class string, steps [][]string, files map[string]string, result string) {
		run.Eval(1)
		dir := filepath.Join(scratch, "cli", name)
		w := map[string]any{"name": name, "steps": steps}
		for si, st := range steps {
			f := files
			if si > 0 {
				f = nil
			}
			to := 60 * time.Second
			if st[0] == "bondgo" {
				to = 10 * time.Second
			}
			var out string
			var err error
			for attempt := 0; attempt < 6; attempt++ { // bondgo may hang (C12): retry
				out, err = runTool(bin, dir, st[0], st[1:], f, to)
				if err == nil || err.Error() != "timeout" {
					break
				}
			}
			if err != nil {
				run.Inconclusive("tool-failed:" + st[0])
				run.Tally("tool_failures", st[0]+": "+strings.ReplaceAll(out[max(0, len(out)-160):], "\n", " / "))
				return
			}
		}
		if gb, err := os.ReadFile(filepath.Join(dir, "out.basm")); err == nil {
			// the .basm a front end wrote: every port it attaches is a port of a generated CP (the neuron
			// code lives in library files, so "the code uses the port" cannot be read off this text)
			w["source"] = string(gb)
			w["generated_basm"] = true
		}
		b, err := os.ReadFile(filepath.Join(dir, result))
		if err != nil {
			run.Inconclusive("tool-produced-no-machine:" + steps[len(steps)-1][0])
			return
		}
		js := string(b)
		if !strings.Contains(js, "\"Domains\"") { // a single machine (bondgo -save-machine): wrap it
			mj := new(procbuilder.Machine_json)
			if err := json.Unmarshal(b, mj); err != nil {
				run.Violation("machine-json-unreadable:"+class, w)
				return
			}
			m := mj.Dejsoner()
			bm := gen.NewBM(m.Rsize, []*procbuilder.Machine{m}, 0, 0, nil)
			run.Nontrivial(name)
			judge(name, class, bm, w)
			return
		}
		bm, err := load(js)
		if err != nil {
			run.Violation("machine-json-unreadable:"+class, w)
			return
		}
		run.Nontrivial(name)
		judge(name, class, bm, w)
	}
	var neuronArgs = map[string][]string{}
	nfiles, _ := filepath.Glob(filepath.Join(repo, "library/neurons/*.basm"))
	sort.Strings(nfiles)
	for _, nf := range nfiles {
		b := filepath.Base(nf)
		if strings.HasPrefix(b, "rom-") {
			neuronArgs["romcode"] = append(neuronArgs["romcode"], nf)
		} else if strings.HasPrefix(b, "frag-") {
			neuronArgs["fragment"] = append(neuronArgs["fragment"], nf)
		}
	}
	for _, net := range []string{"net-testsmall.json", "net-testnormal.json", "net-banknote.json"} {
		nb, err := os.ReadFile(filepath.Join(repo, "cmd/neuralbond", net))
		if err != nil {
			continue
		}
		for _, mode := range []string{"romcode", "fragment"} {
			for _, io := range []string{"sync", "async"} {
				steps := [][]string{
					{"neuralbond", "-net-file", "net.json", "-config-file", "conf.json", "-neuron-lib-path", filepath.Join(repo, "library/neurons"), "-save-basm", "out.basm", "-operating-mode", mode, "-io-mode", io},
					append([]string{"basm", "-disable-dynamical-matching", "-o", "bm.json", "out.basm"}, neuronArgs[mode]...),
				}
				cli("neuralbond-"+net+"-"+mode+"-"+io, "neuralbond", steps, map[string]string{"net.json": string(nb), "conf.json": `{"Params":{"expprec":"2"}}`}, "bm.json")
			}
		}
	}
	// sparse nets: one connection removed from a repository net, so that some node's sources are not a
	// contiguous block of the previous layer
	for _, net := range []string{"net-testsmall.json", "net-testnormal.json"} {
		nb, err := os.ReadFile(filepath.Join(repo, "cmd/neuralbond", net))
		if err != nil {
			continue
		}
		var nj struct {
			Nodes   []map[string]any
			Weights []map[string]any
		}
		if json.Unmarshal(nb, &nj) != nil {
			continue
		}
		fanin := map[string]int{}
		key := func(w map[string]any) string { return fmt.Sprint(w["Layer"], "/", w["PosCurrLayer"]) }
		for _, w := range nj.Weights {
			fanin[key(w)]++
		}
		made := 0
		for drop := range nj.Weights {
			w := nj.Weights[drop]
			// a middle source of a node with at least three sources
			if fanin[key(w)] < 3 || fmt.Sprint(w["PosPrevLayer"]) != "1" || made >= 2 {
				continue
			}
			made++
			pruned := map[string]any{"Nodes": nj.Nodes, "Weights": append(append([]map[string]any{}, nj.Weights[:drop]...), nj.Weights[drop+1:]...)}
			pb, _ := json.Marshal(pruned)
			for _, io := range []string{"sync", "async"} {
				steps := [][]string{
					{"neuralbond", "-net-file", "net.json", "-config-file", "conf.json", "-neuron-lib-path", filepath.Join(repo, "library/neurons"), "-save-basm", "out.basm", "-operating-mode", "romcode", "-io-mode", io},
					append([]string{"basm", "-disable-dynamical-matching", "-o", "bm.json", "out.basm"}, neuronArgs["romcode"]...),
				}
				cli(fmt.Sprintf("neuralbond-pruned-%s-w%d-%s", net, drop, io), "neuralbond-sparse", steps, map[string]string{"net.json": string(pb), "conf.json": `{"Params":{"expprec":"2"}}`}, "bm.json")
			}
		}
	}
	circuits := map[string]string{
		"ghz3": "%block code1 .sequential\n\tqbits\tq0, q1, q2\n\tzero\tq0, q1, q2\n\th\tq0\n\tcx\tq0, q1\n\tcx\tq1, q2\n\tswap\tq0, q2\n%endblock\n\n%meta bmdef global main:code1\n",
		"bell": "%block code1 .sequential\n\tqbits\tq0, q1\n\tzero\tq0, q1\n\th\tq0\n\tcx\tq0, q1\n%endblock\n\n%meta bmdef global main:code1\n",
	}
	if qb, err := os.ReadFile(filepath.Join(repo, "cmd/bmqsim/program.bmq")); err == nil {
		circuits["program"] = string(qb)
	}
	for name, src := range circuits {
		for _, fl := range []string{"seq_hardcoded_real", "seq_hardcoded_complex"} {
			steps := [][]string{{"bmqsim", "-build-matrix-seq-hardcoded", "-hw-flavor", fl, "-save-basm", "q.basm", "c.bmq"}, {"basm", "-disable-dynamical-matching", "-o", "bm.json", "q.basm"}}
			cli("bmqsim-"+name+"-"+fl, "bmqsim", steps, map[string]string{"c.bmq": src}, "bm.json")
		}
	}
	goProgs := map[string]string{
		"loop":  "package main\n\nimport \"bondgo\"\n\nfunc main() {\n\tvar in0 bondgo.Input\n\tvar out0 bondgo.Output\n\tvar reg_a uint8\n\tvar reg_b uint8\n\tin0 = bondgo.Make(bondgo.Input, 3)\n\tout0 = bondgo.Make(bondgo.Output, 5)\n\treg_b = 2\n\tfor {\n\t\treg_a = bondgo.IORead(in0)\n\t\treg_a = reg_a + reg_b\n\t\tbondgo.IOWrite(out0, reg_a)\n\t}\n}\n",
		"vars":  "package main\n\nimport \"bondgo\"\n\nfunc main() {\n\tvar out0 bondgo.Output\n\tvar a uint8\n\tvar b uint8\n\tvar reg_c uint8\n\tout0 = bondgo.Make(bondgo.Output, 1)\n\ta = 3\n\tb = 4\n\treg_c = a + b\n\treg_c = reg_c * a\n\tbondgo.IOWrite(out0, reg_c)\n}\n",
		"manyr": "package main\n\nimport \"bondgo\"\n\nfunc main() {\n\tvar out0 bondgo.Output\n\tvar reg_a uint8\n\tvar reg_b uint8\n\tvar reg_c uint8\n\tvar reg_d uint8\n\tvar reg_e uint8\n\tout0 = bondgo.Make(bondgo.Output, 1)\n\treg_a = 1\n\treg_b = 2\n\treg_c = 3\n\treg_d = 4\n\treg_e = reg_a + reg_b + reg_c + reg_d\n\tbondgo.IOWrite(out0, reg_e)\n}\n",
	}
	for name, src := range goProgs {
		for _, rs := range []string{"8", "16"} {
			src := strings.ReplaceAll(src, "uint8", "uint"+rs) // the variable type must be the register type
			cli("bondgo-"+name+"-"+rs, "bondgo", [][]string{{"bondgo", "-input-file", "p.go", "-save-machine", "m.json", "-register-size", rs}}, map[string]string{"p.go": src}, "m.json")
			cli("bondgo-mpm-"+name+"-"+rs, "bondgo-mpm", [][]string{{"bondgo", "-mpm", "-input-file", "p.go", "-save-bondmachine", "bm.json", "-register-size", rs}}, map[string]string{"p.go": src}, "bm.json")
		}
	}
	// goroutines and channels across processors (a worker has an input and an output channel), and I/O
	// ids shared between processors
	nMpm := 6
	if tier == "thorough" {
		nMpm = 60
	}
	rngM := hx.RNG(run.Seed, "c16-mpm")
	for i := 0; i < nMpm; i++ {
		rs := []int{8, 16, 32}[rngM.IntN(3)]
		src := gogen.GenerateMpm(rngM, rs)
		cli(fmt.Sprintf("bondgo-mpm-gen%d-%d", i, rs), "bondgo-mpm-channels", [][]string{{"bondgo", "-mpm", "-input-file", "p.go", "-save-bondmachine", "bm.json", "-register-size", strconv.Itoa(rs)}}, map[string]string{"p.go": src}, "bm.json")
	}
	os.Exit(run.Finish())
}
